/-
  C20 — the command-line tool reports what the library decided.

  Model: `DuckModel/Cli.lean` (`dispatch` = `run_cli`, `exitStatus` = `main`, linter.rs) with the
  flag literals of `Generated/CliFlags.lean`, re-extracted from duckscript_cli/src/main.rs on
  every check run — every theorem below that mentions the flag lists is re-proved against the
  current literals.

  The library actions (`run_script`, `run_script_file`, `repl`) enter as an arbitrary function
  `lib : Action → Res`; that the real executable's status/stdout agree with the in-process
  library result is what the correspondence harness (harness/src/props/c20.rs) tests.

  "Lower-case" is `text.to_lowercase() == text` with Rust's full Unicode mapping, modelled by
  `isLowerText` (UnicodeLower.lean: no ASCII capital, no character of the table of characters
  that `char::to_lowercase` changes; the table is compared with the toolchain on every run).
-/
import DuckModel.Cli
import DuckModel.Lemmas.CliLemmas

namespace Duck
open Duck.Cli Duck.Generated

/-- a value that lower-casing leaves alone (an absent value counts as lower-case) -/
def Cli.LowerFixed (o : Option Str) : Prop := ∀ t, o = some t → isLowerText t = true

/-- the script instruction is all lower-case where the linter looks: label, command, output -/
def Cli.LowerInstr (s : ScriptInstr) : Prop :=
  LowerFixed s.label ∧ LowerFixed s.command ∧ LowerFixed s.output

/-- the flags named by the property are the ones the code tests, and no flag belongs to two
    groups (so the order of the tests in `run_cli` cannot matter) -/
theorem C20_flags :
    "--version".toList ∈ versionFlags ∧ "--help".toList ∈ helpFlags ∧
    "-e".toList ∈ evalFlags ∧ "--eval".toList ∈ evalFlags ∧
    "-l".toList ∈ lintFlags ∧ "--lint".toList ∈ lintFlags ∧
    (∀ a ∈ versionFlags, a ∉ helpFlags ∧ a ∉ evalFlags ∧ a ∉ lintFlags) ∧
    (∀ a ∈ helpFlags, a ∉ evalFlags ∧ a ∉ lintFlags) ∧
    (∀ a ∈ evalFlags, a ∉ lintFlags) := by
  decide

/-- the decision logic of `run_cli`, one clause per form of the argument vector
    (`args[0]` = program name `p`, `a` = `args[1]`, `v` = `args[2]`) -/
theorem C20_dispatch (args : List Str) :
    (args.length < 2 → dispatch args = .repl) ∧
    (∀ p a rest, args = p :: a :: rest →
      (a ∈ versionFlags → dispatch args = .version) ∧
      (a ∉ versionFlags → a ∈ helpFlags → dispatch args = .help) ∧
      (a ∉ versionFlags → a ∉ helpFlags →
        (rest = [] → dispatch args = .runFile a) ∧
        (∀ v more, rest = v :: more →
          (a ∈ evalFlags → dispatch args = .evalText v) ∧
          (a ∉ evalFlags → a ∈ lintFlags → dispatch args = .lint v) ∧
          (a ∉ evalFlags → a ∉ lintFlags → dispatch args = .runFile a)))) := by
  refine ⟨?_, ?_⟩
  · intro h
    match args, h with
    | [], _ => rfl
    | [_], _ => rfl
    | _ :: _ :: _, h => simp at h; omega
  · intro p a rest e
    subst e
    refine ⟨?_, ?_, ?_⟩
    · intro hv; simp [dispatch, hv]
    · intro hv hh; simp [dispatch, hv, hh]
    · intro hv hh
      refine ⟨?_, ?_⟩
      · intro e; subst e; simp [dispatch, hv, hh]
      · intro v more e
        subst e
        refine ⟨?_, ?_, ?_⟩
        · intro he; simp [dispatch, hv, hh, he]
        · intro he hl; simp [dispatch, hv, hh, he, hl]
        · intro he hl; simp [dispatch, hv, hh, he, hl]

/-- the same decision read backwards: which argument vectors select each action -/
theorem C20_dispatch_iff (args : List Str) :
    (dispatch args = .repl ↔ args.length < 2) ∧
    (dispatch args = .version ↔ ∃ p a rest, args = p :: a :: rest ∧ a ∈ versionFlags) ∧
    (dispatch args = .help ↔ ∃ p a rest, args = p :: a :: rest ∧ a ∈ helpFlags) ∧
    (∀ t, dispatch args = .evalText t ↔
      ∃ p a more, args = p :: a :: t :: more ∧ a ∈ evalFlags) ∧
    (∀ f, dispatch args = .lint f ↔
      ∃ p a more, args = p :: a :: f :: more ∧ a ∈ lintFlags) ∧
    (∀ f, dispatch args = .runFile f ↔
      ∃ p rest, args = p :: f :: rest ∧ f ∉ versionFlags ∧ f ∉ helpFlags ∧
        (rest = [] ∨ (f ∉ evalFlags ∧ f ∉ lintFlags))) := by
  obtain ⟨_, _, _, _, _, _, dv, dh, de⟩ := C20_flags
  have D := C20_dispatch args
  match args with
  | [] => simp [dispatch]
  | [_] => simp [dispatch]
  | p :: a :: rest =>
    obtain ⟨_, D⟩ := D
    obtain ⟨Dv, Dh, Dr⟩ := D p a rest rfl
    by_cases hv : a ∈ versionFlags
    · have := dv a hv
      rw [Dv hv]; grind
    · by_cases hh : a ∈ helpFlags
      · have := dh a hh
        rw [Dh hv hh]; grind
      · obtain ⟨Dr0, Dr1⟩ := Dr hv hh
        cases rest with
        | nil => rw [Dr0 rfl]; grind
        | cons v more =>
          obtain ⟨De, Dl, Df⟩ := Dr1 v more rfl
          by_cases he : a ∈ evalFlags
          · have := de a he
            rw [De he]; grind
          · by_cases hl : a ∈ lintFlags
            · rw [Dl he hl]; grind
            · rw [Df he hl]; grind

/-- `main`: the exit status is 0 exactly when the selected action succeeded (then `main` prints
    nothing of its own); a failure gives a non-zero status and the line `Error: <message>` -/
theorem C20_exit_status (lib : Action → Res) (args : List Str) :
    ((runCli lib args).1 = 0 ↔ lib (dispatch args) = .ok) ∧
    (lib (dispatch args) = .ok → (runCli lib args).2 = []) ∧
    (∀ msg, lib (dispatch args) = .err msg →
      (runCli lib args).1 ≠ 0 ∧
      (runCli lib args).2 = "Error: ".toList ++ msg ++ "\n".toList) := by
  unfold runCli
  cases h : lib (dispatch args) with
  | ok => simp [exitStatus]
  | err m => simp [exitStatus, errorPrefix]

/-- lower-casing fixes a text exactly when it has no ASCII capital letter and no character of
    the table of non-ASCII characters that `char::to_lowercase` changes (`Ä`, `É`, `Σ`, …) -/
theorem C20_lower_fixed_iff (t : Str) :
    isLowerText t = true ↔ ∀ c ∈ t, ¬ ('A'.toNat ≤ c.toNat ∧ c.toNat ≤ 'Z'.toNat) ∧
      ∀ r ∈ notLowerRanges, ¬ (r.1 ≤ c.toNat ∧ c.toNat ≤ r.2) :=
  isLowerText_iff t

/-- the lint accepts exactly when the file parses and the label, command and output (when
    present) of every script instruction are fixed points of lower-casing.  `parsed` is the
    result of `parser::parse_file` (instructions of included files are part of it). -/
theorem C20_lint_iff (parsed : Except ParseFail (List Instruction)) :
    lintParsed parsed = .ok ↔
      ∃ is, parsed = .ok is ∧ ∀ i ∈ is, ∀ s, i.ty = .script s → LowerInstr s := by
  rw [lintParsed_ok_iff]
  constructor
  · rintro ⟨is, e, h⟩
    refine ⟨is, e, ?_⟩
    intro i hi s hs
    have := (lintInstructions_ok_iff is).1 h i hi
    simp only [lintOne, hs] at this
    have := (lintInstruction_ok_iff s).1 this
    exact ⟨(isLowerCase_iff _).1 this.1, (isLowerCase_iff _).1 this.2.1, (isLowerCase_iff _).1 this.2.2⟩
  · rintro ⟨is, e, h⟩
    refine ⟨is, e, (lintInstructions_ok_iff is).2 ?_⟩
    intro i hi
    rcases i with ⟨mi, ty⟩
    cases ty with
    | empty => rfl
    | preProcess c a => rfl
    | script s =>
      have := h _ hi s rfl
      simp only [lintOne]
      exact (lintInstruction_ok_iff s).2
        ⟨(isLowerCase_iff _).2 this.1, (isLowerCase_iff _).2 this.2.1, (isLowerCase_iff _).2 this.2.2⟩

/-- the same for a script text without includes (`lintText`) and for a file on a file system
    (`lintFile`) -/
theorem C20_lint_text_iff (text : Str) (fs : Fs) (fuel : Nat) (file : Str) :
    (lintText text = .ok ↔
      ∃ is, parseText text = .ok is ∧ ∀ i ∈ is, ∀ s, i.ty = .script s → LowerInstr s) ∧
    (lintFile fs fuel file = .ok ↔
      ∃ is, parseFileF fs fuel file = .ok is ∧ ∀ i ∈ is, ∀ s, i.ty = .script s → LowerInstr s) :=
  ⟨C20_lint_iff _, C20_lint_iff _⟩

/-- a rejected lint names the FIRST offending instruction (its line and source) and the first
    offending part in the order label, command, output; a file that does not parse is reported
    as the parse error -/
theorem C20_lint_failure (parsed : Except ParseFail (List Instruction)) :
    (∀ e, lintParsed parsed = .parseError e ↔ parsed = .error e) ∧
    (∀ mi m, lintParsed parsed = .fail mi m ↔
      ∃ pre i post s, parsed = .ok (pre ++ i :: post) ∧ i.mi = mi ∧ i.ty = .script s ∧
        (∀ j ∈ pre, ∀ s', j.ty = .script s' → LowerInstr s') ∧
        ((m = .label ∧ ¬ LowerFixed s.label) ∨
         (m = .command ∧ LowerFixed s.label ∧ ¬ LowerFixed s.command) ∨
         (m = .output ∧ LowerFixed s.label ∧ LowerFixed s.command ∧ ¬ LowerFixed s.output))) := by
  have lf : ∀ o, LowerFixed o ↔ isLowerCase o = true := fun o => (isLowerCase_iff o).symm
  have nlf : ∀ o, ¬ LowerFixed o ↔ isLowerCase o = false := fun o => by rw [lf]; simp
  have okpre : ∀ pre : List Instruction,
      (∀ j ∈ pre, lintOne j = .ok ()) ↔ (∀ j ∈ pre, ∀ s', j.ty = .script s' → LowerInstr s') := by
    intro pre
    have := C20_lint_iff (.ok pre)
    rw [lintParsed_ok_iff] at this
    simp only [Except.ok.injEq, exists_eq_left'] at this
    rw [← lintInstructions_ok_iff]; exact this
  cases parsed with
  | error e0 =>
    refine ⟨fun e => by simp [lintParsed], fun mi m => by simp [lintParsed]⟩
  | ok is =>
    refine ⟨fun e => ?_, fun mi m => ?_⟩
    · simp only [lintParsed]
      cases h : lintInstructions is with
      | ok u => simp
      | error p => rcases p with ⟨a, b⟩; simp
    · have key : lintParsed (.ok is) = .fail mi m ↔ lintInstructions is = .error (mi, m) := by
        simp only [lintParsed]
        cases h : lintInstructions is with
        | ok u => simp
        | error p => rcases p with ⟨a, b⟩; simp
      rw [key, lintInstructions_error_iff]
      constructor
      · rintro ⟨pre, i, post, e, hp, hi, hm⟩
        rcases i with ⟨imi, ty⟩
        cases ty with
        | empty => simp [lintOne] at hi
        | preProcess c a => simp [lintOne] at hi
        | script s =>
          refine ⟨pre, ⟨imi, .script s⟩, post, s, by rw [e], hm, rfl, (okpre pre).1 hp, ?_⟩
          simp only [lintOne] at hi
          have := (lintInstruction_error_iff s m).1 hi
          simpa only [lf, nlf, Bool.not_eq_true] using this
      · rintro ⟨pre, i, post, s, e, hm, hs, hp, hk⟩
        simp only [Except.ok.injEq] at e
        refine ⟨pre, i, post, e, (okpre pre).2 hp, ?_, hm⟩
        simp only [lintOne, hs]
        apply (lintInstruction_error_iff s m).2
        simpa only [lf, nlf, Bool.not_eq_true] using hk

/-- a lint run through `main`: status 0 exactly when the lint accepted; a rejection prints
    `Error: Source: <file> Line: <n> - <which part> should be all lowercase.` -/
theorem C20_lint_exit (showParse : ParseFail → Str) (parsed : Except ParseFail (List Instruction)) :
    ((exitStatus (lintRes showParse (lintParsed parsed))).1 = 0 ↔ lintParsed parsed = .ok) ∧
    (∀ mi m, lintParsed parsed = .fail mi m →
      (exitStatus (lintRes showParse (lintParsed parsed))).2 =
        "Error: ".toList ++ displayRuntime mi (lintMessage m) ++ "\n".toList) := by
  cases h : lintParsed parsed with
  | ok => simp [lintRes, exitStatus]
  | fail mi m => simp [lintRes, exitStatus, errorPrefix]
  | parseError e => simp [lintRes, exitStatus]

/-- the case of arguments never matters: the linter's verdict (and the instruction it names)
    depends only on the instructions with their arguments erased -/
theorem C20_lint_ignores_arguments (is js : List Instruction)
    (h : is.map eraseArgs = js.map eraseArgs) :
    lintParsed (.ok is) = lintParsed (.ok js) ∧
    (∀ s : ScriptInstr, ∀ a, lintInstruction { s with args := a } = lintInstruction s) := by
  refine ⟨?_, fun s a => rfl⟩
  have : lintInstructions is = lintInstructions js := by
    rw [← lintInstructions_eraseArgs is, ← lintInstructions_eraseArgs js, h]
  simp only [lintParsed, this]

/-! ### non-vacuity -/

section Examples
private def prog : Str := "duck".toList

example : dispatch [prog] = .repl := by decide
example : dispatch [prog, "-e".toList, "echo hi".toList] = .evalText "echo hi".toList := by decide
example : dispatch [prog, "--eval".toList, "echo hi".toList, "x".toList] = .evalText "echo hi".toList := by decide
example : dispatch [prog, "-l".toList, "a.ds".toList] = .lint "a.ds".toList := by decide
example : dispatch [prog, "--lint".toList, "a.ds".toList] = .lint "a.ds".toList := by decide
example : dispatch [prog, "a.ds".toList] = .runFile "a.ds".toList := by decide
example : dispatch [prog, "a.ds".toList, "-e".toList] = .runFile "a.ds".toList := by decide
-- a flag without its value is taken as a file name
example : dispatch [prog, "-e".toList] = .runFile "-e".toList := by decide
example : dispatch [prog, "-l".toList] = .runFile "-l".toList := by decide
example : dispatch [prog, "--version".toList, "a.ds".toList] = .version := by decide
example : dispatch [prog, "-h".toList] = .help := by decide
example : runCli (fun _ => .err "boom".toList) [prog, "a.ds".toList] = (1, "Error: boom\n".toList) := by decide
example : runCli (fun _ => .ok) [prog, "a.ds".toList] = (0, []) := by decide

-- accepted: upper-case only in arguments
example : lintText "echo Hello WORLD\n:lab out = set ${X}".toList = .ok := by decide +kernel
-- rejected: label / command / output, with the line of the first offender
example : lintText "echo a\n:Lab echo b\nECHO c".toList = .fail { line := some 2 } .label := by decide +kernel
example : lintText "echo a\nx = Set b".toList = .fail { line := some 2 } .command := by decide +kernel
example : lintText "Out = set b".toList = .fail { line := some 1 } .output := by decide +kernel
-- label is reported before command and output of the same line
example : lintText ":L O = C".toList = .fail { line := some 1 } .label := by decide +kernel
-- non-ASCII capitals count (Rust lower-cases with the full Unicode mapping), non-ASCII lower-case letters pass
example : lintText "Äpfel = set 1".toList = .fail { line := some 1 } .output := by decide +kernel
example : lintText ":Étiquette\necho hi".toList = .fail { line := some 1 } .label := by decide +kernel
example : lintText ":é ß2 = set 日本".toList = .ok := by decide +kernel
example : isLowerText "Σ".toList = false ∧ isLowerText "σς".toList = true ∧ isLowerText "ǅ".toList = false := by decide +kernel
-- a text that does not parse
example : lintText "echo \"abc".toList = .parseError ⟨.missingEndQuotes, { line := some 1 }⟩ := by decide +kernel
example : displayRuntime { line := some 2, source := some "a.ds".toList } (lintMessage .label) =
    "Source: a.ds Line: 2 - Labels should be all lowercase.".toList := by decide
end Examples

end Duck
