/-
  C16 — `less_than` and `greater_than` agree with numeric order: what is TRUE of a command that
  parses both arguments as IEEE-754 binary64 (`str::parse::<f64>`) and compares with `<` / `>`.

  Model: Sdk/F64.lean (literal grammar of Rust's `dec2flt`; the denoted rational rounded to the
  nearest binary64, ties to even, gradual underflow, overflow to infinity; IEEE comparison).
  Numeric order: Spec/F64Order.lean (`Lit.exactLt`: cross-multiplication over `Int`, ±infinity at
  the ends, nothing about floating point).

  * `C16_f64_round_monotone`        rounding is monotone on signed fractions - the key fact
  * `C16_f64_round_nearest`         CORRECT ROUNDING: no value with at most 53 significant bits is
                                    closer to the fraction than the result
  * `C16_f64_round_canonical`, `C16_f64_round_representable`, `C16_f64_round_half_ulp`,
    `C16_f64_clamp_exact`           the rounding function returns binary64 values, returns a
                                    binary64 value unchanged, stays within half a unit in the last
                                    place with exact ties going to the even mantissa, and the
                                    overflow / underflow shortcuts of the reader never change a value
  * `C16_f64_grammar`               the reader accepts exactly the literal grammar of `dec2flt`
                                    (concrete syntax in Spec/F64Grammar.lean) and returns the
                                    denotation; everything else is rejected
  * `C16_f64_less_than_sound`       an answer `true` is numerically true, and a pair in the opposite
                                    exact order is never answered `true` (both commands)
  * `C16_f64_compare_exact`         binary64-representable literals: the answer IS the numeric order
  * `C16_f64_compare_int`, `C16_f64_compare_int15`   integers up to 2^53 (subsumes the former
                                    `C16_compare_order_partial`)
  * `C16_f64_ties` + `C16_f64_compare_order_full_refuted`   the full statement
                                    `C16_compare_order_full` is FALSE of binary64: 2^53 + 1 rounds to
                                    2^53 (tie, even mantissa)
  * `C16_f64_compare_decimal15`     plain decimals of at most 15 digits (the class the former model
                                    assumed; not representable in general): the answer IS the
                                    numeric order - rounding is strictly monotone there
  * `C16_f64_nan`, `C16_f64_inf_ends`, `C16_f64_signed_zero`, `C16_f64_compare_non_numeric`,
    `C16_f64_compare_total`
-/
import DuckModel.Sdk.Strings
import DuckModel.Spec.F64Order
import DuckModel.Spec.F64Grammar
import DuckModel.Lemmas.F64Lemmas

namespace Duck
open Duck.Strings Duck.F64

/-! ### the rounding function -/

/-- KEY FACT.  Round-to-nearest-even into binary64 is monotone: for signed fractions
    ±a₁/d₁ ≤ ±a₂/d₂ (cross-multiplied over `Int`), the rounded values are in IEEE order `≤`
    (−0 = +0, ±infinity at the ends) -/
theorem C16_f64_round_monotone (n1 n2 : Bool) (a1 d1 a2 d2 : Nat) (h1 : 0 < d1) (h2 : 0 < d2)
    (h : sgn n1 a1 * (d2 : Int) ≤ sgn n2 a2 * (d1 : Int)) :
    (roundToF64 n1 a1 d1).le (roundToF64 n2 a2 d2) = true :=
  round_monotone n1 n2 a1 d1 a2 d2 h1 h2 h

/-- every result is a binary64 value: never NaN; ±infinity, or ± m · 2^e with m < 2^53,
    −1074 ≤ e ≤ 971, and m < 2^52 only at e = −1074 (subnormals, zeros) -/
theorem C16_f64_round_canonical (neg : Bool) (num den : Nat) (hd : 0 < den) :
    (roundToF64 neg num den).Canonical ∧ (roundToF64 neg num den).isNan = false :=
  ⟨roundToF64_canonical neg num den hd, roundToF64_not_nan neg num den⟩

/-- a fraction that IS a finite binary64 value (num/den = M · 2^F / 2^1074, M < 2^53, below
    2^1024) is returned unchanged -/
theorem C16_f64_round_representable (neg : Bool) (num den M F : Nat) (hd : 0 < den) (hM : M < 2 ^ 53)
    (hB : M * 2 ^ F < 2 ^ 2098) (hv : num * 2 ^ 1074 = M * 2 ^ F * den) :
    (roundToF64 neg num den).key = sgn neg (M * 2 ^ F) := by
  rw [key_roundToF64 _ _ _ hd, hv, roundVal_exact M F den hM hd, Nat.min_eq_left (Nat.le_of_lt hB)]

/-- nearest: the rounded magnitude `v · 2^E` (scaled by 2^1074; `v` the integer mantissa, `2^E` the
    unit in the last place) is within half a unit of the exact fraction N/d, and an exact tie goes to
    the even mantissa -/
theorem C16_f64_round_half_ulp (N d : Nat) (hd : 0 < d) :
    let E := scaleExp N d
    let v := rne N (d * 2 ^ E)
    2 * v * (d * 2 ^ E) ≤ 2 * N + d * 2 ^ E ∧ 2 * N ≤ 2 * v * (d * 2 ^ E) + d * 2 ^ E ∧
    (2 * v * (d * 2 ^ E) = 2 * N + d * 2 ^ E → v % 2 = 0) ∧
    (2 * N = 2 * v * (d * 2 ^ E) + d * 2 ^ E → v % 2 = 0) ∧
    roundVal N d = v * 2 ^ E :=
  ⟨(rne_bounds N _ (Nat.mul_pos hd (Nat.two_pow_pos _))).1,
   (rne_bounds N _ (Nat.mul_pos hd (Nat.two_pow_pos _))).2.1,
   (rne_bounds N _ (Nat.mul_pos hd (Nat.two_pow_pos _))).2.2.1,
   (rne_bounds N _ (Nat.mul_pos hd (Nat.two_pow_pos _))).2.2.2, rfl⟩

/-- CORRECT ROUNDING.  Scaled by 2^1074 every finite binary64 magnitude is a natural M · 2^F with
    M < 2^53; `roundVal N d` (the magnitude `roundToF64` returns for N / d = num · 2^1074 / den,
    before the overflow test: `key_roundToF64`) is such a natural, and no other one - in particular
    no other double - is closer to N / d.  Distances are multiplied by d.  Together with
    `C16_f64_round_half_ulp` (exact ties go to the even mantissa) and IEEE's definition of overflow
    (round as if the exponent range were unbounded, then test against 2^1024) this IS
    roundTiesToEven. -/
theorem C16_f64_round_nearest (N d M F : Nat) (hd : 0 < d) (hM : M < 2 ^ 53) :
    ((N : Int) - ((roundVal N d * d : Nat) : Int)).natAbs ≤
      ((N : Int) - ((M * 2 ^ F * d : Nat) : Int)).natAbs :=
  roundVal_nearest N d M F hd hM

/-- the key (value · 2^1074) of a rounded fraction is the signed `roundVal`, capped at the key of
    infinity: the link between `roundToF64` and the `Nat`-level statements above -/
theorem C16_f64_round_key (neg : Bool) (num den : Nat) (hd : 0 < den) :
    (roundToF64 neg num den).key = sgn neg (min (roundVal (num * 2 ^ 1074) den) (2 ^ 2098)) ∧
    (roundToF64 neg num den = .inf neg ↔ 2 ^ 2098 ≤ roundVal (num * 2 ^ 1074) den) :=
  ⟨key_roundToF64 neg num den hd, (roundToF64_inf_iff neg num den hd).symm⟩

/-- the reader's shortcuts (zero mantissa; exponent > 400 = overflow; value < 10^-400 = underflow)
    return exactly what rounding the exact rational returns -/
theorem C16_f64_clamp_exact (l : Lit) : l.toF64 = l.toF64Exact := toF64_eq_exact l

/-! ### the reader: exactly the literal grammar (Spec/F64Grammar.lean) -/

/-- GRAMMAR.  A text is accepted exactly when it is a well-formed numeric literal - optional sign,
    digits with an optional point and fraction (at least one digit overall), optional exponent
    `e|E [+-] digits+` - or a signed `nan` / `inf` / `infinity` in any casing; the value read is the
    literal's denotation: ± (mantissa digits as one integer) · 10^(exponent − number of fraction
    digits).  Everything else - the empty text, blanks, `_`, hex, a lone sign or point, a missing
    exponent, two signs - is rejected. -/
theorem C16_f64_grammar (s : Str) (l : Lit) :
    parseLit s = some l ↔ ((∃ c : NumCst, c.WF ∧ s = c.render ∧ l = c.denote) ∨ WordLit s l) := by
  constructor
  · exact parseLit_complete s l
  · rintro (⟨c, hwf, rfl, rfl⟩ | hw)
    · exact parseLit_render c hwf
    · exact parseLit_word hw

/-! ### the two commands -/

/-- both commands always answer: a boolean when both arguments are literals, the error result
    otherwise - no input is left unmodelled -/
theorem C16_f64_compare_total (a b : Str) :
    (∃ la lb, parseLit a = some la ∧ parseLit b = some lb ∧
      lessThan [a, b] = .bool (F64.lt la.toF64 lb.toF64) ∧
      greaterThan [a, b] = .bool (F64.lt lb.toF64 la.toF64)) ∨
    ((parseLit a = none ∨ parseLit b = none) ∧ lessThan [a, b] = .err ∧ greaterThan [a, b] = .err) := by
  cases ha : parseLit a with
  | none => right; simp [lessThan, greaterThan, compareWith, parseF64, ha]
  | some la =>
    cases hb : parseLit b with
    | none => right; simp [lessThan, greaterThan, compareWith, parseF64, ha, hb]
    | some lb => left; exact ⟨la, lb, rfl, rfl, compare_parsed ha hb⟩

/-- anything `str::parse::<f64>` rejects gives the error result -/
theorem C16_f64_compare_non_numeric (a b : Str) (h : parseLit a = none ∨ parseLit b = none) :
    lessThan [a, b] = .err ∧ greaterThan [a, b] = .err := by
  rcases h with h | h
  · simp [lessThan, greaterThan, compareWith, parseF64, h]
  · cases ha : parseLit a <;> simp [lessThan, greaterThan, compareWith, parseF64, h, ha]

/-- SOUNDNESS, for all literals (any length, any exponent, infinities; a NaN never compares true):
    the commands never claim an order that is numerically false.
    `less_than a b = true` implies value a < value b as exact rationals (a literal that overflows
    keeps its rational value here: `1e400` is 10^400, not infinity); value a < value b implies
    `greater_than a b = false`; and symmetrically. -/
theorem C16_f64_less_than_sound (a b : Str) (la lb : Lit)
    (ha : parseLit a = some la) (hb : parseLit b = some lb) :
    (lessThan [a, b] = .bool true → la.exactLt lb) ∧
    (la.exactLt lb → greaterThan [a, b] = .bool false) ∧
    (greaterThan [a, b] = .bool true → lb.exactLt la) ∧
    (lb.exactLt la → lessThan [a, b] = .bool false) := by
  obtain ⟨hl, hg⟩ := compare_parsed ha hb
  have asym : ∀ x y : Lit, x.exactLt y → F64.lt y.toF64 x.toF64 = false := by
    intro x y hxy
    cases hyx : F64.lt y.toF64 x.toF64 with
    | false => rfl
    | true =>
      exfalso
      have hyx' := lit_lt_sound y x hyx
      -- exactLt is asymmetric
      cases x <;> cases y <;> simp only [Lit.exactLt] at hxy hyx'
      · simp_all
      · simp_all
      · simp_all
      · omega
  refine ⟨?_, ?_, ?_, ?_⟩
  · intro h; rw [hl] at h; exact lit_lt_sound la lb (by simpa using h)
  · intro h; rw [hg, asym la lb h]
  · intro h; rw [hg] at h; exact lit_lt_sound lb la (by simpa using h)
  · intro h; rw [hl, asym lb la h]

/-- EXACT on binary64-representable literals (every finite double written out exactly, in any
    spelling: integers up to 2^53, dyadic fractions, `inf`): the answer IS the numeric order -/
theorem C16_f64_compare_exact (a b : Str) (la lb : Lit)
    (ha : parseLit a = some la) (hb : parseLit b = some lb)
    (ra : la.Representable) (rb : lb.Representable) :
    lessThan [a, b] = .bool (decide (la.exactLt lb)) ∧
    greaterThan [a, b] = .bool (decide (lb.exactLt la)) := by
  obtain ⟨hl, hg⟩ := compare_parsed ha hb
  rw [hl, hg, lit_lt_exact la lb ra rb, lit_lt_exact lb la rb ra]
  exact ⟨rfl, rfl⟩

/-- integer literals (what `str::parse::<i64>` accepts) of magnitude at most 2^53: the two
    commands decide the integer order.  The bound is sharp (`C16_f64_ties`). -/
theorem C16_f64_compare_int (a b : Str) (v w : Int)
    (ha : parseInt a = some v) (hb : parseInt b = some w)
    (hv : v.natAbs ≤ 2 ^ 53) (hw : w.natAbs ≤ 2 ^ 53) :
    lessThan [a, b] = .bool (decide (v < w)) ∧ greaterThan [a, b] = .bool (decide (v > w)) := by
  obtain ⟨n1, x, hx, hxv, _⟩ := parseLit_of_parseInt ha
  obtain ⟨n2, y, hy, hyw, _⟩ := parseLit_of_parseInt hb
  have hxa : x = v.natAbs := by rw [← hxv]; cases n1 <;> simp [sgn]
  have hyb : y = w.natAbs := by rw [← hyw]; cases n2 <;> simp [sgn]
  obtain ⟨hl, hg⟩ := C16_f64_compare_exact a b _ _ hx hy
    (int_representable n1 x (by omega)) (int_representable n2 y (by omega))
  rw [hl, hg]
  constructor
  · congr 1; exact decide_eq_decide.mpr (by rw [exactLt_int, hxv, hyw])
  · congr 1; exact decide_eq_decide.mpr (by rw [exactLt_int, hxv, hyw])

/-- the former `C16_compare_order_partial`: integer literals of at most 15 characters -/
theorem C16_f64_compare_int15 (a b : Str) (v w : Int)
    (ha : parseInt a = some v) (hb : parseInt b = some w)
    (hla : a.length ≤ 15) (hlb : b.length ≤ 15) :
    lessThan [a, b] = .bool (decide (v < w)) ∧ greaterThan [a, b] = .bool (decide (v > w)) := by
  obtain ⟨n1, x, _, hxv, hx⟩ := parseLit_of_parseInt ha
  obtain ⟨n2, y, _, hyw, hy⟩ := parseLit_of_parseInt hb
  have hxa : x = v.natAbs := by rw [← hxv]; cases n1 <;> simp [sgn]
  have hyb : y = w.natAbs := by rw [← hyw]; cases n2 <;> simp [sgn]
  have h15 : (10 : Nat) ^ 15 ≤ 2 ^ 53 := by decide
  have p1 : (10 : Nat) ^ a.length ≤ 10 ^ 15 := Nat.pow_le_pow_right (by decide) hla
  have p2 : (10 : Nat) ^ b.length ≤ 10 ^ 15 := Nat.pow_le_pow_right (by decide) hlb
  exact C16_f64_compare_int a b v w ha hb (by omega) (by omega)

/-- EXACT on plain decimals with at most 15 significant digits, at most 15 of them after the point
    (± m / 10^s, m < 10^15, s ≤ 15 - the class the former model ASSUMED, `DBL_DIG = 15`): the answer
    IS the numeric order.  Such values are in general NOT binary64 values (0.1); the proof is that
    rounding is strictly monotone on the class: two distinct members differ by more than 10^-15
    relative, a unit in the last place is at most 2^-52 relative, and 10^15 + 1 < 2^52. -/
theorem C16_f64_compare_decimal15 (a b : Str) (la lb : Lit)
    (ha : parseLit a = some la) (hb : parseLit b = some lb)
    (ca : la.Decimal15) (cb : lb.Decimal15) :
    lessThan [a, b] = .bool (decide (la.exactLt lb)) ∧
    greaterThan [a, b] = .bool (decide (lb.exactLt la)) := by
  obtain ⟨hl, hg⟩ := compare_parsed ha hb
  rw [hl, hg, lit_lt_decimal15 la lb ca cb, lit_lt_decimal15 lb la cb ca]
  exact ⟨rfl, rfl⟩

/-! ### why the full statement is false: ties -/

/-- the full statement of the property: on all non-NaN literals the answer is the numeric order -/
def C16_compare_order_full : Prop :=
  ∀ (a b : Str) (la lb : Lit), parseLit a = some la → parseLit b = some lb → la ≠ .nan → lb ≠ .nan →
    lessThan [a, b] = .bool (decide (la.exactLt lb))

/-- 2^53 + 1 lies halfway between the doubles 2^53 and 2^53 + 2 and rounds to the even mantissa,
    2^53: the command says that 9007199254740992 is NOT less than 9007199254740993
    (the real command says the same: harness fixed cases `close-numbers`) -/
theorem C16_f64_ties :
    lessThan ["9007199254740992".toList, "9007199254740993".toList] = .bool false ∧
    greaterThan ["9007199254740993".toList, "9007199254740992".toList] = .bool false ∧
    parseF64 "9007199254740993".toList = some (.fin false (2 ^ 52) 1) ∧
    parseF64 "9007199254740992".toList = some (.fin false (2 ^ 52) 1) := by
  decide +kernel

/-- REFUTED: `less_than` does not agree with numeric order on all literals -/
theorem C16_f64_compare_order_full_refuted : ¬ C16_compare_order_full := by
  intro h
  have := h "9007199254740992".toList "9007199254740993".toList
    (.dec false 9007199254740992 0) (.dec false 9007199254740993 0)
    (by decide +kernel) (by decide +kernel) (by simp) (by simp)
  rw [C16_f64_ties.1] at this
  have hlt : (Lit.dec false 9007199254740992 0).exactLt (.dec false 9007199254740993 0) := by decide
  simp [hlt] at this

/-! ### NaN, infinities, zeros -/

/-- a NaN on either side: both commands answer `false` -/
theorem C16_f64_nan (a b : Str) (la lb : Lit) (ha : parseLit a = some la) (hb : parseLit b = some lb)
    (h : la = .nan ∨ lb = .nan) :
    lessThan [a, b] = .bool false ∧ greaterThan [a, b] = .bool false := by
  obtain ⟨hl, hg⟩ := compare_parsed ha hb
  rw [hl, hg]
  rcases h with h | h <;> subst h <;> simp [Lit.toF64, F64.lt, F64.isNan]

/-- nothing is below −infinity or above +infinity; −infinity is below +infinity -/
theorem C16_f64_inf_ends (a b : Str) (l : Lit) (ha : parseLit a = some l) :
    (parseLit b = some (.inf true) → lessThan [a, b] = .bool false ∧ greaterThan [b, a] = .bool false) ∧
    (parseLit b = some (.inf false) → greaterThan [a, b] = .bool false ∧ lessThan [b, a] = .bool false) ∧
    (parseLit a = some (.inf true) → parseLit b = some (.inf false) →
      lessThan [a, b] = .bool true ∧ greaterThan [b, a] = .bool true) := by
  have hB := bigKey_pos
  have bound : ∀ l : Lit, l.toF64.isNan = true ∨ (-bigKey ≤ l.toF64.key ∧ l.toF64.key ≤ bigKey) := by
    intro l
    cases l with
    | nan => left; rfl
    | inf n => right; show -bigKey ≤ (F64.inf n).key ∧ (F64.inf n).key ≤ bigKey
               rw [key_inf]; cases n <;> simp <;> omega
    | dec n m e => right; exact key_dec_bounds n m e
  refine ⟨?_, ?_, ?_⟩
  · intro hb
    rw [(compare_parsed ha hb).1, (compare_parsed hb ha).2]
    have : (Lit.inf true).toF64 = F64.inf true := rfl
    rw [this]
    rcases bound l with hn | ⟨h1, h2⟩
    · simp [F64.lt, hn]
    · simp only [F64.lt, key_inf, if_true, F64.isNan]
      simp; intro _; omega
  · intro hb
    rw [(compare_parsed ha hb).2, (compare_parsed hb ha).1]
    have : (Lit.inf false).toF64 = F64.inf false := rfl
    rw [this]
    rcases bound l with hn | ⟨h1, h2⟩
    · simp [F64.lt, hn]
    · simp only [F64.lt, key_inf, F64.isNan]
      simp; intro _; omega
  · intro ha' hb
    rw [(compare_parsed ha' hb).1, (compare_parsed hb ha').2]
    simp only [Lit.toF64, F64.lt, F64.isNan, key_inf]
    simp; omega

/-- −0 and +0, in any spelling (`-0`, `0e5`, `-.0`, …), are equal: neither is less or greater -/
theorem C16_f64_signed_zero (a b : Str) (n1 n2 : Bool) (e1 e2 : Int)
    (ha : parseLit a = some (.dec n1 0 e1)) (hb : parseLit b = some (.dec n2 0 e2)) :
    lessThan [a, b] = .bool false ∧ greaterThan [a, b] = .bool false := by
  obtain ⟨hl, hg⟩ := compare_parsed ha hb
  rw [hl, hg]
  simp [Lit.toF64, F64.lt, F64.key]

/-! ### non-vacuity (kernel-evaluated on the model; the same literals are harness fixed cases) -/

-- grammar
example : parseLit "5.".toList = some (.dec false 5 0) := by decide +kernel
example : parseLit ".5".toList = some (.dec false 5 (-1)) := by decide +kernel
example : parseLit "+.5e-3".toList = some (.dec false 5 (-4)) := by decide +kernel
example : parseLit "-1.25E+2".toList = some (.dec true 125 0) := by decide +kernel
example : parseLit "iNfInItY".toList = some (.inf false) := by decide +kernel
example : parseLit "-NaN".toList = some .nan := by decide +kernel
example : ["", " 1", "1 ", "1e", "1e+", ".e1", ".", "+", "1_0", "0x10", "١", "infinit", "+-1"].all
    (fun s => parseLit s.toList == none) = true := by decide +kernel
example : (NumCst.mk (some true) "1".toList (some "25".toList) (some (true, some false, "2".toList))).render
    = "-1.25E+2".toList := by decide
example : (NumCst.mk (some true) "1".toList (some "25".toList) (some (true, some false, "2".toList))).denote
    = .dec true 125 0 := by decide
example : (NumCst.mk (some true) "1".toList (some "25".toList) (some (true, some false, "2".toList))).WF :=
  ⟨by decide, by decide, by decide, fun up es ed h => by cases h; exact ⟨by decide, by decide⟩⟩
example : WordLit "-iNfInItY".toList (.inf true) :=
  WordLit.inf (some true) "iNfInItY".toList (Or.inr (by decide +kernel))
-- rounding: ties to even in both directions, subnormals, underflow, overflow threshold
example : parseF64 "9007199254740995".toList = some (.fin false (2 ^ 52 + 2) 1) := by decide +kernel
example : parseF64 "0.1".toList = some (.fin false 0x1999999999999a (-56)) := by decide +kernel
example : parseF64 "5e-324".toList = some (.fin false 1 (-1074)) := by decide +kernel
example : parseF64 "2.4703282292062327e-324".toList = some (.fin false 0 (-1074)) := by decide +kernel
example : parseF64 "2.4703282292062328e-324".toList = some (.fin false 1 (-1074)) := by decide +kernel
example : parseF64 "-1e-400".toList = some (.fin true 0 (-1074)) := by decide +kernel
example : parseF64 "2.2250738585072011e-308".toList = some (.fin false (2 ^ 52 - 1) (-1074)) := by decide +kernel
example : parseF64 "2.2250738585072014e-308".toList = some (.fin false (2 ^ 52) (-1074)) := by decide +kernel
example : parseF64 "1.7976931348623157e308".toList = some (.fin false (2 ^ 53 - 1) 971) := by decide +kernel
example : parseF64 "1.7976931348623158e308".toList = some (.fin false (2 ^ 53 - 1) 971) := by decide +kernel
example : parseF64 "1.797693134862315807e308".toList = some (.fin false (2 ^ 53 - 1) 971) := by decide +kernel
example : parseF64 "1.797693134862315808e308".toList = some (.inf false) := by decide +kernel
example : parseF64 "1e99999999999".toList = some (.inf false) := by decide +kernel
example : parseF64 "1e-99999999999".toList = some (.fin false 0 (-1074)) := by decide +kernel
example : parseF64 "0e99999999999".toList = some (.fin false 0 (-1074)) := by decide +kernel
example : (F64.fin false (2 ^ 53 - 1) 971).bits = some 0x7fefffffffffffff := by decide +kernel
-- the commands
example : lessThan ["1e5".toList, "2".toList] = .bool false := by decide +kernel
example : lessThan ["-inf".toList, "-1.7976931348623157e308".toList] = .bool true := by decide +kernel
example : lessThan ["-inf".toList, "-1e400".toList] = .bool false := by decide +kernel   -- both −infinity
example : lessThan ["1e400".toList, "inf".toList] = .bool false := by decide +kernel
example : lessThan ["-0".toList, "0e5".toList] = .bool false := by decide +kernel
example : greaterThan ["nan".toList, "1".toList] = .bool false := by decide +kernel
example : lessThan ["0.1".toList, "0.1000000000000000055511151231257827".toList] = .bool false := by decide +kernel
example : lessThan ["0.3".toList, "0.30000000000000004".toList] = .bool true := by decide +kernel
example : lessThan ["abc".toList, "2".toList] = .err := by decide +kernel
-- hypotheses of the theorems are satisfiable: a representable non-integer, the sound direction
example : (Lit.dec false 375 (-3)).Representable := ⟨3, 1071, by decide, by decide +kernel, by decide +kernel⟩
example : (Lit.dec false 1 (-1)).exactLt (.dec false 10000000000000001 (-17)) := by decide
example : parseLit "0.10".toList = some (.dec false 10 (-2)) ∧ (Lit.dec false 10 (-2)).Decimal15 ∧
    parseLit "-999999999999.999".toList = some (.dec true 999999999999999 (-3)) ∧
    (Lit.dec true 999999999999999 (-3)).Decimal15 := by
  refine ⟨by decide +kernel, ⟨by decide, by decide, by decide⟩, by decide +kernel, ⟨by decide, by decide, by decide⟩⟩
-- beyond 15 digits strictness fails: two 17-digit decimals, one double
example : lessThan ["0.10000000000000000".toList, "0.10000000000000001".toList] = .bool false := by decide +kernel

end Duck
