/-
  C03 — the hand-written model of the RUNNER is the translation of the current source.

  `Generated/RunnerStep.lean` is produced on every run by the Rust→Lean translator (bin/rust2lean.py,
  fifth executor; bin/fragments/runner_step.py) from duckscript/src/runner.rs:

    Rust function                 translation           hand-written model (Runner.lean / Vars.lean)
    update_output                 updateOutputGen       Vars.updateOutput
    run_on_error_instruction      runOnErrorGen         runOnError
    run_instruction               runInstructionGen     runInstruction
    run_instructions              runStepGen            runStep     (ONE iteration of its `loop`; `break` =
                                                                    the code after the loop; repl_mode = false)
    create_runtime                labelTableGen         labelTable  (the `label_to_line` of the Runtime it returns:
                                                                    a fold of `labelTableBodyGen` over the program)

  `C03_runner_translation_<function>` proves the translated function EQUAL to the hand-written one for
  EVERY input (every command semantics `sem`, program, label table, halt oracle and state).
  `C03_runner_translation_run_loop` lifts the equality of the step to the fuel loop, and
  `C03_runner_translation_sound` / `_complete` are `C03_sound` / `C03_complete` stated about the loop
  over the TRANSLATED step: every finished run of the translated loop is a run of the abstract machine
  of the property statement, and every run of the machine is computed by the translated loop.

  What a call of code that is not translated is rendered as: `commands.get_for_use(name)` followed by
  `instance.run(CommandInvocationContext {..})` is ONE call of the parameter `sem` (all theorems
  quantify over it); `bind_command_arguments` is the model's `bind` (argument expansion: tied to the
  source by `C02_scanner_translation*`); `parse::<i32>()` is `parseI32`; `label_to_line.get` is
  `lookupLabel labels`, `label_to_line.insert` is `tableInsert` (new key in front, old entry removed).

  A change of one of these Rust functions that alters its meaning makes this file fail to check.
-/
import DuckModel.Runner
import DuckModel.Spec.Machine
import DuckModel.Generated.RunnerStep
import DuckModel.Lemmas.RunnerLemmas
import DuckModel.Lemmas.RunnerTranslationLemmas

namespace Duck
open Duck.Generated Duck.Spec

/-- `update_output` -/
theorem C03_runner_translation_update_output (vars : Vars) (out v : Option Str) :
    updateOutputGen vars out v = Vars.updateOutput vars out v := by
  unfold updateOutputGen Vars.updateOutput
  repeat' split
  all_goals first | rfl | simp_all

/-- `run_on_error_instruction` -/
theorem C03_runner_translation_run_on_error_instruction {σ : Type} (sem : CmdSem σ) (vars : Vars)
    (s : σ) (e : Str) (mi : Meta) :
    runOnErrorGen sem vars s e mi = runOnError sem vars s e mi := by
  unfold runOnErrorGen runOnError onErrorName
  generalize sem "on_error".toList [e, natToStr (mi.line.getD 0), mi.source.getD []] none 0 vars s = r
  rcases r with _ | ⟨r, vars', s'⟩
  · rfl
  · cases r <;> rfl

/-- `run_instruction` -/
theorem C03_runner_translation_run_instruction {σ : Type} (sem : CmdSem σ) (vars : Vars) (s : σ)
    (i : Instruction) (line : Nat) :
    runInstructionGen sem vars s i line = runInstruction sem vars s i line := by
  unfold runInstructionGen runInstruction
  repeat' split
  all_goals first | rfl | simp_all

/-- one iteration of the `loop` of `run_instructions` (with the code after the loop) -/
theorem C03_runner_translation_run_step {σ : Type} (sem : CmdSem σ) (is : List Instruction)
    (labels : List (Str × Nat)) (halt : Nat → σ → Bool) (rs : RunState σ) :
    runStepGen sem is labels halt rs = runStep sem is labels halt rs := by
  unfold runStepGen runStep
  by_cases hh : halt rs.polls rs.st = true
  · simp only [hh, if_true]
  · simp only [hh, if_false, Bool.false_eq_true]
    by_cases h : rs.line < is.length
    · simp only [h, dite_true, List.getElem?_eq_getElem h, C03_runner_translation_run_instruction,
        C03_runner_translation_run_on_error_instruction, C03_runner_translation_update_output]
      rcases runInstruction sem rs.vars rs.st is[rs.line] rs.line with ⟨result, out, vars, st⟩
      cases result with
      | «continue» v => rfl
      | goTo v g =>
        cases g with
        | label l => simp only []; cases lookupLabel labels l <;> rfl
        | line n => rfl
      | error e =>
        simp only []
        rcases runOnError sem (Vars.updateOutput vars out (some "false".toList)) st e
          is[rs.line].mi with ⟨r, vars', st'⟩
        cases r <;> rfl
      | crash e => rfl
      | exit v =>
        cases v with
        | none => rfl
        | some c =>
          simp only [Option.bind_some]
          cases parseI32 c with
          | none => rfl
          | some code => by_cases hc : code = 0 <;> simp [hc]
    · simp only [h, dite_false, List.getElem?_eq_none (Nat.le_of_not_lt h)]

/-- `create_runtime`: the label table of the Runtime it returns -/
theorem C03_runner_translation_create_runtime (is : List Instruction) :
    labelTableGen is = labelTable is := by
  unfold labelTableGen labelTable
  exact labelTableGen_fold is 0 []

/-- `C03_label_table` about the translated table: a label resolves to the last line carrying it -/
theorem C03_runner_translation_label_table (is : List Instruction) (l : Str) (k : Nat) :
    lookupLabel (labelTableGen is) l = some k ↔ IsLabelLine is l k := by
  rw [C03_runner_translation_create_runtime]
  exact lookup_labelTable_some is l k

/-- the fuel loop over the translated step IS the model's `runLoop` -/
theorem C03_runner_translation_run_loop {σ : Type} (sem : CmdSem σ) (is : List Instruction)
    (labels : List (Str × Nat)) (halt : Nat → σ → Bool) (fuel : Nat) (rs : RunState σ) :
    runLoopGen sem is labels halt fuel rs = runLoop sem is labels halt fuel rs :=
  runLoopGen_eq_of_step sem is labels halt (C03_runner_translation_run_step sem is labels halt) fuel rs

/-- `C03_sound` about the translated runner: every terminating run of the loop over `runStepGen` with
    the translated label table (never halted) is a run of the abstract machine -/
theorem C03_runner_translation_sound {σ : Type} (sem : CmdSem σ) (is : List Instruction) (fuel : Nat)
    (rs rs' : RunState σ) (e : RunEnd) (f : Final σ)
    (h : runLoopGen sem is (labelTableGen is) noHalt fuel rs = (rs', e)) (hf : finalOf rs' e = some f) :
    Reaches sem is ⟨rs.line, rs.vars, rs.st⟩ f := by
  rw [C03_runner_translation_run_loop, C03_runner_translation_create_runtime] at h
  exact runLoop_sound sem is fuel rs rs' e f h hf

/-- `C03_complete` about the translated runner: every run of the abstract machine is computed by the
    loop over `runStepGen` with the translated label table, given enough fuel -/
theorem C03_runner_translation_complete {σ : Type} (sem : CmdSem σ) (is : List Instruction)
    (c : Cfg σ) (f : Final σ) (h : Reaches sem is c f) (polls : Nat) :
    ∃ fuel rs' e, runLoopGen sem is (labelTableGen is) noHalt fuel ⟨c.pc, polls, c.vars, c.st⟩ = (rs', e) ∧
      finalOf rs' e = some f := by
  obtain ⟨fuel, rs', e, h1, h2⟩ := runLoop_complete sem is c f h ⟨c.pc, polls, c.vars, c.st⟩ rfl
  exact ⟨fuel, rs', e, by
    rw [C03_runner_translation_run_loop, C03_runner_translation_create_runtime]; exact h1, h2⟩

/-! ### non-vacuity: the translated step on concrete inputs -/

namespace C03TranslatedExample

/-- `x = boom` / `quit 3` -/
def prog : List Instruction :=
  [ ⟨{ line := some 1 }, .script { output := some "x".toList, command := some "boom".toList }⟩,
    ⟨{ line := some 2 }, .script { command := some "quit".toList, args := some ["3".toList] }⟩ ]

/-- `boom` raises an error, `quit` exits with its first argument, `on_error` records the message in
    the variable `e`; nothing else exists -/
def sem : CmdSem Unit := fun name args _ _ vars s =>
  if name = "boom".toList then some (.error "bang".toList, vars, s)
  else if name = "quit".toList then some (.exit args.head?, vars, s)
  else if name = "on_error".toList then some (.continue none, Vars.set vars "e".toList (args.headD []), s)
  else none

/-- the error: the output variable is written BEFORE `on_error` runs, then the next line -/
example : runStepGen sem prog [] noHalt ⟨0, 0, [], ()⟩ =
    .inl ⟨1, 1, [("e".toList, "bang".toList), ("x".toList, "false".toList)], ()⟩ := by rfl

/-- exit code 3: the run fails at that line -/
example : runStepGen sem prog [] noHalt ⟨1, 1, [], ()⟩ =
    .inr (⟨1, 2, [], ()⟩, .fail "Exit with error code: 3".toList { line := some 2 }) := by rfl

/-- past the last line / halted before anything is fetched -/
example : runStepGen sem prog [] noHalt ⟨2, 2, [], ()⟩ = .inr (⟨2, 3, [], ()⟩, .reachedEnd) := by rfl
example : runStepGen sem prog [] (fun _ _ => true) ⟨2, 2, [], ()⟩ = .inr (⟨2, 2, [], ()⟩, .halted) := by rfl

/-- the whole run through the translated loop -/
example : (runLoopGen sem prog (labelTableGen prog) noHalt 5 ⟨0, 0, [], ()⟩).2 =
    .fail "Exit with error code: 3".toList { line := some 2 } := by rfl

/-- the translated label table: a duplicated label resolves to its last line -/
example : labelTableGen
    [ ⟨{}, .script { label := some "a".toList }⟩, ⟨{}, .empty⟩, ⟨{}, .script { label := some "a".toList }⟩,
      ⟨{}, .script { label := some "b".toList }⟩ ] = [("b".toList, 3), ("a".toList, 2)] := by rfl

end C03TranslatedExample

end Duck
