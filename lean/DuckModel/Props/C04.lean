/-
  C04 — if / elseif / else / while / for-in behave as properly nested structured blocks.
  Stage 1 (block boundary discovery, for the keyword tables regenerated from the source):
  Props/C04Scan.lean.  Stage 2 (execution = tree-walking interpreter): Props/C04Sim.lean
  is imported here once its proofs are complete.
-/
import DuckModel.Props.C04Scan
