/-
  C04 — if / elseif / else / while / for-in behave as properly nested structured blocks.
  Props/C04Scan.lean : stage 1, block boundary discovery (for the keyword tables regenerated
                       from the source).
  Props/C04Sim.lean  : stage 2, execution of the goto-machine = tree-walking interpreter
                       (proved for the `simple` fragment; the full statement is kept visible).
-/
import DuckModel.Props.C04Scan
import DuckModel.Props.C04Sim
