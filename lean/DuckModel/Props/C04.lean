/-
  C04 — if / elseif / else / while / for-in behave as properly nested structured blocks.
  Props/C04Scan.lean : stage 1, block boundary discovery (for the keyword tables regenerated
                       from the source).
  Props/C04Sim.lean  : stage 2, execution of the goto-machine = tree-walking interpreter
                       (proved for the `simple` fragment; the full statement is kept visible).
  Props/C04Names.lean : the model resolves every flow-control and straight-line command by exactly
                       the spellings the source registers (regenerated tables).
-/
import DuckModel.Props.C04Scan
import DuckModel.Props.C04Sim
import DuckModel.Props.C04Names
