/-
  C06 — the hand-written condition evaluator IS (a refinement of) the translation of the current
  source.

  `Generated/ScannerCond.lean` is produced on every run by the Rust→Lean translator
  (bin/rust2lean.py third executor, bin/fragments/scanner_cond.py) from
  `eval_condition_for_slice` in duckscript_sdk/src/utils/condition.rs.  The translation is INDEX
  FAITHFUL: it keeps `start_block`, `index`, the signed `counter`, slices
  `&arguments[start_block..index]` for the recursive call and has an explicit `.panic` outcome
  where Rust would unwind (slice out of range).  The hand-written model `evalSliceF`
  (Sdk/Condition.lean, the one `C06_eval_correct` and all other C06 theorems are about) collects
  the tokens of an open group in `block` and counts with a `Nat`.

  Theorems: for EVERY fuel and token list the translated function answers exactly what the model
  answers — in particular it never panics.  The proof is a refinement
  (Lemmas/CondTranslationLemmas.lean): `CondRel` relates the two states (same flags / accumulators
  / token state, `counter` = the model's as an `Int`, no group open ⇒ counter 0, and while a group
  is open `block = arguments[start_block .. index)`), `condStep_refines` carries it over one
  token, the recursive call on the slice corresponds to `ev block` one fuel level down.
  A change of the Rust function that alters its meaning makes this file fail to check.
-/
import DuckModel.Lemmas.CondTranslationLemmas

namespace Duck
open Duck.Generated

/-- one token: related states step to related results (`cont` / `Ok` / `Err` of the same kind) -/
theorem C06_scanner_translation_step (ev' : List Str → CondOut) (ev : List Str → Except CondErr Bool)
    (hev : ∀ l, ev' l = CondOut.ofExcept (ev l))
    (args : List Str) (g : CondSt) (m : CSt) (a : Str) (rest : List Str)
    (hr : CondRel args g m) (hd : args.drop g.index = a :: rest) :
    CondStepRel args g.index (condStepGen ev' args g a) (cStep ev m a) :=
  condStep_refines ev' ev args g m a rest hev hr hd

/-- the whole loop and the code after it, from the initial states -/
theorem C06_scanner_translation_loop (ev' : List Str → CondOut) (ev : List Str → Except CondErr Bool)
    (hev : ∀ l, ev' l = CondOut.ofExcept (ev l)) (args : List Str) :
    condLoopGen ev' args {} args = CondOut.ofExcept (cLoop ev {} args) :=
  condLoop_refines ev' ev args hev args {} {} (condRel_init args) rfl

/-- the translated `eval_condition_for_slice` computes what the model computes: every fuel,
    every token list -/
theorem C06_scanner_translation (fuel : Nat) (args : List Str) :
    evalSliceGen fuel args = CondOut.ofExcept (evalSliceF fuel args) := by
  induction fuel generalizing args with
  | zero => rfl
  | succ fuel ih =>
    cases args with
    | nil => rfl
    | cons a rest =>
      simp only [evalSliceGen, evalSliceF, List.isEmpty_cons, Bool.false_eq_true, if_false]
      exact C06_scanner_translation_loop (evalSliceGen fuel) (evalSliceF fuel) ih (a :: rest)

/-- with the model's own fuel (nesting is never deeper than the number of tokens) -/
theorem C06_scanner_translation_evalSlice (args : List Str) :
    evalSliceGen (args.length + 1) args = CondOut.ofExcept (evalSlice args) :=
  C06_scanner_translation _ args

/-- the index-faithful translation never reaches a Rust panic: `&arguments[start_block..index]`
    is always in range -/
theorem C06_scanner_translation_no_panic (fuel : Nat) (args : List Str) :
    evalSliceGen fuel args ≠ .panic := by
  rw [C06_scanner_translation]
  cases evalSliceF fuel args <;> simp [CondOut.ofExcept]

/-- read back as a `Result`: the same `Ok` / `Err` -/
def Generated.CondOut.toExcept? : CondOut → Option (Except CondErr Bool)
  | .ok b => some (.ok b)
  | .err e => some (.error e)
  | .panic => none

theorem C06_scanner_translation_result (args : List Str) :
    (evalSliceGen (args.length + 1) args).toExcept? = some (evalSlice args) := by
  rw [C06_scanner_translation_evalSlice]
  cases evalSlice args <;> rfl

/- non-vacuity: the translated function runs (groups, nesting, errors) -/
example : evalSliceGen 5 ["(".toList, "true".toList, "or".toList, "false".toList, ")".toList,
    "and".toList, "(".toList, "(".toList, "0".toList, ")".toList, ")".toList] = .ok false := by decide
example : evalSliceGen 5 ["(".toList, "x".toList] = .err .missingClose := by decide
example : evalSliceGen 5 ["x".toList, ")".toList] = .err .unexpectedClose := by decide
example : evalSliceGen 5 ["(".toList, "a".toList, "b".toList, ")".toList] = .err .unexpectedValue := by decide

end Duck
