/-
  C03, the script's own way to hand the runner an Exit / GoTo result: the SDK commands `exit` and
  `goto` (Sdk/ProcessCmd.lean) composed with the abstract machine (Spec/Machine.lean).
  "an integer non-zero exit value makes the run fail" is a statement about the RUNNER; it can be
  relied on from script text only if `exit` hands over nothing but what the runner reads as an
  integer — and rejects the rest as an error the run survives.
-/
import DuckModel.Sdk.ProcessCmd
import DuckModel.Spec.Machine

namespace Duck
open Duck.Spec

/-- whatever `exit` hands the runner as an exit value is a text the runner reads as an i32 -/
theorem C03_exit_cmd_hands_over_integers (args : List Str) (v : Option Str)
    (h : exitCmd args = .exit v) : ∃ code, v.bind parseI32 = some code := by
  unfold exitCmd at h
  match args, h with
  | [], h =>
    injection h with h; subst h
    exact ⟨0, by decide⟩
  | a :: _, h =>
    simp only at h
    cases hp : parseI32 a with
    | none => rw [hp] at h; cases h
    | some c =>
      rw [hp] at h
      injection h with h; subst h
      exact ⟨c, by simpa using hp⟩

/-- `exit` answers with an exit or an error result, nothing else -/
theorem C03_exit_cmd_result_kinds (args : List Str) :
    (∃ v, exitCmd args = .exit v) ∨ (∃ m, exitCmd args = .error m) := by
  unfold exitCmd
  match args with
  | [] => exact .inl ⟨_, rfl⟩
  | a :: _ =>
    simp only
    cases parseI32 a with
    | none => exact .inr ⟨_, rfl⟩
    | some _ => exact .inl ⟨_, rfl⟩

/-- a first argument the runner could not read as an i32 (padded, empty, out of range, …) is
    rejected with an error that quotes it -/
theorem C03_exit_cmd_rejects (a : Str) (rest : List Str) (h : parseI32 a = none) :
    exitCmd (a :: rest) = .error ("Invalid exit code: ".toList ++ a) := by
  simp only [exitCmd, h]

/-- `goto` jumps exactly when it is given ONE argument that starts with `:` — then to that label,
    without a value -/
theorem C03_goto_cmd_jumps_iff (args : List Str) (v : Option Str) (g : GoToValue) :
    gotoCmd args = .goTo v g ↔ ∃ l, args = [l] ∧ l.head? = some ':' ∧ v = none ∧ g = .label l := by
  constructor
  · intro h
    unfold gotoCmd at h
    match args, h with
    | [], h => cases h
    | [l], h =>
      simp only at h
      by_cases hl : l.head? = some ':'
      · rw [if_pos hl] at h
        injection h with h1 h2
        exact ⟨l, rfl, hl, h1.symm, h2.symm⟩
      · rw [if_neg hl] at h; cases h
    | _ :: _ :: _, h => cases h
  · rintro ⟨l, rfl, hl, rfl, rfl⟩
    simp only [gotoCmd, hl, if_true]

/-- in every other case `goto` reports an error (the run goes on with the next line) -/
theorem C03_goto_cmd_else_error (args : List Str)
    (h : ¬ ∃ l, args = [l] ∧ l.head? = some ':') : ∃ m, gotoCmd args = .error m := by
  unfold gotoCmd
  match args, h with
  | [], _ => exact ⟨_, rfl⟩
  | [l], h =>
    simp only
    by_cases hl : l.head? = some ':'
    · exact absurd ⟨l, rfl, hl⟩ h
    · rw [if_neg hl]; exact ⟨_, rfl⟩
  | _ :: _ :: _, _ => exact ⟨_, rfl⟩

/-! ### composed with the machine -/

/-- a line `exit <integer ≠ 0>` (any spelling of the command): the run FAILS naming this line -/
theorem C03_exit_line_fails (names : List Str) (is : List Instruction) (c : Cfg ScriptedSt)
    (i : Instruction) (name : Str) (args : Option (List Str)) (a : Str) (rest : List Str) (code : Int)
    (hi : is[c.pc]? = some i) (hinv : invocationOf i = some (name, args))
    (hn : Generated.cmdNamesExit.contains name = true)
    (hb : bind c.vars args = a :: rest) (hp : parseI32 a = some code) (hc : code ≠ 0) :
    Step (scriptedSemX names) is c
      (.inr (.fail ("Exit with error code: ".toList ++ intToStr code) i.mi c.st)) := by
  refine Step.exitCode c i name args (some a) code c.vars c.st hi hinv ?_ (by simpa using hp) hc
  simp only [scriptedSemX, hn, if_true, hb, exitCmd, hp]

/-- a line `exit` / `exit 0` (`+0`, `-0`, `000`): the run ends successfully; the exit value is
    stored in the line's output variable -/
theorem C03_exit_line_succeeds (names : List Str) (is : List Instruction) (c : Cfg ScriptedSt)
    (i : Instruction) (name : Str) (args : Option (List Str))
    (hi : is[c.pc]? = some i) (hinv : invocationOf i = some (name, args))
    (hn : Generated.cmdNamesExit.contains name = true)
    (hb : bind c.vars args = [] ∨ ∃ a rest, bind c.vars args = a :: rest ∧ parseI32 a = some 0) :
    ∃ v, Step (scriptedSemX names) is c (.inr (.ok (Vars.updateOutput c.vars (outputOf i) (some v)) c.st)) := by
  rcases hb with hb | ⟨a, rest, hb, hp⟩
  · refine ⟨"0".toList, Step.exitOk c i name args (some "0".toList) c.vars c.st hi hinv ?_ ?_⟩
    · simp only [scriptedSemX, hn, if_true, hb, exitCmd]
    · intro code h
      have : parseI32 "0".toList = some 0 := by decide
      simp only [Option.bind_some, this, Option.some.injEq] at h
      exact h.symm
  · refine ⟨a, Step.exitOk c i name args (some a) c.vars c.st hi hinv ?_ ?_⟩
    · simp only [scriptedSemX, hn, if_true, hb, exitCmd, hp]
    · intro code h
      simp only [Option.bind_some, hp, Option.some.injEq] at h
      exact h.symm

/-- a line `exit <not an i32>` without an `on_error` command: NOT an exit — the line's output
    variable becomes `false` and the run goes on with the next line -/
theorem C03_exit_line_rejected (names : List Str) (is : List Instruction) (c : Cfg ScriptedSt)
    (i : Instruction) (name : Str) (args : Option (List Str)) (a : Str) (rest : List Str)
    (hi : is[c.pc]? = some i) (hinv : invocationOf i = some (name, args))
    (hn : Generated.cmdNamesExit.contains name = true)
    (hb : bind c.vars args = a :: rest) (hp : parseI32 a = none)
    (hoe : names.contains onErrorName = false) :
    Step (scriptedSemX names) is c
      (.inl ⟨c.pc + 1, Vars.updateOutput c.vars (outputOf i) (some "false".toList), c.st⟩) := by
  refine Step.errorNoHandler c i name args ("Invalid exit code: ".toList ++ a) c.vars c.st hi hinv ?_ ?_
  · simp only [scriptedSemX, hn, if_true, hb, exitCmd, hp]
  · have h1 : Generated.cmdNamesExit.contains onErrorName = false := by decide
    have h2 : Generated.cmdNamesGoTo.contains onErrorName = false := by decide
    unfold scriptedSemX
    rw [h1, h2]
    simp only [Bool.false_eq_true, if_false]
    unfold scriptedSem
    rw [hoe]
    simp only [Bool.false_eq_true, if_false]

/-- a line `goto :l` jumps to the line carrying `l` -/
theorem C03_goto_line_jumps (names : List Str) (is : List Instruction) (c : Cfg ScriptedSt)
    (i : Instruction) (name : Str) (args : Option (List Str)) (l : Str) (k : Nat)
    (hi : is[c.pc]? = some i) (hinv : invocationOf i = some (name, args))
    (hn : Generated.cmdNamesGoTo.contains name = true)
    (hb : bind c.vars args = [l]) (hl : l.head? = some ':') (hk : IsLabelLine is l k) :
    Step (scriptedSemX names) is c (.inl ⟨k, Vars.updateOutput c.vars (outputOf i) none, c.st⟩) := by
  refine Step.gotoLabel c i name args none l k c.vars c.st hi hinv ?_ hk
  have h1 : Generated.cmdNamesExit.contains name = false := by
    revert hn; simp only [Generated.cmdNamesGoTo, Generated.cmdNamesExit, List.contains_cons, List.contains_nil, Bool.or_false, Bool.or_eq_true, beq_iff_eq]
    rintro (h | h) <;> subst h <;> decide
  simp only [scriptedSemX, h1, hn, if_true, hb, gotoCmd, hl, Bool.false_eq_true, if_false]

/-! non-vacuity: the padded code of the seeded change C03-r6m1, and the limits of i32 -/
example : exitCmd ["1 ".toList] = .error "Invalid exit code: 1 ".toList := by decide
example : exitCmd [" 3".toList] = .error "Invalid exit code:  3".toList := by decide
example : exitCmd ["2147483648".toList] = .error "Invalid exit code: 2147483648".toList := by decide
example : exitCmd ["-2147483648".toList] = .exit (some "-2147483648".toList) := by decide
example : exitCmd ["+7".toList, "x".toList] = .exit (some "+7".toList) := by decide
example : gotoCmd [":a".toList, [] ] = .error "Multiple labels provided.".toList := by decide
example : gotoCmd [":".toList] = .goTo none (.label ":".toList) := by decide

end Duck
