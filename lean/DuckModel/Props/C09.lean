/-
  C09 — wrapping a command in if / elseif / while / not / a user alias / eval does not change
  its arguments.

  The wrappers rebuild a script line from the already-bound values (`eval::parse`), parse it
  and bind it again (`Reser.roundTrip`, model in `Sdk/Reserialize.lean`).  The property as
  stated — for ALL values the command receives the same arguments — is FALSE on the pinned
  tree (`C09_counterexamples`, one witness per recorded finding class K1–K7).  Proved here:
  a decidable class of values for which it holds in every variable environment
  (`C09_safe_partial`; `Safe` allows spaces, `#` with a space, an inner `"` without a space,
  backslashes, tabs, `=`, a `$` that is not `${` / backslash-`$`, any Unicode), that every
  value outside that class falls in one of the listed classes (`C09_classes_cover`,
  `C09_position_iff`), and that all wrappers go through the same path
  (`C09_wrappers_same_path`, `C09_flow_condition_path`).
  ONLY property theorems and their non-vacuity examples live here.
-/
import DuckModel.Lemmas.ReserializeLemmas
import DuckModel.Props.C09Translated

namespace Duck
open Duck.Reser Duck.Spec

/-! ### the statement, and why it is only partly true -/

/-- the property as stated: for every command name that can be written in a script, every
    argument list and every variable environment, the wrapped command receives exactly the
    arguments of the direct call -/
def C09_statement : Prop :=
  ∀ (vars : Vars) (cmd : Str) (vals : List Str), cmdOK cmd = true →
    roundTrip vars (cmd :: vals) = some (some cmd, vals)

def C09_cap : Str := "cap".toList

/-- the environment of the witnesses: `x` is defined -/
def C09_env : Vars := [("x".toList, "XV".toList)]

/-- K1: CR / LF are deleted -/
theorem C09_K1_crlf :
    roundTrip C09_env [C09_cap, "a\nb".toList] = some (some C09_cap, ["ab".toList]) :=
  (roundTrip_eval _ _ (by decide)).trans (by decide)

/-- K2: a bare value is cut at `#` -/
theorem C09_K2_hash :
    roundTrip C09_env [C09_cap, "a#b".toList] = some (some C09_cap, ["a".toList]) :=
  (roundTrip_eval _ _ (by decide)).trans (by decide)

/-- K3a: a value starting with `"` — the rebuilt line does not parse (missing end quote) -/
theorem C09_K3_leading_quote : roundTrip C09_env [C09_cap, "\"ab".toList] = none :=
  (roundTrip_eval _ _ (by decide)).trans (by decide)

/-- K3b: a `"` inside a value with a space ends the quoted text early: two arguments arrive -/
theorem C09_K3_inner_quote :
    roundTrip C09_env [C09_cap, "a \"b".toList] =
      some (some C09_cap, ["a ".toList, "b\"".toList]) :=
  (roundTrip_eval _ _ (by decide)).trans (by decide)

/-- K3c: a value of the form `"…"` comes back wrapped in backslashes -/
theorem C09_K3_wrapped :
    roundTrip C09_env [C09_cap, "\"a\"".toList] = some (some C09_cap, ["\\\"a\"\\".toList]) :=
  (roundTrip_eval _ _ (by decide)).trans (by decide)

/-- K4: a `%` makes the second binding re-split the value at spaces -/
theorem C09_K4_percent :
    roundTrip C09_env [C09_cap, "p% q".toList] =
      some (some C09_cap, ["p%".toList, "q".toList]) :=
  (roundTrip_eval _ _ (by decide)).trans (by decide)

/-- K5a: `${x}` inside a value is expanded by the second binding -/
theorem C09_K5_dollar :
    roundTrip C09_env [C09_cap, "${x}".toList] = some (some C09_cap, ["XV".toList]) :=
  (roundTrip_eval _ _ (by decide)).trans (by decide)

/-- K5b: the backslash of `\$` is consumed by the second binding -/
theorem C09_K5_backslash_dollar :
    roundTrip C09_env [C09_cap, "\\$x".toList] = some (some C09_cap, ["$x".toList]) :=
  (roundTrip_eval _ _ (by decide)).trans (by decide)

/-- K6: a first argument starting with `=` turns the line into an assignment: the output
    variable is `cap`, the command called is `x`, `cap` is not called at all -/
theorem C09_K6_leading_equals :
    roundTripFull C09_env [C09_cap, "=x".toList, "y".toList] =
      some (some C09_cap, some "x".toList, ["y".toList]) :=
  (roundTripFull_evalB _ _ (by decide)).trans (by decide)

/-- K7: a bare last argument loses its trailing tab with the trim of the line -/
theorem C09_K7_trailing_ws :
    roundTrip C09_env [C09_cap, "x\t".toList] = some (some C09_cap, ["x".toList]) :=
  (roundTrip_eval _ _ (by decide)).trans (by decide)

/-- the full statement is false: one witness per finding class -/
theorem C09_counterexamples : ¬ C09_statement := by
  intro h
  have hc : cmdOK C09_cap = true := by decide
  have h1 := h C09_env C09_cap ["a\nb".toList] hc
  rw [C09_K1_crlf] at h1
  revert h1
  decide

/-- every listed witness refutes the statement on its own -/
theorem C09_each_class_refutes :
    ∀ w ∈ [["a\nb".toList], ["a#b".toList], ["\"ab".toList], ["a \"b".toList], ["\"a\"".toList],
            ["p% q".toList], ["${x}".toList], ["\\$x".toList], ["=x".toList, "y".toList],
            ["x\t".toList]],
      roundTrip C09_env (C09_cap :: w) ≠ some (some C09_cap, w) := by
  intro w hw
  simp only [List.mem_cons, List.not_mem_nil, or_false] at hw
  rcases hw with rfl | rfl | rfl | rfl | rfl | rfl | rfl | rfl | rfl | rfl
  · rw [C09_K1_crlf]; decide
  · rw [C09_K2_hash]; decide
  · rw [C09_K3_leading_quote]; decide
  · rw [C09_K3_inner_quote]; decide
  · rw [C09_K3_wrapped]; decide
  · rw [C09_K4_percent]; decide
  · rw [C09_K5_dollar]; decide
  · rw [C09_K5_backslash_dollar]; decide
  · unfold roundTrip; rw [C09_K6_leading_equals]; decide
  · rw [C09_K7_trailing_ws]; decide

/-! ### where it holds -/

/-- the side condition on the command name is exactly "a token C01 accepts as the first
    word of a line" -/
theorem C09_cmdOK_iff (c : Str) : cmdOK c = true ↔ NameOK c ∧ NoEq c ∧ Spec.FirstOK c :=
  cmdOK_iff c

/-- the safe class, clause by clause -/
theorem C09_safe_iff (v : Str) :
    Safe v = true ↔
      (xStable .normal v = true ∧ ∀ x ∈ v, x ≠ '\r' ∧ x ≠ '\n') ∧
      ((' ' ∈ v ∧ ∀ x ∈ v, x ≠ '"') ∨
       (' ' ∉ v ∧ (∀ x ∈ v, x ≠ '#') ∧ v.head? ≠ some '"')) :=
  safe_iff v

/-- `xStable` fails only through a `%`, a `${` or a `\$` (so a value without these three is
    left alone by the second binding) -/
theorem C09_xStable_of_no_pattern (v : Str) (h1 : hasChar v '%' = false)
    (h2 : hasPair '$' '{' v = false) (h3 : hasPair '\\' '$' v = false) :
    xStable .normal v = true := by
  cases h : xStable .normal v with
  | true => rfl
  | false =>
    rcases not_xStable .normal v h with a | a | a
    · rw [h1] at a; cases a
    · simp only [pfx, List.nil_append] at a; rw [h2] at a; cases a
    · simp only [pfx, List.nil_append] at a; rw [h3] at a; cases a

/-- for safe values in admissible positions, in EVERY variable environment, the rebuilt line
    has no output variable, calls the same command and hands it the same arguments -/
theorem C09_safe_full (vars : Vars) (cmd : Str) (vals : List Str) (hc : cmdOK cmd = true)
    (hs : ∀ v ∈ vals, Safe v = true) (hp : positionOK vals = true) :
    roundTripFull vars (cmd :: vals) = some (none, some cmd, vals) := by
  unfold roundTripFull
  simp only
  rw [evalParse_of_parseLine cmd vals _ (parseLine_serialized cmd vals hc hs hp)
    (by intro c x he; cases he)]
  simp only [Option.map_some, arrive]
  rw [bind_plain vars vals (fun v hv => ((safe_iff v).mp (hs v hv)).1.1)]

theorem C09_safe_partial (vars : Vars) (cmd : Str) (vals : List Str) (hc : cmdOK cmd = true)
    (hs : ∀ v ∈ vals, Safe v = true) (hp : positionOK vals = true) :
    roundTrip vars (cmd :: vals) = some (some cmd, vals) := by
  unfold roundTrip
  rw [C09_safe_full vars cmd vals hc hs hp]
  rfl

/-- the recorded classes, as predicates on one value -/
def C09_K1 (v : Str) : Bool := hasChar v '\r' || hasChar v '\n'
def C09_K2 (v : Str) : Bool := hasChar v '#' && !hasChar v ' '
def C09_K3 (v : Str) : Bool := (hasChar v '"' && hasChar v ' ') || v.head? == some '"'
def C09_K4 (v : Str) : Bool := hasChar v '%'
def C09_K5 (v : Str) : Bool := hasPair '$' '{' v || hasPair '\\' '$' v

/-- a value is safe or falls in one of the classes K1–K5 (K6 / K7 are the two position
    conditions `firstOK` / `lastOK`): proved-safe and listed classes cover the value space -/
theorem C09_classes_cover (v : Str) :
    Safe v = true ∨ C09_K1 v = true ∨ C09_K2 v = true ∨ C09_K3 v = true ∨ C09_K4 v = true ∨
      C09_K5 v = true := by
  have hx : xStable .normal v = true ∨ C09_K4 v = true ∨ C09_K5 v = true := by
    cases h : xStable .normal v with
    | true => exact Or.inl rfl
    | false =>
      rcases not_xStable .normal v h with a | a | a
      · exact Or.inr (Or.inl a)
      · simp only [pfx, List.nil_append] at a
        exact Or.inr (Or.inr (by simp [C09_K5, a]))
      · simp only [pfx, List.nil_append] at a
        exact Or.inr (Or.inr (by simp [C09_K5, a]))
  rcases hx with hx | hx | hx
  · unfold Safe C09_K1 C09_K2 C09_K3
    rw [hx]
    simp only [bne]
    cases hasChar v '\r' <;> cases hasChar v '\n' <;>
      cases hasChar v ' ' <;> cases hasChar v '"' <;> cases hasChar v '#' <;>
      cases (v.head? == some '"') <;> simp_all
  · exact Or.inr (Or.inr (Or.inr (Or.inr (Or.inl hx))))
  · exact Or.inr (Or.inr (Or.inr (Or.inr (Or.inr hx))))

/-- the position conditions are exactly the complements of K6 and K7 -/
theorem C09_position_iff (vals : List Str) :
    positionOK vals = true ↔
      (∀ v, vals.head? = some v → v.head? = some '=' → ' ' ∈ v) ∧
      (∀ v c, vals.getLast? = some v → v.getLast? = some c → isWs c = true → ' ' ∈ v) := by
  unfold positionOK
  constructor
  · intro h
    simp only [Bool.and_eq_true] at h
    refine ⟨fun v hv he => ?_, fun v c hv hc hw => ?_⟩
    · have := h.1
      simp only [hv, firstOK, Bool.or_eq_true, hasChar_true] at this
      rcases this with a | b
      · exact a
      · simp [he] at b
    · have := h.2
      simp only [hv, lastOK, hc, Bool.or_eq_true, hasChar_true] at this
      rcases this with a | b
      · exact a
      · simp [hw] at b
  · rintro ⟨h1, h2⟩
    simp only [Bool.and_eq_true]
    constructor
    · cases hh : vals.head? with
      | none => rfl
      | some v =>
        simp only [firstOK, Bool.or_eq_true, hasChar_true]
        by_cases he : v.head? = some '='
        · exact Or.inl (h1 v hh he)
        · exact Or.inr (by simpa using he)
    · cases hh : vals.getLast? with
      | none => rfl
      | some v =>
        simp only [lastOK, Bool.or_eq_true, hasChar_true]
        cases hc : v.getLast? with
        | none => exact Or.inr rfl
        | some c =>
          by_cases hw : isWs c = true
          · exact Or.inl (h2 v c hh hc hw)
          · exact Or.inr (by simpa using hw)

/-! ### all wrappers take this path -/

/-- if / elseif / while / not (when the first value names a command), a user alias (stored
    arguments first) and eval all hand the command what `roundTripFull` computes -/
theorem C09_wrappers_same_path (isCmd : Str → Bool) (vars : Vars) (cmd : Str) (vals : List Str)
    (h : isCmd cmd = true) :
    (∀ w ∈ [Wrapper.ifC, .elseIf, .whileC, .notC, .eval],
      viaWrapper isCmd w vars (cmd :: vals) = some (roundTripFull vars (cmd :: vals))) ∧
    (∀ stored call, stored ++ call = vals →
      viaWrapper isCmd (.alias (cmd :: stored)) vars call =
        some (roundTripFull vars (cmd :: vals))) := by
  constructor
  · intro w hw
    simp only [List.mem_cons, List.not_mem_nil, or_false] at hw
    rcases hw with rfl | rfl | rfl | rfl | rfl <;> simp [viaWrapper, h]
  · intro stored call he
    subst he
    simp [viaWrapper]

/-- the flow-control model (`Sdk/Flow.lean`, tied to the real if/while/not by the C04
    correspondence) evaluates a command condition by running exactly the instruction
    `evalParse` yields, appended to the current instruction list -/
theorem C09_flow_condition_path (nested : EvalFn) (is : List Instruction) (first : Str)
    (rest : List Str) (vars : Vars) (s : Sdk) (instr : Instruction)
    (h1 : (resolveCmd s first).isSome = true) (h2 : evalParse (first :: rest) = some instr) :
    evalCondition nested is (first :: rest) vars s =
      match nested (is ++ [instr]) ((is ++ [instr]).length - 1) vars s with
      | (some (.continue v), _, vars', s') => (.ok (isTrue v), vars', s')
      | (some (.crash _), _, vars', s') => (.error (), vars', s')
      | (some (.error _), _, vars', s') => (.error (), vars', s')
      | (some _, _, vars', s') => (.error (), vars', s')
      | (none, out, vars', s') => (.ok (isTrue out), vars', s') := by
  unfold evalCondition
  simp only [h1, if_true, h2]
  rfl

theorem C09_flow_condition_parse_error (nested : EvalFn) (is : List Instruction) (first : Str)
    (rest : List Str) (vars : Vars) (s : Sdk)
    (h1 : (resolveCmd s first).isSome = true) (h2 : evalParse (first :: rest) = none) :
    evalCondition nested is (first :: rest) vars s = (.error (), vars, s) := by
  unfold evalCondition
  simp only [h1, if_true, h2]

/-- `instructions[0]` in `eval::parse` cannot panic -/
theorem C09_reparse_never_empty (a : Str) (as : List Str) :
    parseText (serializeLine (a :: as)) ≠ .ok [] :=
  parseText_serializeLine_ne_nil a as

/-! ### non-vacuity -/

/-- values with spaces, with `#` together with a space, with an inner `"` and no space,
    multi-byte, empty, with backslashes, with a tab inside -/
def C09_sampleVals : List Str :=
  ["a b".toList, "c #d".toList, "a\"b".toList, "é漢😀".toList, [], "a\\".toList, "\\n".toList,
   "t\tt".toList, " ".toList, "=x y".toList, "tab\t z".toList, "a$b".toList, "$$".toList,
   "cost $".toList, "\\\\$".toList, "$\\$".toList, "{x}$".toList]

example : cmdOK C09_cap = true := by decide
example : ∀ v ∈ C09_sampleVals, Safe v = true := by decide
example : positionOK C09_sampleVals = true := by decide

example (vars : Vars) : roundTrip vars (C09_cap :: C09_sampleVals) = some (some C09_cap, C09_sampleVals) :=
  C09_safe_partial vars _ _ (by decide) (by decide) (by decide)

/-- the witnesses are outside the safe class or the position conditions -/
example : Safe "a#b".toList = false ∧ Safe "${x}".toList = false ∧ Safe "a\nb".toList = false ∧
    Safe "\"ab".toList = false ∧ Safe "a \"b".toList = false ∧ Safe "p% q".toList = false ∧
    positionOK ["x\t".toList] = false ∧ positionOK ["=x".toList] = false := by decide

/-- `x\t` and `=x` are safe values: only their position makes them fail -/
example : Safe "x\t".toList = true ∧ Safe "=x".toList = true ∧
    positionOK ["x\t".toList, "z".toList] = true ∧ positionOK ["z".toList, "=x".toList] = true := by
  decide

end Duck
