/-
  C10 — command errors are reported, positioned and survivable (or fatal when asked).

  All theorems are about the model runner (`runStep` / `runLoop`, Runner.lean) executing an
  ARBITRARY program with the error-reporting family (`Sdk/OnError.lean`) composed with an
  ARBITRARY other command library `base` (`withOnError base`).  A script-implemented library
  command, a function body, a loop body — whatever produces the `Error` result — is covered by
  `base` being arbitrary and `rs.line` being arbitrary: the position reported is the meta
  information of the instruction at the current line (`is[rs.line]`).
-/
import DuckModel.Sdk.OnError
import DuckModel.Spec.ErrorProtocol
import DuckModel.Spec.Machine
import DuckModel.Lemmas.OnErrorLemmas
import DuckModel.Props.C10Scripts

namespace Duck
open Duck.Spec Duck.OnError

/-- **Error protocol.**  The command of the instruction at the current line (any command: of
    the other library or of the family itself) reports the error `m` while errors are not
    fatal: the output variable (if one is written) becomes "false", the record holds `m`, the
    instruction's line as decimal text ("0" if unknown) and its source ("" if unknown), and the
    run continues with the next line. -/
theorem C10_error_protocol {σ : Type} (base : CmdSem σ) (is : List Instruction)
    (labels : List (Str × Nat)) (halt : Nat → σ × ErrSt → Bool) (rs : RunState (σ × ErrSt))
    (i : Instruction) (name : Str) (args : Option (List Str)) (m : Str) (vars' : Vars)
    (st' : σ × ErrSt)
    (hh : halt rs.polls rs.st = false) (hi : is[rs.line]? = some i)
    (hinv : invocationOf i = some (name, args))
    (hsem : withOnError base name (bind rs.vars args) (outputOf i) rs.line rs.vars rs.st =
      some (.error m, vars', st'))
    (hflag : rs.st.2.exitOnError = false) :
    runStep (withOnError base) is labels halt rs =
      .inl { line := rs.line + 1, polls := rs.polls + 1,
             vars := Vars.updateOutput vars' (outputOf i) (some "false".toList),
             st := (st'.1, { lastError := some m, lastErrorLine := some (lineText i.mi),
                             lastErrorSource := some (sourceText i.mi), exitOnError := false }) } := by
  have hst := withOnError_error_st base name _ _ _ _ _ _ _ m hsem
  rw [runStep_error _ is labels halt rs i name args m vars' st' hh hi hinv hsem,
    runOnError_withOnError]
  rw [← hst] at hflag
  simp [hflag]

/-- the same for a command of the other library (its name is not one of the family) -/
theorem C10_error_protocol_base {σ : Type} (base : CmdSem σ) (is : List Instruction)
    (labels : List (Str × Nat)) (halt : Nat → σ × ErrSt → Bool) (rs : RunState (σ × ErrSt))
    (i : Instruction) (name : Str) (args : Option (List Str)) (m : Str) (vars' : Vars) (s1' : σ)
    (hh : halt rs.polls rs.st = false) (hi : is[rs.line]? = some i)
    (hinv : invocationOf i = some (name, args)) (hname : famOf name = none)
    (hsem : base name (bind rs.vars args) (outputOf i) rs.line rs.vars rs.st.1 =
      some (.error m, vars', s1'))
    (hflag : rs.st.2.exitOnError = false) :
    ∃ rs', runStep (withOnError base) is labels halt rs = .inl rs' ∧
      rs'.line = rs.line + 1 ∧
      rs'.vars = Vars.updateOutput vars' (outputOf i) (some "false".toList) ∧
      (∀ o, outputOf i = some o → Vars.get rs'.vars o = some "false".toList) ∧
      rs'.st.1 = s1' ∧
      rs'.st.2.lastError = some m ∧
      rs'.st.2.lastErrorLine = some (lineText i.mi) ∧
      rs'.st.2.lastErrorSource = some (sourceText i.mi) ∧
      rs'.st.2.exitOnError = false := by
  have hsem' : withOnError base name (bind rs.vars args) (outputOf i) rs.line rs.vars rs.st =
      some (.error m, vars', (s1', rs.st.2)) := by
    rw [withOnError_base base name hname, hsem]
  refine ⟨_, C10_error_protocol base is labels halt rs i name args m vars' _ hh hi hinv hsem' hflag,
    rfl, rfl, ?_, rfl, rfl, rfl, rfl, rfl⟩
  intro o ho
  simp [ho, Vars.updateOutput, Vars.set, Vars.get]

/-- **Queries.**  The three queries return exactly the stored values (whatever their text:
    nothing is expanded or split again), for any arguments, and change nothing. -/
theorem C10_getters {σ : Type} (base : CmdSem σ) (args : List Str) (out : Option Str) (line : Nat)
    (vars : Vars) (s : σ × ErrSt) :
    withOnError base "get_last_error".toList args out line vars s =
      some (.continue s.2.lastError, vars, s) ∧
    withOnError base "get_last_error_line".toList args out line vars s =
      some (.continue s.2.lastErrorLine, vars, s) ∧
    withOnError base "get_last_error_source".toList args out line vars s =
      some (.continue s.2.lastErrorSource, vars, s) := by
  refine ⟨?_, ?_, ?_⟩
  · rw [withOnError_fam base _ .getLastError (by decide)]; rfl
  · rw [withOnError_fam base _ .getLastErrorLine (by decide)]; rfl
  · rw [withOnError_fam base _ .getLastErrorSource (by decide)]; rfl

/-- a query line `x = get_last_error…` executed by the runner stores the recorded value in `x`
    (or deletes `x` when nothing is recorded) and goes on -/
theorem C10_getters_step {σ : Type} (base : CmdSem σ) (is : List Instruction)
    (labels : List (Str × Nat)) (halt : Nat → σ × ErrSt → Bool) (rs : RunState (σ × ErrSt))
    (i : Instruction) (name : Str) (args : Option (List Str)) (f : Fam)
    (hh : halt rs.polls rs.st = false) (hi : is[rs.line]? = some i)
    (hinv : invocationOf i = some (name, args)) (hf : famOf name = some f)
    (hq : f = .getLastError ∨ f = .getLastErrorLine ∨ f = .getLastErrorSource) :
    runStep (withOnError base) is labels halt rs =
      .inl { line := rs.line + 1, polls := rs.polls + 1,
             vars := Vars.updateOutput rs.vars (outputOf i)
               (match f with
                | .getLastError => rs.st.2.lastError
                | .getLastErrorLine => rs.st.2.lastErrorLine
                | _ => rs.st.2.lastErrorSource),
             st := rs.st } := by
  unfold runStep
  rcases hq with rfl | rfl | rfl <;>
    simp [hh, hi, runInstruction_invocation _ _ _ _ _ _ _ hinv, withOnError_fam base name _ hf, runFam]

/-- **Latest wins (fold).**  After any `n` iterations of the runner loop the record is the fold
    of `Record.after` over the events of those iterations. -/
theorem C10_record_is_fold {σ : Type} (base : CmdSem σ) (is : List Instruction)
    (labels : List (Str × Nat)) (halt : Nat → σ × ErrSt → Bool) (n : Nat)
    (rs rs' : RunState (σ × ErrSt))
    (h : runN (withOnError base) is labels halt n rs = some rs') :
    recOf rs'.st.2 = (recOf rs.st.2).afterAll (eventsN base is labels halt n rs) :=
  runN_record base is labels halt n rs rs' h

/-- **Latest wins.**  If the last event that touches the stored values (everything after it is
    quiet or a mode switch) is the error `m` reported by the instruction with meta information
    `mi`, the three queries return `m`, the line of `mi` and the source of `mi` — whatever
    errors were recorded before. -/
theorem C10_latest_wins {σ : Type} (base : CmdSem σ) (is : List Instruction)
    (labels : List (Str × Nat)) (halt : Nat → σ × ErrSt → Bool) (n : Nat)
    (rs rs' : RunState (σ × ErrSt)) (pre post : List Ev) (m : Str) (mi : Meta)
    (h : runN (withOnError base) is labels halt n rs = some rs')
    (hev : eventsN base is labels halt n rs = pre ++ .error m mi :: post)
    (hpost : ∀ e ∈ post, e.keepsReport = true)
    (args : List Str) (out : Option Str) (line : Nat) (vars : Vars) :
    withOnError base "get_last_error".toList args out line vars rs'.st =
      some (.continue (some m), vars, rs'.st) ∧
    withOnError base "get_last_error_line".toList args out line vars rs'.st =
      some (.continue (some (lineText mi)), vars, rs'.st) ∧
    withOnError base "get_last_error_source".toList args out line vars rs'.st =
      some (.continue (some (sourceText mi)), vars, rs'.st) := by
  have hr := runN_record base is labels halt n rs rs' h
  rw [hev] at hr
  obtain ⟨a, b, c⟩ := afterAll_last_error (recOf rs.st.2) pre post m mi hpost
  rw [← hr] at a b c
  simp only [recOf] at a b c
  obtain ⟨g1, g2, g3⟩ := C10_getters base args out line vars rs'.st
  rw [g1, g2, g3, a, b, c]
  exact ⟨rfl, rfl, rfl⟩

/-- **Fatal mode, one step.**  The same error step while `exit_on_error` is on ends the run
    with a failure carrying the message and the failing instruction's meta information; the
    output variable is already "false", nothing is recorded. -/
theorem C10_exit_on_error {σ : Type} (base : CmdSem σ) (is : List Instruction)
    (labels : List (Str × Nat)) (halt : Nat → σ × ErrSt → Bool) (rs : RunState (σ × ErrSt))
    (i : Instruction) (name : Str) (args : Option (List Str)) (m : Str) (vars' : Vars)
    (st' : σ × ErrSt)
    (hh : halt rs.polls rs.st = false) (hi : is[rs.line]? = some i)
    (hinv : invocationOf i = some (name, args))
    (hsem : withOnError base name (bind rs.vars args) (outputOf i) rs.line rs.vars rs.st =
      some (.error m, vars', st'))
    (hflag : rs.st.2.exitOnError = true) :
    runStep (withOnError base) is labels halt rs =
      .inr ({ line := rs.line, polls := rs.polls + 1,
              vars := Vars.updateOutput vars' (outputOf i) (some "false".toList), st := st' },
            .fail m i.mi) ∧ st'.2 = rs.st.2 := by
  have hst := withOnError_error_st base name _ _ _ _ _ _ _ m hsem
  rw [runStep_error _ is labels halt rs i name args m vars' st' hh hi hinv hsem,
    runOnError_withOnError]
  rw [← hst] at hflag
  refine ⟨?_, hst⟩
  simp [hflag]

/-- **The switch.**  `exit_on_error v …` sets the mode to the truth value of `v` (false for "",
    "0", "false", "no" in any letter case; true otherwise) and returns it as "true"/"false";
    without arguments it only reports the mode. -/
theorem C10_exit_on_error_switch {σ : Type} (base : CmdSem σ) (v : Str) (rest : List Str)
    (out : Option Str) (line : Nat) (vars : Vars) (s : σ × ErrSt) :
    withOnError base "exit_on_error".toList (v :: rest) out line vars s =
      some (.continue (some (boolStr (isTrue (some v)))), vars,
            (s.1, { s.2 with exitOnError := isTrue (some v) })) ∧
    withOnError base "exit_on_error".toList [] out line vars s =
      some (.continue (some (boolStr s.2.exitOnError)), vars, s) := by
  constructor <;> (rw [withOnError_fam base _ .exitOnError (by decide)]; rfl)

/-- **Fatal mode, whole run, toggling included.**  Whatever happened during the first `n`
    iterations: the mode is the fold over the events (the latest `exit_on_error <value>`
    decides, `C10_mode_latest_wins`); if it is on when the next instruction reports the error
    `m`, the run fails with `m` and that instruction's meta information. -/
theorem C10_exit_on_error_run {σ : Type} (base : CmdSem σ) (is : List Instruction)
    (labels : List (Str × Nat)) (halt : Nat → σ × ErrSt → Bool) (n : Nat)
    (rs rs' : RunState (σ × ErrSt)) (m : Str) (mi : Meta)
    (h : runN (withOnError base) is labels halt n rs = some rs')
    (hmode : ((recOf rs.st.2).afterAll (eventsN base is labels halt n rs)).fatal = true)
    (hh : halt rs'.polls rs'.st = false)
    (hev : eventOf base is rs' = .error m mi) (fuel : Nat) :
    ∃ fin, runLoop (withOnError base) is labels halt (n + (fuel + 1)) rs = (fin, .fail m mi) := by
  rw [runLoop_of_runN _ is labels halt n rs rs' (fuel + 1) h]
  rw [← runN_record base is labels halt n rs rs' h] at hmode
  simp only [recOf] at hmode
  -- unfold the event
  unfold eventOf at hev
  cases hi : is[rs'.line]? with
  | none => simp [hi] at hev
  | some i =>
    simp only [hi] at hev
    cases hinv : invocationOf i with
    | none => simp [hinv] at hev
    | some na =>
      obtain ⟨name, args⟩ := na
      simp only [hinv] at hev
      cases hsem : withOnError base name (bind rs'.vars args) (outputOf i) rs'.line rs'.vars rs'.st with
      | none =>
        simp only [hsem] at hev
        cases hf : famOf name with
        | none => simp [hf] at hev
        | some f =>
          rw [withOnError_fam base name f hf] at hsem
          simp at hsem
      | some x =>
        obtain ⟨r, vars', st'⟩ := x
        by_cases hr : ∃ m', r = .error m'
        · obtain ⟨m', rfl⟩ := hr
          simp only [hsem, Ev.error.injEq] at hev
          obtain ⟨rfl, rfl⟩ := hev
          obtain ⟨hstep, _⟩ := C10_exit_on_error base is labels halt rs' i name args m' vars' st'
            hh hi hinv hsem hmode
          have hl : runLoop (withOnError base) is labels halt (fuel + 1) rs' =
              ({ line := rs'.line, polls := rs'.polls + 1,
                 vars := Vars.updateOutput vars' (outputOf i) (some "false".toList), st := st' },
               .fail m' i.mi) := by
            simp only [runLoop, hstep]
          exact ⟨_, hl⟩
        · exfalso
          have hne : ∀ m', r ≠ .error m' := fun m' hm => hr ⟨m', hm⟩
          simp only [hsem] at hev
          have : (match famOf name with
              | some f => famEvent f (bind rs'.vars args) rs'.line rs'.st.2.exitOnError
              | none => Ev.quiet) = .error m mi := by
            cases r <;> first | exact hev | exact absurd rfl (hne _)
          cases hf : famOf name with
          | none => simp [hf] at this
          | some f =>
            simp only [hf] at this
            exact famEvent_ne_error _ _ _ _ _ _ this

/-- the mode after any `n` iterations is decided by the latest `exit_on_error <value>` -/
theorem C10_mode_latest_wins {σ : Type} (base : CmdSem σ) (is : List Instruction)
    (labels : List (Str × Nat)) (halt : Nat → σ × ErrSt → Bool) (n : Nat)
    (rs rs' : RunState (σ × ErrSt)) (pre post : List Ev) (b : Bool)
    (h : runN (withOnError base) is labels halt n rs = some rs')
    (hev : eventsN base is labels halt n rs = pre ++ .mode b :: post)
    (hpost : ∀ e ∈ post, e.keepsMode = true) :
    rs'.st.2.exitOnError = b := by
  have hr := runN_record base is labels halt n rs rs' h
  rw [hev] at hr
  have := afterAll_last_mode (recOf rs.st.2) pre post b hpost
  rw [← hr] at this
  simpa [recOf] using this

/-- **trigger_error / assert_error / set_error.**  `trigger_error [msg …]` reports `msg`
    ("Error" without arguments), `assert_error [msg …]` reports `msg` ("Assert failed." without
    arguments), `set_error` without arguments reports "Invalid input provided."; none of them
    changes anything — so they follow `C10_error_protocol` / `C10_exit_on_error` like any
    other failing command. -/
theorem C10_trigger_assert {σ : Type} (base : CmdSem σ) (args : List Str) (out : Option Str)
    (line : Nat) (vars : Vars) (s : σ × ErrSt) :
    withOnError base "trigger_error".toList args out line vars s =
      some (.error (args.headD "Error".toList), vars, s) ∧
    withOnError base "assert_error".toList args out line vars s =
      some (.error (args.headD "Assert failed.".toList), vars, s) ∧
    withOnError base "set_error".toList [] out line vars s =
      some (.error "Invalid input provided.".toList, vars, s) := by
  refine ⟨?_, ?_, ?_⟩
  · rw [withOnError_fam base _ .triggerError (by decide)]; rfl
  · rw [withOnError_fam base _ .assertError (by decide)]; rfl
  · rw [withOnError_fam base _ .setError (by decide)]; rfl

/-- `set_error msg` is not an error: it stores `msg`, the current instruction INDEX
    (`context.line`, 0-based — not the source line) and removes the source -/
theorem C10_set_error {σ : Type} (base : CmdSem σ) (msg : Str) (rest : List Str) (out : Option Str)
    (line : Nat) (vars : Vars) (s : σ × ErrSt) :
    withOnError base "set_error".toList (msg :: rest) out line vars s =
      some (.continue none, vars,
        (s.1, { s.2 with lastError := some msg, lastErrorLine := some (natToStr line),
                         lastErrorSource := none })) := by
  rw [withOnError_fam base _ .setError (by decide)]; rfl

/-- **Position = the current instruction** (abstract machine of C03).  For every configuration
    — whatever jumps led to `c.pc` — an error reported by the command of `is[c.pc]` is
    recorded with the meta information of `is[c.pc]` (not of a block opener, a function
    definition or an include directive), resp. fails the run with it in fatal mode. -/
theorem C10_position_is_current_instruction {σ : Type} (base : CmdSem σ) (is : List Instruction)
    (c : Cfg (σ × ErrSt)) (i : Instruction) (name : Str) (args : Option (List Str)) (m : Str)
    (vars' : Vars) (st' : σ × ErrSt)
    (hi : is[c.pc]? = some i) (hinv : invocationOf i = some (name, args))
    (hsem : withOnError base name (bind c.vars args) (outputOf i) c.pc c.vars c.st =
      some (.error m, vars', st')) :
    (c.st.2.exitOnError = false →
      Step (withOnError base) is c
        (.inl ⟨c.pc + 1, Vars.updateOutput vars' (outputOf i) (some "false".toList),
               (st'.1, { lastError := some m, lastErrorLine := some (lineText i.mi),
                         lastErrorSource := some (sourceText i.mi), exitOnError := false })⟩)) ∧
    (c.st.2.exitOnError = true →
      Step (withOnError base) is c (.inr (.fail m i.mi st'))) := by
  have hst := withOnError_error_st base name _ _ _ _ _ _ _ m hsem
  have hoe := runOnError_withOnError base
    (Vars.updateOutput vars' (outputOf i) (some "false".toList)) st' m i.mi
  constructor
  · intro hflag
    rw [← hst] at hflag
    refine Step.errorHandled c i name args m vars' st' (.continue (some "false".toList)) _ _
      hi hinv hsem ?_ (by intro v; simp) (by intro v; simp)
    simp only [errorReport]
    rw [withOnError_fam base onErrorName .onError famOf_onErrorName]
    simp [runFam, hflag, lineText, sourceText]
  · intro hflag
    rw [← hst] at hflag
    refine Step.errorHandlerCrashes c i name args m vars' st' m
      (Vars.updateOutput vars' (outputOf i) (some "false".toList)) st' hi hinv hsem ?_
    simp only [errorReport]
    rw [withOnError_fam base onErrorName .onError famOf_onErrorName]
    simp [runFam, hflag]

/-! ### non-vacuity: a concrete program -/

namespace C10Example

/-- line 1 `x = boom`, line 2 `e = get_last_error`, line 3 `exit_on_error yes`, line 4 `boom`
    (source `main.ds`); `boom` is a command of the other library reporting `bang ${x}` -/
def src : Option Str := some "main.ds".toList

def prog : List Instruction :=
  [ ⟨{ line := some 1, source := src }, .script { output := some "x".toList, command := some "boom".toList }⟩,
    ⟨{ line := some 2, source := src }, .script { output := some "e".toList, command := some "get_last_error".toList }⟩,
    ⟨{ line := some 3, source := src }, .script { command := some "exit_on_error".toList, args := some ["yes".toList] }⟩,
    ⟨{ line := some 4, source := src }, .script { command := some "boom".toList }⟩ ]

def base : CmdSem Unit := fun name _ _ _ vars s =>
  if name = "boom".toList then some (.error "bang ${x}".toList, vars, s) else none

def start : RunState (Unit × ErrSt) := { line := 0, polls := 0, vars := [], st := ((), {}) }

/-- the hypotheses of the protocol theorem are satisfiable: line 1 -/
example : runStep (withOnError base) prog [] (fun _ _ => false) start =
    .inl { line := 1, polls := 1, vars := [("x".toList, "false".toList)],
           st := ((), { lastError := some "bang ${x}".toList, lastErrorLine := some "1".toList,
                        lastErrorSource := some "main.ds".toList, exitOnError := false }) } :=
  C10_error_protocol base prog [] _ start _ "boom".toList none _ [] ((), {}) rfl rfl rfl rfl rfl

def after3 : RunState (Unit × ErrSt) :=
  { line := 3, polls := 3,
    vars := [("e".toList, "bang ${x}".toList), ("x".toList, "false".toList)],
    st := ((), { lastError := some "bang ${x}".toList, lastErrorLine := some "1".toList,
                 lastErrorSource := some "main.ds".toList, exitOnError := true }) }

/-- three iterations: error, query, switch -/
private theorem run3 : runN (withOnError base) prog [] (fun _ _ => false) 3 start = some after3 := by
  rfl

example : eventsN base prog [] (fun _ _ => false) 3 start =
    [.error "bang ${x}".toList { line := some 1, source := src }, .quiet, .mode true] := by
  decide

/-- the whole run: the second `boom` (line 4) is fatal and is reported with ITS line -/
example : ∃ fin, runLoop (withOnError base) prog [] (fun _ _ => false) 10 start =
    (fin, .fail "bang ${x}".toList { line := some 4, source := src }) :=
  C10_exit_on_error_run base prog [] _ 3 start after3 _ _ run3 (by decide) rfl (by decide) 6

/-- "latest wins" is applicable: after the three iterations the queries answer from line 1 -/
example : withOnError base "get_last_error_line".toList [] none 0 [] after3.st =
    some (.continue (some (lineText { line := some 1, source := src })), [], after3.st) :=
  (C10_latest_wins base prog [] _ 3 start after3 [] [.quiet, .mode true] "bang ${x}".toList
    { line := some 1, source := src } run3 (by rfl) (by decide) [] none 0 []).2.1

/-- the abstract machine agrees, for the configuration at line 4 -/
example : Step (withOnError base) prog
    ⟨3, [], ((), { exitOnError := true })⟩
    (.inr (.fail "bang ${x}".toList { line := some 4, source := src } ((), { exitOnError := true }))) :=
  (C10_position_is_current_instruction base prog ⟨3, [], ((), { exitOnError := true })⟩ _
    "boom".toList none _ [] _ rfl rfl rfl).2 rfl

end C10Example

end Duck
