/-
  C02 — variable binding is verbatim, single-pass and never changes the argument count.
-/
import DuckModel.Expansion
import DuckModel.Spec.Template
import DuckModel.Lemmas.ExpansionLemmas
import DuckModel.Props.C02Text
import DuckModel.Props.C02Translated

namespace Duck
open Duck.Spec

/-- a written template expands to exactly its value: every `${name}` replaced by the
    variable's current value (nothing if undefined), every `\${name}` left as the literal
    `${name}`; the substituted values are arbitrary strings and are inserted verbatim -/
theorem C02_single (vars : Vars) (t : List Seg) (h : ∀ s ∈ t, s.OK) :
    expand vars (renderTemplate t) =
      (if tmplValue vars t = [] then Expanded.none else Expanded.single (tmplValue vars t)) := by
  exact expand_template vars t h

/-- each written argument becomes exactly one received argument with that text -/
theorem C02_bind (vars : Vars) (args : List (List Seg)) (h : ∀ t ∈ args, ∀ s ∈ t, s.OK) :
    bind vars (some (args.map renderTemplate)) = args.map (tmplValue vars) := by
  exact bind_templates vars args h

/-- … so binding never changes the argument count, whatever the variables hold -/
theorem C02_count (vars : Vars) (args : List (List Seg)) (h : ∀ t ∈ args, ∀ s ∈ t, s.OK) :
    (bind vars (some (args.map renderTemplate))).length = args.length := by
  rw [C02_bind vars args h, List.length_map]

/-- the expansion of a template never looks inside a substituted value: two environments
    that give the template's variables values of which one is obtained from the other by an
    arbitrary transformation give correspondingly transformed results (values are opaque) -/
theorem C02_verbatim (vars vars' : Vars) (t : List Seg) (h : ∀ s ∈ t, s.OK)
    (f : Str → Str) (hv : ∀ n, vars'.get n = (vars.get n).map f) :
    tmplValue vars' t = t.flatMap (fun s =>
      match s with
      | .var n => ((vars.get n).map f).getD []
      | s => s.value vars) ∧
    expand vars' (renderTemplate t) =
      (if tmplValue vars' t = [] then Expanded.none else Expanded.single (tmplValue vars' t)) := by
  exact ⟨tmplValue_map vars vars' t f hv, C02_single vars' t h⟩

/-- a whole-argument `%{name}`: nothing for an undefined or empty variable, otherwise the
    value re-split by `reparse_arguments` -/
theorem C02_spread (vars : Vars) (n : Str) (hn : KeyOK n) :
    expand vars (renderSpread n) =
      (match vars.get n with
       | none => Expanded.multi []
       | some v =>
         if v = [] then Expanded.multi []
         else match reparseArguments v with
           | .ok (some vs) => Expanded.multi vs
           | .ok none => Expanded.multi []
           | .error _ => Expanded.none) := by
  exact expand_spread vars n hn

/-- for plain values the re-split is exactly the space-separated words -/
theorem C02_spread_words (v : Str) (h : SpreadPlain v) :
    reparseArguments v = .ok (if words v = [] then none else some (words v)) := by
  exact reparseArguments_plain v h

/-- … hence `%{name}` passes exactly the space-separated words of the value (none for an
    empty, all-space or undefined variable) -/
theorem C02_spread_bind (vars : Vars) (n : Str) (hn : KeyOK n)
    (h : ∀ v, vars.get n = some v → SpreadPlain v) :
    bind vars (some [renderSpread n]) = words ((vars.get n).getD []) := by
  exact bind_spread vars n hn h

/-! ### non-vacuity -/

/-- the template `pre${x}\${x}` is in the domain … -/
example : ∀ s ∈ [Seg.lit "pre".toList, Seg.var "x".toList, Seg.escVar "x".toList], s.OK := by
  simp [Seg.OK, LitOK, KeyOK]

/-- … is written `pre${x}\${x}` … -/
example : renderTemplate [Seg.lit "pre".toList, Seg.var "x".toList, Seg.escVar "x".toList] =
    "pre${x}\\${x}".toList := by decide

/-- … and with `x = a ${y} "q" #` it binds to one argument: `pre`, the value verbatim
    (its `${y}`, quotes and `#` untouched), then the literal `${x}` -/
example : bind [("x".toList, "a ${y} \"q\" #".toList)] (some ["pre${x}\\${x}".toList]) =
    ["prea ${y} \"q\" #${x}".toList] := by decide

/-- the same through the theorem -/
example : bind [("x".toList, "a ${y} \"q\" #".toList)]
      (some ([[Seg.lit "pre".toList, Seg.var "x".toList, Seg.escVar "x".toList]].map renderTemplate)) =
    ["pre".toList ++ "a ${y} \"q\" #".toList ++ "${x}".toList] := by
  rw [C02_bind _ _ (by simp [Seg.OK, LitOK, KeyOK])]
  decide

/-- an undefined variable gives the empty argument, not a dropped one -/
example : bind [] (some ["${nope}".toList, "z".toList]) = [[], "z".toList] := by decide

/-- a spread of the value `a  b c` gives the three words -/
example : words "a  b c".toList = ["a".toList, "b".toList, "c".toList] := by decide

example : SpreadPlain "a  b c".toList ∧ KeyOK "x".toList := by
  simp [SpreadPlain, KeyOK]

example : bind [("x".toList, "a  b c".toList)] (some [renderSpread "x".toList]) =
    ["a".toList, "b".toList, "c".toList] := by
  rw [C02_spread_bind _ _ (by simp [KeyOK]) (by simp [Vars.get, SpreadPlain])]
  decide

/-- the re-split itself, through the theorem -/
example : reparseArguments "a  b c".toList = .ok (some ["a".toList, "b".toList, "c".toList]) := by
  rw [C02_spread_words _ (by simp [SpreadPlain]),
    show words "a  b c".toList = ["a".toList, "b".toList, "c".toList] by decide]
  rfl

/-- an all-space value spreads to no argument at all -/
example : bind [("x".toList, "  ".toList)] (some [renderSpread "x".toList]) = [] := by
  rw [C02_spread_bind _ _ (by simp [KeyOK]) (by simp [Vars.get, SpreadPlain])]
  decide

end Duck
