/-
  C01 on the TRANSLATION of the current source: `parseLineGen` (Generated/ParserFns.lean, produced
  by bin/rust2lean.py from `parse_line` and the functions it calls in duckscript/src/parser.rs on
  every run) parses a rendered line back to the instruction it was rendered from.  The round-trip
  theorems of Props/C01.lean are about the hand-written `parseLine`; `C08_fn_translation_parse_line_suffix`
  proves the two equal for every line, so a change to parser.rs that alters the meaning of
  `parse_line` breaks either that equality or — were the hand model changed along with it — the
  round trip below.
-/
import DuckModel.Props.C01Core
import DuckModel.Props.C08TranslatedFns

namespace Duck
open Duck.Spec Duck.Generated

/-- the translated `parse_line` returns exactly the instruction a line was rendered from — never an
    error, never the index-out-of-range outcome -/
theorem C01_line_roundtrip_translated (ch : Choices) (i : ScriptInstr) (hi : InstrOK i) (hc : ChoicesOK ch) :
    parseLineGen (renderLine ch i) = liftE (.ok (expected i)) := by
  rw [C08_fn_translation_parse_line_suffix, C01_line_roundtrip ch i hi hc]

/-- on every line (rendered or not) the translated function and the hand-written model agree -/
theorem C01_parse_line_is_the_translation (line : Str) :
    parseLineGen line = liftE (parseLine line) :=
  C08_fn_translation_parse_line_suffix line

end Duck
