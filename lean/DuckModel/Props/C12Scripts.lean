/-
  C12 - the script-implemented collection commands, RUN FROM THEIR REGENERATED SOURCE
  (`Generated.scripts`, rewritten from /repo's `script.ds` files on every run), compute their
  specified function (`Coll.exec`, section "script-implemented" of Sdk/Collections.lean - the
  function the theorems of Props/C12.lean relate to the reference model `Spec.Store`).

  `ScriptRun.runScriptCmd name args vars st` = the model of `AliasCommand::run` over the model of
  `eval_instructions` over the parse of the table entry's text, with the native callees
  transcribed (Sdk/ScriptRun.lean).  Every theorem is for every argument list, every variable
  map and every state.

  `CorrectRun scope few vars st spec r` (Lemmas/ScriptRunLemmas.lean) says of a run `r`:
    * its result is the specified function's: the same `Continue` value, or both an `Error`;
    * the caller's variables afterwards are the caller's variables minus those under the
      command's own prefix (`clear`) - untouched when there were too few arguments (`few`); no
      hypothesis about the callees is needed any more (C19's `SemFrame`): they are run;
    * the handle table reads as before (the temporary `::arguments` array is gone again), the
      allocator has drawn exactly one name, the line-context name is restored, the flow-control
      state (call stacks, cached block positions, `end` table) is untouched.

  Hypotheses (both about the model's deterministic allocator standing for `put_handle`'s 20
  random characters):
    * `hfree`: the name the allocator draws next is not live (the allocator assumption of C12,
      a consequence of `AllocInv`);
    * `array_is_empty` only: the argument is not that next name (in the code: nobody can pass the
      random name of the temporary array before it is drawn).  Without it the model's
      `array_is_empty handle:<next>` reads the temporary array itself.  The map / set scripts do
      not need it: their size command rejects the temporary array like any non-map / non-set.
-/
import DuckModel.Lemmas.ScriptRunLemmas
import DuckModel.Lemmas.ScriptLoopConcat
import DuckModel.Lemmas.ScriptLoopSetFromArray
import DuckModel.Lemmas.ScriptLoopArrayConcat
import DuckModel.Lemmas.ScriptLoopMapContainsValueFinal
import DuckModel.Lemmas.ScriptLoopArrayConcatFinal
import DuckModel.Lemmas.ScriptLoopArrayContainsCall
import DuckModel.Lemmas.ScriptLoopArrayJoinFinal

namespace Duck
open Duck.Alias Duck.Coll Duck.ScriptRun Duck.Spec

/-- `array_is_empty` from source = the specified function -/
theorem C12_script_array_is_empty_correct (args : List Str) (vars : Vars) (st : ScriptSt)
    (hfree : tget st.coll.tbl (Coll.handleName st.coll.next) = none)
    (hne : args.head? ≠ some (Coll.handleName st.coll.next)) :
    CorrectRun "scope::array_is_empty".toList (decide (args.length < 1)) vars st
      (Coll.exec st.coll .arrayIsEmpty args).2
      (runScriptCmd "array_is_empty".toList args vars st) := by
  unfold runScriptCmd
  rw [scriptFuel_eq]
  exact sizeScript_correct "array_is_empty".toList "array_length".toList
    Generated.cmd_collections_array_is_empty .arrayLength .arrayIsEmpty
    (fun v => match v with | .list l => some l.length | _ => none)
    (by rfl) (parsesTo_eq (by decide +kernel)) rfl (by decide) (by decide)
    (by decide +kernel) (by decide +kernel)
    (by intro s key rest
        simp only [Coll.exec, cmdArrayLength]
        cases hv : tget s.tbl key with
        | none => rfl
        | some v => cases v <;> rfl)
    (by intro s key rest
        simp only [Coll.exec, cmdArrayIsEmpty]
        cases hv : tget s.tbl key with
        | none => rfl
        | some v =>
          cases v with
          | list l => cases l <;> simp
          | _ => rfl)
    (fun _ => rfl) scriptDepth 99996 args vars st hfree (Or.inl hne)

/-- `map_is_empty` from source = the specified function -/
theorem C12_script_map_is_empty_correct (args : List Str) (vars : Vars) (st : ScriptSt)
    (hfree : tget st.coll.tbl (Coll.handleName st.coll.next) = none) :
    CorrectRun "scope::map_is_empty".toList (decide (args.length < 1)) vars st
      (Coll.exec st.coll .mapIsEmpty args).2
      (runScriptCmd "map_is_empty".toList args vars st) := by
  unfold runScriptCmd
  rw [scriptFuel_eq]
  exact sizeScript_correct "map_is_empty".toList "map_size".toList
    Generated.cmd_collections_map_is_empty .mapSize .mapIsEmpty
    (fun v => match v with | .map m => some m.length | _ => none)
    (by rfl) (parsesTo_eq (by decide +kernel)) rfl (by decide) (by decide)
    (by decide +kernel) (by decide +kernel)
    (by intro s key rest
        simp only [Coll.exec, cmdMapSize]
        cases hv : tget s.tbl key with
        | none => rfl
        | some v => cases v <;> rfl)
    (by intro s key rest
        simp only [Coll.exec, cmdMapIsEmpty]
        cases hv : tget s.tbl key with
        | none => rfl
        | some v =>
          cases v with
          | map l => cases l <;> simp
          | _ => rfl)
    (fun _ => rfl) scriptDepth 99996 args vars st hfree (Or.inr fun _ => rfl)

/-- `set_is_empty` from source = the specified function -/
theorem C12_script_set_is_empty_correct (args : List Str) (vars : Vars) (st : ScriptSt)
    (hfree : tget st.coll.tbl (Coll.handleName st.coll.next) = none) :
    CorrectRun "scope::set_is_empty".toList (decide (args.length < 1)) vars st
      (Coll.exec st.coll .setIsEmpty args).2
      (runScriptCmd "set_is_empty".toList args vars st) := by
  unfold runScriptCmd
  rw [scriptFuel_eq]
  exact sizeScript_correct "set_is_empty".toList "set_size".toList
    Generated.cmd_collections_set_is_empty .setSize .setIsEmpty
    (fun v => match v with | .set x => some x.length | _ => none)
    (by rfl) (parsesTo_eq (by decide +kernel)) rfl (by decide) (by decide)
    (by decide +kernel) (by decide +kernel)
    (by intro s key rest
        simp only [Coll.exec, cmdSetSize]
        cases hv : tget s.tbl key with
        | none => rfl
        | some v => cases v <;> rfl)
    (by intro s key rest
        simp only [Coll.exec, cmdSetIsEmpty]
        cases hv : tget s.tbl key with
        | none => rfl
        | some v =>
          cases v with
          | set l => cases l <;> simp
          | _ => rfl)
    (fun _ => rfl) scriptDepth 99996 args vars st hfree (Or.inr fun _ => rfl)

/-- `map_contains_key` from source = the specified function (a key whose value is the empty
    string IS contained: `map_get` answers `Continue(Some(""))`, the output variable is set) -/
theorem C12_script_map_contains_key_correct (args : List Str) (vars : Vars) (st : ScriptSt)
    (hfree : tget st.coll.tbl (Coll.handleName st.coll.next) = none) :
    CorrectRun "scope::map_contains_key".toList (decide (args.length < 2)) vars st
      (Coll.exec st.coll .mapContainsKey args).2
      (runScriptCmd "map_contains_key".toList args vars st) := by
  unfold runScriptCmd
  rw [scriptFuel_eq]
  exact mck_correct "map_contains_key".toList Generated.cmd_collections_map_contains_key
    (by rfl) (parsesTo_eq (by decide +kernel)) rfl (by decide) (by decide) (by decide)
    scriptDepth 99996 args vars st hfree

/-- the hypothesis of `C12_script_array_is_empty_correct` cannot be dropped IN THE MODEL: with the
    counter allocator the next name can be written down, and then the script reads its own
    temporary argument array (one cell: not empty) where the specified function reports an
    error.  In the code the name is 20 random characters drawn after the arguments were
    written. -/
theorem C12_script_array_is_empty_next_name :
    (runScriptCmd "array_is_empty".toList [Coll.handleName 1] [] {}).1 = .continue (some sFalse) ∧
    (Coll.exec {} .arrayIsEmpty [Coll.handleName 1]).2 = .err := by
  constructor
  · decide +kernel
  · decide +kernel

/-! ### scripts with loops and branches: evaluated instances

`concat`, `unset`, `set_from_array`, `array_concat`, `map_contains_value` run in the model (flow
control of Sdk/ScriptRun.lean); the driver op `srun` compares them with the real commands.  This
section: evaluated instances - and one disagreement between the source-run model and the
specified function, which is the recorded finding of /repo.  The for-all theorems follow below. -/

/-- DISAGREEMENT source-run vs specified function = finding `C12-array-concat-after-error`:
    `array_concat nope` answers `Error` (its validation loop raises `trigger_error` inside
    `for … in`), the for-in iteration entry of that loop stays on the call stack, and the NEXT
    `array_concat nope` resumes the stale iteration, skips the validation of its first argument
    and answers a new empty array - where the specified function (and the documentation) say
    `Error` again.  The real command does what the source-run model does (stream `srun`). -/
theorem C12_script_array_concat_after_error :
    let r1 := runScriptCmd "array_concat".toList ["nope".toList] [] {}
    let r2 := runScriptCmd "array_concat".toList ["nope".toList] [] r1.2.2
    r1.1 = .error "Invalid input, non array handle or array not found.".toList ∧
    r1.2.2.forStack.length = 1 ∧
    r2.1 = .continue (some (Coll.handleName 3)) ∧
    tget r2.2.2.coll.tbl (Coll.handleName 3) = some (.list []) ∧
    (Coll.exec r1.2.2.coll .arrayConcat ["nope".toList]).2 = .err := by
  decide +kernel

/-- evaluated instances of the five scripts with loops (results, variables, table) -/
theorem C12_script_loop_instances :
    let st : ScriptSt := { coll := (Coll.run {} [(.array, ["a".toList, "b".toList, "a".toList]), (.array, []),
      (.map, []), (.mapPut, [Coll.handleName 3, "k".toList, "v".toList])]).1 }
    -- set_from_array: the new set holds the distinct cells; caller variables kept
    (let r := runScriptCmd "set_from_array".toList [Coll.handleName 1] [("x".toList, "y".toList)] st
     r.1 = .continue (some (Coll.handleName 5)) ∧ r.2.1 = [("x".toList, "y".toList)] ∧
       tget r.2.2.coll.tbl (Coll.handleName 5) = some (.set ["a".toList, "b".toList]) ∧
       tget r.2.2.coll.tbl (Coll.handleName 4) = none) ∧
    (runScriptCmd "set_from_array".toList [Coll.handleName 3] [] st).1 =
      .error "Invalid input, non array handle or array not found.".toList ∧
    -- array_concat: cells of all arguments in order; no argument: a new empty array
    (let r := runScriptCmd "array_concat".toList [Coll.handleName 1, Coll.handleName 2, Coll.handleName 1] [] st
     r.1 = .continue (some (Coll.handleName 5)) ∧
       tget r.2.2.coll.tbl (Coll.handleName 5) =
         some (.list (["a", "b", "a", "a", "b", "a"].map fun x => Item.str x.toList))) ∧
    (runScriptCmd "array_concat".toList [] [] st).1 = .continue (some (Coll.handleName 4)) ∧
    -- map_contains_value: the key array made by map_keys is released again
    (let r := runScriptCmd "map_contains_value".toList [Coll.handleName 3, "v".toList] [] st
     r.1 = .continue (some sTrue) ∧ tget r.2.2.coll.tbl (Coll.handleName 5) = none ∧ r.2.2.coll.tbl.length = 3) ∧
    (runScriptCmd "map_contains_value".toList [Coll.handleName 3, "z".toList] [] st).1 = .continue (some sFalse) ∧
    -- concat / unset
    (runScriptCmd "concat".toList ["a b".toList, [], "c".toList] [] st).1 = .continue (some "a bc".toList) ∧
    (runScriptCmd "unset".toList ["x".toList, "nope".toList] [("x".toList, "y".toList), ("z".toList, "1".toList)] st).2.1
      = [("z".toList, "1".toList)] := by
  decide +kernel

/-! ### scripts with a `for … in` loop, for every input (induction over the loop)

The loop runs through the goto machine of `evalInstructions` with the for-in call-stack entry
advancing its iteration counter (Lemmas/ScriptLoopLemmas.lean: `runFor_first`, `runFor_resume`,
`runEnd_for`; per script a loop-invariant lemma by induction over the cells that are left).

Additional hypotheses, all about the flow-control state the caller hands in (each holds in every
state the script itself leaves behind after a run that did not end with an error inside the loop,
`LoopFrame.forStack`, and in the initial state):
  * `NoStaleFor scope st.forStack`: the top of the for-in call stack is not an entry of this
    script (an entry stays behind when a run ends with an error inside the loop - finding
    C12-array-concat-after-error; the next run then RESUMES that iteration);
  * `CacheOK st.forMeta "<scope>::<line>" stop`: the cached block end of the script's `for`
    line, if present, is the right one (only the `for` command writes it);
  * the instruction budget of the model (`scriptFuel`) covers the run: bound linear in the number
    of cells. -/

/-- `concat` from source = the concatenation of its arguments, for every argument list.
    `hempty`: without arguments the script's `for arg in ${scope::concat::arguments}` reads a
    variable the wrapper did not set; the caller's value of it (if any) must not name an array. -/
theorem C12_script_concat_correct (args : List Str) (vars : Vars) (st : ScriptSt)
    (hfree : tget st.coll.tbl (Coll.handleName st.coll.next) = none)
    (hstale : NoStaleFor "scope::concat".toList st.forStack)
    (hcache : CacheOK st.forMeta "scope::concat::2".toList 4)
    (hempty : args = [] → ∀ l, tget st.coll.tbl ((vars.get "scope::concat::arguments".toList).getD []) ≠ some (.list l))
    (hfuel : 3 * args.length + 6 ≤ scriptFuel) :
    (runScriptCmd "concat".toList args vars st).1 = .continue (some args.flatten) ∧
    LookupEq (runScriptCmd "concat".toList args vars st).2.2.coll.tbl st.coll.tbl ∧
    LoopFrame "scope::concat".toList (if args = [] then 0 else 1) (clear "scope::concat".toList vars) [] st
      (runScriptCmd "concat".toList args vars st) := by
  obtain ⟨k, hk⟩ : ∃ k, scriptFuel = k + 3 * args.length + 6 := ⟨scriptFuel - (3 * args.length + 6), by omega⟩
  unfold runScriptCmd
  rw [hk, show scriptDepth = 5 + 1 from rfl, concat_runF 5 k args vars st hstale hcache hempty]
  refine ⟨rfl, ?_, ⟨rfl, ?_, rfl, rfl, rfl, fun _ _ => rfl, ?_, ?_⟩⟩
  · intro h
    by_cases ha : args = []
    · simp [cFinal, ha]
    · simp only [cFinal, ha, if_false, tget_tremove, tget_tinsert]
      by_cases e : h = Coll.handleName st.coll.next
      · simp [e, hfree]
      · simp [e]
  · by_cases ha : args = [] <;> simp [cFinal, ha]
  · intro key hkey
    exact get_forMetaAfter_frame _ _ _ _ (by decide) key hkey
  · intro key hkey
    exact get_put_frame _ _ _ _ (by decide) key hkey

/-- `set_from_array` from source = the specified function, for every argument list, variable map
    and state, up to the name of the new handle (`AgreesAlloc`: the source-run command draws the
    name of its temporary argument array first, the specified function does not have one).
    Hypotheses beyond those of the loop-free scripts:
      * `hfree1`: the second name the allocator draws is not live either;
      * `hok`: the argument is of the class that survives the rebuild / re-parse of the condition
        `if not is_array <arg>` (`ArgOK`, the decidable C09 class; every handle name is in it);
      * `hstale`, `hcI`, `hcF`, `hfuel`: see above; the bound is `3·n + 8` instructions for an
        array of `n` cells.
    The frame: 2 names drawn for a live array (temporary array + the set), both call stacks as
    before; when the argument names no array the answer is `Error` and the if-call entry of the
    validation block stays on the if call stack (`trigger_error` inside `if … end`). -/
theorem C12_script_set_from_array_correct (args : List Str) (vars : Vars) (st : ScriptSt)
    (hfree : tget st.coll.tbl (Coll.handleName st.coll.next) = none)
    (hfree1 : tget st.coll.tbl (Coll.handleName (st.coll.next + 1)) = none)
    (hne : args.head? ≠ some (Coll.handleName st.coll.next))
    (hok : ∀ a, args.head? = some a → ArgOK a = true)
    (hstale : NoStaleFor "scope::set_from_array".toList st.forStack)
    (hcI : IfCacheOK st.ifMeta "scope::set_from_array::1".toList 3)
    (hcF : CacheOK st.forMeta "scope::set_from_array::6".toList 8)
    (hfuel : ∀ a, args.head? = some a → 3 * arrLen st.coll.tbl a + 8 ≤ scriptFuel) :
    AgreesAlloc st.coll (Coll.exec st.coll .setFromArray args)
      (runScriptCmd "set_from_array".toList args vars st).1
      (runScriptCmd "set_from_array".toList args vars st).2.2.coll.tbl ∧
    LoopFrame "scope::set_from_array".toList
      (if args = [] then 0 else if headIsArray st.coll.tbl args then 2 else 1)
      (if args = [] then vars else clear "scope::set_from_array".toList vars)
      (if args = [] ∨ headIsArray st.coll.tbl args = true then []
       else [ifEntry 1 3 "scope::set_from_array".toList]) st
      (runScriptCmd "set_from_array".toList args vars st) := by
  cases args with
  | nil =>
    unfold runScriptCmd
    rw [runScriptCmdF_entry _ _ _ _ _ sfa_findScript sfa_parses, aliasRun_few _ _ _ _ _ _ _ (by decide)]
    refine ⟨⟨⟨_, rfl⟩, fun _ => rfl⟩, ⟨rfl, rfl, rfl, rfl, rfl, fun _ _ => rfl, fun _ _ => rfl, fun _ _ => rfl⟩⟩
  | cons a rest =>
    have hne' : a ≠ Coll.handleName st.coll.next := fun e => hne (by simp [e])
    have hfu := hfuel a rfl
    obtain ⟨k, hk⟩ : ∃ k, scriptFuel = k + 3 * arrLen st.coll.tbl a + 8 :=
      ⟨scriptFuel - (3 * arrLen st.coll.tbl a + 8), by omega⟩
    have hSA : Coll.handleName (st.coll.next + 1) ≠ Coll.handleName st.coll.next :=
      fun e => by have := Coll.handleName_inj e; omega
    have hkey : ∀ n, underPrefix sScope (flowKey (pubSt sScope (a :: rest) st) n) = true :=
      fun n => underPrefix_flowKey (pubSt sScope (a :: rest) st) n
    unfold runScriptCmd
    rw [hk, show scriptDepth = 4 + 2 from rfl,
      sfa_runF 4 k a rest vars st hfree hfree1 hne' (hok a rfl) hstale hcI hcF]
    have herr : (∀ l, tget st.coll.tbl a ≠ some (.list l)) →
        AgreesAlloc st.coll (Coll.exec st.coll .setFromArray (a :: rest)) (.error sMsg)
          (sfaErrFinal (a :: rest) st).coll.tbl ∧
        LoopFrame sScope 1 (clear sScope vars) [ifEntry 1 3 sScope] st
          (.error sMsg, clear sScope vars, sfaErrFinal (a :: rest) st) := by
      intro hnl
      have hspec : (Coll.exec st.coll .setFromArray (a :: rest)).2 = .err := by
        simp only [Coll.exec, cmdSetFromArray]
      refine ⟨?_, ⟨rfl, rfl, rfl, rfl, rfl, ?_, fun _ _ => rfl, ?_⟩⟩
      · unfold AgreesAlloc
        rw [hspec]
        refine ⟨⟨_, rfl⟩, ?_⟩
        intro h
        simp only [sfaErrFinal, pubSt, tget_tremove, tget_tinsert]
        by_cases e : h = Coll.handleName st.coll.next
        · simp [e, hfree]
        · simp [e]
      · intro key hkey'
        exact get_ifMetaAfter_frame sScope _ _ _ (hkey 1) key hkey'
      · intro key hkey'
        exact get_put_frame sScope _ _ _ (hkey 3) key hkey'
    cases hv : tget st.coll.tbl a with
    | none =>
      have := herr (by intro l; rw [hv]; intro e; cases e)
      simp only [headIsArray, hv, List.cons_ne_nil, if_false, false_or, Bool.false_eq_true]
      exact this
    | some v =>
      cases v with
      | map m =>
        have := herr (by intro l; rw [hv]; intro e; cases e)
        simp only [headIsArray, hv, List.cons_ne_nil, if_false, false_or, Bool.false_eq_true]
        exact this
      | set x =>
        have := herr (by intro l; rw [hv]; intro e; cases e)
        simp only [headIsArray, hv, List.cons_ne_nil, if_false, false_or, Bool.false_eq_true]
        exact this
      | other g =>
        have := herr (by intro l; rw [hv]; intro e; cases e)
        simp only [headIsArray, hv, List.cons_ne_nil, if_false, false_or, Bool.false_eq_true]
        exact this
      | list L =>
        have hinv := sfaTbl_inv (pubSt sScope (a :: rest) st) L
        simp only [headIsArray, hv, List.cons_ne_nil, if_false, if_true, false_or]
        refine ⟨?_, ⟨rfl, rfl, rfl, rfl, rfl, ?_, ?_, ?_⟩⟩
        · unfold AgreesAlloc
          simp only [Coll.exec, cmdSetFromArray, hv, putHandle]
          refine ⟨Coll.handleName st.coll.next, Coll.handleName (st.coll.next + 1), rfl, rfl, hfree1, ?_, ?_, ?_⟩
          · simp only [sfaOkFinal, tget_tremove]
            rw [if_neg hSA]
            rw [show (pubSt sScope (a :: rest) st).coll.next = st.coll.next + 1 from rfl] at hinv
            rw [hinv.set]; rfl
          · simp only [sfaOkFinal, tget_tremove]
            rw [if_neg hSA]
            rw [show (pubSt sScope (a :: rest) st).coll.next = st.coll.next + 1 from rfl] at hinv
            rw [hinv.set, tget_tinsert, if_pos rfl]
            rfl
          · intro key hkey'
            simp only [sfaOkFinal, tget_tremove]
            rw [show (pubSt sScope (a :: rest) st).coll.next = st.coll.next + 1 from rfl] at hinv
            by_cases e : key = Coll.handleName st.coll.next
            · simp [e, hfree]
            · rw [if_neg e, hinv.other key hkey', tget_tinsert, if_neg hkey']
              simp only [pubSt, tget_tinsert]
              rw [if_neg e]
        · intro key hkey'
          exact get_ifMetaAfter_frame sScope _ _ _ (hkey 1) key hkey'
        · intro key hkey'
          exact get_forMetaAfter_frame sScope _ _ _ (hkey 6) key hkey'
        · intro key hkey'
          show ((_ : KV Str).put _ _).get key = _
          rw [get_put_frame sScope _ _ _ (hkey 8) key hkey', get_put_frame sScope _ _ _ (hkey 3) key hkey']
          rfl

/-- the hypotheses about the flow-control state are INVARIANTS: they hold again in the state a
    `concat` run leaves (and `LoopFrame` says the run does not disturb those of the other
    scripts: call stacks as before, caches changed only under the own prefix) -/
theorem C12_script_concat_reestablishes (args : List Str) (vars : Vars) (st : ScriptSt)
    (hstale : NoStaleFor "scope::concat".toList st.forStack)
    (hcache : CacheOK st.forMeta "scope::concat::2".toList 4)
    (hempty : args = [] → ∀ l, tget st.coll.tbl ((vars.get "scope::concat::arguments".toList).getD []) ≠ some (.list l))
    (hfuel : 3 * args.length + 6 ≤ scriptFuel) :
    NoStaleFor "scope::concat".toList (runScriptCmd "concat".toList args vars st).2.2.forStack ∧
    CacheOK (runScriptCmd "concat".toList args vars st).2.2.forMeta "scope::concat::2".toList 4 := by
  obtain ⟨k, hk⟩ : ∃ k, scriptFuel = k + 3 * args.length + 6 := ⟨scriptFuel - (3 * args.length + 6), by omega⟩
  unfold runScriptCmd
  rw [hk, show scriptDepth = 5 + 1 from rfl, concat_runF 5 k args vars st hstale hcache hempty]
  exact ⟨hstale, cacheOK_forMetaAfter _ _ _ hcache⟩

/-- the same for `set_from_array`, whichever way the run ends (in particular a run that answers
    `Error` leaves NO for-in entry behind: its `trigger_error` is outside the loop - unlike
    `array_concat`, finding C12-array-concat-after-error) -/
theorem C12_script_set_from_array_reestablishes (args : List Str) (vars : Vars) (st : ScriptSt)
    (hfree : tget st.coll.tbl (Coll.handleName st.coll.next) = none)
    (hfree1 : tget st.coll.tbl (Coll.handleName (st.coll.next + 1)) = none)
    (hne : args.head? ≠ some (Coll.handleName st.coll.next))
    (hok : ∀ a, args.head? = some a → ArgOK a = true)
    (hstale : NoStaleFor "scope::set_from_array".toList st.forStack)
    (hcI : IfCacheOK st.ifMeta "scope::set_from_array::1".toList 3)
    (hcF : CacheOK st.forMeta "scope::set_from_array::6".toList 8)
    (hfuel : ∀ a, args.head? = some a → 3 * arrLen st.coll.tbl a + 8 ≤ scriptFuel) :
    NoStaleFor "scope::set_from_array".toList (runScriptCmd "set_from_array".toList args vars st).2.2.forStack ∧
    IfCacheOK (runScriptCmd "set_from_array".toList args vars st).2.2.ifMeta "scope::set_from_array::1".toList 3 ∧
    CacheOK (runScriptCmd "set_from_array".toList args vars st).2.2.forMeta "scope::set_from_array::6".toList 8 := by
  cases args with
  | nil =>
    unfold runScriptCmd
    rw [runScriptCmdF_entry _ _ _ _ _ sfa_findScript sfa_parses, aliasRun_few _ _ _ _ _ _ _ (by decide)]
    exact ⟨hstale, hcI, hcF⟩
  | cons a rest =>
    have hne' : a ≠ Coll.handleName st.coll.next := fun e => hne (by simp [e])
    have hfu := hfuel a rfl
    obtain ⟨k, hk⟩ : ∃ k, scriptFuel = k + 3 * arrLen st.coll.tbl a + 8 :=
      ⟨scriptFuel - (3 * arrLen st.coll.tbl a + 8), by omega⟩
    unfold runScriptCmd
    rw [hk, show scriptDepth = 4 + 2 from rfl,
      sfa_runF 4 k a rest vars st hfree hfree1 hne' (hok a rfl) hstale hcI hcF]
    have herr : NoStaleFor sScope (sfaErrFinal (a :: rest) st).forStack ∧
        IfCacheOK (sfaErrFinal (a :: rest) st).ifMeta "scope::set_from_array::1".toList 3 ∧
        CacheOK (sfaErrFinal (a :: rest) st).forMeta "scope::set_from_array::6".toList 8 :=
      ⟨hstale, ifCacheOK_ifMetaAfter _ _ _ hcI, hcF⟩
    cases tget st.coll.tbl a with
    | none => exact herr
    | some v =>
      cases v with
      | list L => exact ⟨hstale, ifCacheOK_ifMetaAfter _ _ _ hcI, cacheOK_forMetaAfter _ _ _ hcF⟩
      | map m => exact herr
      | set x => exact herr
      | other g => exact herr

/-- the mechanism of finding C12-array-concat-after-error FOR EVERY INPUT: whenever the first
    argument of `array_concat` names no array (any further arguments, any variables, any state
    satisfying the invariants), the run answers `Error` - like the specified function - from
    INSIDE its validation loop and leaves that loop's for-in entry (iteration 1) on top of the
    for-in call stack: `NoStaleFor` is false afterwards, which is the hypothesis every loop
    theorem above needs (and the next `array_concat` resumes the stale iteration:
    `C12_script_array_concat_after_error`). -/
theorem C12_script_array_concat_error_leaves_entry (a : Str) (rest : List Str) (vars : Vars) (st : ScriptSt)
    (hne : a ≠ Coll.handleName st.coll.next) (hok : ArgOK a = true)
    (hnl : ∀ l, tget st.coll.tbl a ≠ some (.list l))
    (hstale : NoStaleFor "scope::array_concat".toList st.forStack)
    (hcF : CacheOK st.forMeta "scope::array_concat::1".toList 5)
    (hcI : IfCacheOK st.ifMeta "scope::array_concat::2".toList 4) :
    (runScriptCmd "array_concat".toList (a :: rest) vars st).1 =
      .error "Invalid input, non array handle or array not found.".toList ∧
    (Coll.exec st.coll .arrayConcat (a :: rest)).2 = .err ∧
    (runScriptCmd "array_concat".toList (a :: rest) vars st).2.2.forStack =
      { iteration := 1, start := 1, stop := 5, ctx := "scope::array_concat".toList } :: st.forStack ∧
    ¬ NoStaleFor "scope::array_concat".toList (runScriptCmd "array_concat".toList (a :: rest) vars st).2.2.forStack := by
  unfold runScriptCmd
  rw [scriptFuel_eq, show scriptDepth = 4 + 2 from rfl, ac_runF_err 4 99996 a rest vars st hne hok hnl hstale hcF hcI]
  refine ⟨rfl, ?_, rfl, ?_⟩
  · simp only [Coll.exec, cmdArrayConcat, lists?]
  · intro h
    exact h _ rfl rfl


/-! ### `map_contains_value`: a script command inside a command condition, a loop with an early exit

`not map_is_empty ${argument::1}` runs the SCRIPT `map_is_empty` from its source, nested (one
more temporary argument array, one more allocator name; the nested wrapper clears ITS prefix
`scope::map_is_empty::` in the same variable map: the caller's variables under that prefix are
gone after `map_contains_value` - in /repo too).  The loop runs over the key array `map_keys`
made (ascending in the model, hash order in the code); a hit releases the key array INSIDE the
loop, the `for` line then finds no next cell and leaves the loop (early exit), `set ${found}`
answers `true`.  Each passed `if` leaves its if-call entry on the if call stack (`end_if` never
pops): `mcvPushed`.

Hypotheses beyond those of `set_from_array`:
  * `hfree2`: three names are drawn (argument array, nested argument array, key array);
  * `hc4` / `hc12` / `hc8`: the cached block ends of the script's three flow lines are right;
  * `hkh`: for an EMPTY map the tail `release ${scope::map_contains_value::key_array_handle}`
    reads a variable the body never set: the caller's value of it (if any) must not name a live
    handle (it would be released);
  * `hnodup`: the map's keys are pairwise different (an invariant of the collection model's
    maps, `minsert` keeps it; the specified function looks at all entries, the script at the
    entry `map_get` finds for each key).
The ANSWER does not depend on the order of the key array: `C12_script_map_contains_value_key_order`. -/

/-- fewer than two arguments: `Error`, nothing touched - like the specified function -/
theorem C12_script_map_contains_value_few (args : List Str) (vars : Vars) (st : ScriptSt) (hfew : args.length < 2) :
    runScriptCmd "map_contains_value".toList args vars st = (.error invalidArgsMsg, vars, st) ∧
    (Coll.exec st.coll .mapContainsValue args).2 = .err := by
  constructor
  · unfold runScriptCmd
    rw [mcv_entry, aliasRun_few _ _ _ _ _ _ _ hfew]
  · match args, hfew with
    | [], _ => rfl
    | [_], _ => rfl

/-- the answer is the same over every key order: for ANY list `K` with the elements of the
    map's keys, "some key of `K` carries the value" (what the loop computes, `mcv_loop`, for any
    `K` in the key array) is "the value occurs among the map's values" (the specified function) -/
theorem C12_script_map_contains_value_key_order (m : List (Str × Item)) (hn : (m.map Prod.fst).Nodup) (v : Str)
    (K K' : List Str) (hK : ∀ k, k ∈ K ↔ k ∈ m.map Prod.fst) (hK' : ∀ k, k ∈ K' ↔ k ∈ m.map Prod.fst) :
    K.any (hitB m v) = K'.any (hitB m v) ∧
    K.any (hitB m v) = (m.map fun kv => kv.2.render).contains v := by
  rw [any_hitB_eq m hn v K hK, any_hitB_eq m hn v K' hK']
  exact ⟨rfl, rfl⟩

/-- `map_contains_value` from source = the specified function, for every map handle / value /
    further arguments, every variable map and state: the same answer (`true` / `false` / both an
    `Error`), the table lookup-equal to the caller's (both temporary arrays and the key array are
    gone again), and the frame. -/
theorem C12_script_map_contains_value_correct (a v : Str) (rest : List Str) (vars : Vars) (st : ScriptSt)
    (hfree : tget st.coll.tbl (Coll.handleName st.coll.next) = none)
    (hfree1 : tget st.coll.tbl (Coll.handleName (st.coll.next + 1)) = none)
    (hfree2 : tget st.coll.tbl (Coll.handleName (st.coll.next + 2)) = none)
    (hok : ArgOK a = true)
    (hstale : NoStaleFor "scope::map_contains_value".toList st.forStack)
    (hc4 : IfCacheOK st.ifMeta "scope::map_contains_value::4".toList 16)
    (hc12 : IfCacheOK st.ifMeta "scope::map_contains_value::12".toList 14)
    (hc8 : CacheOK st.forMeta "scope::map_contains_value::8".toList 15)
    (hkh : tget st.coll.tbl ((vars.get "scope::map_contains_value::key_array_handle".toList).getD []) = none)
    (hnodup : ∀ m, tget st.coll.tbl a = some (.map m) → (m.map Prod.fst).Nodup)
    (hfuel : 6 * mapLen st.coll.tbl a + 16 ≤ scriptFuel) :
    Agrees (runScriptCmd "map_contains_value".toList (a :: v :: rest) vars st).1
      (Coll.exec st.coll .mapContainsValue (a :: v :: rest)).2 ∧
    LookupEq (runScriptCmd "map_contains_value".toList (a :: v :: rest) vars st).2.2.coll.tbl st.coll.tbl ∧
    LoopFrame "scope::map_contains_value".toList (mcvAlloc st.coll.tbl a)
      (clear "scope::map_contains_value".toList (clear "scope::map_is_empty".toList vars))
      (mcvPushed st.coll.tbl a v) st
      (runScriptCmd "map_contains_value".toList (a :: v :: rest) vars st) := by
  obtain ⟨k, hk⟩ : ∃ k, scriptFuel = k + 6 * mapLen st.coll.tbl a + 16 :=
    ⟨scriptFuel - (6 * mapLen st.coll.tbl a + 16), by omega⟩
  obtain ⟨r, hrun, hpost⟩ := mcv_call 4 a v rest vars st hfree hfree1 hfree2 hok hstale
    (by rw [mcv_keys.1]; exact hc4) (by rw [mcv_keys.2.1]; exact hc12) (by rw [mcv_keys.2.2]; exact hc8) hkh
  unfold runScriptCmd
  rw [hk, show scriptDepth = 4 + 2 from rfl, hrun k]
  refine ⟨?_, hpost.tbl, hpost.frame⟩
  rw [hpost.res]
  unfold mcvRes
  simp only [Coll.exec, cmdMapContainsValue]
  cases hv : tget st.coll.tbl a with
  | none => trivial
  | some w =>
    cases w with
    | map m =>
      show some (boolStr _) = some (boolStr _)
      rw [any_hitB_eq m (hnodup m hv) v _ (fun k => mem_sortStr k _)]
    | _ => trivial

/-- the hypotheses about the flow-control state hold again after every run of
    `map_contains_value` (no for-in entry of the script stays: a hit leaves the loop through the
    `for` line, not through an error) -/
theorem C12_script_map_contains_value_reestablishes (a v : Str) (rest : List Str) (vars : Vars) (st : ScriptSt)
    (hfree : tget st.coll.tbl (Coll.handleName st.coll.next) = none)
    (hfree1 : tget st.coll.tbl (Coll.handleName (st.coll.next + 1)) = none)
    (hfree2 : tget st.coll.tbl (Coll.handleName (st.coll.next + 2)) = none)
    (hok : ArgOK a = true)
    (hstale : NoStaleFor "scope::map_contains_value".toList st.forStack)
    (hc4 : IfCacheOK st.ifMeta "scope::map_contains_value::4".toList 16)
    (hc12 : IfCacheOK st.ifMeta "scope::map_contains_value::12".toList 14)
    (hc8 : CacheOK st.forMeta "scope::map_contains_value::8".toList 15)
    (hkh : tget st.coll.tbl ((vars.get "scope::map_contains_value::key_array_handle".toList).getD []) = none)
    (hfuel : 6 * mapLen st.coll.tbl a + 16 ≤ scriptFuel) :
    NoStaleFor "scope::map_contains_value".toList (runScriptCmd "map_contains_value".toList (a :: v :: rest) vars st).2.2.forStack ∧
    IfCacheOK (runScriptCmd "map_contains_value".toList (a :: v :: rest) vars st).2.2.ifMeta "scope::map_contains_value::4".toList 16 ∧
    IfCacheOK (runScriptCmd "map_contains_value".toList (a :: v :: rest) vars st).2.2.ifMeta "scope::map_contains_value::12".toList 14 ∧
    CacheOK (runScriptCmd "map_contains_value".toList (a :: v :: rest) vars st).2.2.forMeta "scope::map_contains_value::8".toList 15 := by
  obtain ⟨k, hk⟩ : ∃ k, scriptFuel = k + 6 * mapLen st.coll.tbl a + 16 :=
    ⟨scriptFuel - (6 * mapLen st.coll.tbl a + 16), by omega⟩
  obtain ⟨r, hrun, hpost⟩ := mcv_call 4 a v rest vars st hfree hfree1 hfree2 hok hstale
    (by rw [mcv_keys.1]; exact hc4) (by rw [mcv_keys.2.1]; exact hc12) (by rw [mcv_keys.2.2]; exact hc8) hkh
  unfold runScriptCmd
  rw [hk, show scriptDepth = 4 + 2 from rfl, hrun k]
  refine ⟨by rw [hpost.frame.forStack]; exact hstale, ?_, ?_, ?_⟩
  · rw [← mcv_keys.1]; exact hpost.c4
  · rw [← mcv_keys.2.1]; exact hpost.c12
  · rw [← mcv_keys.2.2]; exact hpost.c8


/-! ### `array_concat`, success path: nested loops

For every argument list whose elements all name live arrays (`hlive`; each of the decidable C09
class `ArgOK`, which every handle name is): the validation loop passes (3 instructions per
argument), `array` draws the second allocator name, the outer loop runs the inner loop once per
argument (`array_push` per cell; the inner `for` line re-enters its block lookup on every outer
iteration), `set ${array}` answers the handle.  The other path (`hlive` false at the first
argument) is `C12_script_array_concat_error_leaves_entry`. -/

/-- `array_concat` from source = the specified function up to the NAME of the new handle
    (`AgreesAlloc`), for every non-empty argument list of live arrays, every variable map and
    state; the frame: 2 names drawn, variables = the caller's minus the command's prefix, both
    call stacks as before, caches changed only under the own prefix.  Instruction bound
    `6·n + 3·(total number of cells) + 9`. -/
theorem C12_script_array_concat_correct (a : Str) (rest : List Str) (vars : Vars) (st : ScriptSt)
    (hfree : tget st.coll.tbl (Coll.handleName st.coll.next) = none)
    (hfree1 : tget st.coll.tbl (Coll.handleName (st.coll.next + 1)) = none)
    (hlive : ∀ x ∈ a :: rest, ∃ l, tget st.coll.tbl x = some (.list l))
    (hok : ∀ x ∈ a :: rest, ArgOK x = true)
    (hstale : NoStaleFor "scope::array_concat".toList st.forStack)
    (hc1 : CacheOK st.forMeta "scope::array_concat::1".toList 5)
    (hc2 : IfCacheOK st.ifMeta "scope::array_concat::2".toList 4)
    (hc9 : CacheOK st.forMeta "scope::array_concat::9".toList 13)
    (hc10 : CacheOK st.forMeta "scope::array_concat::10".toList 12)
    (hfuel : 6 * (a :: rest).length + 3 * (acCells st.coll.tbl (a :: rest)).length + 9 ≤ scriptFuel) :
    AgreesAlloc st.coll (Coll.exec st.coll .arrayConcat (a :: rest))
      (runScriptCmd "array_concat".toList (a :: rest) vars st).1
      (runScriptCmd "array_concat".toList (a :: rest) vars st).2.2.coll.tbl ∧
    LoopFrame "scope::array_concat".toList 2 (clear "scope::array_concat".toList vars) [] st
      (runScriptCmd "array_concat".toList (a :: rest) vars st) := by
  have hcost := acCost_eq st.coll.tbl (a :: rest)
  obtain ⟨k, hk⟩ : ∃ k, scriptFuel = k + 3 * (a :: rest).length + acCost st.coll.tbl (a :: rest) + 9 :=
    ⟨scriptFuel - (3 * (a :: rest).length + acCost st.coll.tbl (a :: rest) + 9), by omega⟩
  obtain ⟨r, hrun, hpost⟩ := ac_call 4 a rest vars st hfree hfree1 (fun x hx => ⟨hok x hx, hlive x hx⟩) hstale
    (by rw [ac_keys.1]; exact hc1) (by rw [ac_keys.2.1]; exact hc2) (by rw [ac_keys.2.2.1]; exact hc9)
    (by rw [ac_keys.2.2.2]; exact hc10)
  unfold runScriptCmd
  rw [hk, show scriptDepth = 4 + 2 from rfl, hrun k]
  refine ⟨?_, hpost.frame⟩
  obtain ⟨ls, hls⟩ := lists?_of_live st.coll.tbl (a :: rest) hlive
  unfold AgreesAlloc
  simp only [Coll.exec, cmdArrayConcat, hls, putHandle]
  refine ⟨Coll.handleName st.coll.next, Coll.handleName (st.coll.next + 1), rfl, hpost.res, hfree1, ?_, ?_, hpost.other⟩
  · rw [hpost.arr]; rfl
  · rw [hpost.arr, tget_tinsert, if_pos rfl, acCells_lists st.coll.tbl (a :: rest) ls hls]

/-- `array_concat` WITHOUT arguments = the specified function (a new empty array; same handle
    name: no temporary argument array is made).  `hempty`: the script's two loops read the
    caller's variable `scope::array_concat::arguments` (the wrapper sets it only for a non-empty
    argument list); its value (if any) must not name an array. -/
theorem C12_script_array_concat_empty (vars : Vars) (st : ScriptSt)
    (hfree : tget st.coll.tbl (Coll.handleName st.coll.next) = none)
    (hstale : NoStaleFor "scope::array_concat".toList st.forStack)
    (hc1 : CacheOK st.forMeta "scope::array_concat::1".toList 5)
    (hc9 : CacheOK st.forMeta "scope::array_concat::9".toList 13)
    (hempty : ∀ l, tget st.coll.tbl ((vars.get "scope::array_concat::arguments".toList).getD []) ≠ some (.list l)) :
    AgreesAlloc st.coll (Coll.exec st.coll .arrayConcat [])
      (runScriptCmd "array_concat".toList [] vars st).1
      (runScriptCmd "array_concat".toList [] vars st).2.2.coll.tbl ∧
    (runScriptCmd "array_concat".toList [] vars st).2.1 = clear "scope::array_concat".toList vars ∧
    (runScriptCmd "array_concat".toList [] vars st).2.2.forStack = st.forStack ∧
    (runScriptCmd "array_concat".toList [] vars st).2.2.ifStack = st.ifStack ∧
    (runScriptCmd "array_concat".toList [] vars st).2.2.ctx = st.ctx := by
  unfold runScriptCmd
  rw [show scriptFuel = 99991 + 9 from rfl, show scriptDepth = 5 + 1 from rfl,
    ac_runF_nil 5 99991 vars st hstale (by rw [ac_keys.1]; exact hc1) (by rw [ac_keys.2.2.1]; exact hc9) hempty]
  refine ⟨?_, rfl, rfl, rfl, rfl⟩
  unfold AgreesAlloc
  simp only [Coll.exec, cmdArrayConcat, lists?, putHandle]
  refine ⟨Coll.handleName st.coll.next, Coll.handleName st.coll.next, rfl, rfl, hfree, ?_, ?_, ?_⟩
  · show (tget (tinsert st.coll.tbl (Coll.handleName st.coll.next) (.list [])) (Coll.handleName st.coll.next)).isSome = true
    rw [tget_tinsert, if_pos rfl]; rfl
  · show tget (tinsert st.coll.tbl (Coll.handleName st.coll.next) (.list [])) _ = tget (tinsert st.coll.tbl _ _) _
    rfl
  · intro k hk
    show tget (tinsert st.coll.tbl (Coll.handleName st.coll.next) (.list [])) k = _
    rw [tget_tinsert, if_neg hk]

/-- the hypotheses about the flow-control state hold again after a successful `array_concat`
    (the for-in entries of all three loops are popped; contrast
    `C12_script_array_concat_error_leaves_entry`) -/
theorem C12_script_array_concat_reestablishes (a : Str) (rest : List Str) (vars : Vars) (st : ScriptSt)
    (hfree : tget st.coll.tbl (Coll.handleName st.coll.next) = none)
    (hfree1 : tget st.coll.tbl (Coll.handleName (st.coll.next + 1)) = none)
    (hlive : ∀ x ∈ a :: rest, ∃ l, tget st.coll.tbl x = some (.list l))
    (hok : ∀ x ∈ a :: rest, ArgOK x = true)
    (hstale : NoStaleFor "scope::array_concat".toList st.forStack)
    (hc1 : CacheOK st.forMeta "scope::array_concat::1".toList 5)
    (hc2 : IfCacheOK st.ifMeta "scope::array_concat::2".toList 4)
    (hc9 : CacheOK st.forMeta "scope::array_concat::9".toList 13)
    (hc10 : CacheOK st.forMeta "scope::array_concat::10".toList 12)
    (hfuel : 6 * (a :: rest).length + 3 * (acCells st.coll.tbl (a :: rest)).length + 9 ≤ scriptFuel) :
    NoStaleFor "scope::array_concat".toList (runScriptCmd "array_concat".toList (a :: rest) vars st).2.2.forStack ∧
    CacheOK (runScriptCmd "array_concat".toList (a :: rest) vars st).2.2.forMeta "scope::array_concat::1".toList 5 ∧
    IfCacheOK (runScriptCmd "array_concat".toList (a :: rest) vars st).2.2.ifMeta "scope::array_concat::2".toList 4 ∧
    CacheOK (runScriptCmd "array_concat".toList (a :: rest) vars st).2.2.forMeta "scope::array_concat::9".toList 13 ∧
    CacheOK (runScriptCmd "array_concat".toList (a :: rest) vars st).2.2.forMeta "scope::array_concat::10".toList 12 := by
  have hcost := acCost_eq st.coll.tbl (a :: rest)
  obtain ⟨k, hk⟩ : ∃ k, scriptFuel = k + 3 * (a :: rest).length + acCost st.coll.tbl (a :: rest) + 9 :=
    ⟨scriptFuel - (3 * (a :: rest).length + acCost st.coll.tbl (a :: rest) + 9), by omega⟩
  obtain ⟨r, hrun, hpost⟩ := ac_call 4 a rest vars st hfree hfree1 (fun x hx => ⟨hok x hx, hlive x hx⟩) hstale
    (by rw [ac_keys.1]; exact hc1) (by rw [ac_keys.2.1]; exact hc2) (by rw [ac_keys.2.2.1]; exact hc9)
    (by rw [ac_keys.2.2.2]; exact hc10)
  unfold runScriptCmd
  rw [hk, show scriptDepth = 4 + 2 from rfl, hrun k]
  refine ⟨by rw [hpost.frame.forStack]; exact hstale, ?_, ?_, ?_, ?_⟩
  · rw [← ac_keys.1]; exact hpost.c1
  · rw [← ac_keys.2.1]; exact hpost.c2
  · rw [← ac_keys.2.2.1]; exact hpost.c9
  · rw [← ac_keys.2.2.2]; exact hpost.c10


/-! ### `array_contains`: a loop that is left by unsetting the handle variable, `calc` in the body

No value of the caller is re-read as script text by this body: the searched value and the cells
reach `equals` through `${…}` bindings only, the conditions are `if ${found}` on `true` / `false`.
So NO class restriction on the arguments (no `ArgOK`) is needed - every handle text, every value.
Hypotheses besides the usual ones:
  * `hne`: the first argument is not the (not yet drawn) name of the temporary argument array
    (counter-allocator artefact, as for `array_is_empty`);
  * `hE`: the EMPTY string names no array: after a hit the script unsets `argument::1` and the
    `for` line reads the handle `""`;
  * `hfuel`: the budget covers `7·n + 12` instructions (then the counter stays far below 2^53 and
    `calc ${counter} + 1` prints a plain numeral: `runCalc_succ`). -/

/-- fewer than two arguments: `Error`, nothing touched - like the specified function -/
theorem C12_script_array_contains_few (args : List Str) (vars : Vars) (st : ScriptSt) (hfew : args.length < 2) :
    runScriptCmd "array_contains".toList args vars st = (.error invalidArgsMsg, vars, st) ∧
    (Coll.exec st.coll .arrayContains args).2 = .err := by
  constructor
  · unfold runScriptCmd
    rw [kc_entry, aliasRun_few _ _ _ _ _ _ _ hfew]
  · match args, hfew with
    | [], _ => rfl
    | [_], _ => rfl

/-- `array_contains` from source = the specified function (index of the first equal cell, else
    `false`; `false` for a handle that names no array), for every handle text, every value, every
    variable map and state; the table reads as before; the frame (a hit leaves the entry of its
    `if` block on the if call stack). -/
theorem C12_script_array_contains_correct (a v : Str) (rest : List Str) (vars : Vars) (st : ScriptSt)
    (hfree : tget st.coll.tbl (Coll.handleName st.coll.next) = none)
    (hne : a ≠ Coll.handleName st.coll.next)
    (hstale : NoStaleFor "scope::array_contains".toList st.forStack)
    (hc5 : CacheOK st.forMeta "scope::array_contains::5".toList 14)
    (hc8 : IfCacheOK st.ifMeta "scope::array_contains::8".toList 11)
    (hE : ∀ l, tget st.coll.tbl [] ≠ some (.list l))
    (hfuel : 7 * arrLen st.coll.tbl a + 12 ≤ scriptFuel) :
    Agrees (runScriptCmd "array_contains".toList (a :: v :: rest) vars st).1
      (Coll.exec st.coll .arrayContains (a :: v :: rest)).2 ∧
    LookupEq (runScriptCmd "array_contains".toList (a :: v :: rest) vars st).2.2.coll.tbl st.coll.tbl ∧
    LoopFrame "scope::array_contains".toList 1 (clear "scope::array_contains".toList vars)
      (if kcHit st.coll.tbl a v then [ifEntry 8 11 "scope::array_contains".toList] else []) st
      (runScriptCmd "array_contains".toList (a :: v :: rest) vars st) := by
  obtain ⟨k, hk⟩ : ∃ k, scriptFuel = k + 7 * arrLen st.coll.tbl a + 12 :=
    ⟨scriptFuel - (7 * arrLen st.coll.tbl a + 12), by omega⟩
  have hlen : arrLen st.coll.tbl a < Calc.two53 := by
    have : scriptFuel = 100000 := rfl
    unfold Calc.two53; omega
  obtain ⟨r, hrun, hpost⟩ := kc_call 5 a v rest vars st hfree hne hstale
    (by rw [kc_keys.1]; exact hc5) (by rw [kc_keys.2]; exact hc8) hE hlen
  unfold runScriptCmd
  rw [hk, show scriptDepth = 5 + 1 from rfl, hrun k]
  refine ⟨?_, hpost.tbl, hpost.frame⟩
  rw [hpost.res]
  unfold kcResT kcRes
  simp only [Coll.exec, cmdArrayContains]
  cases hv : tget st.coll.tbl a with
  | none => exact rfl
  | some w =>
    cases w with
    | list l =>
      simp only
      cases indexOfStr v (l.map Item.render) 0 <;> exact rfl
    | _ => exact rfl

theorem C12_script_array_contains_reestablishes (a v : Str) (rest : List Str) (vars : Vars) (st : ScriptSt)
    (hfree : tget st.coll.tbl (Coll.handleName st.coll.next) = none)
    (hne : a ≠ Coll.handleName st.coll.next)
    (hstale : NoStaleFor "scope::array_contains".toList st.forStack)
    (hc5 : CacheOK st.forMeta "scope::array_contains::5".toList 14)
    (hc8 : IfCacheOK st.ifMeta "scope::array_contains::8".toList 11)
    (hE : ∀ l, tget st.coll.tbl [] ≠ some (.list l))
    (hfuel : 7 * arrLen st.coll.tbl a + 12 ≤ scriptFuel) :
    NoStaleFor "scope::array_contains".toList (runScriptCmd "array_contains".toList (a :: v :: rest) vars st).2.2.forStack ∧
    CacheOK (runScriptCmd "array_contains".toList (a :: v :: rest) vars st).2.2.forMeta "scope::array_contains::5".toList 14 ∧
    IfCacheOK (runScriptCmd "array_contains".toList (a :: v :: rest) vars st).2.2.ifMeta "scope::array_contains::8".toList 11 ∧
    (∀ l, tget (runScriptCmd "array_contains".toList (a :: v :: rest) vars st).2.2.coll.tbl [] ≠ some (.list l)) := by
  obtain ⟨k, hk⟩ : ∃ k, scriptFuel = k + 7 * arrLen st.coll.tbl a + 12 :=
    ⟨scriptFuel - (7 * arrLen st.coll.tbl a + 12), by omega⟩
  have hlen : arrLen st.coll.tbl a < Calc.two53 := by
    have : scriptFuel = 100000 := rfl
    unfold Calc.two53; omega
  obtain ⟨r, hrun, hpost⟩ := kc_call 5 a v rest vars st hfree hne hstale
    (by rw [kc_keys.1]; exact hc5) (by rw [kc_keys.2]; exact hc8) hE hlen
  unfold runScriptCmd
  rw [hk, show scriptDepth = 5 + 1 from rfl, hrun k]
  refine ⟨by rw [hpost.frame.forStack]; exact hstale, ?_, ?_, ?_⟩
  · rw [← kc_keys.1]; exact hpost.c5
  · rw [← kc_keys.2]; exact hpost.c8
  · intro l; rw [hpost.tbl []]; exact hE l


/-! ### `array_join`, for the class of arguments the body re-reads unchanged

The body puts TWO caller values into command conditions, which rebuild a script line from the
values and parse it again (the C09 path): the handle in `if not is_array …` / `if not
array_is_empty …`, the SEPARATOR in `if not is_empty …`.  The positive theorem is for the class
where that second reading is the identity: `ArgOK a` and `ArgOK sep` (`ArgOK`, the decidable
class of Sdk/Reserialize.lean: stable under the second expansion - no `%`, no `${` -, no line
break, no `#` / quote / leading `=` / trailing blank in a bare value; the EMPTY separator, `,`,
`, `, `-`, multi-byte text … are in it; TAB, CR, `=z`, `${v}` are not).  Outside the class the
recorded finding C12-array-join-separator-reread applies: `C12_script_array_join_separator_reread`
(Props/C12ScriptsNatives.lean) stays as the refutation.  The cells are never re-read: no
restriction on the array's content.
Further hypotheses: `hne` (counter-allocator artefact), `hstr` (the caller has no variable
`scope::array_join::string`: the loop appends to it without initialising it), `hsize` (the
joined text plus one separator stays below 2^53 bytes, so that `calc ${stringlen} -
${separatorlen}` is exact), the flow-state invariants, the budget `3·n + 16`.
`not array_is_empty …` runs the SCRIPT `array_is_empty` nested (a second temporary array and
allocator name; its wrapper clears `scope::array_is_empty::` in the caller's variables). -/

/-- fewer than two arguments: `Error`, nothing touched - like the specified function -/
theorem C12_script_array_join_few (args : List Str) (vars : Vars) (st : ScriptSt) (hfew : args.length < 2) :
    runScriptCmd "array_join".toList args vars st = (.error invalidArgsMsg, vars, st) ∧
    (Coll.exec st.coll .arrayJoin args).2 = .err := by
  constructor
  · unfold runScriptCmd
    rw [aj_entry, aliasRun_few _ _ _ _ _ _ _ hfew]
  · match args, hfew with
    | [], _ => rfl
    | [_], _ => rfl

/-- `array_join` from source = the specified function (`joinStr`: the cells with the separator
    BETWEEN them; `Error` for a handle that names no array), for handle and separator of the class
    `ArgOK`, every array content, every variable map and state. -/
theorem C12_script_array_join_correct (a sep : Str) (rest : List Str) (vars : Vars) (st : ScriptSt)
    (hfree : tget st.coll.tbl (Coll.handleName st.coll.next) = none)
    (hfree1 : tget st.coll.tbl (Coll.handleName (st.coll.next + 1)) = none)
    (hne : a ≠ Coll.handleName st.coll.next)
    (hok : ArgOK a = true) (hsepOK : ArgOK sep = true)
    (hstale : NoStaleFor "scope::array_join".toList st.forStack)
    (hc1 : IfCacheOK st.ifMeta "scope::array_join::1".toList 3)
    (hc5 : IfCacheOK st.ifMeta "scope::array_join::5".toList 16)
    (hc10 : IfCacheOK st.ifMeta "scope::array_join::10".toList 15)
    (hc6 : CacheOK st.forMeta "scope::array_join::6".toList 8)
    (hstr : vars.get "scope::array_join::string".toList = none)
    (hsize : ∀ l, tget st.coll.tbl a = some (.list l) →
      (utf8Encode (joinStr sep (l.map Item.render))).length + (utf8Encode sep).length < Calc.two53)
    (hfuel : 3 * arrLen st.coll.tbl a + 16 ≤ scriptFuel) :
    Agrees (runScriptCmd "array_join".toList (a :: sep :: rest) vars st).1
      (Coll.exec st.coll .arrayJoin (a :: sep :: rest)).2 ∧
    LookupEq (runScriptCmd "array_join".toList (a :: sep :: rest) vars st).2.2.coll.tbl st.coll.tbl ∧
    LoopFrame "scope::array_join".toList (if ajIsArr st.coll.tbl a then 2 else 1)
      (if ajIsArr st.coll.tbl a then
        clear "scope::array_join".toList (clear "scope::array_is_empty".toList vars)
       else clear "scope::array_join".toList vars)
      (ajPushed st.coll.tbl a sep) st
      (runScriptCmd "array_join".toList (a :: sep :: rest) vars st) := by
  obtain ⟨k, hk⟩ : ∃ k, scriptFuel = k + 3 * arrLen st.coll.tbl a + 16 :=
    ⟨scriptFuel - (3 * arrLen st.coll.tbl a + 16), by omega⟩
  obtain ⟨r, hrun, hpost⟩ := aj_call 3 a sep rest vars st hfree hfree1 hne hok hsepOK hstale
    (by rw [aj_keys.1]; exact hc1) (by rw [aj_keys.2.1]; exact hc5) (by rw [aj_keys.2.2.1]; exact hc10)
    (by rw [aj_keys.2.2.2]; exact hc6) hstr (fun l hl => aj_size sep _ (hsize l hl))
  unfold runScriptCmd
  rw [hk, show scriptDepth = 3 + 3 from rfl, hrun k]
  refine ⟨?_, hpost.tbl, hpost.frame⟩
  rw [hpost.res]
  unfold ajRes
  simp only [Coll.exec, cmdArrayJoin]
  cases hv : tget st.coll.tbl a with
  | none => trivial
  | some w => cases w <;> first | exact rfl | trivial

theorem C12_script_array_join_reestablishes (a sep : Str) (rest : List Str) (vars : Vars) (st : ScriptSt)
    (hfree : tget st.coll.tbl (Coll.handleName st.coll.next) = none)
    (hfree1 : tget st.coll.tbl (Coll.handleName (st.coll.next + 1)) = none)
    (hne : a ≠ Coll.handleName st.coll.next)
    (hok : ArgOK a = true) (hsepOK : ArgOK sep = true)
    (hstale : NoStaleFor "scope::array_join".toList st.forStack)
    (hc1 : IfCacheOK st.ifMeta "scope::array_join::1".toList 3)
    (hc5 : IfCacheOK st.ifMeta "scope::array_join::5".toList 16)
    (hc10 : IfCacheOK st.ifMeta "scope::array_join::10".toList 15)
    (hc6 : CacheOK st.forMeta "scope::array_join::6".toList 8)
    (hstr : vars.get "scope::array_join::string".toList = none)
    (hsize : ∀ l, tget st.coll.tbl a = some (.list l) →
      (utf8Encode (joinStr sep (l.map Item.render))).length + (utf8Encode sep).length < Calc.two53)
    (hfuel : 3 * arrLen st.coll.tbl a + 16 ≤ scriptFuel) :
    NoStaleFor "scope::array_join".toList (runScriptCmd "array_join".toList (a :: sep :: rest) vars st).2.2.forStack ∧
    IfCacheOK (runScriptCmd "array_join".toList (a :: sep :: rest) vars st).2.2.ifMeta "scope::array_join::1".toList 3 ∧
    IfCacheOK (runScriptCmd "array_join".toList (a :: sep :: rest) vars st).2.2.ifMeta "scope::array_join::5".toList 16 ∧
    IfCacheOK (runScriptCmd "array_join".toList (a :: sep :: rest) vars st).2.2.ifMeta "scope::array_join::10".toList 15 ∧
    CacheOK (runScriptCmd "array_join".toList (a :: sep :: rest) vars st).2.2.forMeta "scope::array_join::6".toList 8 := by
  obtain ⟨k, hk⟩ : ∃ k, scriptFuel = k + 3 * arrLen st.coll.tbl a + 16 :=
    ⟨scriptFuel - (3 * arrLen st.coll.tbl a + 16), by omega⟩
  obtain ⟨r, hrun, hpost⟩ := aj_call 3 a sep rest vars st hfree hfree1 hne hok hsepOK hstale
    (by rw [aj_keys.1]; exact hc1) (by rw [aj_keys.2.1]; exact hc5) (by rw [aj_keys.2.2.1]; exact hc10)
    (by rw [aj_keys.2.2.2]; exact hc6) hstr (fun l hl => aj_size sep _ (hsize l hl))
  unfold runScriptCmd
  rw [hk, show scriptDepth = 3 + 3 from rfl, hrun k]
  refine ⟨by rw [hpost.frame.forStack]; exact hstale, ?_, ?_, ?_, ?_⟩
  · rw [← aj_keys.1]; exact hpost.c1
  · rw [← aj_keys.2.1]; exact hpost.c5
  · rw [← aj_keys.2.2.1]; exact hpost.c10
  · rw [← aj_keys.2.2.2]; exact hpost.c6

/-! ### non-vacuity -/

/-- an empty and a non-empty array, a map with an empty-string value, a wrong-kind handle -/
example :
    let st : ScriptSt := { coll := (Coll.run {} [(.array, ["a".toList]), (.array, []), (.map, []),
      (.mapPut, [Coll.handleName 3, "k".toList, []])]).1 }
    (runScriptCmd "array_is_empty".toList [Coll.handleName 1] [] st).1 = .continue (some sFalse) ∧
    (runScriptCmd "array_is_empty".toList [Coll.handleName 2] [] st).1 = .continue (some sTrue) ∧
    (runScriptCmd "map_contains_key".toList [Coll.handleName 3, "k".toList] [] st).1 = .continue (some sTrue) ∧
    (runScriptCmd "map_contains_key".toList [Coll.handleName 3, "z".toList] [] st).1 = .continue (some sFalse) ∧
    (runScriptCmd "set_is_empty".toList [Coll.handleName 3] [] st).1 = .error (msg "Invalid handle provided.") := by
  decide +kernel

/-- the hypotheses are satisfiable: the empty state -/
example : tget ({} : ScriptSt).coll.tbl (Coll.handleName ({} : ScriptSt).coll.next) = none := rfl

/-- the hypotheses of the loop theorems hold in the initial state, and a handle name is `ArgOK` -/
example : NoStaleFor "scope::set_from_array".toList ({} : ScriptSt).forStack ∧
    IfCacheOK ({} : ScriptSt).ifMeta "scope::set_from_array::1".toList 3 ∧
    CacheOK ({} : ScriptSt).forMeta "scope::set_from_array::6".toList 8 ∧
    CacheOK ({} : ScriptSt).forMeta "scope::concat::2".toList 4 ∧
    ArgOK (Coll.handleName 17) = true ∧ ArgOK "a b".toList = true ∧ ArgOK [] = true ∧
    ArgOK "${h}".toList = false := by
  refine ⟨?_, Or.inl rfl, Or.inl rfl, Or.inl rfl, by decide, by decide, by decide, by decide⟩
  intro e h
  cases h

/-- the hypotheses of the theorems about map_contains_value / array_concat / array_contains /
    array_join hold in the initial state; the class `ArgOK` of `C12_script_array_join_correct`
    contains the usual separators (and the empty one) and excludes exactly the separators of the
    recorded finding -/
example : NoStaleFor "scope::map_contains_value".toList ({} : ScriptSt).forStack ∧
    IfCacheOK ({} : ScriptSt).ifMeta "scope::map_contains_value::4".toList 16 ∧
    CacheOK ({} : ScriptSt).forMeta "scope::array_concat::10".toList 12 ∧
    CacheOK ({} : ScriptSt).forMeta "scope::array_contains::5".toList 14 ∧
    IfCacheOK ({} : ScriptSt).ifMeta "scope::array_join::10".toList 15 ∧
    (∀ l, tget ({} : ScriptSt).coll.tbl [] ≠ some (.list l)) ∧
    ArgOK ",".toList = true ∧ ArgOK ", ".toList = true ∧ ArgOK [] = true ∧ ArgOK "日本".toList = true ∧
    ArgOK "\t".toList = false ∧ ArgOK "=z".toList = false ∧ ArgOK "${v}".toList = false := by
  refine ⟨?_, Or.inl rfl, Or.inl rfl, Or.inl rfl, Or.inl rfl, ?_, by decide, by decide, by decide, by decide,
    by decide, by decide, by decide⟩
  · intro e h; cases h
  · intro l h; cases h

/-- the theorems are not vacuous on concrete inputs: a map with two equal values, two arrays -/
example :
    let st : ScriptSt := { coll := (Coll.run {} [(.map, []), (.mapPut, [Coll.handleName 1, "k".toList, "v".toList]),
      (.mapPut, [Coll.handleName 1, "j".toList, "v".toList]), (.array, ["a".toList, "b".toList]), (.array, [])]).1 }
    (runScriptCmd "map_contains_value".toList [Coll.handleName 1, "v".toList] [] st).1 = .continue (some sTrue) ∧
    (runScriptCmd "map_contains_value".toList [Coll.handleName 1, "w".toList] [] st).1 = .continue (some sFalse) ∧
    (runScriptCmd "array_concat".toList [Coll.handleName 2, Coll.handleName 3, Coll.handleName 2] [] st).1 =
      .continue (some (Coll.handleName 5)) ∧
    (runScriptCmd "array_contains".toList [Coll.handleName 2, "b".toList] [] st).1 = .continue (some "1".toList) ∧
    (runScriptCmd "array_join".toList [Coll.handleName 2, ", ".toList] [] st).1 = .continue (some "a, b".toList) ∧
    mapLen st.coll.tbl (Coll.handleName 1) = 2 ∧ acCells st.coll.tbl [Coll.handleName 2, Coll.handleName 3] = ["a".toList, "b".toList] := by
  decide +kernel


end Duck
