/-
  C12 - the script-implemented collection commands, RUN FROM THEIR REGENERATED SOURCE
  (`Generated.scripts`, rewritten from /repo's `script.ds` files on every run), compute their
  specified function (`Coll.exec`, section "script-implemented" of Sdk/Collections.lean - the
  function the theorems of Props/C12.lean relate to the reference model `Spec.Store`).

  `ScriptRun.runScriptCmd name args vars st` = the model of `AliasCommand::run` over the model of
  `eval_instructions` over the parse of the table entry's text, with the native callees
  transcribed (Sdk/ScriptRun.lean).  Every theorem is for every argument list, every variable
  map and every state.

  `CorrectRun scope few vars st spec r` (Lemmas/ScriptRunLemmas.lean) says of a run `r`:
    * its result is the specified function's: the same `Continue` value, or both an `Error`;
    * the caller's variables afterwards are the caller's variables minus those under the
      command's own prefix (`clear`) - untouched when there were too few arguments (`few`); no
      hypothesis about the callees is needed any more (C19's `SemFrame`): they are run;
    * the handle table reads as before (the temporary `::arguments` array is gone again), the
      allocator has drawn exactly one name, the line-context name is restored, the flow-control
      state (call stacks, cached block positions, `end` table) is untouched.

  Hypotheses (both about the model's deterministic allocator standing for `put_handle`'s 20
  random characters):
    * `hfree`: the name the allocator draws next is not live (the allocator assumption of C12,
      a consequence of `AllocInv`);
    * `array_is_empty` only: the argument is not that next name (in the code: nobody can pass the
      random name of the temporary array before it is drawn).  Without it the model's
      `array_is_empty handle:<next>` reads the temporary array itself.  The map / set scripts do
      not need it: their size command rejects the temporary array like any non-map / non-set.
-/
import DuckModel.Lemmas.ScriptRunLemmas
import DuckModel.Lemmas.ScriptLoopConcat
import DuckModel.Lemmas.ScriptLoopSetFromArray
import DuckModel.Lemmas.ScriptLoopArrayConcat

namespace Duck
open Duck.Alias Duck.Coll Duck.ScriptRun Duck.Spec

/-- `array_is_empty` from source = the specified function -/
theorem C12_script_array_is_empty_correct (args : List Str) (vars : Vars) (st : ScriptSt)
    (hfree : tget st.coll.tbl (Coll.handleName st.coll.next) = none)
    (hne : args.head? ≠ some (Coll.handleName st.coll.next)) :
    CorrectRun "scope::array_is_empty".toList (decide (args.length < 1)) vars st
      (Coll.exec st.coll .arrayIsEmpty args).2
      (runScriptCmd "array_is_empty".toList args vars st) := by
  unfold runScriptCmd
  rw [scriptFuel_eq]
  exact sizeScript_correct "array_is_empty".toList "array_length".toList
    Generated.cmd_collections_array_is_empty .arrayLength .arrayIsEmpty
    (fun v => match v with | .list l => some l.length | _ => none)
    (by rfl) (parsesTo_eq (by decide +kernel)) rfl (by decide) (by decide)
    (by decide +kernel) (by decide +kernel)
    (by intro s key rest
        simp only [Coll.exec, cmdArrayLength]
        cases hv : tget s.tbl key with
        | none => rfl
        | some v => cases v <;> rfl)
    (by intro s key rest
        simp only [Coll.exec, cmdArrayIsEmpty]
        cases hv : tget s.tbl key with
        | none => rfl
        | some v =>
          cases v with
          | list l => cases l <;> simp
          | _ => rfl)
    (fun _ => rfl) scriptDepth 99996 args vars st hfree (Or.inl hne)

/-- `map_is_empty` from source = the specified function -/
theorem C12_script_map_is_empty_correct (args : List Str) (vars : Vars) (st : ScriptSt)
    (hfree : tget st.coll.tbl (Coll.handleName st.coll.next) = none) :
    CorrectRun "scope::map_is_empty".toList (decide (args.length < 1)) vars st
      (Coll.exec st.coll .mapIsEmpty args).2
      (runScriptCmd "map_is_empty".toList args vars st) := by
  unfold runScriptCmd
  rw [scriptFuel_eq]
  exact sizeScript_correct "map_is_empty".toList "map_size".toList
    Generated.cmd_collections_map_is_empty .mapSize .mapIsEmpty
    (fun v => match v with | .map m => some m.length | _ => none)
    (by rfl) (parsesTo_eq (by decide +kernel)) rfl (by decide) (by decide)
    (by decide +kernel) (by decide +kernel)
    (by intro s key rest
        simp only [Coll.exec, cmdMapSize]
        cases hv : tget s.tbl key with
        | none => rfl
        | some v => cases v <;> rfl)
    (by intro s key rest
        simp only [Coll.exec, cmdMapIsEmpty]
        cases hv : tget s.tbl key with
        | none => rfl
        | some v =>
          cases v with
          | map l => cases l <;> simp
          | _ => rfl)
    (fun _ => rfl) scriptDepth 99996 args vars st hfree (Or.inr fun _ => rfl)

/-- `set_is_empty` from source = the specified function -/
theorem C12_script_set_is_empty_correct (args : List Str) (vars : Vars) (st : ScriptSt)
    (hfree : tget st.coll.tbl (Coll.handleName st.coll.next) = none) :
    CorrectRun "scope::set_is_empty".toList (decide (args.length < 1)) vars st
      (Coll.exec st.coll .setIsEmpty args).2
      (runScriptCmd "set_is_empty".toList args vars st) := by
  unfold runScriptCmd
  rw [scriptFuel_eq]
  exact sizeScript_correct "set_is_empty".toList "set_size".toList
    Generated.cmd_collections_set_is_empty .setSize .setIsEmpty
    (fun v => match v with | .set x => some x.length | _ => none)
    (by rfl) (parsesTo_eq (by decide +kernel)) rfl (by decide) (by decide)
    (by decide +kernel) (by decide +kernel)
    (by intro s key rest
        simp only [Coll.exec, cmdSetSize]
        cases hv : tget s.tbl key with
        | none => rfl
        | some v => cases v <;> rfl)
    (by intro s key rest
        simp only [Coll.exec, cmdSetIsEmpty]
        cases hv : tget s.tbl key with
        | none => rfl
        | some v =>
          cases v with
          | set l => cases l <;> simp
          | _ => rfl)
    (fun _ => rfl) scriptDepth 99996 args vars st hfree (Or.inr fun _ => rfl)

/-- `map_contains_key` from source = the specified function (a key whose value is the empty
    string IS contained: `map_get` answers `Continue(Some(""))`, the output variable is set) -/
theorem C12_script_map_contains_key_correct (args : List Str) (vars : Vars) (st : ScriptSt)
    (hfree : tget st.coll.tbl (Coll.handleName st.coll.next) = none) :
    CorrectRun "scope::map_contains_key".toList (decide (args.length < 2)) vars st
      (Coll.exec st.coll .mapContainsKey args).2
      (runScriptCmd "map_contains_key".toList args vars st) := by
  unfold runScriptCmd
  rw [scriptFuel_eq]
  exact mck_correct "map_contains_key".toList Generated.cmd_collections_map_contains_key
    (by rfl) (parsesTo_eq (by decide +kernel)) rfl (by decide) (by decide) (by decide)
    scriptDepth 99996 args vars st hfree

/-- the hypothesis of `C12_script_array_is_empty_correct` cannot be dropped IN THE MODEL: with the
    counter allocator the next name can be written down, and then the script reads its own
    temporary argument array (one cell: not empty) where the specified function reports an
    error.  In the code the name is 20 random characters drawn after the arguments were
    written. -/
theorem C12_script_array_is_empty_next_name :
    (runScriptCmd "array_is_empty".toList [Coll.handleName 1] [] {}).1 = .continue (some sFalse) ∧
    (Coll.exec {} .arrayIsEmpty [Coll.handleName 1]).2 = .err := by
  constructor
  · decide +kernel
  · decide +kernel

/-! ### scripts with loops and branches: run from source, not yet proved for all inputs

`concat`, `unset`, `set_from_array`, `array_concat`, `map_contains_value` run in the model (flow
control of Sdk/ScriptRun.lean); the driver op `srun` compares them with the real commands.  What
is PROVED about them here are evaluated instances - and one disagreement between the source-run
model and the specified function, which is the recorded finding of /repo. -/

/-- DISAGREEMENT source-run vs specified function = finding `C12-array-concat-after-error`:
    `array_concat nope` answers `Error` (its validation loop raises `trigger_error` inside
    `for … in`), the for-in iteration entry of that loop stays on the call stack, and the NEXT
    `array_concat nope` resumes the stale iteration, skips the validation of its first argument
    and answers a new empty array - where the specified function (and the documentation) say
    `Error` again.  The real command does what the source-run model does (stream `srun`). -/
theorem C12_script_array_concat_after_error :
    let r1 := runScriptCmd "array_concat".toList ["nope".toList] [] {}
    let r2 := runScriptCmd "array_concat".toList ["nope".toList] [] r1.2.2
    r1.1 = .error "Invalid input, non array handle or array not found.".toList ∧
    r1.2.2.forStack.length = 1 ∧
    r2.1 = .continue (some (Coll.handleName 3)) ∧
    tget r2.2.2.coll.tbl (Coll.handleName 3) = some (.list []) ∧
    (Coll.exec r1.2.2.coll .arrayConcat ["nope".toList]).2 = .err := by
  decide +kernel

/-- evaluated instances of the five scripts with loops (results, variables, table) -/
theorem C12_script_loop_instances :
    let st : ScriptSt := { coll := (Coll.run {} [(.array, ["a".toList, "b".toList, "a".toList]), (.array, []),
      (.map, []), (.mapPut, [Coll.handleName 3, "k".toList, "v".toList])]).1 }
    -- set_from_array: the new set holds the distinct cells; caller variables kept
    (let r := runScriptCmd "set_from_array".toList [Coll.handleName 1] [("x".toList, "y".toList)] st
     r.1 = .continue (some (Coll.handleName 5)) ∧ r.2.1 = [("x".toList, "y".toList)] ∧
       tget r.2.2.coll.tbl (Coll.handleName 5) = some (.set ["a".toList, "b".toList]) ∧
       tget r.2.2.coll.tbl (Coll.handleName 4) = none) ∧
    (runScriptCmd "set_from_array".toList [Coll.handleName 3] [] st).1 =
      .error "Invalid input, non array handle or array not found.".toList ∧
    -- array_concat: cells of all arguments in order; no argument: a new empty array
    (let r := runScriptCmd "array_concat".toList [Coll.handleName 1, Coll.handleName 2, Coll.handleName 1] [] st
     r.1 = .continue (some (Coll.handleName 5)) ∧
       tget r.2.2.coll.tbl (Coll.handleName 5) =
         some (.list (["a", "b", "a", "a", "b", "a"].map fun x => Item.str x.toList))) ∧
    (runScriptCmd "array_concat".toList [] [] st).1 = .continue (some (Coll.handleName 4)) ∧
    -- map_contains_value: the key array made by map_keys is released again
    (let r := runScriptCmd "map_contains_value".toList [Coll.handleName 3, "v".toList] [] st
     r.1 = .continue (some sTrue) ∧ tget r.2.2.coll.tbl (Coll.handleName 5) = none ∧ r.2.2.coll.tbl.length = 3) ∧
    (runScriptCmd "map_contains_value".toList [Coll.handleName 3, "z".toList] [] st).1 = .continue (some sFalse) ∧
    -- concat / unset
    (runScriptCmd "concat".toList ["a b".toList, [], "c".toList] [] st).1 = .continue (some "a bc".toList) ∧
    (runScriptCmd "unset".toList ["x".toList, "nope".toList] [("x".toList, "y".toList), ("z".toList, "1".toList)] st).2.1
      = [("z".toList, "1".toList)] := by
  decide +kernel

/-! ### scripts with a `for … in` loop, for every input (induction over the loop)

The loop runs through the goto machine of `evalInstructions` with the for-in call-stack entry
advancing its iteration counter (Lemmas/ScriptLoopLemmas.lean: `runFor_first`, `runFor_resume`,
`runEnd_for`; per script a loop-invariant lemma by induction over the cells that are left).

Additional hypotheses, all about the flow-control state the caller hands in (each holds in every
state the script itself leaves behind after a run that did not end with an error inside the loop,
`LoopFrame.forStack`, and in the initial state):
  * `NoStaleFor scope st.forStack`: the top of the for-in call stack is not an entry of this
    script (an entry stays behind when a run ends with an error inside the loop - finding
    C12-array-concat-after-error; the next run then RESUMES that iteration);
  * `CacheOK st.forMeta "<scope>::<line>" stop`: the cached block end of the script's `for`
    line, if present, is the right one (only the `for` command writes it);
  * the instruction budget of the model (`scriptFuel`) covers the run: bound linear in the number
    of cells. -/

/-- `concat` from source = the concatenation of its arguments, for every argument list.
    `hempty`: without arguments the script's `for arg in ${scope::concat::arguments}` reads a
    variable the wrapper did not set; the caller's value of it (if any) must not name an array. -/
theorem C12_script_concat_correct (args : List Str) (vars : Vars) (st : ScriptSt)
    (hfree : tget st.coll.tbl (Coll.handleName st.coll.next) = none)
    (hstale : NoStaleFor "scope::concat".toList st.forStack)
    (hcache : CacheOK st.forMeta "scope::concat::2".toList 4)
    (hempty : args = [] → ∀ l, tget st.coll.tbl ((vars.get "scope::concat::arguments".toList).getD []) ≠ some (.list l))
    (hfuel : 3 * args.length + 6 ≤ scriptFuel) :
    (runScriptCmd "concat".toList args vars st).1 = .continue (some args.flatten) ∧
    LookupEq (runScriptCmd "concat".toList args vars st).2.2.coll.tbl st.coll.tbl ∧
    LoopFrame "scope::concat".toList (if args = [] then 0 else 1) (clear "scope::concat".toList vars) [] st
      (runScriptCmd "concat".toList args vars st) := by
  obtain ⟨k, hk⟩ : ∃ k, scriptFuel = k + 3 * args.length + 6 := ⟨scriptFuel - (3 * args.length + 6), by omega⟩
  unfold runScriptCmd
  rw [hk, show scriptDepth = 5 + 1 from rfl, concat_runF 5 k args vars st hstale hcache hempty]
  refine ⟨rfl, ?_, ⟨rfl, ?_, rfl, rfl, rfl, fun _ _ => rfl, ?_, ?_⟩⟩
  · intro h
    by_cases ha : args = []
    · simp [cFinal, ha]
    · simp only [cFinal, ha, if_false, tget_tremove, tget_tinsert]
      by_cases e : h = Coll.handleName st.coll.next
      · simp [e, hfree]
      · simp [e]
  · by_cases ha : args = [] <;> simp [cFinal, ha]
  · intro key hkey
    exact get_forMetaAfter_frame _ _ _ _ (by decide) key hkey
  · intro key hkey
    exact get_put_frame _ _ _ _ (by decide) key hkey

/-- `set_from_array` from source = the specified function, for every argument list, variable map
    and state, up to the name of the new handle (`AgreesAlloc`: the source-run command draws the
    name of its temporary argument array first, the specified function does not have one).
    Hypotheses beyond those of the loop-free scripts:
      * `hfree1`: the second name the allocator draws is not live either;
      * `hok`: the argument is of the class that survives the rebuild / re-parse of the condition
        `if not is_array <arg>` (`ArgOK`, the decidable C09 class; every handle name is in it);
      * `hstale`, `hcI`, `hcF`, `hfuel`: see above; the bound is `3·n + 8` instructions for an
        array of `n` cells.
    The frame: 2 names drawn for a live array (temporary array + the set), both call stacks as
    before; when the argument names no array the answer is `Error` and the if-call entry of the
    validation block stays on the if call stack (`trigger_error` inside `if … end`). -/
theorem C12_script_set_from_array_correct (args : List Str) (vars : Vars) (st : ScriptSt)
    (hfree : tget st.coll.tbl (Coll.handleName st.coll.next) = none)
    (hfree1 : tget st.coll.tbl (Coll.handleName (st.coll.next + 1)) = none)
    (hne : args.head? ≠ some (Coll.handleName st.coll.next))
    (hok : ∀ a, args.head? = some a → ArgOK a = true)
    (hstale : NoStaleFor "scope::set_from_array".toList st.forStack)
    (hcI : IfCacheOK st.ifMeta "scope::set_from_array::1".toList 3)
    (hcF : CacheOK st.forMeta "scope::set_from_array::6".toList 8)
    (hfuel : ∀ a, args.head? = some a → 3 * arrLen st.coll.tbl a + 8 ≤ scriptFuel) :
    AgreesAlloc st.coll (Coll.exec st.coll .setFromArray args)
      (runScriptCmd "set_from_array".toList args vars st).1
      (runScriptCmd "set_from_array".toList args vars st).2.2.coll.tbl ∧
    LoopFrame "scope::set_from_array".toList
      (if args = [] then 0 else if headIsArray st.coll.tbl args then 2 else 1)
      (if args = [] then vars else clear "scope::set_from_array".toList vars)
      (if args = [] ∨ headIsArray st.coll.tbl args = true then []
       else [ifEntry 1 3 "scope::set_from_array".toList]) st
      (runScriptCmd "set_from_array".toList args vars st) := by
  cases args with
  | nil =>
    unfold runScriptCmd
    rw [runScriptCmdF_entry _ _ _ _ _ sfa_findScript sfa_parses, aliasRun_few _ _ _ _ _ _ _ (by decide)]
    refine ⟨⟨⟨_, rfl⟩, fun _ => rfl⟩, ⟨rfl, rfl, rfl, rfl, rfl, fun _ _ => rfl, fun _ _ => rfl, fun _ _ => rfl⟩⟩
  | cons a rest =>
    have hne' : a ≠ Coll.handleName st.coll.next := fun e => hne (by simp [e])
    have hfu := hfuel a rfl
    obtain ⟨k, hk⟩ : ∃ k, scriptFuel = k + 3 * arrLen st.coll.tbl a + 8 :=
      ⟨scriptFuel - (3 * arrLen st.coll.tbl a + 8), by omega⟩
    have hSA : Coll.handleName (st.coll.next + 1) ≠ Coll.handleName st.coll.next :=
      fun e => by have := Coll.handleName_inj e; omega
    have hkey : ∀ n, underPrefix sScope (flowKey (pubSt sScope (a :: rest) st) n) = true :=
      fun n => underPrefix_flowKey (pubSt sScope (a :: rest) st) n
    unfold runScriptCmd
    rw [hk, show scriptDepth = 4 + 2 from rfl,
      sfa_runF 4 k a rest vars st hfree hfree1 hne' (hok a rfl) hstale hcI hcF]
    have herr : (∀ l, tget st.coll.tbl a ≠ some (.list l)) →
        AgreesAlloc st.coll (Coll.exec st.coll .setFromArray (a :: rest)) (.error sMsg)
          (sfaErrFinal (a :: rest) st).coll.tbl ∧
        LoopFrame sScope 1 (clear sScope vars) [ifEntry 1 3 sScope] st
          (.error sMsg, clear sScope vars, sfaErrFinal (a :: rest) st) := by
      intro hnl
      have hspec : (Coll.exec st.coll .setFromArray (a :: rest)).2 = .err := by
        simp only [Coll.exec, cmdSetFromArray]
      refine ⟨?_, ⟨rfl, rfl, rfl, rfl, rfl, ?_, fun _ _ => rfl, ?_⟩⟩
      · unfold AgreesAlloc
        rw [hspec]
        refine ⟨⟨_, rfl⟩, ?_⟩
        intro h
        simp only [sfaErrFinal, pubSt, tget_tremove, tget_tinsert]
        by_cases e : h = Coll.handleName st.coll.next
        · simp [e, hfree]
        · simp [e]
      · intro key hkey'
        exact get_ifMetaAfter_frame sScope _ _ _ (hkey 1) key hkey'
      · intro key hkey'
        exact get_put_frame sScope _ _ _ (hkey 3) key hkey'
    cases hv : tget st.coll.tbl a with
    | none =>
      have := herr (by intro l; rw [hv]; intro e; cases e)
      simp only [headIsArray, hv, List.cons_ne_nil, if_false, false_or, Bool.false_eq_true]
      exact this
    | some v =>
      cases v with
      | map m =>
        have := herr (by intro l; rw [hv]; intro e; cases e)
        simp only [headIsArray, hv, List.cons_ne_nil, if_false, false_or, Bool.false_eq_true]
        exact this
      | set x =>
        have := herr (by intro l; rw [hv]; intro e; cases e)
        simp only [headIsArray, hv, List.cons_ne_nil, if_false, false_or, Bool.false_eq_true]
        exact this
      | other g =>
        have := herr (by intro l; rw [hv]; intro e; cases e)
        simp only [headIsArray, hv, List.cons_ne_nil, if_false, false_or, Bool.false_eq_true]
        exact this
      | list L =>
        have hinv := sfaTbl_inv (pubSt sScope (a :: rest) st) L
        simp only [headIsArray, hv, List.cons_ne_nil, if_false, if_true, false_or]
        refine ⟨?_, ⟨rfl, rfl, rfl, rfl, rfl, ?_, ?_, ?_⟩⟩
        · unfold AgreesAlloc
          simp only [Coll.exec, cmdSetFromArray, hv, putHandle]
          refine ⟨Coll.handleName st.coll.next, Coll.handleName (st.coll.next + 1), rfl, rfl, hfree1, ?_, ?_, ?_⟩
          · simp only [sfaOkFinal, tget_tremove]
            rw [if_neg hSA]
            rw [show (pubSt sScope (a :: rest) st).coll.next = st.coll.next + 1 from rfl] at hinv
            rw [hinv.set]; rfl
          · simp only [sfaOkFinal, tget_tremove]
            rw [if_neg hSA]
            rw [show (pubSt sScope (a :: rest) st).coll.next = st.coll.next + 1 from rfl] at hinv
            rw [hinv.set, tget_tinsert, if_pos rfl]
            rfl
          · intro key hkey'
            simp only [sfaOkFinal, tget_tremove]
            rw [show (pubSt sScope (a :: rest) st).coll.next = st.coll.next + 1 from rfl] at hinv
            by_cases e : key = Coll.handleName st.coll.next
            · simp [e, hfree]
            · rw [if_neg e, hinv.other key hkey', tget_tinsert, if_neg hkey']
              simp only [pubSt, tget_tinsert]
              rw [if_neg e]
        · intro key hkey'
          exact get_ifMetaAfter_frame sScope _ _ _ (hkey 1) key hkey'
        · intro key hkey'
          exact get_forMetaAfter_frame sScope _ _ _ (hkey 6) key hkey'
        · intro key hkey'
          show ((_ : KV Str).put _ _).get key = _
          rw [get_put_frame sScope _ _ _ (hkey 8) key hkey', get_put_frame sScope _ _ _ (hkey 3) key hkey']
          rfl

/-- the hypotheses about the flow-control state are INVARIANTS: they hold again in the state a
    `concat` run leaves (and `LoopFrame` says the run does not disturb those of the other
    scripts: call stacks as before, caches changed only under the own prefix) -/
theorem C12_script_concat_reestablishes (args : List Str) (vars : Vars) (st : ScriptSt)
    (hstale : NoStaleFor "scope::concat".toList st.forStack)
    (hcache : CacheOK st.forMeta "scope::concat::2".toList 4)
    (hempty : args = [] → ∀ l, tget st.coll.tbl ((vars.get "scope::concat::arguments".toList).getD []) ≠ some (.list l))
    (hfuel : 3 * args.length + 6 ≤ scriptFuel) :
    NoStaleFor "scope::concat".toList (runScriptCmd "concat".toList args vars st).2.2.forStack ∧
    CacheOK (runScriptCmd "concat".toList args vars st).2.2.forMeta "scope::concat::2".toList 4 := by
  obtain ⟨k, hk⟩ : ∃ k, scriptFuel = k + 3 * args.length + 6 := ⟨scriptFuel - (3 * args.length + 6), by omega⟩
  unfold runScriptCmd
  rw [hk, show scriptDepth = 5 + 1 from rfl, concat_runF 5 k args vars st hstale hcache hempty]
  exact ⟨hstale, cacheOK_forMetaAfter _ _ _ hcache⟩

/-- the same for `set_from_array`, whichever way the run ends (in particular a run that answers
    `Error` leaves NO for-in entry behind: its `trigger_error` is outside the loop - unlike
    `array_concat`, finding C12-array-concat-after-error) -/
theorem C12_script_set_from_array_reestablishes (args : List Str) (vars : Vars) (st : ScriptSt)
    (hfree : tget st.coll.tbl (Coll.handleName st.coll.next) = none)
    (hfree1 : tget st.coll.tbl (Coll.handleName (st.coll.next + 1)) = none)
    (hne : args.head? ≠ some (Coll.handleName st.coll.next))
    (hok : ∀ a, args.head? = some a → ArgOK a = true)
    (hstale : NoStaleFor "scope::set_from_array".toList st.forStack)
    (hcI : IfCacheOK st.ifMeta "scope::set_from_array::1".toList 3)
    (hcF : CacheOK st.forMeta "scope::set_from_array::6".toList 8)
    (hfuel : ∀ a, args.head? = some a → 3 * arrLen st.coll.tbl a + 8 ≤ scriptFuel) :
    NoStaleFor "scope::set_from_array".toList (runScriptCmd "set_from_array".toList args vars st).2.2.forStack ∧
    IfCacheOK (runScriptCmd "set_from_array".toList args vars st).2.2.ifMeta "scope::set_from_array::1".toList 3 ∧
    CacheOK (runScriptCmd "set_from_array".toList args vars st).2.2.forMeta "scope::set_from_array::6".toList 8 := by
  cases args with
  | nil =>
    unfold runScriptCmd
    rw [runScriptCmdF_entry _ _ _ _ _ sfa_findScript sfa_parses, aliasRun_few _ _ _ _ _ _ _ (by decide)]
    exact ⟨hstale, hcI, hcF⟩
  | cons a rest =>
    have hne' : a ≠ Coll.handleName st.coll.next := fun e => hne (by simp [e])
    have hfu := hfuel a rfl
    obtain ⟨k, hk⟩ : ∃ k, scriptFuel = k + 3 * arrLen st.coll.tbl a + 8 :=
      ⟨scriptFuel - (3 * arrLen st.coll.tbl a + 8), by omega⟩
    unfold runScriptCmd
    rw [hk, show scriptDepth = 4 + 2 from rfl,
      sfa_runF 4 k a rest vars st hfree hfree1 hne' (hok a rfl) hstale hcI hcF]
    have herr : NoStaleFor sScope (sfaErrFinal (a :: rest) st).forStack ∧
        IfCacheOK (sfaErrFinal (a :: rest) st).ifMeta "scope::set_from_array::1".toList 3 ∧
        CacheOK (sfaErrFinal (a :: rest) st).forMeta "scope::set_from_array::6".toList 8 :=
      ⟨hstale, ifCacheOK_ifMetaAfter _ _ _ hcI, hcF⟩
    cases tget st.coll.tbl a with
    | none => exact herr
    | some v =>
      cases v with
      | list L => exact ⟨hstale, ifCacheOK_ifMetaAfter _ _ _ hcI, cacheOK_forMetaAfter _ _ _ hcF⟩
      | map m => exact herr
      | set x => exact herr
      | other g => exact herr

/-- the mechanism of finding C12-array-concat-after-error FOR EVERY INPUT: whenever the first
    argument of `array_concat` names no array (any further arguments, any variables, any state
    satisfying the invariants), the run answers `Error` - like the specified function - from
    INSIDE its validation loop and leaves that loop's for-in entry (iteration 1) on top of the
    for-in call stack: `NoStaleFor` is false afterwards, which is the hypothesis every loop
    theorem above needs (and the next `array_concat` resumes the stale iteration:
    `C12_script_array_concat_after_error`). -/
theorem C12_script_array_concat_error_leaves_entry (a : Str) (rest : List Str) (vars : Vars) (st : ScriptSt)
    (hne : a ≠ Coll.handleName st.coll.next) (hok : ArgOK a = true)
    (hnl : ∀ l, tget st.coll.tbl a ≠ some (.list l))
    (hstale : NoStaleFor "scope::array_concat".toList st.forStack)
    (hcF : CacheOK st.forMeta "scope::array_concat::1".toList 5)
    (hcI : IfCacheOK st.ifMeta "scope::array_concat::2".toList 4) :
    (runScriptCmd "array_concat".toList (a :: rest) vars st).1 =
      .error "Invalid input, non array handle or array not found.".toList ∧
    (Coll.exec st.coll .arrayConcat (a :: rest)).2 = .err ∧
    (runScriptCmd "array_concat".toList (a :: rest) vars st).2.2.forStack =
      { iteration := 1, start := 1, stop := 5, ctx := "scope::array_concat".toList } :: st.forStack ∧
    ¬ NoStaleFor "scope::array_concat".toList (runScriptCmd "array_concat".toList (a :: rest) vars st).2.2.forStack := by
  unfold runScriptCmd
  rw [scriptFuel_eq, show scriptDepth = 4 + 2 from rfl, ac_runF_err 4 99996 a rest vars st hne hok hnl hstale hcF hcI]
  refine ⟨rfl, ?_, rfl, ?_⟩
  · simp only [Coll.exec, cmdArrayConcat, lists?]
  · intro h
    exact h _ rfl rfl

/-! ### non-vacuity -/

/-- an empty and a non-empty array, a map with an empty-string value, a wrong-kind handle -/
example :
    let st : ScriptSt := { coll := (Coll.run {} [(.array, ["a".toList]), (.array, []), (.map, []),
      (.mapPut, [Coll.handleName 3, "k".toList, []])]).1 }
    (runScriptCmd "array_is_empty".toList [Coll.handleName 1] [] st).1 = .continue (some sFalse) ∧
    (runScriptCmd "array_is_empty".toList [Coll.handleName 2] [] st).1 = .continue (some sTrue) ∧
    (runScriptCmd "map_contains_key".toList [Coll.handleName 3, "k".toList] [] st).1 = .continue (some sTrue) ∧
    (runScriptCmd "map_contains_key".toList [Coll.handleName 3, "z".toList] [] st).1 = .continue (some sFalse) ∧
    (runScriptCmd "set_is_empty".toList [Coll.handleName 3] [] st).1 = .error (msg "Invalid handle provided.") := by
  decide +kernel

/-- the hypotheses are satisfiable: the empty state -/
example : tget ({} : ScriptSt).coll.tbl (Coll.handleName ({} : ScriptSt).coll.next) = none := rfl

/-- the hypotheses of the loop theorems hold in the initial state, and a handle name is `ArgOK` -/
example : NoStaleFor "scope::set_from_array".toList ({} : ScriptSt).forStack ∧
    IfCacheOK ({} : ScriptSt).ifMeta "scope::set_from_array::1".toList 3 ∧
    CacheOK ({} : ScriptSt).forMeta "scope::set_from_array::6".toList 8 ∧
    CacheOK ({} : ScriptSt).forMeta "scope::concat::2".toList 4 ∧
    ArgOK (Coll.handleName 17) = true ∧ ArgOK "a b".toList = true ∧ ArgOK [] = true ∧
    ArgOK "${h}".toList = false := by
  refine ⟨?_, Or.inl rfl, Or.inl rfl, Or.inl rfl, by decide, by decide, by decide, by decide⟩
  intro e h
  cases h


end Duck
