/-
  C12 - the script-implemented collection commands, RUN FROM THEIR REGENERATED SOURCE
  (`Generated.scripts`, rewritten from /repo's `script.ds` files on every run), compute their
  specified function (`Coll.exec`, section "script-implemented" of Sdk/Collections.lean - the
  function the theorems of Props/C12.lean relate to the reference model `Spec.Store`).

  `ScriptRun.runScriptCmd name args vars st` = the model of `AliasCommand::run` over the model of
  `eval_instructions` over the parse of the table entry's text, with the native callees
  transcribed (Sdk/ScriptRun.lean).  Every theorem is for every argument list, every variable
  map and every state.

  `CorrectRun scope few vars st spec r` (Lemmas/ScriptRunLemmas.lean) says of a run `r`:
    * its result is the specified function's: the same `Continue` value, or both an `Error`;
    * the caller's variables afterwards are the caller's variables minus those under the
      command's own prefix (`clear`) - untouched when there were too few arguments (`few`); no
      hypothesis about the callees is needed any more (C19's `SemFrame`): they are run;
    * the handle table reads as before (the temporary `::arguments` array is gone again), the
      allocator has drawn exactly one name, the line-context name is restored, the flow-control
      state (call stacks, cached block positions, `end` table) is untouched.

  Hypotheses (both about the model's deterministic allocator standing for `put_handle`'s 20
  random characters):
    * `hfree`: the name the allocator draws next is not live (the allocator assumption of C12,
      a consequence of `AllocInv`);
    * `array_is_empty` only: the argument is not that next name (in the code: nobody can pass the
      random name of the temporary array before it is drawn).  Without it the model's
      `array_is_empty handle:<next>` reads the temporary array itself.  The map / set scripts do
      not need it: their size command rejects the temporary array like any non-map / non-set.
-/
import DuckModel.Lemmas.ScriptRunLemmas

namespace Duck
open Duck.Alias Duck.Coll Duck.ScriptRun Duck.Spec

/-- `array_is_empty` from source = the specified function -/
theorem C12_script_array_is_empty_correct (args : List Str) (vars : Vars) (st : ScriptSt)
    (hfree : tget st.coll.tbl (Coll.handleName st.coll.next) = none)
    (hne : args.head? ≠ some (Coll.handleName st.coll.next)) :
    CorrectRun "scope::array_is_empty".toList (decide (args.length < 1)) vars st
      (Coll.exec st.coll .arrayIsEmpty args).2
      (runScriptCmd "array_is_empty".toList args vars st) := by
  unfold runScriptCmd
  rw [scriptFuel_eq]
  exact sizeScript_correct "array_is_empty".toList "array_length".toList
    Generated.cmd_collections_array_is_empty .arrayLength .arrayIsEmpty
    (fun v => match v with | .list l => some l.length | _ => none)
    (by rfl) (parsesTo_eq (by decide +kernel)) rfl (by decide) (by decide)
    (by decide +kernel) (by decide +kernel)
    (by intro s key rest
        simp only [Coll.exec, cmdArrayLength]
        cases hv : tget s.tbl key with
        | none => rfl
        | some v => cases v <;> rfl)
    (by intro s key rest
        simp only [Coll.exec, cmdArrayIsEmpty]
        cases hv : tget s.tbl key with
        | none => rfl
        | some v =>
          cases v with
          | list l => cases l <;> simp
          | _ => rfl)
    (fun _ => rfl) scriptDepth 99996 args vars st hfree (Or.inl hne)

/-- `map_is_empty` from source = the specified function -/
theorem C12_script_map_is_empty_correct (args : List Str) (vars : Vars) (st : ScriptSt)
    (hfree : tget st.coll.tbl (Coll.handleName st.coll.next) = none) :
    CorrectRun "scope::map_is_empty".toList (decide (args.length < 1)) vars st
      (Coll.exec st.coll .mapIsEmpty args).2
      (runScriptCmd "map_is_empty".toList args vars st) := by
  unfold runScriptCmd
  rw [scriptFuel_eq]
  exact sizeScript_correct "map_is_empty".toList "map_size".toList
    Generated.cmd_collections_map_is_empty .mapSize .mapIsEmpty
    (fun v => match v with | .map m => some m.length | _ => none)
    (by rfl) (parsesTo_eq (by decide +kernel)) rfl (by decide) (by decide)
    (by decide +kernel) (by decide +kernel)
    (by intro s key rest
        simp only [Coll.exec, cmdMapSize]
        cases hv : tget s.tbl key with
        | none => rfl
        | some v => cases v <;> rfl)
    (by intro s key rest
        simp only [Coll.exec, cmdMapIsEmpty]
        cases hv : tget s.tbl key with
        | none => rfl
        | some v =>
          cases v with
          | map l => cases l <;> simp
          | _ => rfl)
    (fun _ => rfl) scriptDepth 99996 args vars st hfree (Or.inr fun _ => rfl)

/-- `set_is_empty` from source = the specified function -/
theorem C12_script_set_is_empty_correct (args : List Str) (vars : Vars) (st : ScriptSt)
    (hfree : tget st.coll.tbl (Coll.handleName st.coll.next) = none) :
    CorrectRun "scope::set_is_empty".toList (decide (args.length < 1)) vars st
      (Coll.exec st.coll .setIsEmpty args).2
      (runScriptCmd "set_is_empty".toList args vars st) := by
  unfold runScriptCmd
  rw [scriptFuel_eq]
  exact sizeScript_correct "set_is_empty".toList "set_size".toList
    Generated.cmd_collections_set_is_empty .setSize .setIsEmpty
    (fun v => match v with | .set x => some x.length | _ => none)
    (by rfl) (parsesTo_eq (by decide +kernel)) rfl (by decide) (by decide)
    (by decide +kernel) (by decide +kernel)
    (by intro s key rest
        simp only [Coll.exec, cmdSetSize]
        cases hv : tget s.tbl key with
        | none => rfl
        | some v => cases v <;> rfl)
    (by intro s key rest
        simp only [Coll.exec, cmdSetIsEmpty]
        cases hv : tget s.tbl key with
        | none => rfl
        | some v =>
          cases v with
          | set l => cases l <;> simp
          | _ => rfl)
    (fun _ => rfl) scriptDepth 99996 args vars st hfree (Or.inr fun _ => rfl)

/-- `map_contains_key` from source = the specified function (a key whose value is the empty
    string IS contained: `map_get` answers `Continue(Some(""))`, the output variable is set) -/
theorem C12_script_map_contains_key_correct (args : List Str) (vars : Vars) (st : ScriptSt)
    (hfree : tget st.coll.tbl (Coll.handleName st.coll.next) = none) :
    CorrectRun "scope::map_contains_key".toList (decide (args.length < 2)) vars st
      (Coll.exec st.coll .mapContainsKey args).2
      (runScriptCmd "map_contains_key".toList args vars st) := by
  unfold runScriptCmd
  rw [scriptFuel_eq]
  exact mck_correct "map_contains_key".toList Generated.cmd_collections_map_contains_key
    (by rfl) (parsesTo_eq (by decide +kernel)) rfl (by decide) (by decide) (by decide)
    scriptDepth 99996 args vars st hfree

/-- the hypothesis of `C12_script_array_is_empty_correct` cannot be dropped IN THE MODEL: with the
    counter allocator the next name can be written down, and then the script reads its own
    temporary argument array (one cell: not empty) where the specified function reports an
    error.  In the code the name is 20 random characters drawn after the arguments were
    written. -/
theorem C12_script_array_is_empty_next_name :
    (runScriptCmd "array_is_empty".toList [Coll.handleName 1] [] {}).1 = .continue (some sFalse) ∧
    (Coll.exec {} .arrayIsEmpty [Coll.handleName 1]).2 = .err := by
  constructor
  · decide +kernel
  · decide +kernel

/-! ### scripts with loops and branches: run from source, not yet proved for all inputs

`concat`, `unset`, `set_from_array`, `array_concat`, `map_contains_value` run in the model (flow
control of Sdk/ScriptRun.lean); the driver op `srun` compares them with the real commands.  What
is PROVED about them here are evaluated instances - and one disagreement between the source-run
model and the specified function, which is the recorded finding of /repo. -/

/-- DISAGREEMENT source-run vs specified function = finding `C12-array-concat-after-error`:
    `array_concat nope` answers `Error` (its validation loop raises `trigger_error` inside
    `for … in`), the for-in iteration entry of that loop stays on the call stack, and the NEXT
    `array_concat nope` resumes the stale iteration, skips the validation of its first argument
    and answers a new empty array - where the specified function (and the documentation) say
    `Error` again.  The real command does what the source-run model does (stream `srun`). -/
theorem C12_script_array_concat_after_error :
    let r1 := runScriptCmd "array_concat".toList ["nope".toList] [] {}
    let r2 := runScriptCmd "array_concat".toList ["nope".toList] [] r1.2.2
    r1.1 = .error "Invalid input, non array handle or array not found.".toList ∧
    r1.2.2.forStack.length = 1 ∧
    r2.1 = .continue (some (Coll.handleName 3)) ∧
    tget r2.2.2.coll.tbl (Coll.handleName 3) = some (.list []) ∧
    (Coll.exec r1.2.2.coll .arrayConcat ["nope".toList]).2 = .err := by
  decide +kernel

/-- evaluated instances of the five scripts with loops (results, variables, table) -/
theorem C12_script_loop_instances :
    let st : ScriptSt := { coll := (Coll.run {} [(.array, ["a".toList, "b".toList, "a".toList]), (.array, []),
      (.map, []), (.mapPut, [Coll.handleName 3, "k".toList, "v".toList])]).1 }
    -- set_from_array: the new set holds the distinct cells; caller variables kept
    (let r := runScriptCmd "set_from_array".toList [Coll.handleName 1] [("x".toList, "y".toList)] st
     r.1 = .continue (some (Coll.handleName 5)) ∧ r.2.1 = [("x".toList, "y".toList)] ∧
       tget r.2.2.coll.tbl (Coll.handleName 5) = some (.set ["a".toList, "b".toList]) ∧
       tget r.2.2.coll.tbl (Coll.handleName 4) = none) ∧
    (runScriptCmd "set_from_array".toList [Coll.handleName 3] [] st).1 =
      .error "Invalid input, non array handle or array not found.".toList ∧
    -- array_concat: cells of all arguments in order; no argument: a new empty array
    (let r := runScriptCmd "array_concat".toList [Coll.handleName 1, Coll.handleName 2, Coll.handleName 1] [] st
     r.1 = .continue (some (Coll.handleName 5)) ∧
       tget r.2.2.coll.tbl (Coll.handleName 5) =
         some (.list (["a", "b", "a", "a", "b", "a"].map fun x => Item.str x.toList))) ∧
    (runScriptCmd "array_concat".toList [] [] st).1 = .continue (some (Coll.handleName 4)) ∧
    -- map_contains_value: the key array made by map_keys is released again
    (let r := runScriptCmd "map_contains_value".toList [Coll.handleName 3, "v".toList] [] st
     r.1 = .continue (some sTrue) ∧ tget r.2.2.coll.tbl (Coll.handleName 5) = none ∧ r.2.2.coll.tbl.length = 3) ∧
    (runScriptCmd "map_contains_value".toList [Coll.handleName 3, "z".toList] [] st).1 = .continue (some sFalse) ∧
    -- concat / unset
    (runScriptCmd "concat".toList ["a b".toList, [], "c".toList] [] st).1 = .continue (some "a bc".toList) ∧
    (runScriptCmd "unset".toList ["x".toList, "nope".toList] [("x".toList, "y".toList), ("z".toList, "1".toList)] st).2.1
      = [("z".toList, "1".toList)] := by
  decide +kernel

/-! ### non-vacuity -/

/-- an empty and a non-empty array, a map with an empty-string value, a wrong-kind handle -/
example :
    let st : ScriptSt := { coll := (Coll.run {} [(.array, ["a".toList]), (.array, []), (.map, []),
      (.mapPut, [Coll.handleName 3, "k".toList, []])]).1 }
    (runScriptCmd "array_is_empty".toList [Coll.handleName 1] [] st).1 = .continue (some sFalse) ∧
    (runScriptCmd "array_is_empty".toList [Coll.handleName 2] [] st).1 = .continue (some sTrue) ∧
    (runScriptCmd "map_contains_key".toList [Coll.handleName 3, "k".toList] [] st).1 = .continue (some sTrue) ∧
    (runScriptCmd "map_contains_key".toList [Coll.handleName 3, "z".toList] [] st).1 = .continue (some sFalse) ∧
    (runScriptCmd "set_is_empty".toList [Coll.handleName 3] [] st).1 = .error (msg "Invalid handle provided.") := by
  decide +kernel

/-- the hypotheses are satisfiable: the empty state -/
example : tget ({} : ScriptSt).coll.tbl (Coll.handleName ({} : ScriptSt).coll.next) = none := rfl

end Duck
