/-
  C05, simulation — programs with functions run like their trees.
  A program is a list of function definitions followed by a main block
  (`Spec.withDefs defs main`).  The goto-machine (runner + transcribed flow-control / function
  commands with their call stacks) and the tree-walking interpreter (`Spec.execCall`,
  `Spec.afterCall`, `Spec.bindParams`) reach the same observables: emit trace, final variables,
  collections — through calls with arguments and output variables, `return` from inside nested
  if / while blocks (the blocks' stack entries stay behind as garbage and are proved harmless),
  falling off the end of a function, `<scope>` functions (caller's variables restored exactly, plus
  the output variable), and calls from function bodies to functions defined earlier.

  Fragment (`Spec.progOK`, Spec/TreeFn.lean): bodies and main block in the simple2 fragment plus call
  lines; `return` only in function bodies and not lexically inside a for-in body (known defect
  F-C05: the iteration entry survives the return); no recursion; conditions do not start with a
  defined function; a for-in body contains no call (the coarse call oracle `faAll`).
  Hypothesis `FnCondArgsSafe`: as in C04_sim_cmdcond_partial, for the conditions evaluated in the
  tree run including those inside called functions.
-/
import DuckModel.Lemmas.SimFnMain

namespace Duck
open Duck.Spec Duck.Generated

/-- the full statement (kept visible; not proved): every well-formed program whose tree
    interpretation ends normally -/
def C05_sim_statement : Prop :=
  ∀ (b : Block) (vars : Vars) (fuelT : Nat) (t' : TState),
    b.wf = true →
    execBlock (program b) fuelT b { vars := vars, sdk := {} } = .normal t' →
    ∃ fuelM rs, interpRun fuelM (program b) vars {} = (rs, .reachedEnd) ∧
      rs.vars = t'.vars ∧ rs.st.emitted = t'.sdk.emitted ∧ rs.st.handles = t'.sdk.handles

/-- G1 + G2 + G3: plain and `<scope>` functions, calls (as statements or output-assigning) from
    the main block and from function bodies to earlier functions, `return` with or without a
    value from any nesting of if / while inside a function -/
theorem C05_sim_partial (defs : List FnDecl) (main : Block) (vars : Vars) (fuelT : Nat) (t' : TState)
    (hok : progOK defs main = true) (hsafe : FnCondArgsSafe fuelT defs main vars)
    (h : execBlock (program (withDefs defs main)) fuelT (withDefs defs main)
          { vars := vars, sdk := {} } = .normal t') :
    ∃ fuelM rs, interpRun fuelM (program (withDefs defs main)) vars {} = (rs, .reachedEnd) ∧
      rs.vars = t'.vars ∧ rs.st.emitted = t'.sdk.emitted ∧ rs.st.handles = t'.sdk.handles :=
  sim_programF defs main vars fuelT t' hok hsafe h

end Duck
