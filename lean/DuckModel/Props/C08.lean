/-
  C08 — parsing is total, one instruction per line, malformed lines rejected in place.
  ONLY property theorems and their non-vacuity examples live here.
  (Totality / absence of panics: `parseText` is a total Lean function whose only outcomes
  are `.ok` and `.error`; that the real index arithmetic never unwinds is covered by the
  correspondence check, which runs every case under `catch_unwind`.)
-/
import DuckModel.Parser
import DuckModel.Spec.Render
import DuckModel.Lemmas.ParserLemmas

namespace Duck
open Duck.Spec

/-- a line that parses and is not an include directive nor an unknown directive -/
def LineOK (l : Str) : Prop :=
  ∃ ty, parseLine l = .ok ty ∧ ∀ c a, ty = .preProcess c a → c = some printName

/-- Without include directives (and with every directive known) the parse of a list of lines
    yields exactly one instruction per line, in order, numbered consecutively. -/
theorem C08_one_per_line (inc : Str → Except ParseFail (List Instruction)) (fs : Fs)
    (src : Option Str) (n : Nat) (ls : List Str) (is : List Instruction)
    (hp : parseLinesWith inc fs src n ls = .ok is)
    (hno : ∀ l ∈ ls, ∀ a, parseLine l ≠ .ok (.preProcess (some includeName) a)) :
    is.length = ls.length ∧
      ∀ k (hk : k < is.length), (is[k]).mi = { line := some (n + k), source := src } := by
  sorry

/-- the same for a whole text: instruction count = line count, k-th instruction has line k+1 -/
theorem C08_text_one_per_line (text : Str) (is : List Instruction)
    (hp : parseText text = .ok is)
    (hno : ∀ l ∈ lines text, ∀ a, parseLine l ≠ .ok (.preProcess (some includeName) a)) :
    is.length = (lines text).length ∧
      ∀ k (hk : k < is.length), (is[k]).mi.line = some (k + 1) := by
  sorry

/-- blank lines and `#` comment lines become empty instructions -/
theorem C08_blank_or_comment_is_empty (l : Str)
    (h : trim l = [] ∨ (trim l).head? = some '#') : parseLine l = .ok .empty := by
  sorry

/-- the first malformed line fails the whole parse with its kind and its own line number,
    wherever it stands among well-formed lines -/
theorem C08_error_in_place (inc : Str → Except ParseFail (List Instruction)) (fs : Fs)
    (src : Option Str) (n : Nat) (pre : List Str) (bad : Str) (post : List Str) (k : PErr)
    (hpre : ∀ l ∈ pre, LineOK l) (hbad : parseLine bad = .error k) :
    parseLinesWith inc fs src n (pre ++ bad :: post) =
      .error ⟨k, { line := some (n + pre.length), source := src }⟩ := by
  sorry

/-- a directive that is neither `print` nor `include_files` is rejected in place -/
theorem C08_unknown_directive_in_place (inc : Str → Except ParseFail (List Instruction)) (fs : Fs)
    (src : Option Str) (n : Nat) (pre : List Str) (bad : Str) (post : List Str)
    (c : Str) (a : Option (List Str))
    (hpre : ∀ l ∈ pre, LineOK l) (hbad : parseLine bad = .ok (.preProcess (some c) a))
    (hc : c ≠ printName ∧ c ≠ includeName) :
    parseLinesWith inc fs src n (pre ++ bad :: post) =
      .error ⟨.unknownPreProcessorCommand, { line := some (n + pre.length), source := src }⟩ := by
  sorry

/-! ### the malformed-line classes named by the property -/

/-- an unterminated quoted argument (any content, any well-formed line before it) -/
theorem C08_unterminated_quote (ch : Choices) (i : ScriptInstr) (hi : InstrOK i) (hc : ChoicesOK ch)
    (hcmd : i.command ≠ none) (hnc : ch.comment = none) (k : Nat) (s : Str) :
    parseLine (ch.lead ++ renderBody ch i ++ spaces (k + 1) ++ '"' :: escape s ++ ch.trail) =
      .error .missingEndQuotes := by
  sorry

/-- an escape that is not one of the documented ones, inside a quoted argument -/
theorem C08_bad_escape (ch : Choices) (i : ScriptInstr) (hi : InstrOK i) (hc : ChoicesOK ch)
    (hcmd : i.command ≠ none) (hnc : ch.comment = none) (k : Nat) (s : Str) (c : Char) (rest : Str)
    (hbad : c ≠ '\\' ∧ c ≠ '"' ∧ c ≠ 'n' ∧ c ≠ 'r' ∧ c ≠ 't' ∧ c ≠ '$') (hws : isWs c = false) :
    parseLine (ch.lead ++ renderBody ch i ++ spaces (k + 1) ++ '"' :: escape s ++ '\\' :: c :: rest) =
      .error .controlWithoutValidValue := by
  sorry

/-- a line whose first token begins with a double quote -/
theorem C08_quote_starts_name (lead rest : Str) (hl : ∀ c ∈ lead, isWs c = true) :
    parseLine (lead ++ '"' :: rest) = .error .invalidQuotesLocation := by
  sorry

/-- a command written after `out =` that begins with a double quote -/
theorem C08_quote_starts_command (o : Str) (ho : NameOK o ∧ NoEq o ∧ FirstOK o) (a b : Nat) (rest : Str) :
    parseLine (o ++ spaces a ++ '=' :: spaces b ++ '"' :: rest) = .error .invalidQuotesLocation := by
  sorry

/-- a label that begins with a double quote -/
theorem C08_quote_starts_label (rest : Str) :
    parseLine (':' :: '"' :: rest) = .error .invalidQuotesLocation := by
  sorry

/-- a backslash inside the first token (label, output variable or command) -/
theorem C08_backslash_in_name (lead p rest : Str) (hl : ∀ c ∈ lead, isWs c = true)
    (hp : p ≠ [] ∧ (∀ c ∈ p, isWs c = false ∧ c ≠ '#' ∧ c ≠ '\\' ∧ c ≠ '=') ∧ p.head? ≠ some '"' ∧
      p.head? ≠ some '!') :
    parseLine (lead ++ p ++ '\\' :: rest) = .error .invalidControlLocation := by
  sorry

/-- `!` with no command -/
theorem C08_directive_without_command (lead : Str) (k : Nat) (trail : Str)
    (hl : ∀ c ∈ lead, isWs c = true) (ht : ∀ c ∈ trail, isWs c = true) :
    parseLine (lead ++ '!' :: spaces k ++ trail) = .error .preProcessNoCommandFound := by
  sorry

end Duck
