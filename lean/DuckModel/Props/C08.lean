/-
  C08 — parsing is total, one instruction per line, malformed lines rejected in place.
  Props/C08Core.lean    : theorems about the suffix-form parser model (one instruction per line,
                          blank/comment lines, first malformed line wins, the malformed classes).
  Props/C08Indexed.lean : the index-faithful twin (explicit `index`, `line_text[index]`,
                          `index -= 1`, `index = end_index` with a `panic` outcome exactly where
                          Rust would unwind) never panics and computes exactly what the suffix
                          model computes — so the theorems above, and C01's round trip, hold of it.
  Props/C08TranslatedFns.lean : the functions built on `parse_next_value` (find_label,
                          find_output_and_command, parse_pre_process_line, parse_command_line,
                          parse_line, parse_arguments…) as TRANSLATED from the current source
                          (Generated/ParserFns.lean) equal the hand-written models.
-/
import DuckModel.Props.C08Core
import DuckModel.Props.C08Indexed
import DuckModel.Props.C08Translated
import DuckModel.Props.C08TranslatedFns
import DuckModel.Props.C08Dead
