/-
  C04, stage 1 — block boundary discovery is correct.
  For every well-formed (properly nested) block statement placed ANYWHERE in a program, the
  scanner `find_commands`, run with the keyword tables regenerated from the source, finds
  exactly the statement's own end line and (for `if`) exactly its own else-lines, skipping
  everything nested inside — for every nesting depth and every spelling of every keyword.
-/
import DuckModel.Sdk.Flow
import DuckModel.Spec.TreeWF
import DuckModel.Lemmas.ScanLemmas

namespace Duck
open Duck.Spec Duck.Generated

/-- `if` chains: the scan started on the line after the `if` returns the else-lines and the end
    line of this very chain -/
theorem C04_scan_if (pre post : List Instruction) (kwIf : Str) (cond : List Str) (body : Block)
    (elifs : Elifs) (kwElse : Option Str) (elseBody : Block) (kwEnd : Str)
    (h : (Stmt.ifChain kwIf cond body elifs kwElse elseBody kwEnd).wf = true)
    (hn : (Stmt.ifChain kwIf cond body elifs kwElse elseBody kwEnd).noFn = true) :
    let st := Stmt.ifChain kwIf cond body elifs kwElse elseBody kwEnd
    let is := pre ++ instrsFrom pre.length st.flatten ++ post
    findCommands ifTables is (pre.length + 1) =
      .ok ⟨(elseOffsets body elifs kwElse).map (pre.length + ·), pre.length + st.flatten.length - 1⟩ := by
  intro st is
  simp only [Stmt.wf, Bool.and_eq_true] at h
  simp only [Stmt.noFn, Bool.and_eq_true] at hn
  obtain ⟨⟨⟨⟨hIf, hbw⟩, hew⟩, helse⟩, hEnd⟩ := h
  have hb := scanBlock .kIf is body hbw hn.1.1
  have he := scanElifs .kIf is elifs hew hn.1.2
  have hel : kwElse.isSome = true → ScanP .kIf is elseBody.flatten (fun _ => []) := by
    intro hs
    cases kwElse with
    | none => cases hs
    | some k =>
      simp only [Bool.and_eq_true] at helse
      exact scanBlock .kIf is elseBody helse.2 hn.2
  have hElse : ∀ k, kwElse = some k → isElseKw k = true := by
    intro k hk
    subst hk
    simp only [Bool.and_eq_true] at helse
    exact helse.1
  have hin := scan_ifInner body.flatten elifs.flatten kwElse elseBody.flatten
    (fun off => elifAbs off elifs) hElse hb he hel
  refine (scan_top (K := .kIf) pre post (mkInstr none kwIf cond) kwEnd _ _ hEnd hin).trans ?_
  have hoff := elseOffsets_go_map pre.length elifs (1 + body.flatten.length) kwElse
  have hlen : st.flatten.length =
      1 + (body.flatten ++ elifs.flatten ++ elsePart kwElse elseBody.flatten).length + 1 := by
    simp only [st, Stmt.flatten, elsePart, List.length_cons, List.length_append, List.length_nil]
    omega
  rw [hlen]
  simp only [elseOffsets, hoff, ifMids, midK, if_true]
  congr 2
  · congr 1
    · congr 1; omega
    · cases kwElse <;> simp <;> omega
  · omega

/-- `while` loops -/
theorem C04_scan_while (pre post : List Instruction) (kw : Str) (cond : List Str) (body : Block)
    (kwEnd : Str) (h : (Stmt.whileLoop kw cond body kwEnd).wf = true)
    (hn : (Stmt.whileLoop kw cond body kwEnd).noFn = true) :
    let st := Stmt.whileLoop kw cond body kwEnd
    let is := pre ++ instrsFrom pre.length st.flatten ++ post
    findCommands whileTables is (pre.length + 1) = .ok ⟨[], pre.length + st.flatten.length - 1⟩ := by
  intro st is
  simp only [Stmt.wf, Bool.and_eq_true] at h
  simp only [Stmt.noFn] at hn
  have hb := scanBlock .kWhile is body h.1.2 hn
  refine (scan_top (K := .kWhile) pre post (mkInstr none kw cond) kwEnd _ _ h.2 hb).trans ?_
  have hlen : st.flatten.length = 1 + body.flatten.length + 1 := by
    simp only [st, Stmt.flatten, List.length_cons, List.length_append, List.length_nil]
    omega
  rw [hlen]
  congr 2

/-- `for … in` loops -/
theorem C04_scan_for (pre post : List Instruction) (kw : Str) (v handle : Str) (body : Block)
    (kwEnd : Str) (h : (Stmt.forIn kw v handle body kwEnd).wf = true)
    (hn : (Stmt.forIn kw v handle body kwEnd).noFn = true) :
    let st := Stmt.forIn kw v handle body kwEnd
    let is := pre ++ instrsFrom pre.length st.flatten ++ post
    findCommands forTables is (pre.length + 1) = .ok ⟨[], pre.length + st.flatten.length - 1⟩ := by
  intro st is
  simp only [Stmt.wf, Bool.and_eq_true] at h
  simp only [Stmt.noFn] at hn
  have hb := scanBlock .kFor is body h.1.2 hn
  refine (scan_top (K := .kFor) pre post (mkInstr none kw [v, "in".toList, handle]) kwEnd _ _ h.2 hb).trans ?_
  have hlen : st.flatten.length = 1 + body.flatten.length + 1 := by
    simp only [st, Stmt.flatten, List.length_cons, List.length_append, List.length_nil]
    omega
  rw [hlen]
  congr 2

/-- function definitions (bodies without nested definitions): the end of the definition -/
theorem C04_scan_fn (pre post : List Instruction) (kw : Str) (isSc : Bool) (name : Str) (body : Block)
    (kwEnd : Str) (h : (Stmt.fnDef kw isSc name body kwEnd).wf = true) (hn : body.noFn = true) :
    let st := Stmt.fnDef kw isSc name body kwEnd
    let is := pre ++ instrsFrom pre.length st.flatten ++ post
    findCommands fnTables is (pre.length + 1) = .ok ⟨[], pre.length + st.flatten.length - 1⟩ := by
  intro st is
  simp only [Stmt.wf, Bool.and_eq_true] at h
  have hb := scanBlock .kFn is body h.1.2 hn
  refine (scan_top (K := .kFn) pre post
    (mkInstr none kw (if isSc then ["<scope>".toList, name] else [name])) kwEnd _ _ h.2 hb).trans ?_
  have hlen : st.flatten.length = 1 + body.flatten.length + 1 := by
    simp only [st, Stmt.flatten, List.length_cons, List.length_append, List.length_nil]
    omega
  rw [hlen]
  congr 2

/-- the regenerated tables are mutually consistent (what the proofs above rely on):
    each scanner counts the openers / closers of all OTHER block kinds -/
theorem C04_tables_consistent :
    (∀ k, isWhileKw k = true ∨ isForKw k = true ∨ isFnKw k = true → ifTables.startBlocks.contains k = true) ∧
    (∀ k, isIfKw k = true ∨ isForKw k = true ∨ isFnKw k = true → whileTables.startBlocks.contains k = true) ∧
    (∀ k, isIfKw k = true ∨ isWhileKw k = true ∨ isFnKw k = true → forTables.startBlocks.contains k = true) ∧
    (∀ k, isIfKw k = true ∨ isWhileKw k = true ∨ isForKw k = true → fnTables.startBlocks.contains k = true) ∧
    (∀ k, isElifKw k = true ∨ isElseKw k = true ↔ ifTables.middleNames.contains k = true) ∧
    (∀ k, isEndIfKw k = true ↔ ifTables.endNames.contains k = true) ∧
    (∀ k, isEndWhileKw k = true ↔ whileTables.endNames.contains k = true) ∧
    (∀ k, isEndForKw k = true ↔ forTables.endNames.contains k = true) ∧
    (∀ k, isEndFnKw k = true ↔ fnTables.endNames.contains k = true) := by
  refine ⟨?_, ?_, ?_, ?_, ?_, ?_, ?_, ?_, ?_⟩
  · exact forall_contains_or3 (by decide)
  · exact forall_contains_or3 (by decide)
  · exact forall_contains_or3 (by decide)
  · exact forall_contains_or3 (by decide)
  · intro k
    exact ⟨forall_contains_or2 (by decide) k,
      forall_contains (p := fun k => isElifKw k = true ∨ isElseKw k = true) (by decide) k⟩
  · intro k
    exact ⟨forall_contains_or (by decide) k, forall_contains (by decide) k⟩
  · intro k
    exact ⟨forall_contains_or (by decide) k, forall_contains (by decide) k⟩
  · intro k
    exact ⟨forall_contains_or (by decide) k, forall_contains (by decide) k⟩
  · intro k
    exact ⟨forall_contains_or (by decide) k, forall_contains (by decide) k⟩

end Duck
