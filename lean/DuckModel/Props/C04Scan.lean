/-
  C04, stage 1 — block boundary discovery is correct.
  For every well-formed (properly nested) block statement placed ANYWHERE in a program, the
  scanner `find_commands`, run with the keyword tables regenerated from the source, finds
  exactly the statement's own end line and (for `if`) exactly its own else-lines, skipping
  everything nested inside — for every nesting depth and every spelling of every keyword.
-/
import DuckModel.Sdk.Flow
import DuckModel.Spec.TreeWF
import DuckModel.Lemmas.ScanLemmas

namespace Duck
open Duck.Spec Duck.Generated

/-- `if` chains: the scan started on the line after the `if` returns the else-lines and the end
    line of this very chain -/
theorem C04_scan_if (pre post : List Instruction) (kwIf : Str) (cond : List Str) (body : Block)
    (elifs : Elifs) (kwElse : Option Str) (elseBody : Block) (kwEnd : Str)
    (h : (Stmt.ifChain kwIf cond body elifs kwElse elseBody kwEnd).wf = true)
    (hn : (Stmt.ifChain kwIf cond body elifs kwElse elseBody kwEnd).noFn = true) :
    let st := Stmt.ifChain kwIf cond body elifs kwElse elseBody kwEnd
    let is := pre ++ instrsFrom pre.length st.flatten ++ post
    findCommands ifTables is (pre.length + 1) =
      .ok ⟨(elseOffsets body elifs kwElse).map (pre.length + ·), pre.length + st.flatten.length - 1⟩ := by
  intro st is
  simp only [Stmt.wf, Bool.and_eq_true] at h
  simp only [Stmt.noFn, Bool.and_eq_true] at hn
  obtain ⟨⟨⟨⟨hIf, hbw⟩, hew⟩, helse⟩, hEnd⟩ := h
  have hElse : ∀ k, kwElse = some k → isElseKw k = true := by
    intro k hk
    subst hk
    simp only [Bool.and_eq_true] at helse
    exact helse.1
  have helw : kwElse.isSome = true → elseBody.wf = true := by
    intro hs
    cases kwElse with
    | none => cases hs
    | some k =>
      simp only [Bool.and_eq_true] at helse
      exact helse.2
  have hfl := ifChain_flatten kwIf cond body elifs kwElse elseBody kwEnd
  show findCommands ifTables (pre ++ instrsFrom pre.length
      (Stmt.ifChain kwIf cond body elifs kwElse elseBody kwEnd).flatten ++ post) (pre.length + 1) =
    .ok ⟨(elseOffsets body elifs kwElse).map (pre.length + ·),
      pre.length + (Stmt.ifChain kwIf cond body elifs kwElse elseBody kwEnd).flatten.length - 1⟩
  rw [hfl]
  refine (scan_top (K := .kIf) pre post (mkInstr none kwIf cond) kwEnd _ _ hEnd
    (scan_ifInner body.flatten elifs.flatten kwElse elseBody.flatten (fun off => elifAbs off elifs)
      hElse (scanBlock .kIf _ body hbw hn.1.1) (scanElifs .kIf _ elifs hew hn.1.2)
      (fun hs => scanBlock .kIf _ elseBody (helw hs) hn.2))).trans ?_
  have hoff := elseOffsets_go_map pre.length elifs (1 + body.flatten.length) kwElse
  simp only [elseOffsets, hoff, ifMids, midK, if_true, List.length_cons, List.length_append,
    List.length_nil]
  congr 2
  · congr 1
    · congr 1; omega
    · cases kwElse <;> simp <;> omega
  · omega

/-- `while` loops -/
theorem C04_scan_while (pre post : List Instruction) (kw : Str) (cond : List Str) (body : Block)
    (kwEnd : Str) (h : (Stmt.whileLoop kw cond body kwEnd).wf = true)
    (hn : (Stmt.whileLoop kw cond body kwEnd).noFn = true) :
    let st := Stmt.whileLoop kw cond body kwEnd
    let is := pre ++ instrsFrom pre.length st.flatten ++ post
    findCommands whileTables is (pre.length + 1) = .ok ⟨[], pre.length + st.flatten.length - 1⟩ := by
  intro st is
  simp only [Stmt.wf, Bool.and_eq_true] at h
  simp only [Stmt.noFn] at hn
  have hb := scanBlock .kWhile is body h.1.2 hn
  refine (scan_top (K := .kWhile) pre post (mkInstr none kw cond) kwEnd _ _ h.2 hb).trans ?_
  have hlen : st.flatten.length = 1 + body.flatten.length + 1 := by
    simp only [st, Stmt.flatten, List.length_cons, List.length_append, List.length_nil]
    omega
  rw [hlen]
  congr 2
  omega

/-- `for … in` loops -/
theorem C04_scan_for (pre post : List Instruction) (kw : Str) (v handle : Str) (body : Block)
    (kwEnd : Str) (h : (Stmt.forIn kw v handle body kwEnd).wf = true)
    (hn : (Stmt.forIn kw v handle body kwEnd).noFn = true) :
    let st := Stmt.forIn kw v handle body kwEnd
    let is := pre ++ instrsFrom pre.length st.flatten ++ post
    findCommands forTables is (pre.length + 1) = .ok ⟨[], pre.length + st.flatten.length - 1⟩ := by
  intro st is
  simp only [Stmt.wf, Bool.and_eq_true] at h
  simp only [Stmt.noFn] at hn
  have hb := scanBlock .kFor is body h.1.2 hn
  refine (scan_top (K := .kFor) pre post (mkInstr none kw [v, "in".toList, handle]) kwEnd _ _ h.2 hb).trans ?_
  have hlen : st.flatten.length = 1 + body.flatten.length + 1 := by
    simp only [st, Stmt.flatten, List.length_cons, List.length_append, List.length_nil]
    omega
  rw [hlen]
  congr 2
  omega

/-- function definitions (bodies without nested definitions): the end of the definition -/
theorem C04_scan_fn (pre post : List Instruction) (kw : Str) (isSc : Bool) (name : Str) (body : Block)
    (kwEnd : Str) (h : (Stmt.fnDef kw isSc name body kwEnd).wf = true) (hn : body.noFn = true) :
    let st := Stmt.fnDef kw isSc name body kwEnd
    let is := pre ++ instrsFrom pre.length st.flatten ++ post
    findCommands fnTables is (pre.length + 1) = .ok ⟨[], pre.length + st.flatten.length - 1⟩ := by
  intro st is
  simp only [Stmt.wf, Bool.and_eq_true] at h
  have hb := scanBlock .kFn is body h.1.2 hn
  refine (scan_top (K := .kFn) pre post
    (mkInstr none kw (if isSc then ["<scope>".toList, name] else [name])) kwEnd _ _ h.2 hb).trans ?_
  have hlen : st.flatten.length = 1 + body.flatten.length + 1 := by
    simp only [st, Stmt.flatten, List.length_cons, List.length_append, List.length_nil]
    omega
  rw [hlen]
  congr 2
  omega

/-- the regenerated tables are mutually consistent (what the proofs above rely on):
    each scanner counts the openers / closers of all OTHER block kinds -/
theorem C04_tables_consistent :
    (∀ k, isWhileKw k = true ∨ isForKw k = true ∨ isFnKw k = true → ifTables.startBlocks.contains k = true) ∧
    (∀ k, isIfKw k = true ∨ isForKw k = true ∨ isFnKw k = true → whileTables.startBlocks.contains k = true) ∧
    (∀ k, isIfKw k = true ∨ isWhileKw k = true ∨ isFnKw k = true → forTables.startBlocks.contains k = true) ∧
    (∀ k, isIfKw k = true ∨ isWhileKw k = true ∨ isForKw k = true → fnTables.startBlocks.contains k = true) ∧
    (∀ k, isElifKw k = true ∨ isElseKw k = true ↔ ifTables.middleNames.contains k = true) ∧
    (∀ k, isEndIfKw k = true ↔ ifTables.endNames.contains k = true) ∧
    (∀ k, isEndWhileKw k = true ↔ whileTables.endNames.contains k = true) ∧
    (∀ k, isEndForKw k = true ↔ forTables.endNames.contains k = true) ∧
    (∀ k, isEndFnKw k = true ↔ fnTables.endNames.contains k = true) := by
  refine ⟨?_, ?_, ?_, ?_, ?_, ?_, ?_, ?_, ?_⟩
  · exact forall_contains_or3 (by decide)
  · exact forall_contains_or3 (by decide)
  · exact forall_contains_or3 (by decide)
  · exact forall_contains_or3 (by decide)
  · have h1 : ∀ k, isElifKw k = true ∨ isElseKw k = true → ifTables.middleNames.contains k = true :=
      forall_contains_or2 (by decide)
    have h2 : ∀ k, ifTables.middleNames.contains k = true → isElifKw k = true ∨ isElseKw k = true :=
      forall_contains (by decide)
    exact fun k => ⟨h1 k, h2 k⟩
  · have h1 : ∀ k, isEndIfKw k = true → ifTables.endNames.contains k = true :=
      forall_contains_or (by decide)
    have h2 : ∀ k, ifTables.endNames.contains k = true → isEndIfKw k = true :=
      forall_contains (by decide)
    exact fun k => ⟨h1 k, h2 k⟩
  · have h1 : ∀ k, isEndWhileKw k = true → whileTables.endNames.contains k = true :=
      forall_contains_or (by decide)
    have h2 : ∀ k, whileTables.endNames.contains k = true → isEndWhileKw k = true :=
      forall_contains (by decide)
    exact fun k => ⟨h1 k, h2 k⟩
  · have h1 : ∀ k, isEndForKw k = true → forTables.endNames.contains k = true :=
      forall_contains_or (by decide)
    have h2 : ∀ k, forTables.endNames.contains k = true → isEndForKw k = true :=
      forall_contains (by decide)
    exact fun k => ⟨h1 k, h2 k⟩
  · have h1 : ∀ k, isEndFnKw k = true → fnTables.endNames.contains k = true :=
      forall_contains_or (by decide)
    have h2 : ∀ k, fnTables.endNames.contains k = true → isEndFnKw k = true :=
      forall_contains (by decide)
    exact fun k => ⟨h1 k, h2 k⟩

/-! ### non-vacuity: concrete nested programs satisfy the hypotheses, and the conclusions are
    what evaluation of the scanner gives -/

section NonVacuity

private def ln (c : String) : Stmt := .line ⟨none, c.toList, ["x".toList]⟩

/-- `if … (while … (If … else … end) end_while) ElseIf … else (for … end) fi` -/
private def exIfParts : Block × Elifs × Block :=
  (.cons (ln "echo") (.cons
      (.whileLoop "while".toList ["c".toList]
        (.cons (.ifChain "std::flowcontrol::If".toList ["d".toList] (.cons (ln "echo") .nil) .nil
                  (some "else".toList) (.cons (.ret "return".toList none) .nil) "end".toList) .nil)
        "end_while".toList) .nil),
   .cons "std::flowcontrol::ElseIf".toList ["e".toList] (.cons (ln "set") .nil) .nil,
   .cons (.forIn "for".toList "i".toList "h".toList (.cons (ln "echo") .nil) "end".toList) .nil)

private def exIf : Stmt :=
  .ifChain "if".toList ["a".toList] exIfParts.1 exIfParts.2.1 (some "std::flowcontrol::Else".toList)
    exIfParts.2.2 "fi".toList

private def exPre : List Instruction := instrsFrom 0 [mkInstr none "echo".toList [], mkInstr none "end".toList []]
private def exPost : List Instruction := instrsFrom 20 [mkInstr none "else".toList [], mkInstr none "end".toList []]

example : exIf.wf = true := by decide
example : exIf.noFn = true := by decide
example : exIf.flatten.length = 16 := by decide
example : elseOffsets exIfParts.1 exIfParts.2.1 (some "std::flowcontrol::Else".toList) = [9, 11] := by decide

/-- the theorem applied (between unrelated lines that contain stray `end` / `else` words) -/
example : findCommands ifTables (exPre ++ instrsFrom exPre.length exIf.flatten ++ exPost) (2 + 1) =
    .ok ⟨[11, 13], 17⟩ :=
  C04_scan_if exPre exPost "if".toList ["a".toList] exIfParts.1 exIfParts.2.1
    (some "std::flowcontrol::Else".toList) exIfParts.2.2 "fi".toList (by decide) (by decide)

/-- … and the scanner evaluated directly -/
example : findCommands ifTables (exPre ++ instrsFrom exPre.length exIf.flatten ++ exPost) 3 =
    .ok ⟨[11, 13], 17⟩ := by rfl

/-- `while … (While … end) (if … end) endwhile` -/
private def exWhileBody : Block :=
  .cons (.whileLoop "std::flowcontrol::While".toList [] (.cons (ln "echo") .nil) "end".toList)
    (.cons (.ifChain "if".toList [] (.cons (ln "echo") .nil) .nil none .nil "end".toList) .nil)

example : findCommands whileTables (exPre ++ instrsFrom exPre.length
      (Stmt.whileLoop "while".toList [] exWhileBody "endwhile".toList).flatten ++ exPost) (2 + 1) =
    .ok ⟨[], 9⟩ :=
  C04_scan_while exPre exPost "while".toList [] exWhileBody "endwhile".toList (by decide) (by decide)

example : findCommands forTables (exPre ++ instrsFrom exPre.length
      (Stmt.forIn "for".toList "i".toList "h".toList (.cons exIf exWhileBody) "end_for".toList).flatten ++ exPost)
      (2 + 1) = .ok ⟨[], 25⟩ :=
  C04_scan_for exPre exPost "for".toList "i".toList "h".toList (.cons exIf exWhileBody) "end_for".toList
    (by decide) (by decide)

example : findCommands fnTables (exPre ++ instrsFrom exPre.length
      (Stmt.fnDef "fn".toList true "f".toList (.cons exIf exWhileBody) "end".toList).flatten ++ exPost)
      (2 + 1) = .ok ⟨[], 25⟩ :=
  C04_scan_fn exPre exPost "fn".toList true "f".toList (.cons exIf exWhileBody) "end".toList
    (by decide) (by decide)

example : findCommands fnTables (exPre ++ instrsFrom exPre.length
      (Stmt.fnDef "fn".toList true "f".toList (.cons exIf exWhileBody) "end".toList).flatten ++ exPost) 3 =
    .ok ⟨[], 25⟩ := by rfl

end NonVacuity

end Duck
