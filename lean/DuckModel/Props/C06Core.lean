/-
  C06 — conditions: one truthiness rule, and-of-ors grouping, parentheses.
-/
import DuckModel.Sdk.Condition
import DuckModel.Spec.Cond
import DuckModel.Lemmas.ConditionLemmas

namespace Duck
open Duck.Spec

/-- the truthiness table of the code (regenerated from `is_true` on every run) is the one of
    the property statement: falsy exactly when absent, empty, '0', 'false' or 'no',
    case-insensitively -/
theorem C06_truthiness (v : Option Str) : isTrue v = truthy v := by
  exact isTrue_eq_truthy v

theorem C06_falsy_iff (v : Option Str) :
    isTrue v = false ↔
      v = none ∨ ∃ s, v = some s ∧
        (asciiLower s = [] ∨ asciiLower s = "0".toList ∨ asciiLower s = "false".toList ∨
          asciiLower s = "no".toList) := by
  rw [C06_truthiness]
  cases v with
  | none => simp [truthy]
  | some s =>
    constructor
    · intro h
      refine Or.inr ⟨s, rfl, ?_⟩
      simpa only [truthy, Bool.not_eq_false', Bool.or_eq_true, decide_eq_true_eq, or_assoc,
        String.toList_empty] using h
    · rintro (h | ⟨s', h, h'⟩)
      · cases h
      · cases h
        simpa only [truthy, Bool.not_eq_false', Bool.or_eq_true, decide_eq_true_eq, or_assoc,
          String.toList_empty] using h'

/-- every well-formed condition statement evaluates as the conjunction of disjunctions of
    its atoms, groups being atoms evaluated by the same rule, wherever a group stands -/
theorem C06_eval_correct (c : Cond) (h : c.OK) : evalSlice c.tokens = .ok c.eval := by
  exact evalSlice_correct c h

/-- in particular a group in first position followed by `or` (the repaired defect) -/
theorem C06_group_first_or (g : Cond) (a : Atom) (hg : g.OK) (ha : a.OK) :
    evalSlice ((Atom.group g).tokens ++ "or".toList :: a.tokens) = .ok (g.eval || a.eval) := by
  have h := C06_eval_correct
    (Cond.conj (Conj.one (Disj.cons (Atom.group g) (Disj.one a))))
    (by simp only [Cond.OK, Conj.OK, Disj.OK, Atom.OK]; exact ⟨hg, ha⟩)
  simpa only [Cond.tokens, Conj.tokens, Disj.tokens, Cond.eval, Conj.eval, Disj.eval,
    Atom.eval] using h

/-- an empty statement and an empty group are falsy -/
theorem C06_empty_falsy : evalSlice [] = .ok false ∧ evalSlice ["(".toList, ")".toList] = .ok false := by
  constructor <;> rfl

/-- enough fuel is always provided: the result does not depend on extra fuel -/
theorem C06_fuel_irrelevant (args : List Str) (extra : Nat) :
    evalSliceF (args.length + 1 + extra) args = evalSlice args := by
  exact evalSliceF_fuel_add args extra

/-! ### non-vacuity -/

/-- `( false ) or true` -/
example : evalSlice ["(".toList, "false".toList, ")".toList, "or".toList, "true".toList]
    = .ok true := by rfl

/-- `true and ( false or ( ) )` -/
example : evalSlice ["true".toList, "and".toList, "(".toList, "false".toList, "or".toList,
    "(".toList, ")".toList, ")".toList] = .ok false := by rfl

/-- `( true or false ) and ( ( no ) or yes )`: a concrete nested condition satisfying `OK`,
    with its tokens, its specified value, and the evaluator's result on it -/
example : ∃ c : Cond, c.OK ∧
    c.tokens =
      ["(".toList, "true".toList, "or".toList, "false".toList, ")".toList, "and".toList,
       "(".toList, "(".toList, "no".toList, ")".toList, "or".toList, "yes".toList,
       ")".toList] ∧
    c.eval = true ∧ evalSlice c.tokens = .ok true := by
  refine ⟨.conj (.cons
      (.one (.group (.conj (.one (.cons (.val "true".toList) (.one (.val "false".toList)))))))
      (.one (.one (.group (.conj (.one
        (.cons (.group (.conj (.one (.one (.val "no".toList)))))
          (.one (.val "yes".toList))))))))), ?_, ?_, ?_, ?_⟩
  · simp only [Cond.OK, Conj.OK, Disj.OK, Atom.OK, ValOK]
    decide
  · simp [Cond.tokens, Conj.tokens, Disj.tokens, Atom.tokens]
  · simp [Cond.eval, Conj.eval, Disj.eval, Atom.eval, truthy, asciiLower, asciiLowerChar]
  · rw [C06_eval_correct _ (by simp only [Cond.OK, Conj.OK, Disj.OK, Atom.OK, ValOK]; decide)]
    simp [Cond.eval, Conj.eval, Disj.eval, Atom.eval, truthy, asciiLower, asciiLowerChar]

/-- a malformed statement is rejected, not silently evaluated -/
example : evalSlice ["true".toList, "false".toList] = .error .unexpectedValue := by rfl

end Duck
