/-
  C06 — "if, elseif, while and not all decide by this same evaluation".

  The four commands are transcribed in `Sdk/Flow.lean` (`runCmd`, cases `.ifC`, `.elseIf`,
  `.whileC`, `.notC`); each calls the one evaluator `evalCondition` and branches on nothing
  but its Boolean.  The theorems below state, for arbitrary nested evaluator, program,
  non-empty argument list, variables and state, exactly what each command does with that
  Boolean; `C06_value_conditions_are_slices` connects `evalCondition` with `evalSlice`
  (Props/C06.lean) and `C06_consumers_agree` puts the two together for condition ASTs.
-/
import DuckModel.Props.C06Core
import DuckModel.Lemmas.ConsumerLemmas

namespace Duck
open Duck.Spec

section consumers

variable (nested : EvalFn)
  (endRec : Cmd → List Str → Option Str → Nat → Vars → Sdk → CmdResult × Vars × Sdk)
  (is : List Instruction) (args : List Str) (out : Option Str) (line : Nat) (vars : Vars) (s : Sdk)

/-! ### 1. `not` -/

/-- `not <condition>` returns the negation of the evaluation (as the text `true` / `false`),
    with the variables and state the evaluation left; a failed evaluation is the command's error -/
theorem C06_not_negates (hargs : args ≠ []) :
    (∀ b vars' s', evalCondition nested is args vars s = (.ok b, vars', s') →
      runCmd nested endRec is .notC args out line vars s =
        (.continue (some (if b then "false".toList else "true".toList)), vars', s')) ∧
    (∀ vars' s', evalCondition nested is args vars s = (.error (), vars', s') →
      runCmd nested endRec is .notC args out line vars s = (errR, vars', s')) := by
  constructor
  · intro b vars' s' h
    rw [runCmd_notC, isEmpty_false_of_ne_nil hargs, h]
    rfl
  · intro vars' s' h
    rw [runCmd_notC, isEmpty_false_of_ne_nil hargs, h]
    rfl

/-! ### 2. `while` -/

/-- `while <condition>`: after the block positions are known (`whileMetaFor`), the evaluation
    alone decides: true ⇒ the body is entered (next line) and the loop is pushed on the while
    stack; false ⇒ jump behind the `end_while` line -/
theorem C06_while_decides (hargs : args ≠ []) {stop : Nat} {s1 : Sdk}
    (hmeta : whileMetaFor is s line = .ok (stop, s1))
    {b : Bool} {vars' : Vars} {s' : Sdk}
    (heval : evalCondition nested is args vars s1 = (.ok b, vars', s')) :
    runCmd nested endRec is .whileC args out line vars s =
      if b then
        (.continue none, vars',
          { s' with whileStack := { start := line, stop := stop, ctx := s'.lineCtx } :: s'.whileStack })
      else (.goTo none (.line (stop + 1)), vars', s') := by
  rw [runCmd_whileC, isEmpty_false_of_ne_nil hargs, hmeta]
  simp only [Bool.false_eq_true, if_false, heval]

/-! ### 3. `if` -/

/-- `if <condition>`: after the block positions are known (`ifMetaFor`), the evaluation alone
    decides: true ⇒ the first branch is entered; false ⇒ jump to the next `elseif`/`else` line
    if there is one, else behind the `end_if` line.  The pushed `IfCall` is the one `runCmd`
    builds. -/
theorem C06_if_decides (hargs : args ≠ []) {stop : Nat} {elses : List Nat} {s1 : Sdk}
    (hmeta : ifMetaFor is s line = .ok ((stop, elses), s1))
    {b : Bool} {vars' : Vars} {s' : Sdk}
    (heval : evalCondition nested is args vars s1 = (.ok b, vars', s')) :
    runCmd nested endRec is .ifC args out line vars s =
      if b then
        (.continue none, vars',
          { s' with ifStack :=
              { current := (match (generalizing := false) elses with | [] => stop | e :: _ => e), passed := true, elseIdx := 0,
                start := line, stop := stop, elses := elses, ctx := s'.lineCtx } :: s'.ifStack })
      else
        match (generalizing := false) elses with
        | [] => (.goTo none (.line (stop + 1)), vars', s')
        | e :: _ =>
          (.goTo none (.line e), vars',
            { s' with ifStack :=
                { current := e, passed := false, elseIdx := 0,
                  start := line, stop := stop, elses := elses, ctx := s'.lineCtx } :: s'.ifStack }) := by
  rw [runCmd_ifC, isEmpty_false_of_ne_nil hargs, hmeta]
  simp only [Bool.false_eq_true, if_false, heval]
  cases b <;> cases elses <;> rfl

/-! ### 4. `elseif` -/

/-- `elseif <condition>` in an `if` none of whose earlier branches was taken: the evaluation
    (on the state with the call info popped) alone decides: true ⇒ the branch is entered;
    false ⇒ jump to the next else-line if there is one, else behind the `end_if` line -/
theorem C06_elseif_decides (hargs : args ≠ []) {ci : IfCall} {rest : List IfCall}
    (hpop : popIf line s.lineCtx s.ifStack = some (ci, rest)) (hpassed : ci.passed = false)
    {b : Bool} {vars' : Vars} {s' : Sdk}
    (heval : evalCondition nested is args vars { s with ifStack := rest } = (.ok b, vars', s')) :
    runCmd nested endRec is .elseIf args out line vars s =
      if b then
        (.continue none, vars',
          { s' with ifStack :=
              { ci with
                current := (if ci.elseIdx + 1 < ci.elses.length then ci.elses[ci.elseIdx + 1]?.getD 0
                            else ci.elses[0]?.getD 0),
                passed := true, ctx := s'.lineCtx } :: s'.ifStack })
      else if ci.elseIdx + 1 < ci.elses.length then
        (.goTo none (.line (ci.elses[ci.elseIdx + 1]?.getD 0)), vars',
          { s' with ifStack :=
              { ci with current := ci.elses[ci.elseIdx + 1]?.getD 0, passed := false,
                        elseIdx := ci.elseIdx + 1, ctx := s'.lineCtx } :: s'.ifStack })
      else (.goTo none (.line (ci.stop + 1)), vars', s') := by
  rw [runCmd_elseIf, isEmpty_false_of_ne_nil hargs, hpop]
  simp only [hpassed, Bool.false_eq_true, if_false, heval]

/-- `elseif` after a branch that was taken: straight behind the `end_if` line; the condition is
    NOT evaluated (variables unchanged, state = the popped one, `nested` never consulted) -/
theorem C06_elseif_skips_when_passed (hargs : args ≠ []) {ci : IfCall} {rest : List IfCall}
    (hpop : popIf line s.lineCtx s.ifStack = some (ci, rest)) (hpassed : ci.passed = true) :
    runCmd nested endRec is .elseIf args out line vars s =
      (.goTo none (.line (ci.stop + 1)), vars, { s with ifStack := rest }) := by
  rw [runCmd_elseIf, isEmpty_false_of_ne_nil hargs, hpop]
  simp only [hpassed, if_true, Bool.false_eq_true, if_false]

/-! ### a failed evaluation is the command's error, for all four -/

theorem C06_condition_error_propagates (hargs : args ≠ []) :
    (∀ vars' s', evalCondition nested is args vars s = (.error (), vars', s') →
      runCmd nested endRec is .notC args out line vars s = (errR, vars', s')) ∧
    (∀ stop s1 vars' s', whileMetaFor is s line = .ok (stop, s1) →
      evalCondition nested is args vars s1 = (.error (), vars', s') →
      runCmd nested endRec is .whileC args out line vars s = (errR, vars', s')) ∧
    (∀ stop elses s1 vars' s', ifMetaFor is s line = .ok ((stop, elses), s1) →
      evalCondition nested is args vars s1 = (.error (), vars', s') →
      runCmd nested endRec is .ifC args out line vars s = (errR, vars', s')) ∧
    (∀ ci rest vars' s', popIf line s.lineCtx s.ifStack = some (ci, rest) → ci.passed = false →
      evalCondition nested is args vars { s with ifStack := rest } = (.error (), vars', s') →
      runCmd nested endRec is .elseIf args out line vars s = (errR, vars', s')) := by
  refine ⟨(C06_not_negates nested endRec is args out line vars s hargs).2, ?_, ?_, ?_⟩
  · intro stop s1 vars' s' hmeta heval
    rw [runCmd_whileC, isEmpty_false_of_ne_nil hargs, hmeta]
    simp only [Bool.false_eq_true, if_false, heval]
  · intro stop elses s1 vars' s' hmeta heval
    rw [runCmd_ifC, isEmpty_false_of_ne_nil hargs, hmeta]
    simp only [Bool.false_eq_true, if_false, heval]
  · intro ci rest vars' s' hpop hpassed heval
    rw [runCmd_elseIf, isEmpty_false_of_ne_nil hargs, hpop]
    simp only [hpassed, Bool.false_eq_true, if_false, heval]

end consumers

/-! ### 5. value conditions are slices -/

/-- a condition whose first token is not a command name is evaluated by the slice evaluator of
    Props/C06.lean; the error detail is dropped, variables and state are untouched -/
theorem C06_value_conditions_are_slices (nested : EvalFn) (is : List Instruction) (a0 : Str)
    (rest : List Str) (vars : Vars) (s : Sdk) (h : (resolveCmd s a0).isNone) :
    evalCondition nested is (a0 :: rest) vars s =
      ((evalSlice (a0 :: rest)).mapError (fun _ => ()), vars, s) := by
  rw [evalCondition_of_not_cmd nested is a0 rest vars s h]
  cases evalSlice (a0 :: rest) <;> rfl

/-- for a well-formed condition AST whose first token is not a command, `evalCondition` is the
    specified value `c.eval` -/
theorem C06_evalCondition_ast (nested : EvalFn) (is : List Instruction) (c : Cond) (hc : c.OK)
    {a0 : Str} {rest : List Str} (htok : c.tokens = a0 :: rest)
    (vars : Vars) (s : Sdk) (h : (resolveCmd s a0).isNone) :
    evalCondition nested is c.tokens vars s = (.ok c.eval, vars, s) := by
  have he := C06_eval_correct c hc
  rw [htok] at he ⊢
  rw [C06_value_conditions_are_slices nested is a0 rest vars s h, he]
  rfl

/-- all four consumers agree with the specification of a condition: for a well-formed condition
    AST `c` whose first token is not a command name,
    * `not c` returns the text of `!c.eval`,
    * `while c` enters the body iff `c.eval`,
    * `if c` enters the first branch iff `c.eval`,
    * `elseif c` (no earlier branch taken) enters its branch iff `c.eval`,
    and none of them changes a variable. -/
theorem C06_consumers_agree (nested : EvalFn)
    (endRec : Cmd → List Str → Option Str → Nat → Vars → Sdk → CmdResult × Vars × Sdk)
    (is : List Instruction) (out : Option Str) (line : Nat) (vars : Vars) (s : Sdk)
    (c : Cond) (hc : c.OK) {a0 : Str} {rest : List Str} (htok : c.tokens = a0 :: rest)
    (hcmd : (resolveCmd s a0).isNone) :
    (runCmd nested endRec is .notC c.tokens out line vars s =
      (.continue (some (if c.eval then "false".toList else "true".toList)), vars, s)) ∧
    (∀ stop s1, whileMetaFor is s line = .ok (stop, s1) →
      runCmd nested endRec is .whileC c.tokens out line vars s =
        if c.eval then
          (.continue none, vars,
            { s1 with whileStack := { start := line, stop := stop, ctx := s1.lineCtx } :: s1.whileStack })
        else (.goTo none (.line (stop + 1)), vars, s1)) ∧
    (∀ stop elses s1, ifMetaFor is s line = .ok ((stop, elses), s1) →
      runCmd nested endRec is .ifC c.tokens out line vars s =
        if c.eval then
          (.continue none, vars,
            { s1 with ifStack :=
                { current := (match elses with | [] => stop | e :: _ => e), passed := true, elseIdx := 0,
                  start := line, stop := stop, elses := elses, ctx := s1.lineCtx } :: s1.ifStack })
        else
          match elses with
          | [] => (.goTo none (.line (stop + 1)), vars, s1)
          | e :: _ =>
            (.goTo none (.line e), vars,
              { s1 with ifStack :=
                  { current := e, passed := false, elseIdx := 0,
                    start := line, stop := stop, elses := elses, ctx := s1.lineCtx } :: s1.ifStack })) ∧
    (∀ ci stack, popIf line s.lineCtx s.ifStack = some (ci, stack) → ci.passed = false →
      runCmd nested endRec is .elseIf c.tokens out line vars s =
        if c.eval then
          (.continue none, vars,
            { s with ifStack :=
                { ci with
                  current := (if ci.elseIdx + 1 < ci.elses.length then ci.elses[ci.elseIdx + 1]?.getD 0
                              else ci.elses[0]?.getD 0),
                  passed := true, ctx := s.lineCtx } :: stack })
        else if ci.elseIdx + 1 < ci.elses.length then
          (.goTo none (.line (ci.elses[ci.elseIdx + 1]?.getD 0)), vars,
            { s with ifStack :=
                { ci with current := ci.elses[ci.elseIdx + 1]?.getD 0, passed := false,
                          elseIdx := ci.elseIdx + 1, ctx := s.lineCtx } :: stack })
        else (.goTo none (.line (ci.stop + 1)), vars, { s with ifStack := stack })) := by
  have hne : c.tokens ≠ [] := by rw [htok]; exact List.cons_ne_nil _ _
  refine ⟨?_, ?_, ?_, ?_⟩
  · exact (C06_not_negates nested endRec is c.tokens out line vars s hne).1 _ _ _
      (C06_evalCondition_ast nested is c hc htok vars s hcmd)
  · intro stop s1 hmeta
    exact C06_while_decides nested endRec is c.tokens out line vars s hne hmeta
      (C06_evalCondition_ast nested is c hc htok vars s1
        (by rw [resolveCmd_congr (whileMetaFor_fns hmeta)]; exact hcmd))
  · intro stop elses s1 hmeta
    exact C06_if_decides nested endRec is c.tokens out line vars s hne hmeta
      (C06_evalCondition_ast nested is c hc htok vars s1
        (by rw [resolveCmd_congr (ifMetaFor_fns hmeta)]; exact hcmd))
  · intro ci stack hpop hpassed
    exact C06_elseif_decides nested endRec is c.tokens out line vars s hne hpop hpassed
      (C06_evalCondition_ast nested is c hc htok vars { s with ifStack := stack }
        (by rw [resolveCmd_congr (s' := { s with ifStack := stack }) (s := s) rfl]; exact hcmd))

/-- the "iff" reading of `C06_consumers_agree` for `while` and `if`: the command continues into
    its body / first branch exactly when the specified value of the condition is true -/
theorem C06_consumers_enter_iff (nested : EvalFn)
    (endRec : Cmd → List Str → Option Str → Nat → Vars → Sdk → CmdResult × Vars × Sdk)
    (is : List Instruction) (out : Option Str) (line : Nat) (vars : Vars) (s : Sdk)
    (c : Cond) (hc : c.OK) {a0 : Str} {rest : List Str} (htok : c.tokens = a0 :: rest)
    (hcmd : (resolveCmd s a0).isNone) :
    (∀ stop s1, whileMetaFor is s line = .ok (stop, s1) →
      ((runCmd nested endRec is .whileC c.tokens out line vars s).1 = .continue none ↔ c.eval = true)) ∧
    (∀ stop elses s1, ifMetaFor is s line = .ok ((stop, elses), s1) →
      ((runCmd nested endRec is .ifC c.tokens out line vars s).1 = .continue none ↔ c.eval = true)) := by
  have h := C06_consumers_agree nested endRec is out line vars s c hc htok hcmd
  constructor
  · intro stop s1 hmeta
    rw [h.2.1 stop s1 hmeta]
    cases c.eval <;> simp
  · intro stop elses s1 hmeta
    rw [h.2.2.1 stop elses s1 hmeta]
    cases c.eval <;> cases elses <;> simp

/-! ### non-vacuity -/

/-- `not true and false` on an empty state: the text `true` -/
example (nested : EvalFn)
    (endRec : Cmd → List Str → Option Str → Nat → Vars → Sdk → CmdResult × Vars × Sdk) :
    runCmd nested endRec [] .notC ["true".toList, "and".toList, "false".toList] none 0 [] {} =
      (.continue (some "true".toList), [], {}) := by
  have h : evalCondition nested [] ["true".toList, "and".toList, "false".toList] [] {} =
      (.ok false, [], {}) := by
    rw [C06_value_conditions_are_slices nested [] _ _ [] {} (by decide)]
    rfl
  exact (C06_not_negates nested endRec [] _ none 0 [] {} (by simp)).1 _ _ _ h

/-- the hypotheses of `C06_consumers_agree` are satisfiable: `( true or false ) and yes` is a
    well-formed AST with value `true`, its first token `(` is not a command, so `not` of it is
    the text `false` -/
example (nested : EvalFn)
    (endRec : Cmd → List Str → Option Str → Nat → Vars → Sdk → CmdResult × Vars × Sdk) :
    runCmd nested endRec [] .notC
        ["(".toList, "true".toList, "or".toList, "false".toList, ")".toList, "and".toList, "yes".toList]
        none 0 [] {} =
      (.continue (some "false".toList), [], {}) := by
  let c : Cond := .conj (.cons
      (.one (.group (.conj (.one (.cons (.val "true".toList) (.one (.val "false".toList)))))))
      (.one (.one (.val "yes".toList))))
  have hc : c.OK := by
    simp only [c, Cond.OK, Conj.OK, Disj.OK, Atom.OK, ValOK]
    decide
  have htok : c.tokens = "(".toList ::
      ["true".toList, "or".toList, "false".toList, ")".toList, "and".toList, "yes".toList] := by
    simp [c, Cond.tokens, Conj.tokens, Disj.tokens, Atom.tokens]
  have hev : c.eval = true := by
    simp [c, Cond.eval, Conj.eval, Disj.eval, Atom.eval, truthy, asciiLower, asciiLowerChar]
  have h := (C06_consumers_agree nested endRec [] none 0 [] {} c hc htok (by decide)).1
  rw [htok, hev] at h
  exact h

/-- `elseif` after a taken branch does not look at its condition: even a command condition
    (`not x`, which would call `nested`) is skipped -/
example (nested : EvalFn)
    (endRec : Cmd → List Str → Option Str → Nat → Vars → Sdk → CmdResult × Vars × Sdk) :
    runCmd nested endRec [] .elseIf ["not".toList, "x".toList] none 3 []
        { ifStack := [{ current := 3, passed := true, elseIdx := 0, start := 1, stop := 5,
                        elses := [3], ctx := [] }] } =
      (.goTo none (.line 6), [], {}) := by
  exact C06_elseif_skips_when_passed nested endRec [] _ none 3 [] _ (by simp)
    (ci := { current := 3, passed := true, elseIdx := 0, start := 1, stop := 5, elses := [3], ctx := [] })
    (rest := []) (by simp [popIf]) rfl

/-- `while false` with an `end_while` two lines down: jump behind it -/
example (nested : EvalFn)
    (endRec : Cmd → List Str → Option Str → Nat → Vars → Sdk → CmdResult × Vars × Sdk)
    (is : List Instruction) (stop : Nat) (s1 : Sdk) (h : whileMetaFor is {} 0 = .ok (stop, s1))
    (hf : s1.fns = []) :
    (runCmd nested endRec is .whileC ["false".toList] none 0 [] {}).1 = .goTo none (.line (stop + 1)) := by
  have he : evalCondition nested is ["false".toList] [] s1 = (.ok false, [], s1) := by
    rw [C06_value_conditions_are_slices nested is _ _ [] s1
      (by rw [resolveCmd_congr (s := {}) hf]; decide)]
    rfl
  rw [C06_while_decides nested endRec is _ none 0 [] {} (by simp) h he]
  rfl

end Duck
