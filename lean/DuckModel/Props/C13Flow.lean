/-
  C13 over programs that use the SDK's flow control: the flag raised FROM INSIDE a script
  (`emit __halt__`, see Sdk/FlowHalt.lean), possibly while the NESTED evaluator is running a
  command condition or a function called in condition position.

  Only theorem statements and non-vacuity examples live here; helper lemmas are in
  Lemmas/FlowHaltLemmas.lean.
-/
import DuckModel.Sdk.FlowHalt
import DuckModel.Lemmas.FlowHaltLemmas

namespace Duck

/-- in the emit trace, `__halt__` is followed by nothing -/
def HaltLast (s : Sdk) : Prop :=
  ∀ (pre post : List (List Str)), s.emitted = pre ++ haltWord :: post → post = []

/-- The nested evaluator starts nothing once the flag is up: it hands back what it has. -/
theorem C13_nested_stops_when_seen (fuel : Nat) (is : List Instruction) (line : Nat) (vars : Vars)
    (s : Sdk) (h : haltSeen s = true) :
    evalInstrsH (fuel + 1) is line vars s = (none, none, vars, s) := by
  sorry

/-- Once seen the flag stays seen: whatever a command does (including every nested
    evaluation it starts), the emit trace only grows. -/
theorem C13_flag_stays_seen (fuel n : Nat) (is : List Instruction) (c : Cmd) (args : List Str)
    (out : Option Str) (line : Nat) (vars : Vars) (s : Sdk) (h : haltSeen s = true) :
    haltSeen (runCmdF (evalInstrsH fuel) is n c args out line vars s).2.2 = true := by
  sorry

/-- One command invocation — with all the nested evaluation it causes: conditions that are
    commands, functions called in condition position, to any depth — never emits anything
    after the `emit __halt__` that raised the flag. -/
theorem C13_flow_command_emits_nothing_after_halt (fuel n : Nat) (is : List Instruction) (c : Cmd)
    (args : List Str) (out : Option Str) (line : Nat) (vars : Vars) (s : Sdk)
    (h0 : haltSeen s = false) :
    HaltLast (runCmdF (evalInstrsH fuel) is n c args out line vars s).2.2 := by
  sorry

/-- Whole runs: for every program, all initial variables, and every amount of fuel, nothing is
    emitted after the `emit __halt__` that raised the flag — whether it ran at top level, in a
    block, in a function body, or inside the nested evaluator. -/
theorem C13_flow_nothing_emitted_after_halt (fuel : Nat) (is : List Instruction) (vars : Vars)
    (s0 : Sdk) (h0 : haltSeen s0 = false) :
    HaltLast (interpRunH fuel is vars s0).1.st := by
  sorry

/-- … and such a run ends as `halted` (success) or earlier for a reason of its own, never by
    starting another top-level instruction: if the final state has seen the flag and the run
    did not end by exit / failure / fuel, it ended as `halted`. -/
theorem C13_flow_seen_run_is_halted (fuel : Nat) (is : List Instruction) (vars : Vars) (s0 : Sdk)
    (hseen : haltSeen (interpRunH fuel is vars s0).1.st = true)
    (hend : (interpRunH fuel is vars s0).2 = .reachedEnd) : False := by
  sorry

/-- The halt-aware interpreter is the interpreter of C04 / C05 as long as nobody raises the
    flag: a run whose final state has not seen it is, step for step, the run of `interpRun`. -/
theorem C13_flow_agrees_when_not_raised (fuel : Nat) (is : List Instruction) (vars : Vars) (s0 : Sdk)
    (h : haltSeen (interpRunH fuel is vars s0).1.st = false) :
    interpRunH fuel is vars s0 = interpRun fuel is vars s0 := by
  sorry

end Duck
