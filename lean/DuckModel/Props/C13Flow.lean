/-
  C13 over programs that use the SDK's flow control: the flag raised FROM INSIDE a script
  (`emit __halt__`, see Sdk/FlowHalt.lean), possibly while the NESTED evaluator is running a
  command condition or a function called in condition position.

  Only theorem statements and non-vacuity examples live here; helper lemmas are in
  Lemmas/FlowHaltLemmas.lean.
-/
import DuckModel.Sdk.FlowHalt
import DuckModel.Lemmas.FlowHaltLemmas

namespace Duck

/-- in the emit trace, `__halt__` is followed by nothing -/
def HaltLast (s : Sdk) : Prop :=
  ∀ (pre post : List (List Str)), s.emitted = pre ++ haltWord :: post → post = []

/-- The nested evaluator starts nothing once the flag is up: it hands back what it has. -/
theorem C13_nested_stops_when_seen (fuel : Nat) (is : List Instruction) (line : Nat) (vars : Vars)
    (s : Sdk) (h : haltSeen s = true) :
    evalInstrsH (fuel + 1) is line vars s = (none, none, vars, s) := by
  exact evalInstrsH_seen fuel is line vars s h

/-- Once seen the flag stays seen: whatever a command does (including every nested
    evaluation it starts), the emit trace only grows. -/
theorem C13_flag_stays_seen (fuel n : Nat) (is : List Instruction) (c : Cmd) (args : List Str)
    (out : Option Str) (line : Nat) (vars : Vars) (s : Sdk) (h : haltSeen s = true) :
    haltSeen (runCmdF (evalInstrsH fuel) is n c args out line vars s).2.2 = true := by
  exact flow_flag_stays_seen fuel n is c args out line vars s h

/-- One command invocation — with all the nested evaluation it causes: conditions that are
    commands, functions called in condition position, to any depth — never emits anything
    after the `emit __halt__` that raised the flag. -/
theorem C13_flow_command_emits_nothing_after_halt (fuel n : Nat) (is : List Instruction) (c : Cmd)
    (args : List Str) (out : Option Str) (line : Nat) (vars : Vars) (s : Sdk)
    (h0 : haltSeen s = false) :
    HaltLast (runCmdF (evalInstrsH fuel) is n c args out line vars s).2.2 := by
  exact flow_command_haltLast fuel n is c args out line vars s h0

/-- Whole runs: for every program, all initial variables, and every amount of fuel, nothing is
    emitted after the `emit __halt__` that raised the flag — whether it ran at top level, in a
    block, in a function body, or inside the nested evaluator. -/
theorem C13_flow_nothing_emitted_after_halt (fuel : Nat) (is : List Instruction) (vars : Vars)
    (s0 : Sdk) (h0 : haltSeen s0 = false) :
    HaltLast (interpRunH fuel is vars s0).1.st := by
  exact interpRunH_haltLast fuel is vars s0 h0

/-- … and such a run ends as `halted` (success) or earlier for a reason of its own, never by
    starting another top-level instruction: if the final state has seen the flag and the run
    did not end by exit / failure / fuel, it ended as `halted`. -/
theorem C13_flow_seen_run_is_halted (fuel : Nat) (is : List Instruction) (vars : Vars) (s0 : Sdk)
    (hseen : haltSeen (interpRunH fuel is vars s0).1.st = true)
    (hend : (interpRunH fuel is vars s0).2 = .reachedEnd) : False := by
  rw [interpRunH_reachedEnd_not_seen fuel is vars s0 hend] at hseen
  cases hseen

/-- The halt-aware interpreter is the interpreter of C04 / C05 as long as nobody raises the
    flag: a run whose final state has not seen it is, step for step, the run of `interpRun`. -/
theorem C13_flow_agrees_when_not_raised (fuel : Nat) (is : List Instruction) (vars : Vars) (s0 : Sdk)
    (h : haltSeen (interpRunH fuel is vars s0).1.st = false) :
    interpRunH fuel is vars s0 = interpRun fuel is vars s0 := by
  exact interpRunH_agree fuel is vars s0 h

/-! ### non-vacuity: concrete programs (parsed by the model parser, run by the model) -/

def C13_progOf (t : String) : List Instruction :=
  match parseText t.toList with
  | .ok is => is
  | .error _ => []

/-- a function called in CONDITION position raises the flag and then tries to emit more -/
def C13_demo : List Instruction := C13_progOf
  "fn f\n  emit a\n  emit __halt__\n  emit b\n  return true\nend_fn\nif f\n  emit c\nend_if\nemit d\n"

example : C13_demo.length = 10 := by decide +kernel

/-- the halt-aware run: the nested evaluator stops right after `emit __halt__` (no `b`), the
    `if` starts nothing (no `c`), the top-level loop returns `halted` (no `d`) -/
example : (interpRunH 50 C13_demo [] {}).1.st.emitted = [["a".toList], haltWord] ∧
    (interpRunH 50 C13_demo [] {}).2 = .halted := by decide +kernel

/-- … whereas the poll-free interpreter of C04 / C05 runs the same program to its end -/
example : (interpRun 50 C13_demo [] {}).1.st.emitted =
      [["a".toList], haltWord, ["b".toList], ["c".toList], ["d".toList]] ∧
    (interpRun 50 C13_demo [] {}).2 = .reachedEnd := by decide +kernel

example : HaltLast (interpRunH 50 C13_demo [] {}).1.st :=
  C13_flow_nothing_emitted_after_halt 50 C13_demo [] {} rfl

/-- two levels down: `f` (condition of the top-level `if`) has an `if` whose condition `h`
    raises the flag -/
def C13_deep : List Instruction := C13_progOf
  ("fn h\n  emit __halt__\n  emit x\n  return true\nend_fn\n" ++
   "fn f\n  if h\n    emit y\n  end_if\n  emit z\n  return true\nend_fn\n" ++
   "if f\n  emit c\nend_if\nemit d\n")

example : (interpRunH 50 C13_deep [] {}).1.st.emitted = [haltWord] ∧
    (interpRunH 50 C13_deep [] {}).2 = .halted := by decide +kernel

example : (interpRun 50 C13_deep [] {}).1.st.emitted.length = 6 ∧
    (interpRun 50 C13_deep [] {}).2 = .reachedEnd := by decide +kernel

/-- a loop that never ends on its own is stopped at the next top-level boundary -/
def C13_loop : List Instruction := C13_progOf
  "while true\n  emit x\n  emit __halt__\n  emit y\nend_while\nemit z\n"

example : (interpRunH 30 C13_loop [] {}).1.st.emitted = [["x".toList], haltWord] ∧
    (interpRunH 30 C13_loop [] {}).2 = .halted := by decide +kernel

example : (interpRun 30 C13_loop [] {}).2 = .outOfFuel := by decide +kernel

/-- nobody raises the flag: the hypothesis of `C13_flow_agrees_when_not_raised` holds, the two
    interpreters coincide, and the run reaches the end -/
def C13_quiet : List Instruction := C13_progOf
  "fn f\n  emit a\n  return true\nend_fn\nif f\n  emit c\nend_if\nemit d\n"

example : haltSeen (interpRunH 50 C13_quiet [] {}).1.st = false := by decide +kernel

example : interpRunH 50 C13_quiet [] {} = interpRun 50 C13_quiet [] {} :=
  C13_flow_agrees_when_not_raised 50 C13_quiet [] {} (by decide +kernel)

example : (interpRun 50 C13_quiet [] {}).1.st.emitted = [["a".toList], ["c".toList], ["d".toList]] ∧
    (interpRun 50 C13_quiet [] {}).2 = .reachedEnd := by decide +kernel

/-- the hypotheses of the first two theorems are satisfiable, and a command run on a raised
    flag may well emit (the flag is polled between instructions, not inside one) -/
example : haltSeen { emitted := [haltWord] } = true := by decide

example : (runCmdF (evalInstrsH 3) [] 3 .emit ["b".toList] none 0 [] { emitted := [haltWord] }).2.2.emitted =
    [haltWord, ["b".toList]] := by decide

/-- `HaltLast` is not trivially true -/
example : ¬ HaltLast { emitted := [haltWord, ["b".toList]] } := by
  intro h
  have := h [] [["b".toList]] rfl
  cases this

end Duck
