/-
  C17 — the java-properties round trip: `map_to_properties` followed by
  `map_load_properties` into a fresh map gives back the same map.

  Model: `Sdk/Properties.lean` (the two commands and the `java-properties` 2.0.0 writer and
  reader as transcribed from the crate).  The property as stated (every map) is FALSE for the
  code and for the model; what holds is the round trip on an explicit class of entries:

  * characters (`safeChar`): TAB, LF, FF, CR, U+0020 … U+007F, and U+1000 … U+FFFF except the 17
    characters of windows-1252 in that range.  Every other character breaks the round trip of
    some one-entry map (theorems `C17_props_refuted_…`): other control characters and
    U+0100 … U+0FFF and everything above U+FFFF get a `\u` escape that is not four digits wide,
    U+0080 … U+00FF and the 27 windows-1252 specials are written as one byte ≥ 0x80 which the
    command then fails to read as UTF-8;
  * length (`fitsBuffer`): a key or value that contains a character above U+007F must have an
    escaped form of at most 256 bytes (the encoder's buffer): beyond that the `\u` escape at the
    buffer boundary is cut (`C17_props_refuted_escape_cut_at_buffer_end`);
  * the value of the entry written LAST must not end in a blank (`lastValueOk`): the command
    trims the text, which cuts the escaped blank in two (`C17_props_refuted_trailing_space`).

  The writer emits the entries in the iteration order of a hash map; the theorems take the
  entries as a list in the order of writing and hold for every order.
-/
import DuckModel.Sdk.Properties
import DuckModel.Lemmas.PropertiesLemmas

namespace Duck
open Duck.JProps

/-- the property as stated (every map with distinct keys comes back): FALSE for the model, as
    for the code — see `C17_props_roundtrip_full_refuted` and the `C17_props_refuted_…` theorems;
    `C17_props_roundtrip` proves it on the explicit class where it holds -/
def C17_props_roundtrip_full : Prop :=
  ∀ m : Entries, (m.map Prod.fst).Nodup → (roundTrip m).map toMap = .ok m

/-- write then load: the entries come back, in the order they were written
    (no hypothesis on the keys is needed at this level) -/
theorem C17_props_roundtrip (m : Entries) (hs : safeEntries m = true) (hl : lastValueOk m = true) :
    roundTrip m = .ok m := by
  have hs' := (safeEntries_iff m).1 hs
  unfold roundTrip
  rw [writeProps_safe m hs' hl]
  exact loadProps_lines m hs'

/-- the same on the level of the maps: for entries with distinct keys the map the loaded pairs
    are inserted into (later pairs replace earlier ones) is the original one -/
theorem C17_props_roundtrip_map (m : Entries) (hk : (m.map Prod.fst).Nodup)
    (hs : safeEntries m = true) (hl : lastValueOk m = true) :
    (roundTrip m).map toMap = .ok m := by
  rw [C17_props_roundtrip m hs hl]
  show Except.ok (toMap m) = Except.ok m
  rw [toMap_nodup m hk]

/-- `map_to_properties` does not fail on the safe class -/
theorem C17_props_write_ok (m : Entries) (hs : safeEntries m = true) (hl : lastValueOk m = true) :
    ∃ t, writeProps m = .ok t ∧ ∀ c ∈ t, c.toNat < 0x80 :=
  ⟨_, writeProps_safe m ((safeEntries_iff m).1 hs) hl, joinLines_ascii m ((safeEntries_iff m).1 hs)⟩

/-- pure ASCII entries (TAB, LF, FF, CR, U+0020 … U+007F) of any length round-trip as soon as
    the last value does not end in a blank -/
theorem C17_props_roundtrip_ascii (m : Entries)
    (ha : ∀ e ∈ m, (e.1.all safeAsciiChar && e.2.all safeAsciiChar) = true)
    (hl : lastValueOk m = true) : roundTrip m = .ok m := by
  apply C17_props_roundtrip m _ hl
  simp only [safeEntries, safeText, List.all_eq_true, Bool.and_eq_true, fitsBuffer, Bool.or_eq_true,
    safeChar]
  intro e he
  have := ha e he
  simp only [Bool.and_eq_true, List.all_eq_true] at this
  exact ⟨⟨fun c hc => Or.inl (this.1 c hc), Or.inl this.1⟩, ⟨fun c hc => Or.inl (this.2 c hc), Or.inl this.2⟩⟩

/-- the character class is exact: every character outside `safeChar` breaks the round trip of
    the one-entry map `k ↦ c` (the load fails, the write fails, or another text comes back) -/
theorem C17_props_safe_class_maximal (c : Char) (h : safeChar c = false) :
    roundTrip [(['k'], [c])] ≠ .ok [(['k'], [c])] :=
  not_safe_bad c h

/-- the reader fails only through escapes: `map_load_properties` of a text without backslash
    succeeds (whatever else the text contains: comments, blank lines, any separators, non-ASCII) -/
theorem C17_props_load_total (t : Str) (h : ∀ c ∈ t, c ≠ '\\') : ∃ es, loadProps t = .ok es :=
  loadProps_noBs t h

/-! ## the recorded finding classes, reproduced by the model -/

/-- C17/latin1-supplement: `é` is written as the windows-1252 byte 0xE9, which is not UTF-8:
    `map_to_properties` fails -/
theorem C17_props_refuted_latin1_supplement :
    writeBytes [("k".toList, "é".toList)] = [107, 61, 233, 10] ∧
    roundTrip [("k".toList, "é".toList)] = .error .utf8 := by
  constructor <;> decide +kernel

/-- … a C1 control character the encoding does not have is written as `\u80`: the load fails -/
theorem C17_props_refuted_latin1_supplement_c1 :
    writeProps [("k".toList, [Char.ofNat 0x80])] = .ok "k=\\u80".toList ∧
    roundTrip [("k".toList, [Char.ofNat 0x80])] = .error .escape := by
  constructor <;> decide +kernel

/-- C17/properties-cp1252-specials: `€` is written as the byte 0x80 -/
theorem C17_props_refuted_cp1252_specials :
    writeBytes [("k".toList, "€".toList)] = [107, 61, 128, 10] ∧
    roundTrip [("k".toList, "€".toList)] = .error .utf8 := by
  constructor <;> decide +kernel

/-- C17/properties-unicode-escape-width: `\u100` (three digits) cannot be read back;
    `\u1f600` (five digits) is read as U+1F60 followed by `0`; `\u0` (one digit) -/
theorem C17_props_refuted_unicode_escape_width :
    writeProps [("k".toList, "Ā".toList)] = .ok "k=\\u100".toList ∧
    roundTrip [("k".toList, "Ā".toList)] = .error .escape ∧
    writeProps [("k".toList, "😀".toList)] = .ok "k=\\u1f600".toList ∧
    roundTrip [("k".toList, "😀".toList)] = .ok [("k".toList, "ὠ0".toList)] ∧
    roundTrip [("k".toList, ['\x00'])] = .error .escape ∧
    roundTrip [("k".toList, ['\x01', 'a', 'b', 'c'])] = .ok [("k".toList, [Char.ofNat 0x1abc])] := by
  refine ⟨?_, ?_, ?_, ?_, ?_, ?_⟩ <;> decide +kernel

/-- C17/properties-trailing-space: the text `k=a\ ` is trimmed to `k=a\`; the reader takes the
    backslash for a line continuation, finds the end of the input and drops the entry.  With more
    entries only the one written last is lost. -/
theorem C17_props_refuted_trailing_space :
    writeProps [("k".toList, "a ".toList)] = .ok "k=a\\".toList ∧
    roundTrip [("k".toList, "a ".toList)] = .ok [] ∧
    roundTrip [("a".toList, "x ".toList), ("b".toList, "y ".toList)] = .ok [("a".toList, "x ".toList)] := by
  refine ⟨?_, ?_, ?_⟩ <;> decide +kernel

/-- NOT among the recorded classes (found while transcribing the writer): a `\u` escape that
    does not fit into the room left in the encoder's 256-byte buffer is cut, not resumed.
    251 letters followed by U+4E2D: the file ends in `\u4e2` and the load fails;
    255 letters: only the backslash arrives and the entry is dropped;
    250 or 256 letters: fine. -/
theorem C17_props_refuted_escape_cut_at_buffer_end :
    roundTrip [("k".toList, List.replicate 251 'a' ++ ['中'])] = .error .escape ∧
    roundTrip [("k".toList, List.replicate 255 'a' ++ ['中'])] = .ok [] ∧
    roundTrip [("k".toList, List.replicate 250 'a' ++ ['中'])] = .ok [("k".toList, List.replicate 250 'a' ++ ['中'])] ∧
    roundTrip [("k".toList, List.replicate 256 'a' ++ ['中'])] = .ok [("k".toList, List.replicate 256 'a' ++ ['中'])] := by
  refine ⟨?_, ?_, ?_, ?_⟩ <;> decide +kernel

theorem C17_props_roundtrip_full_refuted : ¬ C17_props_roundtrip_full := by
  intro h
  have := h [("k".toList, "a ".toList)] (by decide)
  revert this
  decide +kernel

/-! ## Non-vacuity -/
section Examples

private def m1 : Entries :=
  [("a b".toList, " x: y\t".toList), ("#!=:\\".toList, "\r\n\x0c~".toList), ("k".toList, "中\uffff".toList),
   ("".toList, "".toList)]

example : safeEntries m1 = true ∧ lastValueOk m1 = true := by decide
example : writeProps m1 =
    .ok "a\\ b=\\ x\\:\\ y\\t\n\\#\\!\\=\\:\\\\=\\r\\n\\f~\nk=\\u4e2d\\uffff\n=".toList := by decide +kernel
example : roundTrip m1 = .ok m1 := by decide +kernel
/-- the reader on a hand-written text: comments, separators, escapes, continuation, CRLF,
    duplicate key, missing value -/
example : loadProps "# c\r\n! d\nk=v\nk2 : v2\nk3 v3\n  k4\\ x  =  v\\u0041\\n\nlong = a\\\n   b\nk=w\nlone".toList =
    .ok [("k".toList, "v".toList), ("k2".toList, "v2".toList), ("k3".toList, "v3".toList),
      ("k4 x".toList, "vA\n".toList), ("long".toList, "ab".toList), ("k".toList, "w".toList),
      ("lone".toList, [])] := by decide +kernel
example : toMap [("k".toList, "v".toList), ("j".toList, "x".toList), ("k".toList, "w".toList)] =
    [("k".toList, "w".toList), ("j".toList, "x".toList)] := by decide
/-- a malformed escape inside a comment fails the whole load; a BOM switches to UTF-8 -/
example : loadProps "# \\u12\nk=v".toList = .error .escape ∧
    loadProps "k=é".toList = .ok [("k".toList, "Ã©".toList)] ∧
    loadProps "\ufeffk=é".toList = .ok [("k".toList, "é".toList)] := by
  refine ⟨?_, ?_, ?_⟩ <;> decide +kernel

end Examples

end Duck
