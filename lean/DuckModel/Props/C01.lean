/-
  C01 — a line written with the documented syntax parses back to the same instruction.
  ONLY property theorems and their non-vacuity examples live here; helper lemmas are in
  DuckModel/Lemmas/.
-/
import DuckModel.Parser
import DuckModel.Spec.Render
import DuckModel.Lemmas.ParserLemmas

namespace Duck
open Duck.Spec

/-- Every argument list over arbitrary Unicode (spaces, quotes, backslashes, `#`, `=`, `:`,
    `$`, `%`, tabs, line breaks, the empty string …), rendered with any spacing and any
    quote-when-optional choice and followed by an optional comment, parses back to exactly
    that list. -/
theorem C01_args_roundtrip (ch : List (Nat × Bool)) (k : Nat) (args : List Str)
    (cm : Option (Nat × Str)) :
    parseArgsLoop false (renderArgs ch k args ++ renderComment cm) = .ok args := by
  sorry

/-- One rendered line parses to exactly the instruction it was rendered from. -/
theorem C01_line_roundtrip (ch : Choices) (i : ScriptInstr) (hi : InstrOK i) (hc : ChoicesOK ch) :
    parseLine (renderLine ch i) = .ok (expected i) := by
  sorry

/-- A script of n rendered lines parses to n instructions in order, the k-th carrying
    source line number k. -/
theorem C01_script_roundtrip (items : List (Choices × ScriptInstr × Bool))
    (h : ∀ x ∈ items, InstrOK x.2.1 ∧ ChoicesOK x.1) :
    parseText (renderScript items) = .ok (numbered 1 items) := by
  sorry

/-- … also when the last line is not terminated. -/
theorem C01_script_roundtrip_open (items : List (Choices × ScriptInstr × Bool))
    (h : ∀ x ∈ items, InstrOK x.2.1 ∧ ChoicesOK x.1)
    (hlast : ∀ x, items.getLast? = some x → renderLine x.1 x.2.1 ≠ []) :
    parseText (renderScriptOpen items) = .ok (numbered 1 items) := by
  sorry

end Duck
