/-
  C01 — a line written with the documented syntax parses back to the same instruction.
  `C01Core`: the round-trip theorems about the hand-written parser model; `C01Translated`: the same
  round trip stated on the function TRANSLATED from the current parser.rs.
-/
import DuckModel.Props.C01Core
import DuckModel.Props.C01Translated
