/-
  C12 — arrays, maps and sets behind handles behave like their plain counterparts.

  Implementation model : DuckModel/Sdk/Collections.lean   (`Duck.Coll`)
  Reference model      : DuckModel/Spec/Store.lean        (`Duck.Spec.Store`)
  Relation             : `Duck.Coll.R` (Lemmas/CollectionsLemmas.lean): same allocation counter,
                         every table lookup abstracts to the store's answer (list cells rendered
                         to strings), every live key was handed out by the allocator.
-/
import DuckModel.Lemmas.CollectionsRelease
import DuckModel.Props.C12Scripts
import DuckModel.Props.C12ScriptsNatives

namespace Duck
open Duck.Coll

/-- `release -r h` / `release --recursive h`: the only command form whose reference answer
    depends on the reference model's recursion bound -/
def isRecRelease (c : CollCmd) (args : List Str) : Bool :=
  match c, args with
  | .release, a :: _ :: _ => isRecFlag a
  | _, _ => false

/-- per-operation simulation, every command (all 36) and every argument list except
    `release -r …`, whatever the reference model's recursion bound -/
theorem C12_refines_step_any_bound (fuel : Nat) {m : Coll.St} {s : Spec.Store.St} (hR : R m s)
    (c : CollCmd) (args : List Str) (hnr : isRecRelease c args = false) :
    R (Coll.exec m c args).1 (Spec.Store.exec fuel s c args).1 ∧
      absR (Coll.exec m c args).2 = (Spec.Store.exec fuel s c args).2 := by
  cases c
  case array => exact sim_array fuel hR args
  case range => exact sim_range fuel hR args
  case arrayPush => exact sim_arrayPush fuel hR args
  case arrayPop => exact sim_arrayPop fuel hR args
  case arrayGet => exact sim_arrayGet fuel hR args
  case arraySet => exact sim_arraySet fuel hR args
  case arrayRemove => exact sim_arrayRemove fuel hR args
  case arrayClear => exact sim_arrayClear fuel hR args
  case arrayLength => exact sim_arrayLength fuel hR args
  case arrayIsEmpty => exact sim_arrayIsEmpty fuel hR args
  case arrayContains => exact sim_arrayContains fuel hR args
  case arrayConcat => exact sim_arrayConcat fuel hR args
  case arrayJoin => exact sim_arrayJoin fuel hR args
  case map => exact sim_map fuel hR args
  case mapPut => exact sim_mapPut fuel hR args
  case mapGet => exact sim_mapGet fuel hR args
  case mapRemove => exact sim_mapRemove fuel hR args
  case mapSize => exact sim_mapSize fuel hR args
  case mapKeys => exact sim_mapKeys fuel hR args
  case mapClear => exact sim_mapClear fuel hR args
  case mapContainsKey => exact sim_mapContainsKey fuel hR args
  case mapContainsValue => exact sim_mapContainsValue fuel hR args
  case mapIsEmpty => exact sim_mapIsEmpty fuel hR args
  case setNew => exact sim_setNew fuel hR args
  case setPut => exact sim_setPut fuel hR args
  case setRemove => exact sim_setRemove fuel hR args
  case setContains => exact sim_setContains fuel hR args
  case setSize => exact sim_setSize fuel hR args
  case setClear => exact sim_setClear fuel hR args
  case setToArray => exact sim_setToArray fuel hR args
  case setFromArray => exact sim_setFromArray fuel hR args
  case setIsEmpty => exact sim_setIsEmpty fuel hR args
  case isArray => exact sim_isArray fuel hR args
  case isMap => exact sim_isMap fuel hR args
  case isSet => exact sim_isSet fuel hR args
  case release =>
    refine sim_release_plain fuel hR args ?_
    intro a b r e
    subst e
    simpa [isRecRelease] using hnr

/-- refinement over whole histories (induction over the op sequence): equal outputs,
    related (lookup-equal up to abstraction) states, for histories without the recursive form of
    `release`, whatever the recursion bound -/
theorem C12_refines_any_bound (fuel : Nat) (ops : List (CollCmd × List Str))
    (hnr : ∀ op ∈ ops, isRecRelease op.1 op.2 = false)
    {m : Coll.St} {s : Spec.Store.St} (hR : R m s) :
    R (Coll.run m ops).1 (Spec.Store.run fuel s ops).1 ∧
      (Coll.run m ops).2.map absR = (Spec.Store.run fuel s ops).2 := by
  induction ops generalizing m s with
  | nil => exact ⟨hR, rfl⟩
  | cons op rest ih =>
    obtain ⟨c, a⟩ := op
    have h1 := C12_refines_step_any_bound fuel hR c a (hnr (c, a) (by simp))
    have h2 := ih (fun op hop => hnr op (by simp [hop])) h1.1
    simp only [Coll.run, Spec.Store.run, List.map_cons]
    exact ⟨h2.1, by rw [h1.2, h2.2]⟩

/-- … in particular from the empty handle table -/
theorem C12_refines_any_bound_from_empty (fuel : Nat) (ops : List (CollCmd × List Str))
    (hnr : ∀ op ∈ ops, isRecRelease op.1 op.2 = false) :
    R (Coll.run {} ops).1 (Spec.Store.run fuel Spec.Store.empty ops).1 ∧
      (Coll.run {} ops).2.map absR = (Spec.Store.run fuel Spec.Store.empty ops).2 :=
  C12_refines_any_bound fuel ops hnr R_empty

/-- PER-OPERATION SIMULATION, all 36 commands, all argument lists, incl. `release -r`:
    from related states the two models produce equal outputs and related states, provided the
    reference model's recursion bound is at least the number of table entries -/
theorem C12_refines_step (fuel : Nat) {m : Coll.St} {s : Spec.Store.St} (hR : R m s)
    (c : CollCmd) (args : List Str) (hf : m.tbl.length ≤ fuel) :
    R (Coll.exec m c args).1 (Spec.Store.exec fuel s c args).1 ∧
      absR (Coll.exec m c args).2 = (Spec.Store.exec fuel s c args).2 := by
  by_cases hc : c = .release
  · subst hc; exact sim_release fuel hR args hf
  · exact C12_refines_step_any_bound fuel hR c args (by
      cases c <;> first | rfl | exact absurd rfl hc)

/-- REFINEMENT over whole histories (induction over the op sequence): for every history of
    collection commands there is a bound N (the largest number of live table entries along
    the run) such that for every recursion bound ≥ N of the reference model the outputs are
    equal, one by one, and the final states are related (every table lookup abstracts to the
    store's answer) -/
theorem C12_refines (ops : List (CollCmd × List Str)) (m : Coll.St) :
    ∃ N, ∀ (s : Spec.Store.St), R m s → ∀ fuel, N ≤ fuel →
      R (Coll.run m ops).1 (Spec.Store.run fuel s ops).1 ∧
        (Coll.run m ops).2.map absR = (Spec.Store.run fuel s ops).2 := by
  induction ops generalizing m with
  | nil => exact ⟨0, fun _ hR _ _ => ⟨hR, rfl⟩⟩
  | cons op rest ih =>
    obtain ⟨c, a⟩ := op
    obtain ⟨N, hN⟩ := ih (Coll.exec m c a).1
    refine ⟨max N m.tbl.length, fun s hR fuel hfu => ?_⟩
    have h1 := C12_refines_step fuel hR c a (by omega)
    have h2 := hN _ h1.1 fuel (by omega)
    simp only [Coll.run, Spec.Store.run, List.map_cons]
    exact ⟨h2.1, by rw [h1.2, h2.2]⟩

/-- … in particular from the empty handle table -/
theorem C12_refines_from_empty (ops : List (CollCmd × List Str)) :
    ∃ N, ∀ fuel, N ≤ fuel →
      R (Coll.run {} ops).1 (Spec.Store.run fuel Spec.Store.empty ops).1 ∧
        (Coll.run {} ops).2.map absR = (Spec.Store.run fuel Spec.Store.empty ops).2 := by
  obtain ⟨N, h⟩ := C12_refines ops {}
  exact ⟨N, h _ R_empty⟩

/-! ### wrong kind / unknown / released handle -/

def kindOf : Value → Option CollKind
  | .list _ => some .vec
  | .map _ => some .map
  | .set _ => some .set
  | .other _ => none

/-- commands that answer `false` instead of an error for a handle of the wrong kind -/
def answersFalse : CollCmd → Bool
  | .isArray | .isMap | .isSet | .arrayContains => true
  | _ => false

/-- the remove-then-reinsert identity of the three helpers, for every kind that is not the
    expected one (`other` stands for the ten non-collection kinds) and for a missing key -/
theorem C12_mutate_wrong_kind_unchanged (t : Table) (k : Str) :
    (∀ f, (∀ v, tget t k = some v → kindOf v ≠ some .vec) →
      (mutateList t k f).2 = .err ∧ LookupEq (mutateList t k f).1 t) ∧
    (∀ f, (∀ v, tget t k = some v → kindOf v ≠ some .map) →
      (mutateMap t k f).2 = .err ∧ LookupEq (mutateMap t k f).1 t) ∧
    (∀ f, (∀ v, tget t k = some v → kindOf v ≠ some .set) →
      (mutateSet t k f).2 = .err ∧ LookupEq (mutateSet t k f).1 t) := by
  refine ⟨fun f h => mutateList_wrong t k f ?_, fun f h => mutateMap_wrong t k f ?_,
    fun f h => mutateSet_wrong t k f ?_⟩ <;>
  · intro v hv
    have := h v hv
    cases v <;> simp_all [kindOf, Value.isList, Value.isMap, Value.isSet]

/-- every command that expects a collection of kind `k` behind its first argument, given a
    handle that is released / unknown (`tget = none`) or of another kind: the result is an
    error (or `false` for the `is_*` family and `array_contains`), no handle is allocated and
    every lookup in the table answers as before -/
theorem C12_wrong_kind_unchanged (m : Coll.St) (c : CollCmd) (k : CollKind) (h : Str) (rest : List Str)
    (hk : c.expects = some k)
    (hv : ∀ v, tget m.tbl h = some v → kindOf v ≠ some k) :
    LookupEq (Coll.exec m c (h :: rest)).1.tbl m.tbl ∧
    (Coll.exec m c (h :: rest)).1.next = m.next ∧
    ((Coll.exec m c (h :: rest)).2 = .err ∨
      (answersFalse c = true ∧ (Coll.exec m c (h :: rest)).2 = .val (some sFalse))) ∧
    ((c = .isArray ∨ c = .isMap ∨ c = .isSet) → (Coll.exec m c (h :: rest)).2 = .val (some sFalse)) := by
  have hL := (C12_mutate_wrong_kind_unchanged m.tbl h).1
  have hM := (C12_mutate_wrong_kind_unchanged m.tbl h).2.1
  have hS := (C12_mutate_wrong_kind_unchanged m.tbl h).2.2
  cases c <;> simp only [CollCmd.expects, Option.some.injEq, reduceCtorEq] at hk <;> subst hk
  -- commands built on mutate_list
  case arrayPush =>
    obtain ⟨e, l⟩ := hL (fun l => (l ++ rest.map .str, .val none)) hv
    simp [Coll.exec, cmdArrayPush, e, okTrue, l]
  case arrayPop =>
    obtain ⟨e, l⟩ := hL (fun l => (l.dropLast, .val (l.getLast?.map Item.render))) hv
    simp [Coll.exec, cmdArrayPop, e, l]
  case arrayGet =>
    cases rest with
    | nil => simp [Coll.exec, cmdArrayGet, LookupEq.rfl']
    | cons i r =>
      simp only [Coll.exec, cmdArrayGet]
      cases parseUsize i with
      | none => simp [LookupEq.rfl']
      | some idx =>
        obtain ⟨e, l⟩ := hL (fun l => (l, .val (l[idx]?.map Item.render))) hv
        simp [e, l]
  case arraySet =>
    match rest with
    | [] => simp [Coll.exec, cmdArraySet, LookupEq.rfl']
    | [_] => simp [Coll.exec, cmdArraySet, LookupEq.rfl']
    | i :: v :: r =>
      simp only [Coll.exec, cmdArraySet]
      cases parseUsize i with
      | none => simp [LookupEq.rfl']
      | some idx =>
        obtain ⟨e, l⟩ := hL (fun l => if l.length > idx then (l.set idx (.str v), .val (some sTrue)) else (l, .err)) hv
        simp [e, l]
  case arrayRemove =>
    cases rest with
    | nil => simp [Coll.exec, cmdArrayRemove, LookupEq.rfl']
    | cons i r =>
      simp only [Coll.exec, cmdArrayRemove]
      cases parseUsize i with
      | none => simp [LookupEq.rfl']
      | some idx =>
        obtain ⟨e, l⟩ := hL (fun l => if l.length > idx then (l.eraseIdx idx, .val (some sTrue)) else (l, .err)) hv
        simp [e, l]
  case arrayClear =>
    obtain ⟨e, l⟩ := hL (fun _ => ([], .val none)) hv
    simp [Coll.exec, cmdArrayClear, e, okTrue, l]
  -- commands built on mutate_map
  case mapPut =>
    match rest with
    | [] => simp [Coll.exec, cmdMapPut, LookupEq.rfl']
    | [_] => simp [Coll.exec, cmdMapPut, LookupEq.rfl']
    | k :: v :: r =>
      obtain ⟨e, l⟩ := hM (fun mm => (minsert mm k (.str v), .val none)) hv
      simp [Coll.exec, cmdMapPut, e, okTrue, l]
  case mapGet =>
    cases rest with
    | nil => simp [Coll.exec, cmdMapGet, LookupEq.rfl']
    | cons k r =>
      obtain ⟨e, l⟩ := hM (fun mm => (mm, .val ((mget mm k).map Item.render))) hv
      simp [Coll.exec, cmdMapGet, e, l]
  case mapRemove =>
    cases rest with
    | nil => simp [Coll.exec, cmdMapRemove, LookupEq.rfl']
    | cons k r =>
      obtain ⟨e, l⟩ := hM (fun mm => (mremove mm k, .val ((mget mm k).map Item.render))) hv
      simp [Coll.exec, cmdMapRemove, e, l]
  case mapClear =>
    obtain ⟨e, l⟩ := hM (fun _ => ([], .val none)) hv
    simp [Coll.exec, cmdMapClear, e, okTrue, l]
  -- commands built on mutate_set
  case setPut =>
    obtain ⟨e, l⟩ := hS (fun x => (sinsertAll x rest, .val none)) hv
    simp [Coll.exec, cmdSetPut, e, okTrue, l]
  case setRemove =>
    cases rest with
    | nil => simp [Coll.exec, cmdSetRemove, LookupEq.rfl']
    | cons v r =>
      obtain ⟨e, l⟩ := hS (fun x => (sremove x v, .val (some (boolStr (decide (v ∈ x)))))) hv
      simp [Coll.exec, cmdSetRemove, e, l]
  case setContains =>
    cases rest with
    | nil => simp [Coll.exec, cmdSetContains, LookupEq.rfl']
    | cons v r =>
      obtain ⟨e, l⟩ := hS (fun x => (x, .val (some (boolStr (decide (v ∈ x)))))) hv
      simp [Coll.exec, cmdSetContains, e, l]
  case setClear =>
    obtain ⟨e, l⟩ := hS (fun _ => ([], .val none)) hv
    simp [Coll.exec, cmdSetClear, e, okTrue, l]
  -- commands that only look the handle up
  all_goals
    cases hg : tget m.tbl h with
    | none =>
      first
        | (cases rest <;> simp [Coll.exec, cmdArrayLength, cmdArrayIsEmpty, cmdArrayContains, cmdArrayJoin,
            cmdSetFromArray, cmdIsArray, cmdMapSize, cmdMapKeys, cmdMapContainsKey, cmdMapContainsValue,
            cmdMapIsEmpty, cmdIsMap, cmdSetSize, cmdSetToArray, cmdSetIsEmpty, cmdIsSet, hg, LookupEq.rfl',
            answersFalse])
    | some v =>
      have hne := hv v hg
      cases v <;> simp [kindOf] at hne <;>
        (cases rest <;> simp [Coll.exec, cmdArrayLength, cmdArrayIsEmpty, cmdArrayContains, cmdArrayJoin,
            cmdSetFromArray, cmdIsArray, cmdMapSize, cmdMapKeys, cmdMapContainsKey, cmdMapContainsValue,
            cmdMapIsEmpty, cmdIsMap, cmdSetSize, cmdSetToArray, cmdSetIsEmpty, cmdIsSet, hg, LookupEq.rfl',
            answersFalse])

/-- releasing a handle that is not live answers `false` and changes no lookup
    (plain and recursive form) -/
theorem C12_release_unknown (m : Coll.St) (h flag : Str) (hn : tget m.tbl h = none)
    (hf : isRecFlag flag = true) :
    (Coll.exec m .release [h]).2 = .val (some sFalse) ∧
    LookupEq (Coll.exec m .release [h]).1.tbl m.tbl ∧
    (Coll.exec m .release [flag, h]).2 = .val (some sFalse) ∧
    LookupEq (Coll.exec m .release [flag, h]).1.tbl m.tbl := by
  have e : ∀ n, removeRec n m.tbl h = some (tremove m.tbl h, false) := by
    intro n; cases n <;> simp [removeRec, hn]
  simp [Coll.exec, cmdRelease, hn, hf, e, boolStr, lookupEq_remove_absent _ _ hn]

/-! ### values are stored and returned verbatim -/

/-- what `array_push` stored is what `array_get` (at the old length) and `array_pop` return;
    what `map_put` stored is what `map_get` returns; what `set_put` stored is contained -/
theorem C12_verbatim (m : Coll.St) (h : Str) (v : Str) :
    (∀ l i, tget m.tbl h = some (.list l) → parseUsize i = some l.length →
      (Coll.exec (Coll.exec m .arrayPush [h, v]).1 .arrayGet [h, i]).2 = .val (some v) ∧
      (Coll.exec (Coll.exec m .arrayPush [h, v]).1 .arrayPop [h]).2 = .val (some v)) ∧
    (∀ mm k, tget m.tbl h = some (.map mm) →
      (Coll.exec (Coll.exec m .mapPut [h, k, v]).1 .mapGet [h, k]).2 = .val (some v)) ∧
    (∀ x, tget m.tbl h = some (.set x) →
      (Coll.exec (Coll.exec m .setPut [h, v]).1 .setContains [h, v]).2 = .val (some sTrue)) := by
  refine ⟨fun l i hl hi => ?_, fun mm k hm => ?_, fun x hx => ?_⟩
  · simp [Coll.exec, cmdArrayPush, cmdArrayGet, cmdArrayPop, mutateList, hl, hi, tget_replace, okTrue]
  · have : ∀ (mm : List (Str × Item)), mget (minsert mm k (.str v)) k = some (.str v) := by
      intro mm; induction mm with
      | nil => simp [minsert, mget]
      | cons p r ih => obtain ⟨a, w⟩ := p; by_cases e : a = k <;> simp [minsert, mget, e, ih]
    simp [Coll.exec, cmdMapPut, cmdMapGet, mutateMap, hm, tget_replace, okTrue, this]
  · have : ∀ (ys : List Str) (x : List Str), v ∈ x → v ∈ ys.foldl sinsert x := by
      intro ys; induction ys with
      | nil => intro x hx; simpa using hx
      | cons y r ih =>
        intro x hx
        simp only [List.foldl]
        apply ih
        unfold sinsert; split <;> simp [hx]
    have hin : v ∈ sinsertAll x [v] := by
      unfold sinsertAll; simp only [List.foldl]; unfold sinsert; split <;> simp_all
    simp [Coll.exec, cmdSetPut, cmdSetContains, mutateSet, hx, tget_replace, okTrue, boolStr, hin]

/-! ### the last put wins -/

/-- after `map_put h k v1`, any number of further puts into the same map — of other keys, or
    of the same key again — `map_get h k` returns the value of the LAST put of `k`; a second put
    of a key does not change the size -/
theorem C12_last_put_wins (m : Coll.St) (h k : Str) (mm : List (Str × Item))
    (hm : tget m.tbl h = some (.map mm)) (v1 v2 k' v' : Str) (hk : k' ≠ k) :
    (Coll.exec (Coll.exec (Coll.exec m .mapPut [h, k, v1]).1 .mapPut [h, k, v2]).1 .mapGet [h, k]).2
        = .val (some v2) ∧
    (Coll.exec (Coll.exec (Coll.exec m .mapPut [h, k, v1]).1 .mapPut [h, k', v']).1 .mapGet [h, k]).2
        = .val (some v1) ∧
    (Coll.exec (Coll.exec (Coll.exec m .mapPut [h, k, v1]).1 .mapPut [h, k, v2]).1 .mapSize [h]).2
        = (Coll.exec (Coll.exec m .mapPut [h, k, v1]).1 .mapSize [h]).2 := by
  have hlen : ∀ (mm : List (Str × Item)) (v : Item), (mget mm k).isSome →
      (minsert mm k v).length = mm.length := by
    intro mm v; induction mm with
    | nil => simp [mget]
    | cons p r ih =>
      obtain ⟨a, w⟩ := p
      by_cases e : a = k <;> simp [minsert, mget, e]
      exact ih
  have hk' : ¬ k = k' := fun e => hk e.symm
  refine ⟨?_, ?_, ?_⟩
  · simp [Coll.exec, cmdMapPut, cmdMapGet, mutateMap, hm, tget_replace, okTrue, mget_minsert]
  · simp [Coll.exec, cmdMapPut, cmdMapGet, mutateMap, hm, tget_replace, okTrue, mget_minsert, hk']
  · simp [Coll.exec, cmdMapPut, cmdMapSize, mutateMap, hm, tget_replace, okTrue]
    rw [hlen]
    simp [mget_minsert]

/-- the same for vectors: `array_set h i v` twice, then `array_get h i` returns the second -/
theorem C12_last_set_wins (m : Coll.St) (h i : Str) (n : Nat) (l : List Item)
    (hl : tget m.tbl h = some (.list l)) (hi : parseUsize i = some n) (hn : n < l.length) (v1 v2 : Str) :
    (Coll.exec (Coll.exec (Coll.exec m .arraySet [h, i, v1]).1 .arraySet [h, i, v2]).1 .arrayGet [h, i]).2
      = .val (some v2) := by
  simp [Coll.exec, cmdArraySet, cmdArrayGet, mutateList, hl, hi, hn, tget_replace]

/-! ### handles are distinct while live -/

/-- allocator invariant: every live key is `handle:<k>` for some k below the counter -/
def AllocInv (m : Coll.St) : Prop :=
  ∀ h, tget m.tbl h ≠ none → ∃ k, k < m.next ∧ h = Coll.handleName k

/-- under the allocator assumption (the model's counter; for the code: the RNG never returns a
    live key) a freshly allocated handle differs from every live handle, allocation changes no
    other lookup, and the invariant is kept -/
theorem C12_fresh_handles_distinct (m : Coll.St) (hI : AllocInv m) (v : Value) :
    tget m.tbl (putHandle m v).2 = none ∧
    (∀ h w, tget m.tbl h = some w → h ≠ (putHandle m v).2 ∧ tget (putHandle m v).1.tbl h = some w) ∧
    tget (putHandle m v).1.tbl (putHandle m v).2 = some v ∧
    AllocInv (putHandle m v).1 := by
  have hfree : tget m.tbl (Coll.handleName m.next) = none := by
    cases hv : tget m.tbl (Coll.handleName m.next) with
    | none => rfl
    | some w =>
      obtain ⟨k, hk, e⟩ := hI _ (by rw [hv]; simp)
      have := handleName_inj e
      omega
  refine ⟨hfree, fun h w hw => ?_, by simp [putHandle, tget_tinsert], fun h hh => ?_⟩
  · have hne : h ≠ Coll.handleName m.next := by
      intro e; rw [e, hfree] at hw; cases hw
    exact ⟨hne, by simp [putHandle, tget_tinsert, hne, hw]⟩
  · simp only [putHandle, tget_tinsert] at hh
    by_cases e : h = Coll.handleName m.next
    · exact ⟨m.next, by simp [putHandle], e⟩
    · simp [e] at hh
      obtain ⟨k, hk, e'⟩ := hI h hh
      exact ⟨k, by simp [putHandle]; omega, e'⟩

/-- two different allocation numbers give two different handle strings -/
theorem C12_handle_names_injective (a b : Nat) (h : Coll.handleName a = Coll.handleName b) : a = b :=
  handleName_inj h

/-- the invariant holds after every history -/
theorem C12_alloc_inv (ops : List (CollCmd × List Str)) : AllocInv (Coll.run {} ops).1 := by
  obtain ⟨N, h⟩ := C12_refines_from_empty ops
  exact (h N (Nat.le_refl _)).1.fresh

/-! ### recursive release terminates -/

/-- `release -r` terminates: with fuel = number of table entries (or more) the recursion never
    runs out of fuel — every call that recurses has removed an entry first — however the stored
    strings refer to each other (sharing, cycles, self reference).  The resulting table is
    no larger, and every lookup answers as before or is gone (no collection is modified). -/
theorem C12_release_recursive_terminates (fuel : Nat) (t : Table) (k : Str) (hf : t.length ≤ fuel) :
    ∃ t' b, removeRec fuel t k = some (t', b) ∧ t'.length ≤ t.length ∧
      ∀ h, tget t' h = tget t h ∨ tget t' h = none :=
  removeRec_total fuel t k hf

/-- hence the `release` command of the model never reports the out-of-fuel error -/
theorem C12_release_never_out_of_fuel (m : Coll.St) (args : List Str) :
    (Coll.exec m .release args).2 ≠ .err := by
  match args with
  | [] => simp [Coll.exec, cmdRelease]
  | [a] => simp [Coll.exec, cmdRelease]
  | a :: b :: r =>
    obtain ⟨t', bb, e, _, _⟩ := C12_release_recursive_terminates m.tbl.length m.tbl b (Nat.le_refl _)
    simp only [Coll.exec, cmdRelease]
    split <;> simp [e]

/-! ### non-vacuity -/

-- a history over all three kinds with kind confusion and use after release, run by both models
example :
    (Coll.run {} [(.array, ["a".toList, "b".toList]), (.map, []), (.mapPut, ["handle:2".toList, "k".toList, "handle:1".toList]),
      (.arrayPush, ["handle:2".toList, "x".toList]), (.mapGet, ["handle:2".toList, "k".toList]),
      (.release, ["handle:1".toList]), (.arrayLength, ["handle:1".toList])]).2
    = [.val (some "handle:1".toList), .val (some "handle:2".toList), .val (some "true".toList), .err,
       .val (some "handle:1".toList), .val (some "true".toList), .err] := by decide

-- the reference model on a history with nesting and a recursive release (bound 3 suffices)
example :
    (Spec.Store.run 3 Spec.Store.empty [(.array, ["x".toList]), (.setNew, ["handle:1".toList]),
      (.map, []), (.mapPut, ["handle:3".toList, "k".toList, "handle:2".toList]),
      (.release, ["-r".toList, "handle:3".toList]), (.isArray, ["handle:1".toList])]).2
    = [.val (some "handle:1".toList), .val (some "handle:2".toList), .val (some "handle:3".toList),
       .val (some "true".toList), .val (some "true".toList), .val (some "false".toList)] := by decide

example : isRecRelease .release ["-r".toList, "handle:1".toList] = true := by decide
example : isRecRelease .release ["handle:1".toList, "-r".toList] = false := by decide

-- the hypotheses of C12_wrong_kind_unchanged are satisfiable: a set handle given to array_push
example : ∃ m : Coll.St, ∃ h, CollCmd.arrayPush.expects = some .vec ∧
    (∀ v, tget m.tbl h = some v → kindOf v ≠ some .vec) ∧ tget m.tbl h ≠ none :=
  ⟨{ tbl := [("h".toList, .set [])], next := 2 }, "h".toList, rfl, by
    intro v hv; simp [tget] at hv; subst hv; simp [kindOf], by simp [tget]⟩

-- recursive release over a cycle terminates with fuel = table size
example : (removeRec 2 [("a".toList, .list [.str "b".toList]), ("b".toList, .set ["a".toList, "b".toList])] "a".toList)
    = some ([], true) := by decide

-- index parsing as Rust does
example : parseUsize "+1".toList = some 1 ∧ parseUsize "-1".toList = none ∧ parseUsize "".toList = none ∧
    parseUsize "1.0".toList = none ∧ parseUsize "007".toList = some 7 := by decide

end Duck
