/-
  C08 — a dead error kind.  `ScriptError::EmptyLabel` (raised by `find_label` when the scanned
  label value is `Some("")`) can never be produced: names are scanned with quotes disallowed, and
  without quotes the scanner only returns a value that has at least one character.  (Found by the
  coverage measurement of session 4: the line is never executed; here is why.)  Stated on the
  model — which equals the translation of the current scanner source, `C08_scanner_translation`.
-/
import DuckModel.Parser

namespace Duck

/-- the scanner's own errors are the four documented kinds -/
theorem pvStep_err_ne_emptyLabel (fl : PVFlags) (st : PVSt) (c : Char) (rest : Str) (e : PErr)
    (h : pvStep fl st c rest = .err e) : e ≠ .emptyLabel := by
  unfold pvStep at h
  repeat' split at h
  all_goals first
    | (cases h; intro hc; cases hc)
    | cases h

theorem pvLoop_err_ne_emptyLabel (fl : PVFlags) (st : PVSt) (l : Str) (e : PErr)
    (h : pvLoop fl st l = .error e) : e ≠ .emptyLabel := by
  induction l generalizing st with
  | nil => simp [pvLoop] at h
  | cons c rest ih =>
    unfold pvLoop at h
    cases hs : pvStep fl st c rest with
    | cont st' => rw [hs] at h; exact ih st' h
    | brk st' r fe => rw [hs] at h; cases h
    | err e' => rw [hs] at h; cases h; exact pvStep_err_ne_emptyLabel fl st c rest _ hs

theorem pvFinish_err_ne_emptyLabel (st : PVSt) (rest : Str) (fe : Bool) (e : PErr)
    (h : pvFinish st rest fe = .error e) : e ≠ .emptyLabel := by
  unfold pvFinish at h
  repeat' split at h
  all_goals first
    | (cases h; intro hc; cases hc)
    | cases h

theorem parseNextValue_err_ne_emptyLabel (fl : PVFlags) (l : Str) (e : PErr)
    (h : parseNextValue fl l = .error e) : e ≠ .emptyLabel := by
  unfold parseNextValue at h
  cases l with
  | nil => cases h
  | cons c rest =>
    simp only at h
    cases hl : pvLoop fl {} (c :: rest) with
    | error e' => rw [hl] at h; cases h; exact pvLoop_err_ne_emptyLabel fl {} _ _ hl
    | ok p =>
      obtain ⟨st, r, fe⟩ := p
      rw [hl] at h
      exact pvFinish_err_ne_emptyLabel st r fe e h

/-- with quotes disallowed the scanner never enters quoted mode … -/
theorem pvStep_noQuotes (fl : PVFlags) (hq : fl.allowQuotes = false) (st : PVSt) (c : Char) (rest : Str)
    (hu : st.usingQuotes = false) :
    (∀ st', pvStep fl st c rest = .cont st' → st'.usingQuotes = false) ∧
    (∀ st' r fe, pvStep fl st c rest = .brk st' r fe → st'.usingQuotes = false) := by
  constructor
  · intro st' h
    unfold pvStep at h
    repeat' split at h
    all_goals first
      | (cases h; simp_all)
      | cases h
  · intro st' r fe h
    unfold pvStep at h
    repeat' split at h
    all_goals first
      | (cases h; simp_all)
      | cases h

theorem pvLoop_noQuotes (fl : PVFlags) (hq : fl.allowQuotes = false) (st : PVSt) (l : Str)
    (hu : st.usingQuotes = false) (st' : PVSt) (r : Str) (fe : Bool)
    (h : pvLoop fl st l = .ok (st', r, fe)) : st'.usingQuotes = false := by
  induction l generalizing st with
  | nil => simp [pvLoop] at h; obtain ⟨h1, _, _⟩ := h; rw [← h1]; exact hu
  | cons c rest ih =>
    unfold pvLoop at h
    have hs := pvStep_noQuotes fl hq st c rest hu
    cases hstep : pvStep fl st c rest with
    | cont s2 => rw [hstep] at h; exact ih s2 (hs.1 s2 hstep) h
    | brk s2 r2 fe2 =>
      rw [hstep] at h
      simp only [Except.ok.injEq, Prod.mk.injEq] at h
      obtain ⟨h1, _, _⟩ := h
      rw [← h1]; exact hs.2 s2 r2 fe2 hstep
    | err e => rw [hstep] at h; cases h

/-- … so a scanned name is never the empty string -/
theorem parseNextValue_noQuotes_nonempty (fl : PVFlags) (hq : fl.allowQuotes = false) (l r : Str) (v : Str)
    (h : parseNextValue fl l = .ok (r, some v)) : v ≠ [] := by
  unfold parseNextValue at h
  cases l with
  | nil => cases h
  | cons c rest =>
    simp only at h
    cases hl : pvLoop fl {} (c :: rest) with
    | error e => rw [hl] at h; cases h
    | ok p =>
      obtain ⟨st, r', fe⟩ := p
      rw [hl] at h
      have hu := pvLoop_noQuotes fl hq {} (c :: rest) rfl st r' fe hl
      simp only at h
      unfold pvFinish at h
      by_cases h1 : st.inArg ∧ fe = false ∧ (st.inControl ∨ st.usingQuotes)
      · rw [if_pos h1] at h
        by_cases h2 : st.inControl = true <;> simp [h2] at h
      · rw [if_neg h1] at h
        by_cases h3 : st.arg.isEmpty = true
        · simp [h3, hu] at h
        · simp only [h3] at h
          simp only [Bool.false_eq_true, if_false, Except.ok.injEq, Prod.mk.injEq, Option.some.injEq] at h
          obtain ⟨_, hv⟩ := h
          subst hv
          intro hc
          simp [hc] at h3

/-- `find_label` never reports an empty label -/
theorem C08_find_label_never_empty (l : Str) : findLabel l ≠ .error .emptyLabel := by
  induction l with
  | nil => simp [findLabel]
  | cons c rest ih =>
    unfold findLabel
    split
    · cases hp : parseNextValue nameFlags rest with
      | error e =>
        simp only
        intro hc
        cases hc
        exact parseNextValue_err_ne_emptyLabel nameFlags rest _ hp rfl
      | ok p =>
        obtain ⟨r, ov⟩ := p
        cases ov with
        | none => simp
        | some v =>
          have hne := parseNextValue_noQuotes_nonempty nameFlags rfl rest r v hp
          simp only
          have : v.isEmpty = false := by cases v <;> simp_all
          simp [this]
    · split
      · simp
      · exact ih

theorem parseArgsLoop_err_ne_emptyLabel (cac : Bool) (l : Str) (e : PErr)
    (h : parseArgsLoop cac l = .error e) : e ≠ .emptyLabel := by
  fun_induction parseArgsLoop cac l with
  | case1 l e' hp => cases h; exact parseNextValue_err_ne_emptyLabel _ _ _ hp
  | case2 l r hp => cases h
  | case3 l r a hp hlt e' he ih => cases h; exact ih he
  | case4 l r a hp hlt as he ih => cases h
  | case5 l r a hp hlt => cases h

theorem parseArguments_err_ne_emptyLabel (l : Str) (e : PErr)
    (h : parseArguments l = .error e) : e ≠ .emptyLabel := by
  unfold parseArguments parseArgumentsWith at h
  cases hp : parseArgsLoop false l with
  | error e' => rw [hp] at h; cases h; exact parseArgsLoop_err_ne_emptyLabel _ _ _ hp
  | ok as => rw [hp] at h; cases as <;> cases h

theorem findOutputAndCommand_err_ne_emptyLabel (l : Str) (e : PErr)
    (h : findOutputAndCommand l = .error e) : e ≠ .emptyLabel := by
  unfold findOutputAndCommand at h
  cases hp : parseNextValue outputFlags l with
  | error e' => rw [hp] at h; cases h; exact parseNextValue_err_ne_emptyLabel _ _ _ hp
  | ok p =>
    obtain ⟨r, ov⟩ := p
    rw [hp] at h
    cases ov with
    | none => cases h
    | some v =>
      simp only at h
      cases hs : skipToEquals r with
      | mk b afterEq =>
        rw [hs] at h
        cases b with
        | false => cases h
        | true =>
          simp only at h
          cases hp2 : parseNextValue nameFlags afterEq with
          | error e' => rw [hp2] at h; cases h; exact parseNextValue_err_ne_emptyLabel _ _ _ hp2
          | ok q =>
            obtain ⟨r2, oc⟩ := q
            rw [hp2] at h
            cases oc <;> cases h

/-- NO LINE is ever rejected with `EmptyLabel`: the error kind is dead code -/
theorem C08_empty_label_unreachable (line : Str) : parseLine line ≠ .error .emptyLabel := by
  intro h
  unfold parseLine at h
  cases ht : trim line with
  | nil => rw [ht] at h; cases h
  | cons c rest =>
    rw [ht] at h
    simp only at h
    by_cases h1 : c = '#'
    · simp [h1] at h
    · by_cases h2 : c = '!'
      · simp only [h2, if_true] at h
        unfold parsePreProcessLine at h
        simp only at h
        by_cases he : (ppCommand [] rest).1.isEmpty = true
        · rw [if_pos he] at h; cases h
        · rw [if_neg he] at h
          cases hp : parseArguments (ppCommand [] rest).2 with
          | error e => rw [hp] at h; cases h; exact parseArguments_err_ne_emptyLabel _ _ hp rfl
          | ok a => rw [hp] at h; cases h
      · simp only [h1, h2, if_false] at h
        unfold parseCommandLine at h
        simp only at h
        cases hl : findLabel (c :: rest) with
        | error e => rw [hl] at h; cases h; exact C08_find_label_never_empty _ hl
        | ok p =>
          obtain ⟨r1, label⟩ := p
          rw [hl] at h
          simp only at h
          cases ho : findOutputAndCommand r1 with
          | error e => rw [ho] at h; cases h; exact findOutputAndCommand_err_ne_emptyLabel _ _ ho rfl
          | ok q =>
            obtain ⟨r2, output, command⟩ := q
            rw [ho] at h
            simp only at h
            cases ha : parseArguments r2 with
            | error e => rw [ha] at h; cases h; exact parseArguments_err_ne_emptyLabel _ _ ha rfl
            | ok args =>
              rw [ha] at h
              simp only at h
              split at h <;> cases h

end Duck
