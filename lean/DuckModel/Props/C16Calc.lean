/-
  C16 — `calc` agrees with ordinary arithmetic on the generated expressions.

  Specification (Spec/CalcArith.lean): an expression over integer and decimal literals, `+ - *`,
  unary minus, `^` with a literal exponent denotes a rational number (Lean core `Rat`).
  Model (Sdk/Calc.lean): exact fractions `Frac` (numerator, denominator in lowest terms) and a
  typed evaluation that says which answers of evalexpr are observable (`Int` = checked `i64`,
  `Float`).  Proved here: the fraction operations are the field operations of ℚ on canonical
  representatives (`C16_calc_add … _pow`), the evaluator is the homomorphism from expressions to
  ℚ (`C16_calc_eval_denote`), lowest terms are canonical (`C16_calc_canonical`: equal values
  print alike), integer-only expressions evaluate to their `Int` value, and the typed model never
  answers a value other than the ordinary one: it answers the ordinary value, `approx`, or —
  exactly when a checked `i64` operation of an integer-only expression leaves the range — the
  error result.  evalexpr itself and IEEE-754 are NOT modelled: tied by the differential harness.
-/
import DuckModel.Sdk.Calc
import DuckModel.Lemmas.CalcLemmas

namespace Duck
open Duck.Calc Duck.Spec

/-! ### the fraction operations are ℚ's, on canonical representatives -/

/-- normalisation keeps the value and yields lowest terms with a positive denominator -/
theorem C16_calc_normalise (n : Int) (d : Nat) (hd : d ≠ 0) :
    (Frac.norm n d).val = mkRat n d ∧ (Frac.norm n d).WF := by
  rw [Frac.norm_eq_ofRat n d hd]
  exact ⟨Frac.ofRat_val _, Frac.ofRat_WF _⟩

theorem C16_calc_add (a b : Frac) (ha : a.den ≠ 0) (hb : b.den ≠ 0) :
    (a.add b).val = a.val + b.val ∧ (a.add b).WF := by
  rw [Frac.add_eq a b ha hb]; exact ⟨Frac.ofRat_val _, Frac.ofRat_WF _⟩

theorem C16_calc_sub (a b : Frac) (ha : a.den ≠ 0) (hb : b.den ≠ 0) :
    (a.sub b).val = a.val - b.val ∧ (a.sub b).WF := by
  rw [Frac.sub_eq a b ha hb]; exact ⟨Frac.ofRat_val _, Frac.ofRat_WF _⟩

theorem C16_calc_mul (a b : Frac) (ha : a.den ≠ 0) (hb : b.den ≠ 0) :
    (a.mul b).val = a.val * b.val ∧ (a.mul b).WF := by
  rw [Frac.mul_eq a b ha hb]; exact ⟨Frac.ofRat_val _, Frac.ofRat_WF _⟩

theorem C16_calc_neg (a : Frac) (ha : a.WF) : a.neg.val = - a.val ∧ a.neg.WF := by
  rw [Frac.neg_eq a ha]; exact ⟨Frac.ofRat_val _, Frac.ofRat_WF _⟩

theorem C16_calc_pow (a : Frac) (k : Nat) (ha : a.den ≠ 0) :
    (a.pow k).val = a.val ^ k ∧ (a.pow k).WF := by
  rw [Frac.pow_eq a k ha]; exact ⟨Frac.ofRat_val _, Frac.ofRat_WF _⟩

/-- lowest terms are canonical: two well-formed fractions with the same value are the same pair
    (so they print alike) -/
theorem C16_calc_canonical (a b : Frac) (ha : a.WF) (hb : b.WF) (h : a.val = b.val) : a = b :=
  Frac.val_injective ha hb h

/-! ### the evaluator is the homomorphism into ℚ -/

/-- the fraction computed for an expression is (numerator, denominator) of its value in ℚ -/
theorem C16_calc_eval_denote (e : Expr) :
    evalQ e = Frac.ofRat e.denote ∧ (evalQ e).val = e.denote ∧ (evalQ e).WF := by
  refine ⟨evalQ_eq e, ?_, evalQ_WF e⟩
  rw [evalQ_eq]; exact Frac.ofRat_val _

/-- constructor by constructor -/
theorem C16_calc_eval_hom (a b : Expr) (n : Nat) :
    (evalQ (.add a b)).val = (evalQ a).val + (evalQ b).val ∧
    (evalQ (.sub a b)).val = (evalQ a).val - (evalQ b).val ∧
    (evalQ (.mul a b)).val = (evalQ a).val * (evalQ b).val ∧
    (evalQ (.neg a)).val = - (evalQ a).val ∧
    (evalQ (.pow a n)).val = (evalQ a).val ^ n := by
  simp only [(C16_calc_eval_denote _).2.1, Expr.denote, and_self]

/-- expressions with the same value in ℚ get the same printed fraction -/
theorem C16_calc_same_value_same_answer (e₁ e₂ : Expr) (h : e₁.denote = e₂.denote) :
    evalQ e₁ = evalQ e₂ := by
  rw [evalQ_eq, evalQ_eq, h]

/-- integer-only expressions (no decimal literal, no `^`): the `Int` evaluation over 1 -/
theorem C16_calc_int_only (e : Expr) (h : e.intOnly = true) : evalQ e = Frac.ofInt e.evalInt := by
  induction e with
  | int n => rfl
  | dec m k => cases h
  | add a b iha ihb =>
    simp only [Expr.intOnly, Bool.and_eq_true] at h
    simp [evalQ, Expr.evalInt, iha h.1, ihb h.2, Frac.add, Frac.ofInt, Frac.norm_one]
  | sub a b iha ihb =>
    simp only [Expr.intOnly, Bool.and_eq_true] at h
    simp [evalQ, Expr.evalInt, iha h.1, ihb h.2, Frac.sub, Frac.ofInt, Frac.norm_one]
  | mul a b iha ihb =>
    simp only [Expr.intOnly, Bool.and_eq_true] at h
    simp [evalQ, Expr.evalInt, iha h.1, ihb h.2, Frac.mul, Frac.ofInt, Frac.norm_one]
  | neg a iha =>
    simp only [Expr.intOnly] at h
    simp [evalQ, Expr.evalInt, iha h, Frac.neg, Frac.ofInt]
  | pow a n => cases h

/-! ### the typed model (what evalexpr computes with) never leaves ordinary arithmetic -/

/-- whatever value the typed evaluation reaches is the ordinary one -/
theorem C16_calc_typed_value (e : Expr) (v : Val) (h : evalT e = some v) : v.frac = evalQ e := by
  have hbin : ∀ (fi : Int → Int → Int) (ff : Frac → Frac → Frac) (x y : Option Val) (p q : Frac),
      (∀ i j : Int, Frac.ofInt (fi i j) = ff (Frac.ofInt i) (Frac.ofInt j)) →
      (∀ w, x = some w → w.frac = p) → (∀ w, y = some w → w.frac = q) →
      ∀ v, binop fi ff x y = some v → v.frac = ff p q := by
    intro fi ff x y p q hi hx hy v hv
    cases x with
    | none => simp [binop] at hv
    | some a =>
      cases y with
      | none => cases a <;> simp [binop] at hv
      | some b =>
        have ha := hx a rfl
        have hb := hy b rfl
        cases a with
        | int i =>
          cases b with
          | int j =>
            simp only [binop] at hv
            split at hv
            · cases hv
              simp only [Val.frac, Val.toFlt] at ha hb ⊢
              rw [hi, ha, hb]
            · cases hv
          | flt q' e' =>
            simp only [binop, mkFlt, Option.some.injEq] at hv
            subst hv
            simp only [Val.frac, Val.toFlt] at ha hb ⊢
            rw [ha, hb]
        | flt p' e' =>
          simp only [binop, mkFlt, Option.some.injEq] at hv
          subst hv
          simp only [Val.frac] at ha hb ⊢
          rw [ha, hb]
          rfl
  induction e generalizing v with
  | int n =>
    simp only [evalT] at h
    split at h <;> (cases h; rfl)
  | dec m k =>
    simp only [evalT, mkFlt, Option.some.injEq] at h
    subst h; rfl
  | add a b iha ihb =>
    exact hbin _ _ _ _ _ _ (fun i j => by simp [Frac.add, Frac.ofInt, Frac.norm_one]) iha ihb v h
  | sub a b iha ihb =>
    exact hbin _ _ _ _ _ _ (fun i j => by simp [Frac.sub, Frac.ofInt, Frac.norm_one]) iha ihb v h
  | mul a b iha ihb =>
    exact hbin _ _ _ _ _ _ (fun i j => by simp [Frac.mul, Frac.ofInt, Frac.norm_one]) iha ihb v h
  | neg a iha =>
    simp only [evalT] at h
    cases ha : evalT a with
    | none => simp [ha] at h
    | some w =>
      have hw := iha w ha
      rw [ha] at h
      cases w with
      | int i =>
        simp only at h
        split at h
        · cases h
          simp only [Val.frac, Val.toFlt] at hw ⊢
          simp only [evalQ, ← hw, Frac.neg, Frac.ofInt]
        · cases h
      | flt q' e' =>
        simp only [mkFlt, Option.some.injEq] at h
        subst h
        simp only [Val.frac, Val.toFlt] at hw ⊢
        simp only [evalQ, hw]
  | pow a n iha =>
    simp only [evalT] at h
    cases ha : evalT a with
    | none => simp [ha] at h
    | some w =>
      have hw := iha w ha
      rw [ha] at h
      simp only [mkFlt, Option.some.injEq] at h
      subst h
      show w.toFlt.1.pow n = (evalQ a).pow n
      rw [show w.toFlt.1 = evalQ a from hw]

/-- an exact answer of the model IS the ordinary value (numerator and denominator of the value
    in ℚ); the other answers are `approx` and the error result -/
theorem C16_calc_answer (e : Expr) :
    (∀ f, answer e = .q f → f = Frac.ofRat e.denote) ∧
    (answer e = .err ↔ evalT e = none) ∧ answer e ≠ .unmodelled := by
  refine ⟨?_, ?_, ?_⟩
  · intro f h
    unfold answer at h
    cases hv : evalT e with
    | none => simp [hv] at h
    | some v =>
      simp only [hv] at h
      split at h
      · cases h
        rw [← evalQ_eq]
        exact C16_calc_typed_value e v hv
      · cases h
  · unfold answer
    cases hv : evalT e with
    | none => simp
    | some v => simp only; split <;> simp
  · unfold answer
    cases hv : evalT e with
    | none => simp
    | some v => simp only; split <;> simp

/-- every integer value met while evaluating an integer-only expression lies in the `i64` range -/
def Expr.intsInRange : Expr → Bool
  | .int n => decide ((n : Int) ≤ i64Max)
  | .dec _ _ => true
  | .add a b => Expr.intsInRange a && Expr.intsInRange b && inI64 (a.evalInt + b.evalInt)
  | .sub a b => Expr.intsInRange a && Expr.intsInRange b && inI64 (a.evalInt - b.evalInt)
  | .mul a b => Expr.intsInRange a && Expr.intsInRange b && inI64 (a.evalInt * b.evalInt)
  | .neg a => Expr.intsInRange a && inI64 (- a.evalInt)
  | .pow a _ => Expr.intsInRange a

/-- integer-only expressions: the typed model answers the `Int` value when every literal and
    every intermediate value fits `i64`, and the error result otherwise — never a wrapped or
    saturated value.  (An integer literal beyond `i64` is a `Float` for evalexpr: such
    expressions are not integer-typed and are excluded by `intsInRange`.) -/
theorem C16_calc_int_typed (e : Expr) (h : e.intOnly = true) :
    (Expr.intsInRange e = true → evalT e = some (.int e.evalInt)) ∧
    (∀ a b : Expr, a.intOnly = true → b.intOnly = true →
      Expr.intsInRange a = true → Expr.intsInRange b = true →
      (inI64 (a.evalInt + b.evalInt) = false → evalT (.add a b) = none) ∧
      (inI64 (a.evalInt - b.evalInt) = false → evalT (.sub a b) = none) ∧
      (inI64 (a.evalInt * b.evalInt) = false → evalT (.mul a b) = none) ∧
      (inI64 (- a.evalInt) = false → evalT (.neg a) = none)) := by
  have main : ∀ e : Expr, e.intOnly = true → Expr.intsInRange e = true →
      evalT e = some (.int e.evalInt) := by
    intro e
    induction e with
    | int n =>
      intro _ hr
      simp only [Expr.intsInRange, decide_eq_true_eq] at hr
      simp [evalT, hr, Expr.evalInt]
    | dec m k => intro h; cases h
    | add a b iha ihb =>
      intro h hr
      simp only [Expr.intOnly, Bool.and_eq_true] at h
      simp only [Expr.intsInRange, Bool.and_eq_true] at hr
      simp [evalT, iha h.1 hr.1.1, ihb h.2 hr.1.2, binop, hr.2, Expr.evalInt]
    | sub a b iha ihb =>
      intro h hr
      simp only [Expr.intOnly, Bool.and_eq_true] at h
      simp only [Expr.intsInRange, Bool.and_eq_true] at hr
      simp [evalT, iha h.1 hr.1.1, ihb h.2 hr.1.2, binop, hr.2, Expr.evalInt]
    | mul a b iha ihb =>
      intro h hr
      simp only [Expr.intOnly, Bool.and_eq_true] at h
      simp only [Expr.intsInRange, Bool.and_eq_true] at hr
      simp [evalT, iha h.1 hr.1.1, ihb h.2 hr.1.2, binop, hr.2, Expr.evalInt]
    | neg a iha =>
      intro h hr
      simp only [Expr.intOnly] at h
      simp only [Expr.intsInRange, Bool.and_eq_true] at hr
      simp [evalT, iha h hr.1, hr.2, Expr.evalInt]
    | pow a n => intro h; cases h
  refine ⟨main e h, ?_⟩
  intro a b ha hb ra rb
  refine ⟨?_, ?_, ?_, ?_⟩ <;> intro ho <;> simp [evalT, main a ha ra, main b hb rb, binop, ho]

/-! ### non-vacuity -/

example : calcCmd ["2 ^ 10".toList] = .q ⟨1024, 1⟩ := by decide +kernel
example : calcCmd ["-".toList, "2".toList, "^".toList, "2".toList, "*".toList, "3".toList,
    "+".toList, "0.5".toList] = .q ⟨-23, 2⟩ := by decide +kernel
example : calcCmd ["(1.5+0.25)*-4".toList] = .q ⟨-7, 1⟩ := by decide +kernel
example : calcCmd ["2 ^ 70".toList] = .approx := by decide +kernel
example : calcCmd ["0.1 + 0.2".toList] = .approx := by decide +kernel
example : calcCmd ["9223372036854775807 + 1".toList] = .err := by decide +kernel
example : calcCmd ["9223372036854775807 + 1.0".toList] = .approx := by decide +kernel
example : calcCmd [] = .err := by decide +kernel
example : calcCmd ["2 ^ 3 ^ 2".toList] = .unmodelled := by decide +kernel
example : evalQ (.add (.dec 5 1) (.dec 25 2)) = ⟨3, 4⟩ := by decide +kernel

end Duck
