/-
  C13 — setting the halt flag stops the run at the next instruction boundary.
  The flag is an oracle `halt : Nat → σ → Bool`: what the k-th poll sees, possibly
  depending on the state (a command raising the flag) — i.e. an arbitrary schedule.
-/
import DuckModel.Runner
import DuckModel.Spec.Machine
import DuckModel.Lemmas.RunnerLemmas
import DuckModel.Props.C13Flow

namespace Duck
open Duck.Spec

/-- If the flag is seen set at the top of an iteration, no instruction is started: the run
    returns successfully with the variables and state exactly as they were. -/
theorem C13_stop_at_boundary {σ : Type} (sem : CmdSem σ) (is : List Instruction)
    (labels : List (Str × Nat)) (halt : Nat → σ → Bool) (fuel : Nat) (rs : RunState σ)
    (h : halt rs.polls rs.st = true) :
    runLoop sem is labels halt (fuel + 1) rs = (rs, .halted) := by
  rw [runLoop_succ, runStep_halt_true sem is labels halt rs h]

/-- Until the flag is seen, a halt-able run does exactly what the un-halted run does. -/
theorem C13_same_until_seen {σ : Type} (sem : CmdSem σ) (is : List Instruction)
    (labels : List (Str × Nat)) (halt : Nat → σ → Bool) (rs : RunState σ)
    (h : halt rs.polls rs.st = false) :
    runStep sem is labels halt rs = runStep sem is labels noHalt rs := by
  exact runStep_halt_false sem is labels halt rs h

/-- every iteration polls the flag exactly once -/
theorem C13_one_poll_per_iteration {σ : Type} (sem : CmdSem σ) (is : List Instruction)
    (labels : List (Str × Nat)) (halt : Nat → σ → Bool) (rs rs' : RunState σ)
    (h : runStep sem is labels halt rs = .inl rs') : rs'.polls = rs.polls + 1 := by
  exact runStep_inl_polls sem is labels halt rs rs' h

/-- If the flag is raised for good by poll number `K` at the latest (whatever the state), every
    program — also one that would loop forever — returns within `K - polls + 1` iterations
    (at least one iteration being allowed), successfully (never by running out of fuel), on
    every path (continue, goto, handled error). -/
theorem C13_terminates {σ : Type} (sem : CmdSem σ) (is : List Instruction)
    (labels : List (Str × Nat)) (halt : Nat → σ → Bool) (K : Nat)
    (hK : ∀ k s, K ≤ k → halt k s = true) (rs : RunState σ) (fuel : Nat)
    (hfuel : K + 1 - rs.polls ≤ fuel) (hpos : 0 < fuel) :
    (runLoop sem is labels halt fuel rs).2 ≠ .outOfFuel := by
  exact runLoop_halt_terminates sem is labels halt K hK fuel rs hfuel hpos

/-- `n` iterations of the un-halted run (`none` if it ends earlier) -/
def iterSteps {σ : Type} (sem : CmdSem σ) (is : List Instruction) (labels : List (Str × Nat)) :
    Nat → RunState σ → Option (RunState σ)
  | 0, rs => some rs
  | n + 1, rs =>
    match runStep sem is labels noHalt rs with
    | .inl rs' => iterSteps sem is labels n rs'
    | .inr _ => none

/-- A halted run is a prefix of the un-halted run: if the flag is first seen at the (n+1)-th
    poll of this run — at any boundary: after a continue, a goto, a handled error, a loop
    back-edge — the result is exactly the state the un-halted run has after n iterations
    (no further instruction is started, variables as they were at that point), and the run
    ends as `halted`, which `run_script` returns as success. -/
theorem C13_prefix {σ : Type} (sem : CmdSem σ) (is : List Instruction)
    (labels : List (Str × Nat)) (halt : Nat → σ → Bool) (n : Nat) (rs rsn : RunState σ)
    (hrun : iterSteps sem is labels n rs = some rsn)
    (hnot : ∀ j (rsj : RunState σ), j < n → iterSteps sem is labels j rs = some rsj →
      halt rsj.polls rsj.st = false)
    (hseen : halt rsn.polls rsn.st = true) (extra : Nat) :
    runLoop sem is labels halt (n + extra + 1) rs = (rsn, .halted) := by
  induction n generalizing rs with
  | zero =>
    simp only [iterSteps, Option.some.injEq] at hrun
    subst hrun
    rw [runLoop_succ, runStep_halt_true sem is labels halt rs hseen]
  | succ n ih =>
    have h0 : halt rs.polls rs.st = false := hnot 0 rs (Nat.succ_pos n) rfl
    have hadd : n + 1 + extra + 1 = (n + extra + 1) + 1 := by omega
    rw [hadd, runLoop_succ, runStep_halt_false sem is labels halt rs h0]
    cases hs : runStep sem is labels noHalt rs with
    | inl rs1 =>
      simp only [iterSteps, hs] at hrun
      refine ih rs1 hrun (fun j rsj hj hrj => hnot (j + 1) rsj (by omega) ?_)
      simp only [iterSteps, hs]
      exact hrj
    | inr r =>
      simp only [iterSteps, hs] at hrun
      exact absurd hrun (by simp)

/-! ### non-vacuity: an endless loop and a flag raised at the third poll -/

namespace C13Example

/-- `goto` line 0 forever -/
def prog : List Instruction := [ ⟨{}, .script { command := some "loop".toList }⟩ ]

/-- `loop` counts its calls in the state and jumps back to line 0 -/
def sem : CmdSem Nat := fun _ _ _ _ vars s => some (.goTo none (.line 0), vars, s + 1)

/-- the flag is up from poll number 2 on -/
def halt : Nat → Nat → Bool := fun k _ => decide (2 ≤ k)

def rs0 : RunState Nat := ⟨0, 0, [], 0⟩

/-- un-halted, the program never finishes -/
example : (runLoop sem prog (labelTable prog) noHalt 50 rs0).2 = .outOfFuel := by rfl

/-- halted: two instructions are run, then the run ends as `halted` -/
example : runLoop sem prog (labelTable prog) halt 50 rs0 = (⟨0, 2, [], 2⟩, .halted) :=
  C13_prefix sem prog (labelTable prog) halt 2 rs0 ⟨0, 2, [], 2⟩ (by rfl)
    (by
      intro j rsj hj h
      match j, hj, h with
      | 0, _, h => cases h; rfl
      | 1, _, h => cases h; rfl)
    (by rfl) 47

example : (runLoop sem prog (labelTable prog) halt 3 rs0).2 ≠ .outOfFuel :=
  C13_terminates sem prog (labelTable prog) halt 2
    (fun k _ hk => by simp [halt, hk]) rs0 3 (by decide) (by decide)

example : runLoop sem prog (labelTable prog) halt 1 ⟨0, 2, [], 2⟩ = (⟨0, 2, [], 2⟩, .halted) :=
  C13_stop_at_boundary sem prog (labelTable prog) halt 0 ⟨0, 2, [], 2⟩ (by rfl)

end C13Example

end Duck
