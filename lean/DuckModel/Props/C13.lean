/-
  C13 — setting the halt flag stops the run at the next instruction boundary.
  The flag is an oracle `halt : Nat → σ → Bool`: what the k-th poll sees, possibly
  depending on the state (a command raising the flag) — i.e. an arbitrary schedule.
-/
import DuckModel.Runner
import DuckModel.Spec.Machine
import DuckModel.Lemmas.RunnerLemmas

namespace Duck
open Duck.Spec

/-- If the flag is seen set at the top of an iteration, no instruction is started: the run
    returns successfully with the variables and state exactly as they were. -/
theorem C13_stop_at_boundary {σ : Type} (sem : CmdSem σ) (is : List Instruction)
    (labels : List (Str × Nat)) (halt : Nat → σ → Bool) (fuel : Nat) (rs : RunState σ)
    (h : halt rs.polls rs.st = true) :
    runLoop sem is labels halt (fuel + 1) rs = (rs, .halted) := by
  sorry

/-- Until the flag is seen, a halt-able run does exactly what the un-halted run does. -/
theorem C13_same_until_seen {σ : Type} (sem : CmdSem σ) (is : List Instruction)
    (labels : List (Str × Nat)) (halt : Nat → σ → Bool) (rs : RunState σ)
    (h : halt rs.polls rs.st = false) :
    runStep sem is labels halt rs = runStep sem is labels noHalt rs := by
  sorry

/-- every iteration polls the flag exactly once -/
theorem C13_one_poll_per_iteration {σ : Type} (sem : CmdSem σ) (is : List Instruction)
    (labels : List (Str × Nat)) (halt : Nat → σ → Bool) (rs rs' : RunState σ)
    (h : runStep sem is labels halt rs = .inl rs') : rs'.polls = rs.polls + 1 := by
  sorry

/-- If the flag is raised for good by poll number `K` at the latest (whatever the state), every
    program — also one that would loop forever — returns within `K - polls + 1` iterations,
    successfully (never by running out of fuel), on every path (continue, goto, handled error). -/
theorem C13_terminates {σ : Type} (sem : CmdSem σ) (is : List Instruction)
    (labels : List (Str × Nat)) (halt : Nat → σ → Bool) (K : Nat)
    (hK : ∀ k s, K ≤ k → halt k s = true) (rs : RunState σ) (fuel : Nat)
    (hfuel : K + 1 - rs.polls ≤ fuel) :
    (runLoop sem is labels halt fuel rs).2 ≠ .outOfFuel := by
  sorry

/-- `n` iterations of the un-halted run (`none` if it ends earlier) -/
def iterSteps {σ : Type} (sem : CmdSem σ) (is : List Instruction) (labels : List (Str × Nat)) :
    Nat → RunState σ → Option (RunState σ)
  | 0, rs => some rs
  | n + 1, rs =>
    match runStep sem is labels noHalt rs with
    | .inl rs' => iterSteps sem is labels n rs'
    | .inr _ => none

/-- A halted run is a prefix of the un-halted run: if the flag is first seen at the (n+1)-th
    poll of this run — at any boundary: after a continue, a goto, a handled error, a loop
    back-edge — the result is exactly the state the un-halted run has after n iterations
    (no further instruction is started, variables as they were at that point), and the run
    ends as `halted`, which `run_script` returns as success. -/
theorem C13_prefix {σ : Type} (sem : CmdSem σ) (is : List Instruction)
    (labels : List (Str × Nat)) (halt : Nat → σ → Bool) (n : Nat) (rs rsn : RunState σ)
    (hrun : iterSteps sem is labels n rs = some rsn)
    (hnot : ∀ j (rsj : RunState σ), j < n → iterSteps sem is labels j rs = some rsj →
      halt rsj.polls rsj.st = false)
    (hseen : halt rsn.polls rsn.st = true) (extra : Nat) :
    runLoop sem is labels halt (n + extra + 1) rs = (rsn, .halted) := by
  sorry

end Duck
