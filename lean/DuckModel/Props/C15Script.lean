/-
  C15, second sentence - "the script-level alias, unalias, remove_command, is_command_defined and
  function definitions obey the same map".

  Model: Sdk/RegistryCmd.lean (`RegCmd.step` over `RState` = registry + the `ALIAS_STATE`
  sub-state of alias/unalias + the function meta-info of `fn`).  The registry invariant is
  `Reg.InvP` (Lemmas/RegistryLemmas.lean) - literally the body of `Reg.Inv` of Props/C15.lean,
  which imports this file.

  What the real commands do NOT do (modelled as they are, consequences stated as theorems):
    * `remove_command` leaves the `ALIAS_STATE` entry of a removed alias in place, so `SubOK`
      ("every recorded name is an alias-created command") is preserved by every operation
      EXCEPT such a removal; with a stale entry a later `unalias n` removes whatever command is
      reachable under `n` at that time (`C15_script_unalias_recorded_removes_any`, example at the
      end: alias foo; remove_command foo; fn foo; unalias foo - the FUNCTION is gone)
    * `fn` stores its meta-info before it registers the call command and nothing ever removes
      it, so once a name has been the subject of a `fn` (accepted or refused), a `fn` of that name
      at another line is an error even when the name is not registered
      (`C15_script_fn_known`)
    * `unalias n` of a name that `alias` did not record but that is a key of the alias table
      (an alias of a native command) deletes that one alias-table entry; the command stays
-/
import DuckModel.Sdk.RegistryCmd
import DuckModel.Lemmas.RegistryCmdLemmas

namespace Duck
open RegCmd

/-- every name recorded by `alias` is, in the registry, a command stored under that very name
    whose implementation was created by `alias`, and no alias-table entry shadows it -/
def RegCmd.RState.SubOK (s : RState) : Prop :=
  ∀ n, s.sub.containsKey n = true →
    s.reg.aliases.get n = none ∧
    ∃ c i, s.reg.commands.get n = some c ∧ c.tag = (Kind.aliasOf i).tag

/-- the operations that keep `SubOK`: everything except a `remove_command` that resolves to a
    recorded name and an embedder registration one of whose aliases is a recorded name -/
def RegCmd.Op.KeepsSub (s : RState) : Op → Prop
  | .removeCommand [k] => s.sub.containsKey (s.reg.resolve k) = false
  | .native _ al _ => ∀ a ∈ al, s.sub.containsKey a = false
  | _ => True

/-! ### (a) the registry invariants of C15 hold after every script-level history -/

/-- the registry invariant is preserved by every script-level operation … -/
theorem C15_script_inv_step (s : RState) (op : Op) (h : s.reg.InvP) : (step s op).1.reg.InvP :=
  RegCmd.invP_step s op h

/-- … hence holds after every history from the empty state … -/
theorem C15_script_invariant_reachable (ops : List Op) : (run {} ops).1.reg.InvP :=
  RegCmd.invP_run {} ops Reg.invP_empty

/-- … in particular no alias ever points to a command that is gone -/
theorem C15_script_no_dangling (ops : List Op) (a m : Str)
    (h : (run {} ops).1.reg.aliases.get a = some m) :
    ((run {} ops).1.reg.commands.get m).isSome = true := by
  obtain ⟨c, hc, _⟩ := (RegCmd.invP_run {} ops Reg.invP_empty).1 a m h
  simp [hc]

/-- "obey the same map": the registry after a script-level operation is the old one, or the
    result of ONE `Commands::set`, or of ONE `Commands::remove`, or the old one without one
    alias-table entry (`unalias` of a native alias) -/
theorem C15_script_ops_refine (s : RState) (op : Op) :
    (step s op).1.reg = s.reg ∨
    (∃ c, (step s op).1.reg = (s.reg.set c).1) ∨
    (∃ n, (step s op).1.reg = (s.reg.remove n).1) ∨
    (∃ k, (step s op).1.reg = { s.reg with aliases := s.reg.aliases.erase k }) := by
  cases op with
  | native n al t => exact Or.inr (Or.inl ⟨_, rfl⟩)
  | alias args id =>
    match args with
    | [] => exact Or.inl rfl
    | [_] => exact Or.inl rfl
    | name :: t :: rest =>
      refine Or.inr (Or.inl ⟨aliasSpec name id, ?_⟩)
      show (aliasCmd s (name :: t :: rest) id).1.reg = _
      simp only [aliasCmd]
      split <;> rfl
  | unalias args =>
    match args with
    | [] => exact Or.inl rfl
    | _ :: _ :: _ => exact Or.inl rfl
    | [key] =>
      show (unaliasCmd s [key]).1.reg = _ ∨ (∃ c, (unaliasCmd s [key]).1.reg = _) ∨
        (∃ n, (unaliasCmd s [key]).1.reg = _) ∨ (∃ k, (unaliasCmd s [key]).1.reg = _)
      rw [unaliasCmd_one]
      split
      · split
        · exact Or.inr (Or.inr (Or.inl ⟨key, rfl⟩))
        · exact Or.inl rfl
      · split
        · exact Or.inr (Or.inr (Or.inr ⟨key, rfl⟩))
        · exact Or.inl rfl
  | removeCommand args =>
    match args with
    | [] => exact Or.inl rfl
    | _ :: _ :: _ => exact Or.inl rfl
    | [name] => exact Or.inr (Or.inr (Or.inl ⟨name, rfl⟩))
  | isCommandDefined args =>
    match args with
    | [] => exact Or.inl rfl
    | _ :: _ => exact Or.inl rfl
  | defineFn n l e =>
    show (fnCmd s n l e).1.reg = _ ∨ (∃ c, (fnCmd s n l e).1.reg = _) ∨
      (∃ m, (fnCmd s n l e).1.reg = _) ∨ (∃ k, (fnCmd s n l e).1.reg = _)
    cases hk : s.fns.get n with
    | some start => rw [fnCmd_known s n l start e hk]; exact Or.inl rfl
    | none =>
      cases e with
      | true => rw [fnCmd_fresh s n l hk]; exact Or.inr (Or.inl ⟨_, rfl⟩)
      | false => rw [fnCmd_noEnd s n l hk]; exact Or.inl rfl

/-! ### (b) `alias` -/

/-- `alias name target …` is refused (an error) exactly when `name` is a registered command
    NAME; a name that is only a key of the alias table is accepted (as `Commands::set` does) -/
theorem C15_script_alias_refused_iff (s : RState) (name t : Str) (rest : List Str) (id : Nat) :
    (step s (.alias (name :: t :: rest) id)).2 =
      if (s.reg.commands.get name).isSome = true then .error else .value true := by
  show (aliasCmd s (name :: t :: rest) id).2 = _
  by_cases h : (s.reg.commands.get name).isSome = true
  · rw [aliasCmd_refused s name t rest id h, if_pos h]
  · have hn : s.reg.commands.get name = none := by simpa using h
    rw [aliasCmd_accepted s name t rest id hn, if_neg h]

/-- a refused `alias` (name clash, or fewer than two arguments) leaves the WHOLE state -
    registry, alias sub-state, function table - exactly as it was -/
theorem C15_script_alias_refused_unchanged (s : RState) (args : List Str) (id : Nat)
    (h : (step s (.alias args id)).2 ≠ .value true) : (step s (.alias args id)).1 = s := by
  match args with
  | [] => rfl
  | [_] => rfl
  | name :: t :: rest =>
    show (aliasCmd s (name :: t :: rest) id).1 = s
    by_cases hc : (s.reg.commands.get name).isSome = true
    · rw [aliasCmd_refused s name t rest id hc]
    · have hn : s.reg.commands.get name = none := by simpa using hc
      exfalso; apply h
      show (aliasCmd s (name :: t :: rest) id).2 = _
      rw [aliasCmd_accepted s name t rest id hn]

/-- `alias` answers `true` or fails with an error, nothing else -/
theorem C15_script_alias_outputs (s : RState) (args : List Str) (id : Nat) :
    (step s (.alias args id)).2 = .value true ∨ (step s (.alias args id)).2 = .error := by
  match args with
  | [] => exact Or.inr rfl
  | [_] => exact Or.inr rfl
  | name :: t :: rest =>
    rw [C15_script_alias_refused_iff]
    split
    · exact Or.inr rfl
    · exact Or.inl rfl

/-- an accepted `alias` makes the new command reachable under its name, records the name, and
    disturbs no other name (lookups, records, function table) -/
theorem C15_script_alias_accepted (s : RState) (args : List Str) (id : Nat)
    (h : (step s (.alias args id)).2 = .value true) :
    ∃ name rest, args = name :: rest ∧
      (step s (.alias args id)).1.reg.get name = some (aliasSpec name id) ∧
      (step s (.alias args id)).1.sub.containsKey name = true ∧
      (step s (.alias args id)).1.fns = s.fns ∧
      (∀ n, n ≠ name → (step s (.alias args id)).1.sub.containsKey n = s.sub.containsKey n) ∧
      (s.reg.InvP → ∀ n, n ≠ name → (step s (.alias args id)).1.reg.get n = s.reg.get n) := by
  match args with
  | [] => cases h
  | [_] => cases h
  | name :: t :: rest =>
    have hn : s.reg.commands.get name = none := by
      rw [C15_script_alias_refused_iff] at h
      by_cases hc : (s.reg.commands.get name).isSome = true
      · rw [if_pos hc] at h; cases h
      · simpa using hc
    refine ⟨name, t :: rest, rfl, ?_⟩
    show (aliasCmd s (name :: t :: rest) id).1.reg.get name = _ ∧ _
    simp only [show step s (.alias (name :: t :: rest) id) = aliasCmd s (name :: t :: rest) id from rfl]
    rw [aliasCmd_accepted s name t rest id hn]
    refine ⟨Reg.setOk_aliasless_get_self s.reg (aliasSpec name id) rfl, ?_, rfl, ?_, ?_⟩
    · simp [KV.containsKey_put]
    · intro n hne
      simp [KV.containsKey_put, hne]
    · intro hinv n hne
      exact Reg.setOk_aliasless_get_other s.reg (aliasSpec name id) rfl hinv hn n hne

/-! ### (c) `unalias` -/

/-- the complete behaviour of `unalias key`: a RECORDED name is removed through
    `Commands::remove` and forgotten when that finds a command, otherwise nothing changes; a
    name that is not recorded loses its alias-table entry if it has one (the command stays);
    otherwise nothing changes and the answer is `false` -/
theorem C15_script_unalias_spec (s : RState) (key : Str) :
    step s (.unalias [key]) =
      if s.sub.containsKey key = true then
        if s.reg.exists key = true then
          ({ s with reg := (s.reg.remove key).1, sub := s.sub.erase key }, .value true)
        else (s, .value false)
      else if (s.reg.aliases.get key).isSome = true then
        ({ s with reg := { s.reg with aliases := s.reg.aliases.erase key } }, .value true)
      else (s, .value false) :=
  unaliasCmd_one s key

/-- `unalias` with any other number of arguments is an error and changes nothing -/
theorem C15_script_unalias_arity (s : RState) (args : List Str) (h : args.length ≠ 1) :
    step s (.unalias args) = (s, .error) :=
  unaliasCmd_arity s args h

/-- `unalias` never removes a command whose name `alias` did not record (or whose record a
    successful `unalias` erased since, see `C15_script_sub_step`): the name table, the records
    and the function table are then untouched -/
theorem C15_script_unalias_not_recorded (s : RState) (key : Str)
    (h : s.sub.containsKey key = false) :
    (step s (.unalias [key])).1.reg.commands = s.reg.commands ∧
    (step s (.unalias [key])).1.sub = s.sub ∧
    (step s (.unalias [key])).1.fns = s.fns ∧
    (step s (.unalias [key])).2 = .value (s.reg.aliases.get key).isSome := by
  rw [C15_script_unalias_spec]
  have h' : ¬ s.sub.containsKey key = true := by simp [h]
  rw [if_neg h']
  by_cases ha : (s.reg.aliases.get key).isSome = true
  · rw [if_pos ha, ha]; exact ⟨rfl, rfl, rfl, rfl⟩
  · rw [if_neg ha]
    have : (s.reg.aliases.get key).isSome = false := by simpa using ha
    rw [this]; exact ⟨rfl, rfl, rfl, rfl⟩

/-- when the records are exact (`SubOK`), `unalias n` of a recorded name answers `true`, removes
    exactly the command `n` - which `alias` created - and forgets the record -/
theorem C15_script_unalias_recorded (s : RState) (key : Str) (hok : s.SubOK)
    (h : s.sub.containsKey key = true) :
    (step s (.unalias [key])).2 = .value true ∧
    (∃ c i, s.reg.commands.get key = some c ∧ c.tag = (Kind.aliasOf i).tag) ∧
    (∀ m, (step s (.unalias [key])).1.reg.commands.get m =
      if m = key then none else s.reg.commands.get m) ∧
    (step s (.unalias [key])).1.sub.containsKey key = false ∧
    (∀ n, n ≠ key → (step s (.unalias [key])).1.sub.containsKey n = s.sub.containsKey n) := by
  obtain ⟨hal, c, i, hc, hi⟩ := hok key h
  have hres : s.reg.resolve key = key := by simp [Reg.resolve, hal]
  have hex : s.reg.exists key = true := by simp [Reg.exists, Reg.get, hres, hc]
  have hrem : s.reg.remove key = (s.reg.removeOk key c, true) := by
    have := Reg.remove_some s.reg key c (by rw [hres]; exact hc)
    rw [hres] at this; exact this
  rw [C15_script_unalias_spec, if_pos h, if_pos hex, hrem]
  refine ⟨rfl, ⟨c, i, hc, hi⟩, ?_, ?_, ?_⟩
  · intro m; exact Reg.removeOk_commands_get s.reg key c m
  · simp [KV.containsKey_erase]
  · intro n hne; simp [KV.containsKey_erase, hne]

/-- WITHOUT exact records (a stale entry left by `remove_command`): `unalias n` of a recorded
    name removes whatever command is reachable under `n` now - of any kind - and answers `true` -/
theorem C15_script_unalias_recorded_removes_any (s : RState) (key : Str) (c : CmdSpec)
    (hinv : s.reg.InvP) (h : s.sub.containsKey key = true) (hc : s.reg.get key = some c) :
    (step s (.unalias [key])).2 = .value true ∧
    (step s (.unalias [key])).1.reg.commands.get c.name = none ∧
    (step s (.unalias [key])).1.sub.containsKey key = false := by
  have hk : s.reg.commands.get (s.reg.resolve key) = some c := hc
  have hname : c.name = s.reg.resolve key := hinv.2 _ _ hk
  have hex : s.reg.exists key = true := by simp [Reg.exists, hc]
  rw [C15_script_unalias_spec, if_pos h, if_pos hex, Reg.remove_some s.reg key c hk]
  refine ⟨rfl, ?_, ?_⟩
  · show (s.reg.removeOk (s.reg.resolve key) c).commands.get c.name = none
    rw [Reg.removeOk_commands_get, hname]; simp
  · simp [KV.containsKey_erase]

/-- how the records evolve: a name becomes recorded by an accepted `alias` of it, stops being
    recorded by an `unalias` of it that answers `true`, and NOTHING else touches the records
    (in particular not `remove_command`) -/
theorem C15_script_sub_step (s : RState) (op : Op) (n : Str) :
    (step s op).1.sub.containsKey n =
      match op with
      | .alias (name :: _ :: _) _ =>
        if n = name ∧ (step s op).2 = .value true then true else s.sub.containsKey n
      | .unalias [key] =>
        if n = key ∧ (step s op).2 = .value true then false else s.sub.containsKey n
      | _ => s.sub.containsKey n := by
  cases op with
  | native nm al t => rfl
  | alias args id =>
    match args with
    | [] => rfl
    | [_] => rfl
    | name :: t :: rest =>
      show (aliasCmd s (name :: t :: rest) id).1.sub.containsKey n =
        if n = name ∧ (aliasCmd s (name :: t :: rest) id).2 = .value true then true
        else s.sub.containsKey n
      by_cases hc : (s.reg.commands.get name).isSome = true
      · rw [aliasCmd_refused s name t rest id hc]; simp
      · have hn : s.reg.commands.get name = none := by simpa using hc
        rw [aliasCmd_accepted s name t rest id hn]
        simp [KV.containsKey_put]
  | unalias args =>
    match args with
    | [] => rfl
    | _ :: _ :: _ => rfl
    | [key] =>
      show (unaliasCmd s [key]).1.sub.containsKey n =
        if n = key ∧ (unaliasCmd s [key]).2 = .value true then false else s.sub.containsKey n
      rw [unaliasCmd_one]
      by_cases h1 : s.sub.containsKey key = true
      · rw [if_pos h1]
        by_cases h2 : s.reg.exists key = true
        · rw [if_pos h2]
          simp only [KV.containsKey_erase, and_true]
        · rw [if_neg h2]; simp
      · rw [if_neg h1]
        have h1' : s.sub.containsKey key = false := by simpa using h1
        by_cases h3 : (s.reg.aliases.get key).isSome = true
        · rw [if_pos h3]
          by_cases hk : n = key
          · subst hk; simp [h1']
          · simp [hk]
        · rw [if_neg h3]; simp
  | removeCommand args =>
    match args with
    | [] => rfl
    | _ :: _ :: _ => rfl
    | [_] => rfl
  | isCommandDefined args =>
    match args with
    | [] => rfl
    | _ :: _ => rfl
  | defineFn nm l e =>
    show (fnCmd s nm l e).1.sub.containsKey n = s.sub.containsKey n
    cases hk : s.fns.get nm with
    | some start => rw [fnCmd_known s nm l start e hk]
    | none =>
      cases e with
      | true => rw [fnCmd_fresh s nm l hk]
      | false => rw [fnCmd_noEnd s nm l hk]

/-- exact records are kept by every operation except a `remove_command` that hits a recorded
    command and an embedder registration that puts an alias over a recorded name … -/
theorem C15_script_subok_step (s : RState) (op : Op) (hok : s.SubOK) (hsafe : op.KeepsSub s) :
    (step s op).1.SubOK := by
  cases op with
  | native nm al t =>
    show (nativeCmd s nm al t).1.SubOK
    intro n hn
    have hn' : s.sub.containsKey n = true := hn
    obtain ⟨hal, c, i, hc, hi⟩ := hok n hn'
    rcases Reg.set_cases s.reg (nativeSpec nm al t) with ⟨_, e⟩ | ⟨⟨hfree, _⟩, e⟩
    · simp only [nativeCmd, e]; exact ⟨hal, c, i, hc, hi⟩
    · simp only [nativeCmd, e]
      have hnal : n ∉ al := by
        intro hm
        have := hsafe n hm
        rw [hn'] at this; cases this
      have hne : n ≠ nm := by
        intro e'; subst e'
        have : s.reg.commands.get n = none := hfree
        rw [hc] at this; cases this
      refine ⟨?_, c, i, ?_, hi⟩
      · rw [Reg.setOk_aliases_get]
        have : n ∉ (nativeSpec nm al t).aliases := hnal
        simp only [this, if_false]
        have : ¬ n = (nativeSpec nm al t).name := hne
        simp only [this, if_false]; exact hal
      · rw [Reg.setOk_commands_get]
        have : ¬ n = (nativeSpec nm al t).name := hne
        simp only [this, if_false]; exact hc
  | alias args id =>
    match args with
    | [] => exact hok
    | [_] => exact hok
    | name :: t :: rest =>
      show (aliasCmd s (name :: t :: rest) id).1.SubOK
      by_cases hcn : (s.reg.commands.get name).isSome = true
      · rw [aliasCmd_refused s name t rest id hcn]; exact hok
      · have hfree : s.reg.commands.get name = none := by simpa using hcn
        rw [aliasCmd_accepted s name t rest id hfree]
        intro n hn
        by_cases hne : n = name
        · subst hne
          refine ⟨?_, aliasSpec n id, id, ?_, rfl⟩
          · show (s.reg.setOk (aliasSpec n id)).aliases.get n = none
            simp [Reg.setOk_aliases_get, aliasSpec]
          · show (s.reg.setOk (aliasSpec n id)).commands.get n = _
            simp [Reg.setOk_commands_get, aliasSpec]
        · have hn' : s.sub.containsKey n = true := by
            have : (s.sub.put name true).containsKey n = true := hn
            rw [KV.containsKey_put, if_neg hne] at this; exact this
          obtain ⟨hal, c, i, hc, hi⟩ := hok n hn'
          refine ⟨?_, c, i, ?_, hi⟩
          · show (s.reg.setOk (aliasSpec name id)).aliases.get n = none
            simp [Reg.setOk_aliases_get, aliasSpec, hne, hal]
          · show (s.reg.setOk (aliasSpec name id)).commands.get n = _
            simp [Reg.setOk_commands_get, aliasSpec, hne, hc]
  | unalias args =>
    match args with
    | [] => exact hok
    | _ :: _ :: _ => exact hok
    | [key] =>
      show (unaliasCmd s [key]).1.SubOK
      rw [unaliasCmd_one]
      by_cases h1 : s.sub.containsKey key = true
      · rw [if_pos h1]
        by_cases h2 : s.reg.exists key = true
        · rw [if_pos h2]
          obtain ⟨halk, ck, _, hck, _⟩ := hok key h1
          have hres : s.reg.resolve key = key := by simp [Reg.resolve, halk]
          have hrem : s.reg.remove key = (s.reg.removeOk key ck, true) := by
            have := Reg.remove_some s.reg key ck (by rw [hres]; exact hck)
            rw [hres] at this; exact this
          rw [hrem]
          intro n hn
          have hn2 : (s.sub.erase key).containsKey n = true := hn
          rw [KV.containsKey_erase] at hn2
          by_cases hne : n = key
          · rw [if_pos hne] at hn2; cases hn2
          · rw [if_neg hne] at hn2
            obtain ⟨hal, c, i, hc, hi⟩ := hok n hn2
            refine ⟨?_, c, i, ?_, hi⟩
            · show (s.reg.removeOk key ck).aliases.get n = none
              rw [Reg.removeOk_aliases_get]; split
              · rfl
              · exact hal
            · show (s.reg.removeOk key ck).commands.get n = _
              rw [Reg.removeOk_commands_get, if_neg hne]; exact hc
        · rw [if_neg h2]; exact hok
      · rw [if_neg h1]
        by_cases h3 : (s.reg.aliases.get key).isSome = true
        · rw [if_pos h3]
          intro n hn
          have hn' : s.sub.containsKey n = true := hn
          obtain ⟨hal, c, i, hc, hi⟩ := hok n hn'
          refine ⟨?_, c, i, hc, hi⟩
          show (s.reg.aliases.erase key).get n = none
          rw [KV.get_erase]; split
          · rfl
          · exact hal
        · rw [if_neg h3]; exact hok
  | removeCommand args =>
    match args with
    | [] => exact hok
    | _ :: _ :: _ => exact hok
    | [k] =>
      have hsafe' : s.sub.containsKey (s.reg.resolve k) = false := hsafe
      show (removeCmd s [k]).1.SubOK
      simp only [removeCmd]
      cases hk : s.reg.commands.get (s.reg.resolve k) with
      | none => rw [Reg.remove_none s.reg k hk]; exact hok
      | some ck =>
        rw [Reg.remove_some s.reg k ck hk]
        intro n hn
        have hn' : s.sub.containsKey n = true := hn
        obtain ⟨hal, c, i, hc, hi⟩ := hok n hn'
        have hne : n ≠ s.reg.resolve k := by
          intro e; rw [e, hsafe'] at hn'; cases hn'
        refine ⟨?_, c, i, ?_, hi⟩
        · show (s.reg.removeOk (s.reg.resolve k) ck).aliases.get n = none
          rw [Reg.removeOk_aliases_get]; split
          · rfl
          · exact hal
        · show (s.reg.removeOk (s.reg.resolve k) ck).commands.get n = _
          rw [Reg.removeOk_commands_get, if_neg hne]; exact hc
  | isCommandDefined args =>
    match args with
    | [] => exact hok
    | _ :: _ => exact hok
  | defineFn nm l e =>
    show (fnCmd s nm l e).1.SubOK
    cases hk : s.fns.get nm with
    | some start => rw [fnCmd_known s nm l start e hk]; exact hok
    | none =>
      cases e with
      | false => rw [fnCmd_noEnd s nm l hk]; exact hok
      | true =>
        rw [fnCmd_fresh s nm l hk]
        intro n hn
        have hn' : s.sub.containsKey n = true := hn
        obtain ⟨hal, c, i, hc, hi⟩ := hok n hn'
        rcases Reg.set_cases s.reg (fnSpec nm l) with ⟨_, e⟩ | ⟨⟨hfree, _⟩, e⟩
        · simp only [e]; exact ⟨hal, c, i, hc, hi⟩
        · simp only [e]
          have hne : n ≠ nm := by
            intro e'; subst e'
            have : s.reg.commands.get n = none := hfree
            rw [hc] at this; cases this
          refine ⟨?_, c, i, ?_, hi⟩
          · show (s.reg.setOk (fnSpec nm l)).aliases.get n = none
            simp [Reg.setOk_aliases_get, fnSpec, hne, hal]
          · show (s.reg.setOk (fnSpec nm l)).commands.get n = _
            simp [Reg.setOk_commands_get, fnSpec, hne, hc]

/-- … so along a history all of whose operations are of that kind the records stay exact -/
theorem C15_script_subok_run (s : RState) (ops : List Op) (hok : s.SubOK)
    (hsafe : ∀ pre op post, ops = pre ++ op :: post → op.KeepsSub (run s pre).1) :
    (run s ops).1.SubOK := by
  induction ops generalizing s with
  | nil => exact hok
  | cons op ops ih =>
    have h1 : op.KeepsSub s := hsafe [] op ops rfl
    apply ih (step s op).1 (C15_script_subok_step s op hok h1)
    intro pre op' post e
    have := hsafe (op :: pre) op' post (by rw [e]; rfl)
    exact this

/-! ### (d) `is_command_defined`, (e) `remove_command` -/

/-- `is_command_defined n` answers exactly `Commands::exists n` and changes nothing -/
theorem C15_script_is_command_defined (s : RState) (n : Str) (rest : List Str) :
    step s (.isCommandDefined (n :: rest)) = (s, .value (s.reg.exists n)) := rfl

/-- `remove_command n` is `Commands::remove n` on the registry and answers its result; the
    alias records and the function table are left as they are (a removed alias stays recorded,
    a removed function stays known to `fn`) -/
theorem C15_script_remove_command (s : RState) (n : Str) :
    step s (.removeCommand [n]) =
      ({ s with reg := (s.reg.remove n).1 }, .value (s.reg.remove n).2) := rfl

theorem C15_script_remove_command_arity (s : RState) (args : List Str) (h : args.length ≠ 1) :
    step s (.removeCommand args) = (s, .error) :=
  removeCmd_arity s args h

/-! ### function definitions -/

/-- `fn name` of a name `fn` has not seen: acts as `Commands::set` of an alias-less command
    called `name`; accepted ⇒ the block is skipped, refused ⇒ error with the registry unchanged.
    In both cases the name is now known to `fn` (stored before the registration). -/
theorem C15_script_fn_fresh (s : RState) (name : Str) (line : Nat) (h : s.fns.get name = none) :
    step s (.defineFn name line true) =
      ({ s with reg := (s.reg.set (fnSpec name line)).1, fns := s.fns.put name line },
       if (s.reg.commands.get name).isSome = true then .error else .goto) := by
  show fnCmd s name line true = _
  rw [fnCmd_fresh s name line h, Reg.set_aliasless s.reg (fnSpec name line) rfl]
  show _ = ({ s with reg := _, fns := _ }, if (s.reg.commands.get (fnSpec name line).name).isSome = true then _ else _)
  split <;> simp

/-- an accepted definition makes the function reachable under its name -/
theorem C15_script_fn_accepted (s : RState) (name : Str) (line : Nat)
    (h : s.fns.get name = none) (hfree : s.reg.commands.get name = none) :
    (step s (.defineFn name line true)).2 = .goto ∧
    (step s (.defineFn name line true)).1.reg.get name = some (fnSpec name line) ∧
    (step s (.defineFn name line true)).1.sub = s.sub := by
  rw [C15_script_fn_fresh s name line h]
  have e := Reg.set_aliasless s.reg (fnSpec name line) rfl
  have hn : ¬ (s.reg.commands.get (fnSpec name line).name).isSome = true := by
    show ¬ (s.reg.commands.get name).isSome = true
    simp [hfree]
  rw [if_neg hn] at e
  refine ⟨by simp [hfree], ?_, rfl⟩
  show ((s.reg.set (fnSpec name line)).1).get name = _
  rw [e]
  exact Reg.setOk_aliasless_get_self s.reg (fnSpec name line) rfl

/-- `fn name` of a name `fn` has seen before (accepted OR refused, removed since or not): the
    registry is never touched; the very same line skips its block, any other line is an error -
    also when `name` is not registered at all -/
theorem C15_script_fn_known (s : RState) (name : Str) (line start : Nat) (e : Bool)
    (h : s.fns.get name = some start) :
    step s (.defineFn name line e) = (s, if start = line then .goto else .error) :=
  fnCmd_known s name line start e h

/-- a `fn` that does not answer "skip the block" leaves registry and alias records unchanged -/
theorem C15_script_fn_refused_unchanged (s : RState) (name : Str) (line : Nat) (e : Bool)
    (h : (step s (.defineFn name line e)).2 ≠ .goto) :
    (step s (.defineFn name line e)).1.reg = s.reg ∧
    (step s (.defineFn name line e)).1.sub = s.sub := by
  cases hk : s.fns.get name with
  | some start => rw [C15_script_fn_known s name line start e hk]; exact ⟨rfl, rfl⟩
  | none =>
    cases e with
    | false =>
      show (fnCmd s name line false).1.reg = _ ∧ (fnCmd s name line false).1.sub = _
      rw [fnCmd_noEnd s name line hk]; exact ⟨rfl, rfl⟩
    | true =>
      rw [C15_script_fn_fresh s name line hk] at h ⊢
      by_cases hc : (s.reg.commands.get name).isSome = true
      · refine ⟨?_, rfl⟩
        show (s.reg.set (fnSpec name line)).1 = s.reg
        rw [Reg.set_aliasless s.reg (fnSpec name line) rfl]
        have : (s.reg.commands.get (fnSpec name line).name).isSome = true := hc
        rw [if_pos this]
      · exfalso; apply h; simp [hc]

/-! ### every failed operation leaves registry and records as they were -/

/-- an operation that reports failure (`false`, error, crash, refused registration) has changed
    neither the registry nor the alias records; and not the function table either unless it is a
    refused `fn` -/
theorem C15_script_failed_unchanged (s : RState) (op : Op)
    (h : (step s op).2 = .error ∨ (step s op).2 = .crash ∨ (step s op).2 = .set false ∨
      (step s op).2 = .value false) :
    (step s op).1.reg = s.reg ∧ (step s op).1.sub = s.sub ∧
    ((∀ n l e, op ≠ .defineFn n l e) → (step s op).1.fns = s.fns) := by
  cases op with
  | native nm al t =>
    have hout : (step s (.native nm al t)).2 = .set (s.reg.set (nativeSpec nm al t)).2 := rfl
    have hf : (s.reg.set (nativeSpec nm al t)).2 = false := by
      rw [hout] at h
      rcases h with h | h | h | h
      · cases h
      · cases h
      · cases hb : (s.reg.set (nativeSpec nm al t)).2 with
        | false => rfl
        | true => rw [hb] at h; cases h
      · cases h
    exact ⟨Reg.set_false _ _ hf, rfl, fun _ => rfl⟩
  | alias args id =>
    have hne : (step s (.alias args id)).2 ≠ .value true := by
      intro e; rw [e] at h
      rcases h with h | h | h | h <;> cases h
    have := C15_script_alias_refused_unchanged s args id hne
    rw [this]; exact ⟨rfl, rfl, fun _ => rfl⟩
  | unalias args =>
    match args with
    | [] => exact ⟨rfl, rfl, fun _ => rfl⟩
    | _ :: _ :: _ => exact ⟨rfl, rfl, fun _ => rfl⟩
    | [key] =>
      rw [C15_script_unalias_spec] at h ⊢
      by_cases h1 : s.sub.containsKey key = true
      · rw [if_pos h1] at h ⊢
        by_cases h2 : s.reg.exists key = true
        · rw [if_pos h2] at h
          rcases h with h | h | h | h <;> cases h
        · rw [if_neg h2]; exact ⟨rfl, rfl, fun _ => rfl⟩
      · rw [if_neg h1] at h ⊢
        by_cases h3 : (s.reg.aliases.get key).isSome = true
        · rw [if_pos h3] at h
          rcases h with h | h | h | h <;> cases h
        · rw [if_neg h3]; exact ⟨rfl, rfl, fun _ => rfl⟩
  | removeCommand args =>
    match args with
    | [] => exact ⟨rfl, rfl, fun _ => rfl⟩
    | _ :: _ :: _ => exact ⟨rfl, rfl, fun _ => rfl⟩
    | [n] =>
      rw [C15_script_remove_command] at h ⊢
      have hf : (s.reg.remove n).2 = false := by
        rcases h with h | h | h | h
        · cases h
        · cases h
        · cases h
        · cases hb : (s.reg.remove n).2 with
          | false => rfl
          | true => rw [hb] at h; cases h
      exact ⟨Reg.remove_false _ _ hf, rfl, fun _ => rfl⟩
  | isCommandDefined args =>
    match args with
    | [] => exact ⟨rfl, rfl, fun _ => rfl⟩
    | _ :: _ => exact ⟨rfl, rfl, fun _ => rfl⟩
  | defineFn nm l e =>
    have hne : (step s (.defineFn nm l e)).2 ≠ .goto := by
      intro e'; rw [e'] at h
      rcases h with h | h | h | h <;> cases h
    obtain ⟨h1, h2⟩ := C15_script_fn_refused_unchanged s nm l e hne
    exact ⟨h1, h2, fun hno => absurd rfl (hno nm l e)⟩

/-! ### non-vacuity -/

section Examples

private def foo : Str := "foo".toList
private def tgt : Str := "echo".toList

/-- a refused `alias` of an existing function, then `unalias`: error, then `false`, and the
    function is still there (the history on which a premature record shows) -/
example : (run {} [.defineFn foo 0 true, .alias [foo, tgt] 1, .unalias [foo],
      .isCommandDefined [foo]]).2 = [.goto, .error, .value false, .value true] := by decide
example : (run {} [.defineFn foo 0 true, .alias [foo, tgt] 1, .unalias [foo]]).1.reg.get foo =
    some (fnSpec foo 0) := by decide
example : (run {} [.defineFn foo 0 true, .alias [foo, tgt] 1]).1.sub.containsKey foo = false := by
  decide

/-- accepted alias, unalias, unalias again -/
example : (run {} [.alias [foo, tgt] 0, .isCommandDefined [foo], .unalias [foo], .unalias [foo],
      .isCommandDefined [foo]]).2 =
    [.value true, .value true, .value true, .value false, .value false] := by decide

/-- the stale record: `remove_command` of an alias keeps the record (`SubOK` is lost), a function
    of the same name defined afterwards is removed by `unalias` -/
example : (run {} [.alias [foo, tgt] 0, .removeCommand [foo], .defineFn foo 2 true,
      .isCommandDefined [foo], .unalias [foo], .isCommandDefined [foo]]).2 =
    [.value true, .value true, .goto, .value true, .value true, .value false] := by decide
example : (run {} [.alias [foo, tgt] 0, .removeCommand [foo]]).1.sub.containsKey foo = true := by
  decide
example : ¬ (run {} [.alias [foo, tgt] 0, .removeCommand [foo]]).1.SubOK := by
  intro h
  obtain ⟨_, c, _, hc, _⟩ := h foo (by decide)
  have : (run {} [.alias [foo, tgt] 0, .removeCommand [foo]]).1.reg.commands.get foo = none := by
    decide
  rw [this] at hc; cases hc

/-- the function table outlives the function: re-definition at another line is an error although
    the name is not registered; a refused definition blocks the name as well -/
example : (run {} [.defineFn foo 0 true, .removeCommand [foo], .defineFn foo 3 true,
      .isCommandDefined [foo]]).2 = [.goto, .value true, .error, .value false] := by decide
example : (run {} [.alias [foo, tgt] 0, .defineFn foo 1 true, .unalias [foo], .defineFn foo 4 true,
      .isCommandDefined [foo]]).2 =
    [.value true, .error, .value true, .error, .value false] := by decide

/-- `alias` over a native alias is accepted and shadows it; `unalias` of a native alias drops
    just the alias-table entry -/
example : (run {} [.native "std::B".toList ["b".toList] 7, .alias ["b".toList, tgt] 1,
      .unalias ["b".toList], .isCommandDefined ["b".toList],
      .isCommandDefined ["std::B".toList]]).2 =
    [.set true, .value true, .value true, .value false, .value true] := by decide
example : (run {} [.native "std::B".toList ["b".toList] 7, .unalias ["b".toList],
      .isCommandDefined ["b".toList], .isCommandDefined ["std::B".toList]]).2 =
    [.set true, .value true, .value false, .value true] := by decide

/-- `SubOK` is satisfiable by a state with a record -/
example : (run {} [.alias [foo, tgt] 0]).1.SubOK :=
  C15_script_subok_step {} (.alias [foo, tgt] 0) (by intro n h; cases h) trivial

end Examples

end Duck
