/-
  C08 — parsing is total, one instruction per line, malformed lines rejected in place.
  ONLY property theorems and their non-vacuity examples live here.
  (Totality / absence of panics: `parseText` is a total Lean function whose only outcomes
  are `.ok` and `.error`; that the real index arithmetic never unwinds is covered by the
  correspondence check, which runs every case under `catch_unwind`.)
-/
import DuckModel.Parser
import DuckModel.Spec.Render
import DuckModel.Lemmas.ParserLemmas

namespace Duck
open Duck.Spec

/-- a line that parses and is not an include directive nor an unknown directive -/
def LineOK (l : Str) : Prop :=
  ∃ ty, parseLine l = .ok ty ∧ ∀ c a, ty = .preProcess c a → c = some printName

/-- Without include directives (and with every directive known) the parse of a list of lines
    yields exactly one instruction per line, in order, numbered consecutively. -/
theorem C08_one_per_line (inc : Str → Except ParseFail (List Instruction)) (fs : Fs)
    (src : Option Str) (n : Nat) (ls : List Str) (is : List Instruction)
    (hp : parseLinesWith inc fs src n ls = .ok is)
    (hno : ∀ l ∈ ls, ∀ a, parseLine l ≠ .ok (.preProcess (some includeName) a)) :
    is.length = ls.length ∧
      ∀ k (hk : k < is.length), (is[k]).mi = { line := some (n + k), source := src } :=
  one_per_line inc fs src ls n is hp hno

/-- the same for a whole text: instruction count = line count, k-th instruction has line k+1 -/
theorem C08_text_one_per_line (text : Str) (is : List Instruction)
    (hp : parseText text = .ok is)
    (hno : ∀ l ∈ lines text, ∀ a, parseLine l ≠ .ok (.preProcess (some includeName) a)) :
    is.length = (lines text).length ∧
      ∀ k (hk : k < is.length), (is[k]).mi.line = some (k + 1) := by
  unfold parseText parseTextFs at hp
  obtain ⟨h1, h2⟩ := one_per_line _ _ none (lines text) 1 is hp hno
  refine ⟨h1, fun k hk => ?_⟩
  rw [h2 k hk, Nat.add_comm]

/-- blank lines and `#` comment lines become empty instructions -/
theorem C08_blank_or_comment_is_empty (l : Str)
    (h : trim l = [] ∨ (trim l).head? = some '#') : parseLine l = .ok .empty := by
  rcases h with h | h
  · exact parseLine_of_trim_nil l h
  · cases ht : trim l with
    | nil => exact parseLine_of_trim_nil l ht
    | cons c r =>
      rw [ht] at h
      simp only [List.head?_cons, Option.some.injEq] at h
      subst h
      exact parseLine_of_trim_hash l r ht

/-- the first malformed line fails the whole parse with its kind and its own line number,
    wherever it stands among well-formed lines -/
theorem C08_error_in_place (inc : Str → Except ParseFail (List Instruction)) (fs : Fs)
    (src : Option Str) (n : Nat) (pre : List Str) (bad : Str) (post : List Str) (k : PErr)
    (hpre : ∀ l ∈ pre, LineOK l) (hbad : parseLine bad = .error k) :
    parseLinesWith inc fs src n (pre ++ bad :: post) =
      .error ⟨k, { line := some (n + pre.length), source := src }⟩ :=
  parseLinesWith_error_after_good inc fs src pre (bad :: post) _ (n + pre.length) n
    (fun l hl => hpre l hl) rfl (parseLinesWith_cons_error inc fs src _ bad post k hbad)

/-- a directive that is neither `print` nor `include_files` is rejected in place -/
theorem C08_unknown_directive_in_place (inc : Str → Except ParseFail (List Instruction)) (fs : Fs)
    (src : Option Str) (n : Nat) (pre : List Str) (bad : Str) (post : List Str)
    (c : Str) (a : Option (List Str))
    (hpre : ∀ l ∈ pre, LineOK l) (hbad : parseLine bad = .ok (.preProcess (some c) a))
    (hc : c ≠ printName ∧ c ≠ includeName) :
    parseLinesWith inc fs src n (pre ++ bad :: post) =
      .error ⟨.unknownPreProcessorCommand, { line := some (n + pre.length), source := src }⟩ :=
  parseLinesWith_error_after_good inc fs src pre (bad :: post) _ (n + pre.length) n
    (fun l hl => hpre l hl) rfl (parseLinesWith_cons_unknown inc fs src _ bad post c a hbad hc.1 hc.2)

/-! ### the malformed-line classes named by the property -/

/-- an unterminated quoted argument (any content, any well-formed line before it) -/
theorem C08_unterminated_quote (ch : Choices) (i : ScriptInstr) (hi : InstrOK i) (hc : ChoicesOK ch)
    (hcmd : i.command ≠ none) (hnc : ch.comment = none) (k : Nat) (s : Str) :
    parseLine (ch.lead ++ renderBody ch i ++ spaces (k + 1) ++ '"' :: escape s ++ ch.trail) =
      .error .missingEndQuotes :=
  unterminated_quote ch i hi hc hcmd hnc k s

/-- an escape that is not one of the documented ones, inside a quoted argument -/
theorem C08_bad_escape (ch : Choices) (i : ScriptInstr) (hi : InstrOK i) (hc : ChoicesOK ch)
    (hcmd : i.command ≠ none) (hnc : ch.comment = none) (k : Nat) (s : Str) (c : Char) (rest : Str)
    (hbad : c ≠ '\\' ∧ c ≠ '"' ∧ c ≠ 'n' ∧ c ≠ 'r' ∧ c ≠ 't' ∧ c ≠ '$') (hws : isWs c = false) :
    parseLine (ch.lead ++ renderBody ch i ++ spaces (k + 1) ++ '"' :: escape s ++ '\\' :: c :: rest) =
      .error .controlWithoutValidValue :=
  bad_escape ch i hi hc hcmd hnc k s c rest hbad hws

/-- a line whose first token begins with a double quote -/
theorem C08_quote_starts_name (lead rest : Str) (hl : ∀ c ∈ lead, isWs c = true) :
    parseLine (lead ++ '"' :: rest) = .error .invalidQuotesLocation :=
  quote_starts_name lead rest hl

/-- a command written after `out =` that begins with a double quote -/
theorem C08_quote_starts_command (o : Str) (ho : NameOK o ∧ NoEq o ∧ FirstOK o) (a b : Nat) (rest : Str) :
    parseLine (o ++ spaces a ++ '=' :: spaces b ++ '"' :: rest) = .error .invalidQuotesLocation :=
  quote_starts_command o ho a b rest

/-- a label that begins with a double quote -/
theorem C08_quote_starts_label (rest : Str) :
    parseLine (':' :: '"' :: rest) = .error .invalidQuotesLocation :=
  quote_starts_label rest

/-- a backslash inside the first token (label, output variable or command); a label whose
    name starts with a double quote is the class of `C08_quote_starts_label` instead -/
theorem C08_backslash_in_name (lead p rest : Str) (hl : ∀ c ∈ lead, isWs c = true)
    (hp : p ≠ [] ∧ (∀ c ∈ p, isWs c = false ∧ c ≠ '#' ∧ c ≠ '\\' ∧ c ≠ '=') ∧ p.head? ≠ some '"' ∧
      p.head? ≠ some '!')
    (hlabel : ∀ q, p ≠ ':' :: '"' :: q) :
    parseLine (lead ++ p ++ '\\' :: rest) = .error .invalidControlLocation :=
  backslash_in_name_fixed lead p rest hl hp hlabel

/-- `!` with no command -/
theorem C08_directive_without_command (lead : Str) (k : Nat) (trail : Str)
    (hl : ∀ c ∈ lead, isWs c = true) (ht : ∀ c ∈ trail, isWs c = true) :
    parseLine (lead ++ '!' :: spaces k ++ trail) = .error .preProcessNoCommandFound :=
  directive_without_command lead k trail hl ht

/-! ### the hypotheses are satisfiable (non-vacuity) -/

def C08_sampleInstr : ScriptInstr :=
  { label := some ":l".toList, output := some "x".toList, command := some "cmd".toList,
    args := some ["".toList, "a b".toList, "x\"y\\".toList, "#".toList, "=".toList,
      "${v}".toList, "\n".toList] }

def C08_sampleChoices : Choices :=
  { lead := " \t".toList, trail := "\r".toList, afterLabel := 2, eqBefore := 1, eqAfter := 3,
    args := [(0, true), (2, false)] }

/-- blank lines, comment lines and rendered lines are `LineOK` -/
example : LineOK [] :=
  ⟨.empty, C08_blank_or_comment_is_empty [] (Or.inl rfl), by intro c a h; cases h⟩

example : LineOK "  # note ".toList :=
  ⟨.empty, C08_blank_or_comment_is_empty _ (Or.inr (by decide)), by intro c a h; cases h⟩

example : LineOK (renderLine C08_sampleChoices C08_sampleInstr) :=
  ⟨_, line_roundtrip _ _ (instrOK_of_b _ (by decide)) (choicesOK_of_b _ (by decide)),
    expected_not_pre _⟩

/-- a malformed line for `C08_error_in_place` -/
example : parseLine ":\"".toList = .error .invalidQuotesLocation := C08_quote_starts_label []

/-- an unknown directive for `C08_unknown_directive_in_place` -/
example : parseLine "!foo".toList = .ok (.preProcess (some "foo".toList) none) ∧
    "foo".toList ≠ printName ∧ "foo".toList ≠ includeName := by
  refine ⟨?_, by decide, by decide⟩
  rw [parseLine_of_trim_bang _ "foo".toList (by decide)]
  simp [parsePreProcessLine, ppCommand, parseArguments_eol EolTail.nil]

/-- the hypotheses of `C08_unterminated_quote` / `C08_bad_escape` -/
example : InstrOK C08_sampleInstr ∧ ChoicesOK C08_sampleChoices ∧ C08_sampleInstr.command ≠ none ∧
    C08_sampleChoices.comment = none :=
  ⟨instrOK_of_b _ (by decide), choicesOK_of_b _ (by decide), by decide, rfl⟩

example : ('x' ≠ '\\' ∧ 'x' ≠ '"' ∧ 'x' ≠ 'n' ∧ 'x' ≠ 'r' ∧ 'x' ≠ 't' ∧ 'x' ≠ '$') ∧ isWs 'x' = false := by
  decide

/-- the hypotheses of `C08_quote_starts_command` -/
example : NameOK "out".toList ∧ NoEq "out".toList ∧ FirstOK "out".toList :=
  ⟨nameOK_of_b _ (by decide), noEq_of_b _ (by decide), firstOK_of_b _ (by decide)⟩

end Duck
