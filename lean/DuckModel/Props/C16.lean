/-
  C16 — text, comparison and range commands compute the documented function.
  One unit everywhere: BYTES of the UTF-8 encoding (`enc s = utf8Encode s`).
  The reference operations are Lean core `List` notions: `<+:` (prefix), `<:+` (suffix),
  `<:+:` (infix), `List.intercalate`, `take`/`drop`.

  `less_than`/`greater_than` on an exact model of `str::parse::<f64>` (correctly rounded IEEE-754
  binary64) and of the IEEE comparison: Props/C16F64.lean (`C16_f64_…`).
  `uppercase`/`lowercase` over all of Unicode: Props/C16Case.lean (`C16_case_…`);
  `calc` against ordinary arithmetic in ℚ: Props/C16Calc.lean (`C16_calc_…`).
-/
import DuckModel.Sdk.Strings
import DuckModel.Props.C16Case
import DuckModel.Props.C16Calc
import DuckModel.Props.C16F64
import DuckModel.Lemmas.StringsLemmas
import DuckModel.Lemmas.CharsLemmas

namespace Duck
open Duck.Strings

/-! ### length / indexof / last_indexof -/

theorem C16_length (s : Str) (rest : List Str) :
    length (s :: rest) = .nat (utf8Encode s).length ∧ length [] = .err := ⟨rfl, rfl⟩

/-- `indexof` answers the FIRST byte offset at which the needle occurs -/
theorem C16_indexof_first (s t : Str) (rest : List Str) (k : Nat)
    (h : indexof (s :: t :: rest) = .nat k) :
    enc t <+: (enc s).drop k ∧ k ≤ (enc s).length ∧ ∀ j, j < k → ¬ enc t <+: (enc s).drop j := by
  simp only [indexof] at h
  cases hf : find (enc t) (enc s) with
  | none => simp [hf, optNat] at h
  | some k' =>
    simp only [hf, optNat, Out.nat.injEq] at h
    subst h
    exact find_some hf

/-- no result exactly when the needle does not occur -/
theorem C16_indexof_none (s t : Str) (rest : List Str) :
    indexof (s :: t :: rest) = .none ↔ ¬ enc t <:+: enc s := by
  rw [← find_isSome_iff_infix]
  simp only [indexof]
  cases hf : find (enc t) (enc s) <;> simp [optNat]

/-- `last_indexof` answers the LAST byte offset at which the needle occurs -/
theorem C16_last_indexof_last (s t : Str) (rest : List Str) (k : Nat)
    (h : lastIndexof (s :: t :: rest) = .nat k) :
    enc t <+: (enc s).drop k ∧ k ≤ (enc s).length ∧
      ∀ j, k < j → j ≤ (enc s).length → ¬ enc t <+: (enc s).drop j := by
  simp only [lastIndexof] at h
  cases hf : rfind (enc t) (enc s) with
  | none => simp [hf, optNat] at h
  | some k' =>
    simp only [hf, optNat, Out.nat.injEq] at h
    subst h
    exact rfind_some hf

theorem C16_last_indexof_none (s t : Str) (rest : List Str)
    (h : lastIndexof (s :: t :: rest) = .none) : ∀ j, ¬ enc t <+: (enc s).drop j := by
  simp only [lastIndexof] at h
  cases hf : rfind (enc t) (enc s) with
  | none => exact rfind_none hf
  | some k' => simp [hf, optNat] at h

/-! ### substring -/

/-- the three-argument form, completely: inside the domain (0 ≤ start ≤ end < len, both on
    character boundaries) the byte slice; everywhere else the error result.
    (The model answers `err` for `end = len` as the code does; the property leaves that case
    open and the harness does not constrain it.) -/
theorem C16_substring_spec (b : Bytes) (st en : Int) :
    substr3 b st en =
      if 0 ≤ st ∧ st ≤ en ∧ en < b.length ∧ isBoundary b st.toNat = true ∧
          isBoundary b en.toNat = true
      then .str ((b.drop st.toNat).take (en.toNat - st.toNat)) else .err := by
  unfold substr3
  simp only
  by_cases h1 : st > (b.length : Int) - 1
  · rw [if_pos h1, if_neg (by omega)]
  · rw [if_neg h1]
    by_cases h2 : en ≥ st
    · rw [if_pos h2]
      by_cases h3 : en > (b.length : Int) - 1
      · rw [if_pos h3, if_neg (by omega)]
      · rw [if_neg h3]
        by_cases h0 : 0 ≤ st
        · rw [finish_nonneg b h0 (by omega), slice_eq]
          have hle : st.toNat ≤ en.toNat := by omega
          by_cases hb : isBoundary b st.toNat = true ∧ isBoundary b en.toNat = true
          · rw [if_pos ⟨hle, hb⟩, if_pos ⟨h0, by omega, by omega, hb⟩]
          · rw [if_neg (fun h => hb h.2), if_neg (fun h => hb h.2.2.2)]
        · rw [if_neg (fun h => h0 h.1)]
          simp [finish, toUsize, h0]
    · rw [if_neg h2, if_neg (by omega)]

/-- how the written arguments reach `substr3`: both must be `i64` literals -/
theorem C16_substring_args (s a b : Str) (rest : List Str) :
    substring (s :: a :: b :: rest) =
      match parseI64 a, parseI64 b with
      | some st, some en => substr3 (enc s) st en
      | _, _ => .err := by
  simp only [substring]
  cases ha : parseI64 a with
  | none => rfl
  | some st =>
    simp only
    by_cases h1 : st > ((enc s).length : Int) - 1
    · rw [if_pos h1]
      cases hb : parseI64 b with
      | none => rfl
      | some en => simp [substr3, h1]
    · rw [if_neg h1]
      cases hb : parseI64 b <;> rfl

/-- non-numeric indexes give the error result -/
theorem C16_substring_non_numeric (s a : Str) (rest : List Str) (h : parseI64 a = none) :
    substring (s :: a :: rest) = .err := by
  cases rest with
  | nil => simp [substring, h]
  | cons b r => simp [substring, h]

theorem C16_substring_never_panics (args : List Str) : substring args ≠ .panic := by
  have h2 : ∀ b v, substr2 b v ≠ .panic := by
    intro b v
    unfold substr2
    simp only
    repeat' split
    all_goals first | exact finish_ne_panic _ _ _ | simp
  have h3 : ∀ b x y, substr3 b x y ≠ .panic := by
    intro b x y
    unfold substr3
    simp only
    repeat' split
    all_goals first | exact finish_ne_panic _ _ _ | simp
  unfold substring
  repeat' split
  all_goals first | exact finish_ne_panic _ _ _ | exact h2 _ _ | exact h3 _ _ _ | simp

/-- whatever arity and sign form: a returned text is the encoding of a run of scalars of the
    input (never a slice through a multi-byte character) -/
theorem C16_substring_valid_utf8 (s : Str) (rest : List Str) (r : Bytes)
    (h : substring (s :: rest) = .str r) : ∃ p m q, s = p ++ m ++ q ∧ r = enc m := by
  have key : ∀ x y, finish (enc s) x y = .str r → ∃ p m q, s = p ++ m ++ q ∧ r = enc m := by
    intro x y hf
    obtain ⟨a, e, hs⟩ := finish_str hf
    obtain ⟨p, m, q, h1, h2, _, _⟩ := slice_valid hs
    exact ⟨p, m, q, h1, h2⟩
  have h2 : ∀ v, substr2 (enc s) v = .str r → ∃ p m q, s = p ++ m ++ q ∧ r = enc m := by
    intro v hv
    unfold substr2 at hv
    simp only at hv
    repeat' split at hv
    all_goals first | exact key _ _ hv | cases hv
  have h3 : ∀ x y, substr3 (enc s) x y = .str r → ∃ p m q, s = p ++ m ++ q ∧ r = enc m := by
    intro x y hv
    unfold substr3 at hv
    simp only at hv
    repeat' split at hv
    all_goals first | exact key _ _ hv | cases hv
  cases rest with
  | nil =>
    have e : substring [s] = finish (enc s) 0 (enc s).length := rfl
    rw [e] at h
    exact key _ _ h
  | cons a rest =>
    cases rest with
    | nil =>
      simp only [substring] at h
      cases hp : parseI64 a with
      | none => simp [hp] at h
      | some v => rw [hp] at h; exact h2 _ h
    | cons b rest =>
      rw [C16_substring_args] at h
      cases hp : parseI64 a with
      | none => simp [hp] at h
      | some x =>
        cases hq : parseI64 b with
        | none => simp [hp, hq] at h
        | some y => rw [hp, hq] at h; exact h3 _ _ h

/-! ### one unit for length, indexof and substring -/

/-- `substring(s, 0, indexof(s, t))` followed by `t` is a prefix of `s`; the index is at most
    the length; and the index is always accepted by `substring` (it lies on a character
    boundary) as long as it is smaller than the length -/
theorem C16_units_consistent (s t : Str) (rest : List Str) (k : Nat)
    (h : indexof (s :: t :: rest) = .nat k) :
    (enc s).take k ++ enc t <+: enc s ∧
    length [s] = .nat (enc s).length ∧ k ≤ (enc s).length ∧
    (k < (enc s).length → substr3 (enc s) 0 k = .str ((enc s).take k)) := by
  simp only [indexof] at h
  cases hf : find (enc t) (enc s) with
  | none => simp [hf, optNat] at h
  | some k' =>
    simp only [hf, optNat, Out.nat.injEq] at h
    subst h
    obtain ⟨hpre, hle, _⟩ := find_some hf
    refine ⟨?_, rfl, hle, ?_⟩
    · refine ⟨(enc s).drop (k' + (enc t).length), ?_⟩
      have := find_some_split hf
      rw [List.append_assoc]
      exact this.symm
    · intro hlt
      have hb : isBoundary (enc s) k' = true := by
        by_cases ht : t = []
        · subst ht
          have : k' = 0 := by
            have h0 : find (enc []) (enc s) = some 0 := by
              show find [] (enc s) = some 0
              cases enc s <;> simp [find]
            rw [h0] at hf
            cases hf; rfl
          subst this
          exact isBoundary_zero _
        · exact match_boundary ht hpre
      rw [C16_substring_spec]
      have h0 : isBoundary (enc s) (0 : Int).toNat = true := isBoundary_zero _
      rw [if_pos ⟨by omega, by omega, by omega, h0, by simpa using hb⟩]
      simp

/-! ### split / replace -/

/-- the pieces joined by the separator give back the text (for EVERY separator, the empty
    one included) -/
theorem C16_split_join (s t : Str) : (enc t).intercalate (split s t) = enc s := by
  unfold split
  split
  · rename_i ht
    subst ht
    show ([] : Bytes).intercalate _ = utf8Encode s
    rw [intercalate_nil_sep]
    simp [utf8Encode, List.flatMap]
  · exact splitF_join _ _ _

/-- how the pieces are cut (non-empty separator): up to the FIRST occurrence of the separator,
    then the same again after it; no occurrence: the text itself -/
theorem C16_split_first_match (s t : Str) (ht : t ≠ []) :
    split s t =
      match find (enc t) (enc s) with
      | none => [enc s]
      | some k => (enc s).take k ::
          splitF (enc t) (((enc s).drop (k + (enc t).length)).length + 1)
            ((enc s).drop (k + (enc t).length)) := by
  have hne : enc t ≠ [] := fun h => ht (utf8Encode_eq_nil h)
  unfold split
  rw [if_neg ht, splitF_succ]
  cases hf : find (enc t) (enc s) with
  | none => rfl
  | some k =>
    simp only
    congr 1
    have hpl : 0 < (enc t).length := List.length_pos_iff.mpr hne
    have hz : (enc s).length ≠ 0 := by
      intro hz
      have hl : enc s = [] := List.length_eq_zero_iff.mp hz
      obtain ⟨h1, _, _⟩ := find_some hf
      rw [hl] at h1
      simp at h1
      exact hne h1
    apply splitF_fuel _ hne <;> simp only [List.length_drop] <;> omega

/-- `replace` is: split at the pattern, join with the replacement (every pattern, the empty
    one included) -/
theorem C16_replace_spec (s p rep : Str) :
    replace s p rep = (enc rep).intercalate (split s p) := by
  unfold replace split
  split
  · have hne : s.map utf8EncodeChar ++ [[]] ≠ [] := by simp
    rw [intercalate_cons_of_ne_nil _ _ hne, intercalate_map_trailing]
    simp
  · exact replaceF_eq _ _ _ _

/-! ### predicates -/

theorem C16_contains (s t : Str) (rest : List Str) (b : Bool)
    (h : contains (s :: t :: rest) = .bool b) : b = true ↔ enc t <:+: enc s := by
  simp only [contains, Out.bool.injEq] at h
  rw [← h]
  exact find_isSome_iff_infix _ _

theorem C16_starts_with (s t : Str) (rest : List Str) (b : Bool)
    (h : startsWith (s :: t :: rest) = .bool b) : b = true ↔ enc t <+: enc s := by
  simp only [startsWith, Out.bool.injEq] at h
  rw [← h]
  exact List.isPrefixOf_iff_prefix

theorem C16_ends_with (s t : Str) (rest : List Str) (b : Bool)
    (h : endsWith (s :: t :: rest) = .bool b) : b = true ↔ enc t <:+ enc s := by
  simp only [endsWith, Out.bool.injEq] at h
  rw [← h]
  exact List.isSuffixOf_iff_suffix

theorem C16_equals (s t : Str) (rest : List Str) (b : Bool)
    (h : equals (s :: t :: rest) = .bool b) : b = true ↔ s = t := by
  simp only [equals, Out.bool.injEq] at h
  rw [← h]
  constructor
  · intro he
    exact utf8Encode_injective (by simpa using he)
  · intro he
    subst he
    simp

theorem C16_is_empty (s : Str) (rest : List Str) :
    isEmpty (s :: rest) = .bool (decide (s = [])) ∧ isEmpty [] = .bool true := by
  refine ⟨?_, rfl⟩
  simp only [isEmpty]
  congr 1
  cases s with
  | nil => rfl
  | cons c r =>
    obtain ⟨l, r', hc, _, _⟩ := utf8EncodeChar_shape c
    simp [enc, utf8Encode_cons, hc]

theorem C16_concat (args : List Str) :
    concat args = .str ((args.map enc).flatten) := by
  simp only [concat, enc]
  congr 1
  induction args with
  | nil => rfl
  | cons a r ih => simp [utf8Encode_append, ih]

/-! ### trim -/

/-- `trim_start` removes exactly the leading run of white space; `trim_end` the trailing one;
    `trim` both -/
theorem C16_trim_spec (s : Str) :
    (∃ lead, s = lead ++ trimStart s ∧ (∀ c ∈ lead, isWs c = true) ∧
        ∀ c r, trimStart s = c :: r → isWs c = false) ∧
    (∃ tail, s = trimEnd s ++ tail ∧ (∀ c ∈ tail, isWs c = true) ∧
        ∀ c r, (trimEnd s).reverse = c :: r → isWs c = false) ∧
    (∃ lead tail, s = lead ++ trim s ++ tail ∧ (∀ c ∈ lead, isWs c = true) ∧
        (∀ c ∈ tail, isWs c = true) ∧ (∀ c r, trim s = c :: r → isWs c = false) ∧
        ∀ c r, (trim s).reverse = c :: r → isWs c = false) := by
  have hstart : ∀ l : Str, ∃ lead, l = lead ++ trimStart l ∧ (∀ c ∈ lead, isWs c = true) ∧
      ∀ c r, trimStart l = c :: r → isWs c = false := by
    intro l
    exact ⟨l.takeWhile isWs, by simp [trimStart], takeWhile_all_ws _ _,
      fun c r h => dropWhile_head_not _ _ c r h⟩
  have hend : ∀ l : Str, ∃ tail, l = trimEnd l ++ tail ∧ (∀ c ∈ tail, isWs c = true) ∧
      ∀ c r, (trimEnd l).reverse = c :: r → isWs c = false := by
    intro l
    refine ⟨(l.reverse.takeWhile isWs).reverse, ?_, ?_, ?_⟩
    · have := congrArg List.reverse (List.takeWhile_append_dropWhile (p := isWs) (l := l.reverse))
      simp only [List.reverse_append, List.reverse_reverse] at this
      simpa [trimEnd] using this.symm
    · intro c hc
      exact takeWhile_all_ws _ _ c (by simpa using hc)
    · intro c r h
      simp only [trimEnd, List.reverse_reverse] at h
      exact dropWhile_head_not _ _ c r h
  refine ⟨hstart s, hend s, ?_⟩
  obtain ⟨lead, h1, h2, h3⟩ := hstart s
  obtain ⟨tail, h4, h5, h6⟩ := hend (trimStart s)
  refine ⟨lead, tail, ?_, h2, h5, ?_, h6⟩
  · show s = lead ++ trimEnd (trimStart s) ++ tail
    rw [List.append_assoc, ← h4]
    exact h1
  · -- the first scalar of the result is the first scalar after the leading white space
    intro c r h
    have h' : trimEnd (trimStart s) = c :: r := h
    rw [h'] at h4
    exact h3 c (r ++ tail) (by rw [h4]; rfl)

/-! ### range -/

theorem C16_range_half_open (a b : Int) :
    (rangeList a b).length = (b - a).toNat ∧
    (∀ i : Nat, i < (b - a).toNat → (rangeList a b)[i]? = some (a + i)) ∧
    (∀ v, v ∈ rangeList a b ↔ a ≤ v ∧ v < b) := by
  refine ⟨by simp [rangeList], ?_, ?_⟩
  · intro i hi
    simp [rangeList, hi]
  · intro v
    simp only [rangeList, List.mem_map, List.mem_range]
    constructor
    · rintro ⟨i, hi, rfl⟩
      constructor <;> omega
    · rintro ⟨h1, h2⟩
      exact ⟨(v - a).toNat, by omega, by simp; omega⟩

/-- the command: both bounds must be `i64` literals, start ≤ end, else the error result -/
theorem C16_range_cmd (a b : Str) (rest : List Str) :
    range (a :: b :: rest) =
      match parseI64 a, parseI64 b with
      | some x, some y => if x > y then .err else .ints (rangeList x y)
      | _, _ => .err := rfl

/-! ### less_than / greater_than: Props/C16F64.lean (`C16_f64_…`), on the exact binary64 model -/

/-! ### non-vacuity: ASCII, multi-byte ("aé漢" = 61 c3a9 e6bca2), empty, error branches -/

example : enc "aé漢".toList = [0x61, 0xC3, 0xA9, 0xE6, 0xBC, 0xA2] := by decide
example : length ["aé漢".toList] = .nat 6 := by decide
example : indexof ["aé漢".toList, "漢".toList] = .nat 3 := by decide
example : indexof ["abc".toList, "abcd".toList] = .none := by decide
example : lastIndexof ["abab".toList, "ab".toList] = .nat 2 := by decide
example : lastIndexof ["ab".toList, []] = .nat 2 := by decide
example : substring ["aé漢".toList, "1".toList, "3".toList] = .str (enc "é".toList) := by decide
example : substring ["aé漢".toList, "0".toList, "2".toList] = .err := by decide   -- inside é
example : substring ["abc".toList, "-1".toList, "2".toList] = .err := by decide   -- negative start
example : substring ["abc".toList, "-1".toList] = .str (enc "ab".toList) := by decide
example : substring ["abc".toList, "x".toList] = .err := by decide
example : substring ["abc".toList, "1".toList, "3".toList] = .err := by decide    -- end = len
example : split "a,b,,c".toList ",".toList = [[0x61], [0x62], [], [0x63]] := by decide
example : split "aé".toList [] = [[], [0x61], [0xC3, 0xA9], []] := by decide
example : split [] ",".toList = [[]] := by decide
example : replace "aXbX".toList "X".toList "é".toList = enc "aébé".toList := by decide
example : replace "ab".toList [] "-".toList = enc "-a-b-".toList := by decide
example : contains ["aé漢".toList, "é漢".toList] = .bool true := by decide
example : startsWith ["a".toList, "ab".toList] = .bool false := by decide
example : endsWith ["aé".toList, "é".toList] = .bool true := by decide
example : range ["-2".toList, "3".toList] = .ints [-2, -1, 0, 1, 2] := by decide
example : range ["3".toList, "3".toList] = .ints [] := by decide
example : range ["4".toList, "3".toList] = .err := by decide
example : range ["1".toList, " 3".toList] = .err := by decide
example : parseInt "+5".toList = some 5 ∧ parseInt "+".toList = none ∧ parseInt [] = none ∧
    parseInt " 1".toList = none ∧ parseInt "-0".toList = some 0 ∧
    parseI64 "9223372036854775808".toList = none ∧
    parseI64 "-9223372036854775808".toList = some (-9223372036854775808) := by decide
example : lessThan ["-2".toList, "1.5".toList] = .bool true := by decide +kernel
example : greaterThan ["0.10".toList, "0.1".toList] = .bool false := by decide +kernel
example : lessThan ["1e5".toList, "2".toList] = .bool false := by decide +kernel
example : lessThan ["abc".toList, "2".toList] = .err := by decide
example : trimWith trim [" a b ".toList] = .str (enc "a b".toList) := by decide

end Duck
