/-
  C14 with the SDK's own `goto` / `exit`: the theorems of Props/C14Run.lean ("running the file =
  running the pasted text") hold for every command semantics that does not look at the line index
  and never asks for a jump to an absolute line.  Adding the real `exit` and `goto`
  (Sdk/ProcessCmd.lean) to such a semantics keeps both: `goto` jumps by LABEL only — labels belong to
  the whole script, wherever the line that carries them was included from — and neither command
  reads the line it stands on.  So "include = paste" covers scripts that jump with `goto :label`
  across file boundaries (the include runs of the correspondence check use exactly `scriptedSemX`).
-/
import DuckModel.Sdk.ProcessCmd
import DuckModel.Lemmas.DirectiveLemmas
import DuckModel.Props.C03Sdk
import DuckModel.Props.C14Run

namespace Duck

/-- a command semantics extended with the SDK's `exit` and `goto` under all their spellings -/
def withExitGoto {σ : Type} (sem : CmdSem σ) : CmdSem σ :=
  fun name args out line vars s =>
    if Generated.cmdNamesExit.contains name then some (exitCmd args, vars, s)
    else if Generated.cmdNamesGoTo.contains name then some (gotoCmd args, vars, s)
    else sem name args out line vars s

/-- the semantics of the `runx` / include-run streams is this extension of the scripted commands -/
theorem C14_scriptedSemX_eq (names : List Str) : scriptedSemX names = withExitGoto (scriptedSem names) := rfl

theorem C14_exit_goto_line_insensitive {σ : Type} (sem : CmdSem σ) (h : LineInsensitive sem) :
    LineInsensitive (withExitGoto sem) := by
  intro name args out l l' vars s
  unfold withExitGoto
  by_cases h1 : Generated.cmdNamesExit.contains name = true
  · simp only [h1, if_true]
  · by_cases h2 : Generated.cmdNamesGoTo.contains name = true
    · simp only [h1, h2, if_true, Bool.false_eq_true, if_false]
    · simp only [h1, h2, Bool.false_eq_true, if_false]
      exact h name args out l l' vars s

/-- `exit` never jumps; `goto` jumps to a label, never to an absolute line -/
theorem C14_exit_goto_no_absolute_jumps {σ : Type} (sem : CmdSem σ) (h : NoAbsoluteJumps sem) :
    NoAbsoluteJumps (withExitGoto sem) := by
  intro name args out l vars s v n vars' s'
  unfold withExitGoto
  by_cases h1 : Generated.cmdNamesExit.contains name = true
  · simp only [h1, if_true]
    intro hc
    have hc' : exitCmd args = .goTo v (.line n) := by injection hc with hc; exact (Prod.mk.inj hc).1
    rcases C03_exit_cmd_result_kinds args with ⟨w, hw⟩ | ⟨m, hm⟩
    · rw [hw] at hc'; cases hc'
    · rw [hm] at hc'; cases hc'
  · by_cases h2 : Generated.cmdNamesGoTo.contains name = true
    · simp only [h1, h2, if_true, Bool.false_eq_true, if_false]
      intro hc
      have hc' : gotoCmd args = .goTo v (.line n) := by injection hc with hc; exact (Prod.mk.inj hc).1
      unfold gotoCmd at hc'
      match args, hc' with
      | [], hc' => cases hc'
      | [lb], hc' =>
        simp only at hc'
        by_cases hl : lb.head? = some ':'
        · rw [if_pos hl] at hc'; injection hc' with _ hg; cases hg
        · rw [if_neg hl] at hc'; cases hc'
      | _ :: _ :: _, hc' => cases hc'
    · simp only [h1, h2, Bool.false_eq_true, if_false]
      exact h name args out l vars s v n vars' s'

/-- "include = paste" for scripts that use the SDK's `goto` / `exit` next to ANY line-insensitive
    commands without absolute jumps: `C14_behaves_like_inlined` instantiated -/
theorem C14_behaves_like_inlined_with_goto {σ : Type} (fs : Fs) (fuel : Nat) (root : Str)
    (ls : List (Meta × Str))
    (hin : Spec.inline (worldOf fs) fuel root = (ls, none))
    (hok : ∀ p ∈ ls, ∃ ty, lineOutcome p.2 = .ok ty)
    (sem : CmdSem σ) (hL : LineInsensitive sem) (hN : NoAbsoluteJumps sem)
    (halt : Nat → σ → Bool) (hH : StateOnlyHalt halt) (vars : Vars) (s : σ) :
    ∃ is, parseFileF fs fuel root = .ok is ∧
    (∀ f f', Finished (run (withExitGoto sem) halt f is vars s) →
      Finished (run (withExitGoto sem) halt f' (ls.map instrOf) vars s) →
      SameOutcome (run (withExitGoto sem) halt f is vars s) (run (withExitGoto sem) halt f' (ls.map instrOf) vars s)) := by
  obtain ⟨is, hp, _, _, h3⟩ := C14_behaves_like_inlined fs fuel root ls hin hok (withExitGoto sem)
    (C14_exit_goto_line_insensitive sem hL) (C14_exit_goto_no_absolute_jumps sem hN) halt hH vars s
  exact ⟨is, hp, h3⟩

/-! non-vacuity: a semantics that meets both hypotheses, and what the extension answers -/
example : LineInsensitive (fun _ _ _ _ vars (s : Unit) => some (CmdResult.continue none, vars, s)) := fun _ _ _ _ _ _ _ => rfl
example : NoAbsoluteJumps (fun _ _ _ _ vars (s : Unit) => some (CmdResult.continue none, vars, s)) := by
  intro _ _ _ _ _ _ _ _ _ _ h; cases h
example : withExitGoto (fun _ _ _ _ vars (s : Unit) => some (CmdResult.continue none, vars, s)) "goto".toList [":finish".toList] none 7 [] () =
    some (.goTo none (.label ":finish".toList), [], ()) := by decide

end Duck
