/-
C09 — the tie between `fn parse` of duckscript_sdk/src/utils/eval.rs and the hand-written model
`serializeArg` / `serializeLine` / `evalParse` (Sdk/Flow.lean) every C09 theorem speaks about.

`Generated/EvalParse.lean` is regenerated on every check from the CURRENT source of that function
(bin/fragments/eval_parse.py, rust2lean.py seventh executor).  The theorems below state that the
translation EQUALS the hand model for every value / every argument list; a change of the source
that alters how a value is written (quoting, escaping, the empty value, the separator, the
`replace` chain, which instruction is picked) makes one of them fail to check.
-/
import DuckModel.Lemmas.EvalParseTranslationLemmas

namespace Duck
open Duck.Generated

/-- what the loop body of `eval::parse` writes for ONE value is `serializeArg` -/
theorem C09_eval_parse_translation_serialize : ∀ a : Str, serializeArgGen a = serializeArg a := by
  intro a
  unfold serializeArgGen serializeArg
  rw [single_isSuffixOf, contains_eq_strContains]
  cases a with
  | nil => simp
  | cons c t =>
    have h1' : ('"' = c) = (c = '"') := propext eq_comm
    by_cases h1 : c = '"' <;> by_cases h2 : (c :: t).getLast? = some '"' <;>
      simp [List.isPrefixOf, h1', h1, h2]

/-- the text `eval::parse` hands to `parser::parse_text` is `serializeLine`, for every argument list -/
theorem C09_eval_parse_translation_line : ∀ args : List Str, evalLineGen args = serializeLine args := by
  intro args
  unfold evalLineGen serializeLine
  have hf : (fun (lineBuffer : Str) (argument : Str) => lineBuffer ++ serializeArgGen argument ++ [' ']) =
      (fun buf a => buf ++ (fun a => serializeArg a ++ [' ']) a) := by
    funext b a; simp [C09_eval_parse_translation_serialize, List.append_assoc]
  simp only [hf, foldl_buf, List.nil_append, replaceChar_nil, List.filter_filter]
  have hfl : (fun a : Char => a != '\n' && a != '\r') = (fun c => c != '\r' && c != '\n') := by
    funext c; exact Bool.and_comm _ _
  rw [hfl]
  rfl

/-- the whole function: the instruction `eval::parse` answers (if any) is `evalParse` -/
theorem C09_eval_parse_translation_parse : ∀ args : List Str, (evalParseGen args).value? = evalParse args := by
  intro args
  unfold evalParseGen evalParse
  rw [C09_eval_parse_translation_line]
  cases parseText (serializeLine args) with
  | error e => rfl
  | ok l => cases l <;> rfl

end Duck

namespace Duck
open Duck.Generated
/-! non-vacuity: the four ways a value is written, the separator, the `replace` chain, the picked instruction -/
example : serializeArgGen "".toList = "\"\"".toList := by decide
example : serializeArgGen "a b".toList = "\"a b\"".toList := by decide
example : serializeArgGen "\"q\"".toList = "\\\"q\"\\".toList := by decide
example : serializeArgGen "a\"b".toList = "a\"b".toList := by decide
example : evalLineGen ["a".toList, "".toList, "x\\y\n".toList] = "a \"\" x\\\\y ".toList := by decide
example : evalParseGen [] = .panic := by decide
end Duck
