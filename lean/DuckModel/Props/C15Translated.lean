/-
  C15 — the methods of `impl Commands` (duckscript/src/types/command.rs) as TRANSLATED from the
  current source by bin/rust2lean.py (fifth executor; Generated/RegistryFns.lean) compute what the
  hand-written model Registry.lean computes — the model all other C15 theorems speak about.

  The translated functions are written against an ABSTRACT finite map (`FinMap`, FinMap.lean); the
  model uses association lists (`KV`).  So each theorem is a REFINEMENT: for EVERY pair of lawful
  finite maps `mc`, `ma` (any implementation of the interface that satisfies `LawfulFinMap` — the
  trusted reading of `std::collections::HashMap`) and every model registry `r` they represent
  (`RegRep mc ma r`: `FinMap.get mc k = r.commands.get k` and `FinMap.get ma k = r.aliases.get k`
  for every key `k`), for every argument,
    * the Rust return value is the model's, and
    * the maps afterwards represent the model's registry afterwards.
  Laws used: `get_empty` (new), `get_insert` (set), `get_erase` (set, remove), `mem_keys` and
  `nodup_keys` (get_all_command_names).  `get_filter` is not used by the current source (`retain`
  does not occur).
-/
import DuckModel.Registry
import DuckModel.FinMap
import DuckModel.Generated.RegistryFns
import DuckModel.Lemmas.RegistryLemmas
import DuckModel.Lemmas.RegistryTranslationLemmas

namespace Duck
open Duck.Generated

section
variable {MC MA : Type} [FinMap MC CmdSpec] [FinMap MA Str]
  [LawfulFinMap MC CmdSpec] [LawfulFinMap MA Str]

/-- `Commands::new()` is the empty registry -/
theorem C15_registry_translation_new :
    RegRep (newGen (MC := MC) (MA := MA)).1 (newGen (MC := MC) (MA := MA)).2 ({} : Reg) :=
  ⟨MapRep.empty, MapRep.empty⟩

omit [LawfulFinMap MC CmdSpec] [LawfulFinMap MA Str] in
/-- `Commands::get`, translated, is the model's `Reg.get` (aliases first, then names) -/
theorem C15_registry_translation_get (mc : MC) (ma : MA) (r : Reg) (h : RegRep mc ma r)
    (name : Str) : getGen mc ma name = r.get name := by
  unfold getGen Reg.get Reg.resolve
  rw [h.aliases name]
  cases r.aliases.get name with
  | none => simp only [Option.getD_none]; rw [h.commands name]; cases r.commands.get name <;> rfl
  | some v => simp only [Option.getD_some]; rw [h.commands v]; cases r.commands.get v <;> rfl

omit [LawfulFinMap MC CmdSpec] [LawfulFinMap MA Str] in
/-- `Commands::exists`, translated, is the model's `Reg.exists` -/
theorem C15_registry_translation_exists (mc : MC) (ma : MA) (r : Reg) (h : RegRep mc ma r)
    (name : Str) : existsGen mc ma name = r.exists name := by
  unfold existsGen Reg.exists
  rw [C15_registry_translation_get mc ma r h name]

omit [LawfulFinMap MC CmdSpec] [LawfulFinMap MA Str] in
/-- `Commands::get_for_use`, translated: the model's `Reg.get`, and the registry is left alone -/
theorem C15_registry_translation_get_for_use (mc : MC) (ma : MA) (r : Reg) (h : RegRep mc ma r)
    (name : Str) : getForUseGen mc ma name = ((mc, ma), r.get name) := by
  unfold getForUseGen Reg.get Reg.resolve
  rw [h.aliases name]
  cases r.aliases.get name with
  | none => simp only [Option.getD_none]; rw [h.commands name]; cases r.commands.get name <;> rfl
  | some v => simp only [Option.getD_some]; rw [h.commands v]; cases r.commands.get v <;> rfl

/-- `Commands::remove`, translated, is the model's `Reg.remove`: same answer, and the maps
    afterwards represent the model's registry afterwards -/
theorem C15_registry_translation_remove (mc : MC) (ma : MA) (r : Reg) (h : RegRep mc ma r)
    (name : Str) :
    (removeGen mc ma name).2 = (r.remove name).2 ∧
    RegRep (removeGen mc ma name).1.1 (removeGen mc ma name).1.2 (r.remove name).1 := by
  have key : ∀ n : Str, r.resolve name = n →
      (match FinMap.get mc n with
        | none => ((FinMap.erase mc n, ma), false)
        | some command =>
          ((FinMap.erase mc n,
            List.foldl (fun aliases_1 alias =>
              if FinMap.get aliases_1 alias = some command.name then FinMap.erase aliases_1 alias
              else aliases_1) ma command.aliases), true) : (MC × MA) × Bool).2 = (r.remove name).2 ∧
      RegRep
        (match FinMap.get mc n with
        | none => ((FinMap.erase mc n, ma), false)
        | some command =>
          ((FinMap.erase mc n,
            List.foldl (fun aliases_1 alias =>
              if FinMap.get aliases_1 alias = some command.name then FinMap.erase aliases_1 alias
              else aliases_1) ma command.aliases), true) : (MC × MA) × Bool).1.1
        (match FinMap.get mc n with
        | none => ((FinMap.erase mc n, ma), false)
        | some command =>
          ((FinMap.erase mc n,
            List.foldl (fun aliases_1 alias =>
              if FinMap.get aliases_1 alias = some command.name then FinMap.erase aliases_1 alias
              else aliases_1) ma command.aliases), true) : (MC × MA) × Bool).1.2
        (r.remove name).1 := by
    intro n hn
    rw [h.commands n]
    cases hc : r.commands.get n with
    | none =>
      rw [Reg.remove_none r name (by rw [hn]; exact hc)]
      exact ⟨rfl, h.commands.erase_absent n hc, h.aliases⟩
    | some c =>
      rw [Reg.remove_some r name c (by rw [hn]; exact hc), hn]
      exact ⟨rfl, h.commands.erase n, h.aliases.foldl_erase_if c.aliases c.name⟩
  unfold removeGen
  have hres : r.resolve name = (r.aliases.get name).getD name := rfl
  rw [h.aliases name]
  cases ha : r.aliases.get name with
  | none => exact key name (by rw [hres, ha]; rfl)
  | some v => exact key v (by rw [hres, ha]; rfl)

/-- `Commands::set`, translated, is the model's `Reg.set`: same answer (`true` = `Ok(())`), and the
    maps afterwards represent the model's registry afterwards -/
theorem C15_registry_translation_set (mc : MC) (ma : MA) (r : Reg) (h : RegRep mc ma r)
    (c : CmdSpec) :
    (setGen mc ma c).2 = (r.set c).2 ∧
    RegRep (setGen mc ma c).1.1 (setGen mc ma c).1.2 (r.set c).1 := by
  unfold setGen Reg.set
  rw [h.commands.contains c.name]
  by_cases h1 : r.commands.containsKey c.name = true
  · simp only [h1, if_true]; exact ⟨by trivial, h.commands, h.aliases⟩
  · simp only [h1]
    rw [forEach_ret_if (fun a => FinMap.contains ma a)]
    have hany : (c.aliases.any fun a => FinMap.contains ma a) =
        (c.aliases.any fun a => r.aliases.containsKey a) := by
      congr 1; funext a; exact h.aliases.contains a
    rw [hany]
    by_cases h2 : (c.aliases.any fun a => r.aliases.containsKey a) = true
    · simp only [h2, if_true]; exact ⟨by trivial, h.commands, h.aliases⟩
    · simp only [h2]
      exact ⟨by trivial, h.commands.insert c.name c,
        (h.aliases.erase c.name).foldl_insert c.aliases c.name⟩

omit [LawfulFinMap MA Str] in
/-- `Commands::get_all_command_names`, translated, is the model's `Reg.names`, whatever the order
    in which the map hands out its keys — provided the model's list is a finite map (every key
    once), which every registry reachable through the API is (`C15_registry_keys_unique`) -/
theorem C15_registry_translation_get_all_command_names (mc : MC) (ma : MA) (r : Reg)
    (h : RegRep mc ma r) (hk : r.commands.NodupKeys) :
    getAllCommandNamesGen mc ma = r.names := by
  unfold getAllCommandNamesGen Reg.names
  rw [foldl_push, List.nil_append]
  exact Reg.sortStrs_perm (h.commands.keys_perm hk)

end

/-- the side condition of `C15_registry_translation_get_all_command_names` holds of every registry
    reachable through the API from the empty one -/
theorem C15_registry_keys_unique (ops : List RegOp) :
    ((Reg.run {} ops).1).commands.NodupKeys :=
  Reg.nodupKeys_run {} ops KV.nodupKeys_nil

/-! ### non-vacuity -/

section Examples

/-- the laws are consistent: the model's own association lists are a lawful finite map
    (`kvLawful`), every model registry is represented by itself, so the theorems above apply to
    every `r` — the translated methods, run on the model's lists, ARE the model's methods -/
example (r : Reg) (n : Str) : getGen r.commands r.aliases n = r.get n :=
  C15_registry_translation_get _ _ r (RegRep.self r) n
example (r : Reg) (c : CmdSpec) : (setGen r.commands r.aliases c).2 = (r.set c).2 :=
  (C15_registry_translation_set _ _ r (RegRep.self r) c).1
example (r : Reg) (n : Str) (k : Str) :
    KV.get (removeGen r.commands r.aliases n).1.2 k = (r.remove n).1.aliases.get k :=
  (C15_registry_translation_remove _ _ r (RegRep.self r) n).2.aliases k

private def tA : CmdSpec := { name := "a".toList, aliases := ["x".toList], tag := 1 }
private def tX : CmdSpec := { name := "x".toList, aliases := [], tag := 2 }
private def tC : CmdSpec := { name := "c".toList, aliases := ["x".toList], tag := 3 }

/-- the history of F3 (`set a[x]; set x[]; set c[x]; remove a`) through the TRANSLATED methods:
    every step is accepted and the re-pointed alias `x ↦ c` survives the removal of `a` -/
private def afterF3 : (KV CmdSpec × KV Str) × Bool :=
  let s1 := setGen (newGen (MC := KV CmdSpec) (MA := KV Str)).1 (newGen (MC := KV CmdSpec) (MA := KV Str)).2 tA
  let s2 := setGen s1.1.1 s1.1.2 tX
  let s3 := setGen s2.1.1 s2.1.2 tC
  removeGen s3.1.1 s3.1.2 "a".toList

example : afterF3.2 = true := by decide
example : getGen afterF3.1.1 afterF3.1.2 "x".toList = some tC := by decide
example : getGen afterF3.1.1 afterF3.1.2 "a".toList = none := by decide
example : getAllCommandNamesGen afterF3.1.1 afterF3.1.2 = ["c".toList, "x".toList] := by decide
/-- a refused registration (alias already taken) changes nothing -/
example : setGen afterF3.1.1 afterF3.1.2 { name := "d".toList, aliases := ["x".toList], tag := 4 }
    = (afterF3.1, false) := by decide

end Examples

end Duck
