/-
  C07 — no script can panic, abort or hang the embedding process.   CLAIMED PARTIAL.

  Layer 1 (this file, proved): the modelled parts of duckscript — parser, expansion, runner loop,
  the text / comparison / range commands, the collection commands incl. `release -r`, the
  variable and scope-stack commands, the condition evaluator, the block scanner — are TOTAL Lean
  functions in which every Rust operation that can unwind (`unwrap`, index, slice, `try_into`)
  and every recursion that is not structural (fuel) is an explicit outcome.  The theorems say:
  the `panic` outcome and the `fuel` outcome are unreachable, every run that is halted returns.
  Where the REAL recursion is not well-founded (include cycles, cyclic handle graphs under
  `json_encode --collection`) no fuel is enough: that is proved too (`…_unbounded_partial`)
  — it is the model-side witness of two recorded findings (stack overflow ⇒ abort).

  Layers 2/3 (script-implemented commands; the ~90 unmodelled commands; allocation failure,
  stack exhaustion, third-party crates) are NOT proved: they are searched by
  harness/src/props/c07.rs under catch_unwind + watchdog + child process.

  Statements that merely restate an existing theorem in C07's terms say so (`from Cxx`).
-/
import DuckModel.Props.C06Core
import DuckModel.Props.C11
import DuckModel.Props.C12
import DuckModel.Props.C13
import DuckModel.Props.C16
import DuckModel.Props.C17
import DuckModel.Lemmas.NoPanicLemmas
import DuckModel.Props.C07Scripts

namespace Duck
open Duck.Generated

/-! ## parser, expansion, runner -/

/-- `parse_text` returns instructions or a parse error for EVERY text (outcome space of the
    total model function; its tie to the code is C08's correspondence run). -/
theorem C07_parse_total (text : Str) :
    (∃ is, parseText text = .ok is) ∨ (∃ e, parseText text = .error e) := by
  cases h : parseText text with
  | ok is => exact Or.inl ⟨is, rfl⟩
  | error e => exact Or.inr ⟨e, rfl⟩

/-- every line parses to an instruction type or to one of the eight parse-error kinds -/
theorem C07_parse_line_total (l : Str) :
    (∃ ty, parseLine l = .ok ty) ∨ (∃ k, parseLine l = .error k) := by
  cases h : parseLine l with
  | ok ty => exact Or.inl ⟨ty, rfl⟩
  | error k => exact Or.inr ⟨k, rfl⟩

/-- `expand_by_wrapper` has exactly three outcomes, for every variable map and every text -/
theorem C07_expand_total (vars : Vars) (value : Str) :
    expand vars value = .none ∨ (∃ v, expand vars value = .single v) ∨
      (∃ vs, expand vars value = .multi vs) := by
  cases h : expand vars value with
  | none => exact Or.inl rfl
  | single v => exact Or.inr (Or.inl ⟨v, rfl⟩)
  | multi vs => exact Or.inr (Or.inr ⟨vs, rfl⟩)

/-- `bind_command_arguments` yields a list for every argument vector; no written arguments,
    no bound arguments -/
theorem C07_bind_total (vars : Vars) (args : Option (List Str)) :
    ∃ l, bind vars args = l ∧ (args = none → l = []) := by
  refine ⟨_, rfl, ?_⟩
  intro h
  subst h
  rfl

/-- one iteration of the runner loop, for EVERY command semantics, halt oracle and state:
    it continues with a new state or ends the run with a proper end (never `outOfFuel`,
    which only the bounded loop `runLoop` can produce). -/
theorem C07_runner_step_total {σ : Type} (sem : CmdSem σ) (is : List Instruction)
    (labels : List (Str × Nat)) (halt : Nat → σ → Bool) (rs : RunState σ) :
    (∃ rs', runStep sem is labels halt rs = .inl rs') ∨
      (∃ rs' e, runStep sem is labels halt rs = .inr (rs', e) ∧ e ≠ .outOfFuel) := by
  cases h : runStep sem is labels halt rs with
  | inl rs' => exact Or.inl ⟨rs', rfl⟩
  | inr r =>
    obtain ⟨rs', e⟩ := r
    exact Or.inr ⟨rs', e, rfl, runStep_inr_ne_outOfFuel sem is labels halt rs rs' e h⟩

/-- mechanism "runner turns an unknown command into an error value": a command name that is
    not registered gives the `Crash` result "Command: <name> not found." — nothing changes -/
theorem C07_unknown_command_is_error {σ : Type} (sem : CmdSem σ) (vars : Vars) (s : σ)
    (mi : Meta) (si : ScriptInstr) (c : Str) (line : Nat) (hc : si.command = some c)
    (hn : sem c (bind vars si.args) si.output line vars s = none) :
    runInstruction sem vars s ⟨mi, .script si⟩ line =
      (.crash ("Command: ".toList ++ c ++ " not found.".toList), si.output, vars, s) := by
  simp [runInstruction, hc, hn]

/-- … and a `Crash` result ends the run with a `fail` carrying the message and the line's
    meta info (the embedder receives `Err(ScriptError::Runtime)`): it is a value, not an unwind -/
theorem C07_crash_ends_run_with_error {σ : Type} (sem : CmdSem σ) (is : List Instruction)
    (labels : List (Str × Nat)) (halt : Nat → σ → Bool) (rs : RunState σ) (instr : Instruction)
    (msg : Str) (out : Option Str) (vars : Vars) (st : σ)
    (hh : halt rs.polls rs.st = false) (hi : is[rs.line]? = some instr)
    (hr : runInstruction sem rs.vars rs.st instr rs.line = (.crash msg, out, vars, st)) :
    runStep sem is labels halt rs =
      .inr ({ line := rs.line, polls := rs.polls + 1, vars := vars, st := st }, .fail msg instr.mi) := by
  simp [runStep, hh, hi, hr]

/-- from C13: once the halt flag is raised for good (by poll `K` at the latest) EVERY program
    — also one that loops forever — returns, on every path, and not by exhausting the fuel -/
theorem C07_halted_run_terminates {σ : Type} (sem : CmdSem σ) (is : List Instruction)
    (labels : List (Str × Nat)) (halt : Nat → σ → Bool) (K : Nat)
    (hK : ∀ k s, K ≤ k → halt k s = true) (rs : RunState σ) (fuel : Nat)
    (hfuel : K + 1 - rs.polls ≤ fuel) (hpos : 0 < fuel) :
    (runLoop sem is labels halt fuel rs).2 ≠ .outOfFuel :=
  C13_terminates sem is labels halt K hK rs fuel hfuel hpos

/-- `run_script` under a watchdog: a parse error or a final state with a proper end -/
theorem C07_run_script_returns {σ : Type} (sem : CmdSem σ) (halt : Nat → σ → Bool) (K : Nat)
    (hK : ∀ k s, K ≤ k → halt k s = true) (text : Str) (vars : Vars) (s : σ) :
    (∃ e, runScript sem halt (K + 1) text vars s = .error e) ∨
      (∃ rs e, runScript sem halt (K + 1) text vars s = .ok (rs, e) ∧ e ≠ .outOfFuel) := by
  unfold runScript
  cases parseText text with
  | error e => exact Or.inl ⟨e, rfl⟩
  | ok is =>
    refine Or.inr ⟨(run sem halt (K + 1) is vars s).1, (run sem halt (K + 1) is vars s).2, rfl, ?_⟩
    exact C13_terminates sem is (labelTable is) halt K hK _ (K + 1) (by simp) (by omega)

/-! ## text / comparison / range commands (model of C16): no `panic` outcome, for ALL of them -/

open Duck.Strings in
/-- every modelled command of the string family, for every argument list: the outcome is a
    value, `err` or `unmodelled` — never `panic`.  (`substring` is `C16_substring_never_panics`;
    before repair F5 the model had two reachable `panic` outcomes there.) -/
theorem C07_strings_no_panic (cmd : String) (args : List Str) (out : Out)
    (h : Strings.run cmd args = some out) : out ≠ .panic := by
  have hopt : ∀ o : Option Nat, optNat o ≠ .panic := by
    intro o; cases o <;> simp [optNat]
  have hcmp : ∀ f, compareWith f args ≠ .panic := by
    intro f
    unfold compareWith
    split
    · split <;> simp
    · simp
  unfold Strings.run at h
  split at h <;> (try (injection h with h; subst h))
  · unfold length; split <;> simp
  · unfold indexof; split <;> first | exact hopt _ | simp
  · unfold lastIndexof; split <;> first | exact hopt _ | simp
  · exact C16_substring_never_panics args
  · unfold contains; split <;> simp
  · unfold startsWith; split <;> simp
  · unfold endsWith; split <;> simp
  · unfold equals; split <;> simp
  · unfold isEmpty; split <;> simp
  · simp [concat]
  · unfold replaceCmd; split <;> simp
  · unfold splitCmd; split <;> simp
  · unfold trimWith; split <;> simp
  · unfold trimWith; split <;> simp
  · unfold trimWith; split <;> simp
  · unfold caseWith; split <;> simp
  · unfold caseWith; split <;> simp
  · unfold range; split
    · split
      · split <;> simp
      · simp
    · simp
  · exact hcmp _
  · exact hcmp _
  · cases h

/-! ## collections (model of C12) -/

open Duck.Coll in
/-- every collection command, in every state, for every argument list, returns a value or the
    error result (the model's `Res` has no third constructor: no modelled command body contains
    an `unwrap`/index whose failure is reachable — index arguments go through `parseUsize` and
    a length test) and never allocates more than one handle -/
theorem C07_collections_total (m : Coll.St) (c : CollCmd) (args : List Str) :
    (Coll.exec m c args).2 = .err ∨ ∃ o, (Coll.exec m c args).2 = .val o := by
  cases h : (Coll.exec m c args).2 with
  | err => exact Or.inl rfl
  | val o => exact Or.inr ⟨o, rfl⟩

open Duck.Coll in
/-- from C12: a handle of the wrong kind, a released or an unknown handle makes the command
    answer `err` (or `false`) and leaves every lookup as it was — the take-out / put-back of
    `mutate_list/map/set` restores the value on kind mismatch -/
theorem C07_collections_wrong_kind_is_error (m : Coll.St) (c : CollCmd) (k : CollKind) (h : Str)
    (rest : List Str) (hk : c.expects = some k)
    (hv : ∀ v, tget m.tbl h = some v → kindOf v ≠ some k) :
    LookupEq (Coll.exec m c (h :: rest)).1.tbl m.tbl ∧
    ((Coll.exec m c (h :: rest)).2 = .err ∨ (Coll.exec m c (h :: rest)).2 = .val (some sFalse)) := by
  obtain ⟨h1, _, h3, _⟩ := C12_wrong_kind_unchanged m c k h rest hk hv
  refine ⟨h1, ?_⟩
  rcases h3 with h3 | ⟨_, h3⟩
  · exact Or.inl h3
  · exact Or.inr h3

open Duck.Coll in
/-- from C12: `release -r` terminates on every handle graph — sharing, cycles, a collection
    that contains its own handle — with fuel = number of table entries -/
theorem C07_release_terminates (t : Table) (k : Str) :
    ∃ t' b, removeRec t.length t k = some (t', b) ∧ t'.length ≤ t.length := by
  obtain ⟨t', b, h1, h2, _⟩ := C12_release_recursive_terminates t.length t k (Nat.le_refl _)
  exact ⟨t', b, h1, h2⟩

open Duck.Coll in
/-- from C12: hence the `release` command never reports the model-only out-of-fuel error -/
theorem C07_release_no_hang (m : Coll.St) (args : List Str) :
    (Coll.exec m .release args).2 ≠ .err :=
  C12_release_never_out_of_fuel m args

/-! ## variables and scope stack (model of C11, after repair F4) -/

open Duck.VarScope in
/-- no variable / scope command ever answers `Crash`, whatever the state and the arguments -/
theorem C07_scope_no_crash (st : VsSt) (c : VsCmd) (args : List Str) (msg : Str) :
    (VarScope.runCmd st c args).2 ≠ .crash msg := by
  cases c <;> simp only [VarScope.runCmd]
  · unfold cmdSet
    split
    · simp
    · simp
    · split <;> simp
  · simp [cmdUnset]
  · unfold cmdSetByName; split <;> simp
  · unfold cmdGetByName; split <;> simp
  · unfold cmdIsDefined; split <;> simp
  · simp
  · unfold cmdClearScope; split <;> simp
  · simp
  · split <;> simp

open Duck.VarScope in
/-- the repaired loop of `scope::push/pop`: a name to copy that is NOT defined is skipped
    (before repair F4 this was an `unwrap()` on `None`: `scope_push_stack --copy nope` panicked) -/
theorem C07_scope_copy_undefined_skipped (vars new : Vars) (k : Str) (ks : List Str)
    (h : vars.get k = none) : copyLoop vars new (k :: ks) = copyLoop vars new ks := by
  simp [copyLoop, h]

open Duck.VarScope in
/-- from C11: popping an empty scope stack is the error result and changes nothing -/
theorem C07_scope_pop_empty_is_error (st : VsSt) (args : List Str) (h : st.stack = []) :
    VarScope.runCmd st .popStack args = (st, .error []) :=
  (C11_pop_empty_changes_nothing st args h).1

/-! ## condition evaluator and block scanner: the recursion fuel is never exhausted -/

/-- `eval_condition_for_slice` recurses once per parenthesised group; the model's fuel
    (number of tokens + 1) is never exhausted: every token list evaluates to a Boolean or to
    one of the five syntax errors -/
theorem C07_condition_total (args : List Str) : evalSlice args ≠ .error .fuel :=
  evalSliceF_ne_fuel _ args (Nat.lt_succ_self _)

/-- … and (from C06) more fuel changes nothing -/
theorem C07_condition_fuel_irrelevant (args : List Str) (extra : Nat) :
    evalSliceF (args.length + 1 + extra) args = evalSlice args :=
  C06_fuel_irrelevant args extra

/-- `find_commands` recurses once per nested block and each recursion starts strictly later in
    the instruction list: with fuel = number of instructions + 1 the recursion never runs dry,
    for every keyword table, every instruction list (well nested or not) and every start line.
    The scan returns positions or one of the four scan errors. -/
theorem C07_find_commands_total (t : FlowTables) (is : List Instruction) (start : Nat) :
    findCommands t is start ≠ .error .fuel :=
  findCommandsF_ne_fuel t is (is.length + 1) start (by omega)

/-! ## where the real recursion is NOT well-founded: no fuel is enough (findings) -/

/-- A file whose only line is `!include_files <itself>`: for EVERY include-depth fuel the model
    answers the model-only depth error.  `parse_file` has no such bound: the real recursion
    does not terminate (stack overflow ⇒ the process aborts; finding C07/include-cycle).
    PARTIAL: this is a statement about the model; the abort itself is observed by the harness
    in a child process. -/
theorem C07_include_cycle_unbounded_partial :
    selfFs.read selfPath = some selfLine ∧
      ∀ n, parseFileF selfFs n selfPath = .error depthExceeded :=
  ⟨by simp [selfFs], selfFs_depth⟩

/-- the same file included from a text (`parse_text`, what `run_script` uses) -/
theorem C07_include_cycle_from_text_partial (n : Nat) :
    parseTextFs selfFs n selfLine = .error depthExceeded := by
  have hres : selfFs.resolve none selfPath = selfPath := rfl
  have hne : ¬ (includeName = printName) := by decide
  unfold parseTextFs
  simp only [selfFs_lines, parseLinesWith, selfFs_parseLine, runPre, hne, if_false, if_true,
    Option.getD_some, includeFiles, hres, selfFs_depth n]

/-- An array that contains its own handle (`a = array ; array_push ${a} ${a}`): for EVERY fuel
    `json_encode --collection` of the model runs out of fuel.  `encode_from_state_value` has
    no visited set: the real recursion does not terminate (finding C07/json-encode-cyclic). -/
theorem C07_json_encode_cyclic_unbounded_partial (n : Nat) :
    Enc.encodeVal n cycEntries (.str cycKey) = .error .fuel :=
  cyc_fuel_str n

open Duck.Enc in
/-- from C17: on the stores that `json_parse --collection` builds (acyclic by construction)
    the encoder's fuel is enough — it returns the normalised document -/
theorem C07_json_encode_parsed_total (doc : Json) (hno : NoHandle handleKey doc) (v : Str)
    (hv : (parseToStore doc).1 = some v) :
    ∃ j, encodeFromStore (parseToStore doc).2 v = .ok j := by
  have := C17_json_roundtrip doc hno
  rw [hv] at this
  obtain ⟨j, _, hj⟩ := this
  exact ⟨j, hj⟩

/-! ## non-vacuity -/

section Examples
open Duck.Strings

-- the string dispatcher knows the command names (the hypothesis of C07_strings_no_panic holds)
example : Strings.run "substring" ["aé".toList, "0".toList, "2".toList] = some .err := by decide
example : Strings.run "substring" ["abc".toList, "-1".toList, "2".toList] = some .err := by decide
example : Strings.run "indexof" ["abc".toList, "c".toList] = some (.nat 2) := by decide
example : Strings.run "range" ["5".toList, "1".toList] = some .err := by decide
example : Strings.run "nope" [] = none := by decide

-- the panic outcome is a real constructor, different from every other outcome
example : Out.panic ≠ Out.err ∧ Out.panic ≠ Out.none := by decide

-- a program that loops forever: runs out of fuel un-halted, returns `halted` under a watchdog
example : (runLoop C13Example.sem C13Example.prog (labelTable C13Example.prog) Spec.noHalt 50 C13Example.rs0).2
    = .outOfFuel := by rfl
example : (runLoop C13Example.sem C13Example.prog (labelTable C13Example.prog) C13Example.halt 3 C13Example.rs0).2
    ≠ .outOfFuel :=
  C07_halted_run_terminates _ _ _ _ 2 (by intro k _ hk; simp [C13Example.halt, hk]) _ 3 (by simp [C13Example.rs0]) (by omega)

-- an unknown command in the empty registry: the run fails with a message, it does not unwind
example : (run (fun _ _ _ _ _ _ => none : CmdSem Unit) Spec.noHalt 5
    [⟨{ line := some 1 }, .script { command := some "nope".toList }⟩] [] ()).2
    = .fail "Command: nope not found.".toList { line := some 1 } := by rfl

-- conditions: unbalanced and deeply nested token lists are errors / values, never `fuel`
example : evalSlice ["(".toList, "(".toList, "(".toList] = .error .missingClose := by rfl
example : evalSlice [")".toList] = .error .unexpectedClose := by rfl
example : evalSlice ["(".toList, "(".toList, "true".toList, ")".toList, ")".toList] = .ok true := by rfl
-- … while a fuel below the nesting depth IS exhausted (the `fuel` outcome is reachable in general)
example : evalSliceF 2 ["(".toList, "(".toList, "true".toList, ")".toList, ")".toList] = .error .fuel := by rfl

-- block scanner: ill-nested programs
example : findCommands ifTables [] 0 = .error .missingEnd := by rfl

-- scope: copying an undefined name
example : VarScope.scopePush [("x".toList, "1".toList)] [] ["nope".toList, "x".toList] =
    ([("x".toList, "1".toList)], [[("x".toList, "1".toList)]]) := by decide
example : (VarScope.runCmd {} .popStack ["--copy".toList, "nope".toList]).2 = .error [] := by decide

-- release -r of a collection that contains its own handle
example : (Coll.exec { tbl := [("h".toList, .list [.str "h".toList])], next := 2 } .release
    ["-r".toList, "h".toList]).2 = .val (some "true".toList) := by decide

-- the cyclic witnesses are what they claim to be
example : selfLine = "!include_files /a.ds".toList ∧ selfPath = "/a.ds".toList := ⟨rfl, rfl⟩
example : Enc.lookup cycKey cycEntries = some (.list [cycKey]) := by decide
-- an acyclic store of the same shape encodes
example : Enc.encodeVal 3 [(cycKey, .list ["x".toList])] (.str cycKey) = .ok (.arr (.cons (.str "x".toList) .nil)) := by
  rfl

end Examples

end Duck
