/-
  C05, "a call that ends without a value (bare `return` or reaching the end) leaves that variable
  undefined": what the implementation does, what the literal clause demands, and where they part.

  * the runner erases the output variable when the call is made (the call's result is a jump
    without a value), a bare `return` erases it again, reaching `end` touches nothing
    (`C05_end_function`): so the clause holds unless the BODY assigned a variable of that name and
    the function then reaches its `end` — `C05_valueless_call_statement` is FALSE
    (`C05_valueless_call_refuted`, witness `fn f / r = set inner / end / r = f`), the recorded
    finding C05/end-keeps-body-assigned-output;
  * `C05_valueless_call_partial`: in the same program family the clause holds whenever the call
    ends with a bare `return` or the body's variable has another name.
  * `strictEnds` (Spec/StrictEnd.lean) is the reading the correspondence run uses as the demand:
    `C05_strictEnds_witness` shows that it erases the variable on the witness, and
    `C05_strictEnds_only_plain` that `<scope>` functions (the corner the property leaves open) and
    everything that is not a function definition are left as they are.
-/
import DuckModel.Props.C05Core
import DuckModel.Spec.StrictEnd

namespace Duck
open Duck.Spec

/-- ```
    fn f
    <x> = set inner        -- x = `r` when `same`, `other` otherwise
    [return]               -- when `bare`
    end
    r = f
    ``` -/
def C05_endProgram (bare same : Bool) : List Instruction := Spec.program.go
  ([ C05_line none "fn" ["f"],
     C05_line (some (if same then "r" else "other")) "set" ["inner"] ] ++
   (if bare then [C05_line none "return" []] else []) ++
   [ C05_line none "end" [],
     C05_line (some "r") "f" [] ]) 1

/-- the clause, on this family: whichever way the call ends without a value, `r` is undefined -/
def C05_valueless_call_statement : Prop :=
  ∀ (bare same : Bool),
    (interpRun 100 (C05_endProgram bare same) [] {}).2 = .reachedEnd ∧
    (interpRun 100 (C05_endProgram bare same) [] {}).1.vars.get "r".toList = none

/-- reaching `end` after the body assigned `r`: `r` keeps the body's value -/
theorem C05_end_keeps_body_assignment_counterexample :
    (interpRun 100 (C05_endProgram false true) [] {}).2 = .reachedEnd ∧
    (interpRun 100 (C05_endProgram false true) [] {}).1.vars.get "r".toList = some "inner".toList := by
  decide +kernel

theorem C05_valueless_call_refuted : ¬ C05_valueless_call_statement := by
  intro h
  have h1 := (h false true).2
  rw [C05_end_keeps_body_assignment_counterexample.2] at h1
  cases h1

/-- the clause holds in the family whenever the call ends with a bare `return` or the body's
    variable is not the output variable -/
theorem C05_valueless_call_partial (bare same : Bool) (h : bare = true ∨ same = false) :
    (interpRun 100 (C05_endProgram bare same) [] {}).2 = .reachedEnd ∧
    (interpRun 100 (C05_endProgram bare same) [] {}).1.vars.get "r".toList = none := by
  cases bare <;> cases same
  · decide +kernel
  · rcases h with h | h <;> cases h
  · decide +kernel
  · decide +kernel

/-- the same on the tree side: the tree interpretation keeps the body's value, the tree
    interpretation of `strictEnds` erases it -/
def C05_endTree : Block :=
  .cons (.fnDef "fn".toList false "f".toList
      (.cons (.line { out := some "r".toList, cmd := "set".toList, args := ["inner".toList] }) .nil) "end".toList)
    (.cons (.line { out := some "r".toList, cmd := "f".toList, args := [] }) .nil)

theorem C05_strictEnds_witness :
    (match runTree 50 C05_endTree [] with | .normal t => t.vars.get "r".toList | _ => none) = some "inner".toList ∧
    (match runTree 50 C05_endTree.strictEnds [] with | .normal t => some (t.vars.get "r".toList) | _ => none) = some none := by
  decide +kernel

/-- `strictEnds` changes plain function definitions only: a `<scope>` definition and every other
    statement stay as they are -/
theorem C05_strictEnds_only_plain (s : Stmt) (rest : Block)
    (h : ∀ kw name body kwEnd, s ≠ .fnDef kw false name body kwEnd) :
    (Block.cons s rest).strictEnds = .cons s rest.strictEnds := by
  cases s with
  | fnDef kw sc name body kwEnd =>
    cases sc with
    | false => exact absurd rfl (h kw name body kwEnd)
    | true => rfl
  | _ => rfl

end Duck
