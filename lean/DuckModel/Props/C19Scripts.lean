/-
  C19 (no trace in the caller's variables) for script-implemented commands run from their
  regenerated source: for the four loop-free collection scripts the frame is UNCONDITIONAL - no
  hypothesis about the callees (`SemFrame` of `C19_scripts_frame`), they are executed by the
  model.  Every argument list, every state; the only hypothesis is the one `clear` forces: the
  caller has no variable under the command's own prefix (`CallerClean`, unfolded here because
  Props/C19.lean imports this file).
-/
import DuckModel.Lemmas.ScriptRunLemmas
import DuckModel.Lemmas.ScriptLoopConcat
import DuckModel.Lemmas.ScriptLoopSetFromArray
import DuckModel.Lemmas.ScriptLoopMapContainsValueFinal
import DuckModel.Lemmas.ScriptLoopArrayConcatFinal
import DuckModel.Lemmas.ScriptLoopArrayContainsCall
import DuckModel.Lemmas.ScriptLoopArrayJoinFinal

namespace Duck
open Duck.Alias Duck.Coll Duck.ScriptRun Duck.Spec

/-- the variables after any run of one of the three `*_is_empty` scripts -/
theorem C19_script_size_vars (name sizeName : Str) (sc : Generated.ScriptCmd) (c : CollCmd) (len : Value → Option Nat)
    (hf : findScript name = some sc) (hp : parseText sc.script = .ok (sizeIs sc.scopeName sizeName))
    (hamount : sc.argumentsAmount = 1)
    (hk1 : KeyOK (argKey sc.scopeName 1)) (hk2 : KeyOK (lenKey sc.scopeName))
    (hs1 : findScript sizeName = none) (hr1 : resolveNative sizeName = some (.coll c))
    (hc : ∀ (s : Coll.St) key rest, Coll.exec s c (key :: rest) =
      match (tget s.tbl key).bind len with
      | some n => (s, .val (some (natStr n)))
      | none => (s, .err))
    (args : List Str) (vars : Vars) (st : ScriptSt)
    (hclean : ∀ k, underPrefix sc.scopeName k = true → Vars.get vars k = none) :
    (runScriptCmd name args vars st).2.1 = vars := by
  unfold runScriptCmd
  rw [scriptFuel_eq, sizeScript_runF name sizeName sc c len hf hp hamount hk1 hk2 hs1 hr1 hc]
  cases args with
  | nil => rfl
  | cons a rest => exact clear_of_callerClean _ _ hclean

theorem C19_script_array_is_empty_frame (args : List Str) (vars : Vars) (st : ScriptSt)
    (hclean : ∀ k, underPrefix "scope::array_is_empty".toList k = true → Vars.get vars k = none) :
    (runScriptCmd "array_is_empty".toList args vars st).2.1 = vars :=
  C19_script_size_vars "array_is_empty".toList "array_length".toList
    Generated.cmd_collections_array_is_empty .arrayLength
    (fun v => match v with | .list l => some l.length | _ => none)
    (by rfl) (parsesTo_eq (by decide +kernel)) rfl (by decide) (by decide)
    (by decide +kernel) (by decide +kernel)
    (by intro s key rest
        simp only [Coll.exec, cmdArrayLength]
        cases hv : tget s.tbl key with
        | none => rfl
        | some v => cases v <;> rfl)
    args vars st hclean

theorem C19_script_map_is_empty_frame (args : List Str) (vars : Vars) (st : ScriptSt)
    (hclean : ∀ k, underPrefix "scope::map_is_empty".toList k = true → Vars.get vars k = none) :
    (runScriptCmd "map_is_empty".toList args vars st).2.1 = vars :=
  C19_script_size_vars "map_is_empty".toList "map_size".toList
    Generated.cmd_collections_map_is_empty .mapSize
    (fun v => match v with | .map m => some m.length | _ => none)
    (by rfl) (parsesTo_eq (by decide +kernel)) rfl (by decide) (by decide)
    (by decide +kernel) (by decide +kernel)
    (by intro s key rest
        simp only [Coll.exec, cmdMapSize]
        cases hv : tget s.tbl key with
        | none => rfl
        | some v => cases v <;> rfl)
    args vars st hclean

theorem C19_script_set_is_empty_frame (args : List Str) (vars : Vars) (st : ScriptSt)
    (hclean : ∀ k, underPrefix "scope::set_is_empty".toList k = true → Vars.get vars k = none) :
    (runScriptCmd "set_is_empty".toList args vars st).2.1 = vars :=
  C19_script_size_vars "set_is_empty".toList "set_size".toList
    Generated.cmd_collections_set_is_empty .setSize
    (fun v => match v with | .set x => some x.length | _ => none)
    (by rfl) (parsesTo_eq (by decide +kernel)) rfl (by decide) (by decide)
    (by decide +kernel) (by decide +kernel)
    (by intro s key rest
        simp only [Coll.exec, cmdSetSize]
        cases hv : tget s.tbl key with
        | none => rfl
        | some v => cases v <;> rfl)
    args vars st hclean

theorem C19_script_map_contains_key_frame (args : List Str) (vars : Vars) (st : ScriptSt)
    (hclean : ∀ k, underPrefix "scope::map_contains_key".toList k = true → Vars.get vars k = none) :
    (runScriptCmd "map_contains_key".toList args vars st).2.1 = vars := by
  unfold runScriptCmd
  rw [scriptFuel_eq, mck_runF "map_contains_key".toList Generated.cmd_collections_map_contains_key
    (by rfl) (parsesTo_eq (by decide +kernel)) rfl (by decide) (by decide) (by decide)]
  match args with
  | [] => rfl
  | [_] => rfl
  | a :: b :: rest => exact clear_of_callerClean _ _ hclean

/-! ### scripts with a `for … in` loop (every variable the loop writes is under the prefix) -/

theorem C19_script_concat_frame (args : List Str) (vars : Vars) (st : ScriptSt)
    (hclean : ∀ k, underPrefix "scope::concat".toList k = true → Vars.get vars k = none)
    (hstale : NoStaleFor "scope::concat".toList st.forStack)
    (hcache : CacheOK st.forMeta "scope::concat::2".toList 4)
    (hempty : args = [] → tget st.coll.tbl [] = none)
    (hfuel : 3 * args.length + 6 ≤ scriptFuel) :
    (runScriptCmd "concat".toList args vars st).2.1 = vars := by
  obtain ⟨k, hk⟩ : ∃ k, scriptFuel = k + 3 * args.length + 6 := ⟨scriptFuel - (3 * args.length + 6), by omega⟩
  unfold runScriptCmd
  rw [hk, show scriptDepth = 5 + 1 from rfl, concat_runF 5 k args vars st hstale hcache
    (by intro ha l
        rw [show Vars.get vars cArgs = none from hclean cArgs (by decide)]
        simp [hempty ha])]
  exact clear_of_callerClean _ _ hclean

theorem C19_script_set_from_array_frame (args : List Str) (vars : Vars) (st : ScriptSt)
    (hclean : ∀ k, underPrefix "scope::set_from_array".toList k = true → Vars.get vars k = none)
    (hfree : tget st.coll.tbl (Coll.handleName st.coll.next) = none)
    (hfree1 : tget st.coll.tbl (Coll.handleName (st.coll.next + 1)) = none)
    (hne : args.head? ≠ some (Coll.handleName st.coll.next))
    (hok : ∀ a, args.head? = some a → ArgOK a = true)
    (hstale : NoStaleFor "scope::set_from_array".toList st.forStack)
    (hcI : IfCacheOK st.ifMeta "scope::set_from_array::1".toList 3)
    (hcF : CacheOK st.forMeta "scope::set_from_array::6".toList 8)
    (hfuel : ∀ a, args.head? = some a → 3 * arrLen st.coll.tbl a + 8 ≤ scriptFuel) :
    (runScriptCmd "set_from_array".toList args vars st).2.1 = vars := by
  cases args with
  | nil =>
    unfold runScriptCmd
    rw [runScriptCmdF_entry _ _ _ _ _ sfa_findScript sfa_parses, aliasRun_few _ _ _ _ _ _ _ (by decide)]
  | cons a rest =>
    have hne' : a ≠ Coll.handleName st.coll.next := fun e => hne (by simp [e])
    have hfu := hfuel a rfl
    obtain ⟨k, hk⟩ : ∃ k, scriptFuel = k + 3 * arrLen st.coll.tbl a + 8 :=
      ⟨scriptFuel - (3 * arrLen st.coll.tbl a + 8), by omega⟩
    unfold runScriptCmd
    rw [hk, show scriptDepth = 4 + 2 from rfl,
      sfa_runF 4 k a rest vars st hfree hfree1 hne' (hok a rfl) hstale hcI hcF]
    have := clear_of_callerClean sScope vars hclean
    cases tget st.coll.tbl a with
    | none => exact this
    | some v => cases v <;> exact this

/-- `map_contains_value`: besides its own prefix the run clears the prefix of the script command
    it calls inside its condition (`scope::map_is_empty::`, the nested wrapper's `clear` works on
    the same variable map) - so the caller must be clean under BOTH prefixes for an exact frame;
    in general the variables afterwards are the caller's minus both prefixes
    (`C12_script_map_contains_value_correct`, `LoopFrame.vars`). -/
theorem C19_script_map_contains_value_frame (args : List Str) (vars : Vars) (st : ScriptSt)
    (hclean : ∀ k, underPrefix "scope::map_contains_value".toList k = true → Vars.get vars k = none)
    (hclean' : ∀ k, underPrefix "scope::map_is_empty".toList k = true → Vars.get vars k = none)
    (hfree : tget st.coll.tbl (Coll.handleName st.coll.next) = none)
    (hfree1 : tget st.coll.tbl (Coll.handleName (st.coll.next + 1)) = none)
    (hfree2 : tget st.coll.tbl (Coll.handleName (st.coll.next + 2)) = none)
    (hok : ∀ a, args.head? = some a → ArgOK a = true)
    (hstale : NoStaleFor "scope::map_contains_value".toList st.forStack)
    (hc4 : IfCacheOK st.ifMeta "scope::map_contains_value::4".toList 16)
    (hc12 : IfCacheOK st.ifMeta "scope::map_contains_value::12".toList 14)
    (hc8 : CacheOK st.forMeta "scope::map_contains_value::8".toList 15)
    (hempty : tget st.coll.tbl [] = none)
    (hfuel : ∀ a, args.head? = some a → 6 * mapLen st.coll.tbl a + 16 ≤ scriptFuel) :
    (runScriptCmd "map_contains_value".toList args vars st).2.1 = vars := by
  have hkeys := mcv_keys
  match args with
  | [] => unfold runScriptCmd; rw [mcv_entry, aliasRun_few _ _ _ _ _ _ _ (by decide)]
  | [_] => unfold runScriptCmd; rw [mcv_entry, aliasRun_few _ _ _ _ _ _ _ (by simp)]
  | a :: v :: rest =>
    have hfu := hfuel a rfl
    obtain ⟨k, hk⟩ : ∃ k, scriptFuel = k + 6 * mapLen st.coll.tbl a + 16 :=
      ⟨scriptFuel - (6 * mapLen st.coll.tbl a + 16), by omega⟩
    obtain ⟨r, hrun, hpost⟩ := mcv_call 4 a v rest vars st hfree hfree1 hfree2 (hok a rfl) hstale
      (by rw [hkeys.1]; exact hc4) (by rw [hkeys.2.1]; exact hc12) (by rw [hkeys.2.2]; exact hc8)
      (by rw [show Vars.get vars mKH = none from hclean mKH (by decide)]; exact hempty)
    unfold runScriptCmd
    rw [hk, show scriptDepth = 4 + 2 from rfl, hrun k, hpost.frame.vars,
      clear_of_callerClean mieScope vars hclean', clear_of_callerClean mScope vars hclean]

/-- `array_concat` on live arrays: every variable the three loops write is under the prefix -/
theorem C19_script_array_concat_frame (a : Str) (rest : List Str) (vars : Vars) (st : ScriptSt)
    (hclean : ∀ k, underPrefix "scope::array_concat".toList k = true → Vars.get vars k = none)
    (hfree : tget st.coll.tbl (Coll.handleName st.coll.next) = none)
    (hfree1 : tget st.coll.tbl (Coll.handleName (st.coll.next + 1)) = none)
    (hlive : ∀ x ∈ a :: rest, ∃ l, tget st.coll.tbl x = some (.list l))
    (hok : ∀ x ∈ a :: rest, ArgOK x = true)
    (hstale : NoStaleFor "scope::array_concat".toList st.forStack)
    (hc1 : CacheOK st.forMeta "scope::array_concat::1".toList 5)
    (hc2 : IfCacheOK st.ifMeta "scope::array_concat::2".toList 4)
    (hc9 : CacheOK st.forMeta "scope::array_concat::9".toList 13)
    (hc10 : CacheOK st.forMeta "scope::array_concat::10".toList 12)
    (hfuel : 6 * (a :: rest).length + 3 * (acCells st.coll.tbl (a :: rest)).length + 9 ≤ scriptFuel) :
    (runScriptCmd "array_concat".toList (a :: rest) vars st).2.1 = vars := by
  have hkeys := ac_keys
  have hcost := acCost_eq st.coll.tbl (a :: rest)
  obtain ⟨k, hk⟩ : ∃ k, scriptFuel = k + 3 * (a :: rest).length + acCost st.coll.tbl (a :: rest) + 9 :=
    ⟨scriptFuel - (3 * (a :: rest).length + acCost st.coll.tbl (a :: rest) + 9), by omega⟩
  obtain ⟨r, hrun, hpost⟩ := ac_call 4 a rest vars st hfree hfree1 (fun x hx => ⟨hok x hx, hlive x hx⟩) hstale
    (by rw [hkeys.1]; exact hc1) (by rw [hkeys.2.1]; exact hc2) (by rw [hkeys.2.2.1]; exact hc9)
    (by rw [hkeys.2.2.2]; exact hc10)
  unfold runScriptCmd
  rw [hk, show scriptDepth = 4 + 2 from rfl, hrun k, hpost.frame.vars]
  exact clear_of_callerClean aScope vars hclean

/-- `array_contains`: every variable the body writes or unsets is under the prefix -/
theorem C19_script_array_contains_frame (args : List Str) (vars : Vars) (st : ScriptSt)
    (hclean : ∀ k, underPrefix "scope::array_contains".toList k = true → Vars.get vars k = none)
    (hfree : tget st.coll.tbl (Coll.handleName st.coll.next) = none)
    (hne : args.head? ≠ some (Coll.handleName st.coll.next))
    (hstale : NoStaleFor "scope::array_contains".toList st.forStack)
    (hc5 : CacheOK st.forMeta "scope::array_contains::5".toList 14)
    (hc8 : IfCacheOK st.ifMeta "scope::array_contains::8".toList 11)
    (hE : ∀ l, tget st.coll.tbl [] ≠ some (.list l))
    (hfuel : ∀ a, args.head? = some a → 7 * arrLen st.coll.tbl a + 12 ≤ scriptFuel) :
    (runScriptCmd "array_contains".toList args vars st).2.1 = vars := by
  match args with
  | [] => unfold runScriptCmd; rw [kc_entry, aliasRun_few _ _ _ _ _ _ _ (by decide)]
  | [_] => unfold runScriptCmd; rw [kc_entry, aliasRun_few _ _ _ _ _ _ _ (by simp)]
  | a :: v :: rest =>
    have hfu := hfuel a rfl
    obtain ⟨k, hk⟩ : ∃ k, scriptFuel = k + 7 * arrLen st.coll.tbl a + 12 :=
      ⟨scriptFuel - (7 * arrLen st.coll.tbl a + 12), by omega⟩
    have hlen : arrLen st.coll.tbl a < Calc.two53 := by
      have : scriptFuel = 100000 := rfl
      unfold Calc.two53; omega
    obtain ⟨r, hrun, hpost⟩ := kc_call 5 a v rest vars st hfree (fun e => hne (by simp [e])) hstale
      (by rw [kc_keys.1]; exact hc5) (by rw [kc_keys.2]; exact hc8) hE hlen
    unfold runScriptCmd
    rw [hk, show scriptDepth = 5 + 1 from rfl, hrun k, hpost.frame.vars]
    exact clear_of_callerClean kScope vars hclean

/-- `array_join` (handle and separator of the class `ArgOK`): like `map_contains_value` the run
    clears the prefix of the script command inside its condition (`scope::array_is_empty::`) too -/
theorem C19_script_array_join_frame (a sep : Str) (rest : List Str) (vars : Vars) (st : ScriptSt)
    (hclean : ∀ k, underPrefix "scope::array_join".toList k = true → Vars.get vars k = none)
    (hclean' : ∀ k, underPrefix "scope::array_is_empty".toList k = true → Vars.get vars k = none)
    (hfree : tget st.coll.tbl (Coll.handleName st.coll.next) = none)
    (hfree1 : tget st.coll.tbl (Coll.handleName (st.coll.next + 1)) = none)
    (hne : a ≠ Coll.handleName st.coll.next)
    (hok : ArgOK a = true) (hsepOK : ArgOK sep = true)
    (hstale : NoStaleFor "scope::array_join".toList st.forStack)
    (hc1 : IfCacheOK st.ifMeta "scope::array_join::1".toList 3)
    (hc5 : IfCacheOK st.ifMeta "scope::array_join::5".toList 16)
    (hc10 : IfCacheOK st.ifMeta "scope::array_join::10".toList 15)
    (hc6 : CacheOK st.forMeta "scope::array_join::6".toList 8)
    (hsize : ∀ l, tget st.coll.tbl a = some (.list l) →
      (utf8Encode (joinStr sep (l.map Item.render))).length + (utf8Encode sep).length < Calc.two53)
    (hfuel : 3 * arrLen st.coll.tbl a + 16 ≤ scriptFuel) :
    (runScriptCmd "array_join".toList (a :: sep :: rest) vars st).2.1 = vars := by
  obtain ⟨k, hk⟩ : ∃ k, scriptFuel = k + 3 * arrLen st.coll.tbl a + 16 :=
    ⟨scriptFuel - (3 * arrLen st.coll.tbl a + 16), by omega⟩
  obtain ⟨r, hrun, hpost⟩ := aj_call 3 a sep rest vars st hfree hfree1 hne hok hsepOK hstale
    (by rw [aj_keys.1]; exact hc1) (by rw [aj_keys.2.1]; exact hc5) (by rw [aj_keys.2.2.1]; exact hc10)
    (by rw [aj_keys.2.2.2]; exact hc6) (hclean jString (by decide)) (fun l hl => aj_size sep _ (hsize l hl))
  unfold runScriptCmd
  rw [hk, show scriptDepth = 3 + 3 from rfl, hrun k, hpost.frame.vars,
    clear_of_callerClean aieScope vars hclean', clear_of_callerClean jScope vars hclean]
  simp

/-- the temporary `::arguments` array is released and nothing else is allocated or released:
    stated with the results in `C12_script_*_correct` (table lookup-equal to the caller's). -/
example : True := trivial

end Duck
