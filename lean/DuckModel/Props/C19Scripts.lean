/-
  C19 (no trace in the caller's variables) for script-implemented commands run from their
  regenerated source: for the four loop-free collection scripts the frame is UNCONDITIONAL - no
  hypothesis about the callees (`SemFrame` of `C19_scripts_frame`), they are executed by the
  model.  Every argument list, every state; the only hypothesis is the one `clear` forces: the
  caller has no variable under the command's own prefix (`CallerClean`, unfolded here because
  Props/C19.lean imports this file).
-/
import DuckModel.Lemmas.ScriptRunLemmas
import DuckModel.Lemmas.ScriptLoopConcat
import DuckModel.Lemmas.ScriptLoopSetFromArray

namespace Duck
open Duck.Alias Duck.Coll Duck.ScriptRun Duck.Spec

/-- the variables after any run of one of the three `*_is_empty` scripts -/
theorem C19_script_size_vars (name sizeName : Str) (sc : Generated.ScriptCmd) (c : CollCmd) (len : Value → Option Nat)
    (hf : findScript name = some sc) (hp : parseText sc.script = .ok (sizeIs sc.scopeName sizeName))
    (hamount : sc.argumentsAmount = 1)
    (hk1 : KeyOK (argKey sc.scopeName 1)) (hk2 : KeyOK (lenKey sc.scopeName))
    (hs1 : findScript sizeName = none) (hr1 : resolveNative sizeName = some (.coll c))
    (hc : ∀ (s : Coll.St) key rest, Coll.exec s c (key :: rest) =
      match (tget s.tbl key).bind len with
      | some n => (s, .val (some (natStr n)))
      | none => (s, .err))
    (args : List Str) (vars : Vars) (st : ScriptSt)
    (hclean : ∀ k, underPrefix sc.scopeName k = true → Vars.get vars k = none) :
    (runScriptCmd name args vars st).2.1 = vars := by
  unfold runScriptCmd
  rw [scriptFuel_eq, sizeScript_runF name sizeName sc c len hf hp hamount hk1 hk2 hs1 hr1 hc]
  cases args with
  | nil => rfl
  | cons a rest => exact clear_of_callerClean _ _ hclean

theorem C19_script_array_is_empty_frame (args : List Str) (vars : Vars) (st : ScriptSt)
    (hclean : ∀ k, underPrefix "scope::array_is_empty".toList k = true → Vars.get vars k = none) :
    (runScriptCmd "array_is_empty".toList args vars st).2.1 = vars :=
  C19_script_size_vars "array_is_empty".toList "array_length".toList
    Generated.cmd_collections_array_is_empty .arrayLength
    (fun v => match v with | .list l => some l.length | _ => none)
    (by rfl) (parsesTo_eq (by decide +kernel)) rfl (by decide) (by decide)
    (by decide +kernel) (by decide +kernel)
    (by intro s key rest
        simp only [Coll.exec, cmdArrayLength]
        cases hv : tget s.tbl key with
        | none => rfl
        | some v => cases v <;> rfl)
    args vars st hclean

theorem C19_script_map_is_empty_frame (args : List Str) (vars : Vars) (st : ScriptSt)
    (hclean : ∀ k, underPrefix "scope::map_is_empty".toList k = true → Vars.get vars k = none) :
    (runScriptCmd "map_is_empty".toList args vars st).2.1 = vars :=
  C19_script_size_vars "map_is_empty".toList "map_size".toList
    Generated.cmd_collections_map_is_empty .mapSize
    (fun v => match v with | .map m => some m.length | _ => none)
    (by rfl) (parsesTo_eq (by decide +kernel)) rfl (by decide) (by decide)
    (by decide +kernel) (by decide +kernel)
    (by intro s key rest
        simp only [Coll.exec, cmdMapSize]
        cases hv : tget s.tbl key with
        | none => rfl
        | some v => cases v <;> rfl)
    args vars st hclean

theorem C19_script_set_is_empty_frame (args : List Str) (vars : Vars) (st : ScriptSt)
    (hclean : ∀ k, underPrefix "scope::set_is_empty".toList k = true → Vars.get vars k = none) :
    (runScriptCmd "set_is_empty".toList args vars st).2.1 = vars :=
  C19_script_size_vars "set_is_empty".toList "set_size".toList
    Generated.cmd_collections_set_is_empty .setSize
    (fun v => match v with | .set x => some x.length | _ => none)
    (by rfl) (parsesTo_eq (by decide +kernel)) rfl (by decide) (by decide)
    (by decide +kernel) (by decide +kernel)
    (by intro s key rest
        simp only [Coll.exec, cmdSetSize]
        cases hv : tget s.tbl key with
        | none => rfl
        | some v => cases v <;> rfl)
    args vars st hclean

theorem C19_script_map_contains_key_frame (args : List Str) (vars : Vars) (st : ScriptSt)
    (hclean : ∀ k, underPrefix "scope::map_contains_key".toList k = true → Vars.get vars k = none) :
    (runScriptCmd "map_contains_key".toList args vars st).2.1 = vars := by
  unfold runScriptCmd
  rw [scriptFuel_eq, mck_runF "map_contains_key".toList Generated.cmd_collections_map_contains_key
    (by rfl) (parsesTo_eq (by decide +kernel)) rfl (by decide) (by decide) (by decide)]
  match args with
  | [] => rfl
  | [_] => rfl
  | a :: b :: rest => exact clear_of_callerClean _ _ hclean

/-! ### scripts with a `for … in` loop (every variable the loop writes is under the prefix) -/

theorem C19_script_concat_frame (args : List Str) (vars : Vars) (st : ScriptSt)
    (hclean : ∀ k, underPrefix "scope::concat".toList k = true → Vars.get vars k = none)
    (hstale : NoStaleFor "scope::concat".toList st.forStack)
    (hcache : CacheOK st.forMeta "scope::concat::2".toList 4)
    (hempty : args = [] → tget st.coll.tbl [] = none)
    (hfuel : 3 * args.length + 6 ≤ scriptFuel) :
    (runScriptCmd "concat".toList args vars st).2.1 = vars := by
  obtain ⟨k, hk⟩ : ∃ k, scriptFuel = k + 3 * args.length + 6 := ⟨scriptFuel - (3 * args.length + 6), by omega⟩
  unfold runScriptCmd
  rw [hk, show scriptDepth = 5 + 1 from rfl, concat_runF 5 k args vars st hstale hcache
    (by intro ha l
        rw [show Vars.get vars cArgs = none from hclean cArgs (by decide)]
        simp [hempty ha])]
  exact clear_of_callerClean _ _ hclean

theorem C19_script_set_from_array_frame (args : List Str) (vars : Vars) (st : ScriptSt)
    (hclean : ∀ k, underPrefix "scope::set_from_array".toList k = true → Vars.get vars k = none)
    (hfree : tget st.coll.tbl (Coll.handleName st.coll.next) = none)
    (hfree1 : tget st.coll.tbl (Coll.handleName (st.coll.next + 1)) = none)
    (hne : args.head? ≠ some (Coll.handleName st.coll.next))
    (hok : ∀ a, args.head? = some a → ArgOK a = true)
    (hstale : NoStaleFor "scope::set_from_array".toList st.forStack)
    (hcI : IfCacheOK st.ifMeta "scope::set_from_array::1".toList 3)
    (hcF : CacheOK st.forMeta "scope::set_from_array::6".toList 8)
    (hfuel : ∀ a, args.head? = some a → 3 * arrLen st.coll.tbl a + 8 ≤ scriptFuel) :
    (runScriptCmd "set_from_array".toList args vars st).2.1 = vars := by
  cases args with
  | nil =>
    unfold runScriptCmd
    rw [runScriptCmdF_entry _ _ _ _ _ sfa_findScript sfa_parses, aliasRun_few _ _ _ _ _ _ _ (by decide)]
  | cons a rest =>
    have hne' : a ≠ Coll.handleName st.coll.next := fun e => hne (by simp [e])
    have hfu := hfuel a rfl
    obtain ⟨k, hk⟩ : ∃ k, scriptFuel = k + 3 * arrLen st.coll.tbl a + 8 :=
      ⟨scriptFuel - (3 * arrLen st.coll.tbl a + 8), by omega⟩
    unfold runScriptCmd
    rw [hk, show scriptDepth = 4 + 2 from rfl,
      sfa_runF 4 k a rest vars st hfree hfree1 hne' (hok a rfl) hstale hcI hcF]
    have := clear_of_callerClean sScope vars hclean
    cases tget st.coll.tbl a with
    | none => exact this
    | some v => cases v <;> exact this

/-- the temporary `::arguments` array is released and nothing else is allocated or released:
    stated with the results in `C12_script_*_correct` (table lookup-equal to the caller's). -/
example : True := trivial

end Duck
