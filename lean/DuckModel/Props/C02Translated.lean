/-
  C02 — the hand-written expansion scanner IS the translation of the current source.

  `Generated/ScannerExpand.lean` is produced on every run by the Rust→Lean translator
  (bin/rust2lean.py, bin/fragments/scanner_expand.py) from the loop of `expand_by_wrapper`, from
  `should_break_key` and from `push_prefix` in duckscript/src/expansion.rs.  The theorems prove
  that the step function the C02 theorems are about (`Duck.xStep`) equals the translation for every
  variable map, scanner state and character; hence the folds over any argument text agree.
-/
import DuckModel.Expansion
import DuckModel.Generated.ScannerExpand

namespace Duck
open Duck.Generated

theorem C02_break_key_translation (c : Char) : shouldBreakKeyGen c = shouldBreakKey c := rfl

theorem C02_push_prefix_translation (buf : Str) (s f : Bool) : pushPrefixGen buf s f = pushPrefix buf s f := by
  unfold pushPrefixGen pushPrefix
  cases s <;> cases f <;> simp

/-- the translated loop body equals the hand-written one -/
theorem C02_scanner_translation (vars : Vars) (st : XSt) (c : Char) :
    xStepGen vars st c = xStep vars st c := by
  obtain ⟨out, pi, fp, key, force, single⟩ := st
  unfold xStepGen xStep
  simp only [C02_break_key_translation, C02_push_prefix_translation]
  cases fp <;> cases force <;> simp <;> repeat' split
  all_goals first
    | rfl
    | (simp_all; try omega)
    | (simp_all [pushPrefix]; try omega)

/-- the scan over a whole argument text -/
theorem C02_scanner_translation_fold (vars : Vars) (st : XSt) (value : Str) :
    value.foldl (xStepGen vars) st = value.foldl (xStep vars) st := by
  induction value generalizing st with
  | nil => rfl
  | cons c rest ih => simp only [List.foldl_cons, C02_scanner_translation, ih]

end Duck
