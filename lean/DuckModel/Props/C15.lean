/-
  C15 — the command registry is a consistent name/alias map.
  This file: the public `Commands` API.  The script-level commands (alias, unalias,
  remove_command, is_command_defined, fn): Props/C15Script.lean (theorems `C15_script_…`).
  Props/C15Translated.lean: the methods of `impl Commands` as TRANSLATED from the current source
  (Generated/RegistryFns.lean, over an abstract finite map) compute what this model computes
  (theorems `C15_registry_translation_<method>`).
-/
import DuckModel.Registry
import DuckModel.Lemmas.RegistryLemmas
import DuckModel.Props.C15Script
import DuckModel.Props.C15Dyn
import DuckModel.Props.C15Translated

namespace Duck

/-- registry invariant: every alias points to a registered command that lists it, and
    every command is stored under its own name -/
def Reg.Inv (r : Reg) : Prop :=
  (∀ a m, r.aliases.get a = some m → ∃ c, r.commands.get m = some c ∧ a ∈ c.aliases) ∧
  (∀ m c, r.commands.get m = some c → c.name = m)

/-- a registration is refused exactly when its name is a registered name or one of its
    aliases is a registered alias … -/
theorem C15_refused_iff (r : Reg) (c : CmdSpec) :
    (r.set c).2 = false ↔
      (r.commands.get c.name).isSome = true ∨ ∃ a ∈ c.aliases, (r.aliases.get a).isSome = true := by
  rcases Reg.set_cases r c with ⟨hc, e⟩ | ⟨⟨hn, ha⟩, e⟩
  · rw [e]; simpa using hc
  · rw [e]
    constructor
    · intro h; cases h
    · rintro (h | ⟨a, hm, h⟩)
      · simp [hn] at h
      · simp [ha a hm] at h

/-- … and a refused registration leaves the registry exactly as it was -/
theorem C15_refused_unchanged (r : Reg) (c : CmdSpec) (h : (r.set c).2 = false) :
    (r.set c).1.commands = r.commands ∧ (r.set c).1.aliases = r.aliases := by
  rcases Reg.set_cases r c with ⟨_, e⟩ | ⟨_, e⟩
  · rw [e]; exact ⟨rfl, rfl⟩
  · rw [e] at h; cases h

/-- an accepted registration makes the command reachable under its name and every alias -/
theorem C15_accepted_reachable (r : Reg) (c : CmdSpec) (h : (r.set c).2 = true) :
    (r.set c).1.get c.name = some c ∧ ∀ a ∈ c.aliases, (r.set c).1.get a = some c := by
  rcases Reg.set_cases r c with ⟨_, e⟩ | ⟨_, e⟩
  · rw [e] at h; cases h
  · rw [e]
    constructor
    · by_cases hm : c.name ∈ c.aliases <;>
        simp [Reg.get, Reg.resolve, Reg.setOk_aliases_get, Reg.setOk_commands_get, hm]
    · intro a ha
      simp [Reg.get, Reg.resolve, Reg.setOk_aliases_get, Reg.setOk_commands_get, ha]

-- (`hinv` turns out not to be needed for the proof; the statement is kept as given)
set_option linter.unusedVariables false in
/-- an accepted registration does not disturb any other name: lookups of names that are
    neither the new name nor one of the new aliases are unchanged -/
theorem C15_accepted_frame (r : Reg) (c : CmdSpec) (h : (r.set c).2 = true) (hinv : r.Inv)
    (n : Str) (hn : n ≠ c.name) (ha : n ∉ c.aliases) (hr : r.resolve n ≠ c.name) :
    (r.set c).1.get n = r.get n := by
  rcases Reg.set_cases r c with ⟨_, e⟩ | ⟨_, e⟩
  · rw [e] at h; cases h
  · rw [e]
    have hal : (r.setOk c).aliases.get n = r.aliases.get n := by
      simp [Reg.setOk_aliases_get, ha, hn]
    have hres : (r.setOk c).resolve n = r.resolve n := by
      simp [Reg.resolve, hal]
    simp only [Reg.get, hres, Reg.setOk_commands_get, hr, if_false]

/-- lookups consult the alias table first -/
theorem C15_alias_first (r : Reg) (a m : Str) (h : r.aliases.get a = some m) :
    r.get a = r.commands.get m := by
  simp [Reg.get, Reg.resolve, h]

/-- removing a command (by name or alias) removes it together with exactly the aliases that
    point to it, and nothing else -/
theorem C15_remove_exact (r : Reg) (n : Str) (c : CmdSpec) (hinv : r.Inv)
    (hc : r.get n = some c) :
    (r.remove n).2 = true ∧
    (∀ m, (r.remove n).1.commands.get m = if m = c.name then none else r.commands.get m) ∧
    (∀ a, (r.remove n).1.aliases.get a =
      if r.aliases.get a = some c.name then none else r.aliases.get a) := by
  have hk : r.commands.get (r.resolve n) = some c := hc
  have hname : c.name = r.resolve n := hinv.2 _ _ hk
  rw [Reg.remove_some r n c hk]
  refine ⟨rfl, ?_, ?_⟩
  · intro m
    simp only [Reg.removeOk_commands_get, hname]
  · intro a
    simp only [Reg.removeOk_aliases_get]
    by_cases hcond : r.aliases.get a = some c.name
    · obtain ⟨c', hc', hac'⟩ := hinv.1 a c.name hcond
      rw [hname, hk] at hc'
      cases hc'
      simp [hcond, hac']
    · simp [hcond]

/-- removing an unknown name changes nothing -/
theorem C15_remove_unknown (r : Reg) (n : Str) (h : r.get n = none) :
    (r.remove n).2 = false ∧ (r.remove n).1.commands = r.commands ∧
      (r.remove n).1.aliases = r.aliases := by
  have hk : r.commands.get (r.resolve n) = none := h
  rw [Reg.remove_none r n hk]
  exact ⟨rfl, rfl, rfl⟩

/-- the invariant is preserved by every operation … -/
theorem C15_inv_step (r : Reg) (op : RegOp) (h : r.Inv) : (r.apply op).1.Inv := by
  exact Reg.invP_apply r op h

/-- … so after any history no alias points to a command that is gone -/
theorem C15_no_dangling (ops : List RegOp) (a m : Str)
    (h : ((Reg.run {} ops).1).aliases.get a = some m) :
    (((Reg.run {} ops).1).commands.get m).isSome = true := by
  obtain ⟨c, hc, _⟩ := (Reg.invP_run {} ops Reg.invP_empty).1 a m h
  simp [hc]

/-- `get_all_command_names` lists exactly the registered names -/
theorem C15_names_complete (r : Reg) (n : Str) :
    n ∈ r.names ↔ (r.commands.get n).isSome = true := by
  unfold Reg.names
  rw [Reg.mem_sortStrs, KV.get_isSome_iff_mem]

/-- `get_all_command_names` is sorted (no later element is strictly below an earlier one) -/
theorem C15_names_sorted (r : Reg) :
    (r.names).Pairwise (fun a b => Reg.strLt b a = false) :=
  Reg.pairwise_sortStrs _

/-- every registry reachable from the empty one satisfies the invariant -/
theorem C15_invariant_reachable (ops : List RegOp) : ((Reg.run {} ops).1).Inv :=
  Reg.invP_run {} ops Reg.invP_empty

/-- the invariant of the script-level theorems (`Reg.InvP` in Props/C15Script.lean, which this file
    imports and therefore cannot use `Reg.Inv`) is this very invariant -/
theorem C15_inv_iff_invP (r : Reg) : r.Inv ↔ r.InvP := Iff.rfl

/-! ### non-vacuity -/

section Examples

private def cA : CmdSpec := { name := "a".toList, aliases := ["x".toList], tag := 1 }
private def cX : CmdSpec := { name := "x".toList, aliases := [], tag := 2 }
private def cC : CmdSpec := { name := "c".toList, aliases := ["x".toList], tag := 3 }

/-- the history `set a[x]; set x[]; set c[x]; remove a` -/
private def hist : List RegOp := [.set cA, .set cX, .set cC, .remove "a".toList]

/-- `set x[]` is accepted although `x` is an alias of `a` (and wipes that alias), so `set c[x]`
    is accepted as well; after `remove a` the alias `x ↦ c` is still in place -/
example : (Reg.run {} hist).2 = [.bool true, .bool true, .bool true, .bool true] := by decide
example : (Reg.run {} hist).1.aliases.get "x".toList = some "c".toList := by decide
example : (Reg.run {} hist).1.get "x".toList = some cC := by decide
example : (Reg.run {} hist).1.get "a".toList = none := by decide
example : (Reg.run {} hist).1.names = ["c".toList, "x".toList] := by decide

/-- a refused registration (alias clash) and a removal through an alias -/
example : (Reg.run {} [.set cA, .set cC, .remove "x".toList, .names]).2 =
    [.bool true, .bool false, .bool true, .names []] := by decide

/-- a concrete non-empty registry satisfying the invariant -/
example : (Reg.set {} cA).1.Inv ∧ (Reg.set {} cA).1.get "x".toList = some cA :=
  ⟨C15_inv_step {} (.set cA) Reg.invP_empty, by decide⟩

/-- the invariant is not trivially true: a dangling alias violates it -/
example : ¬ Reg.Inv { commands := [], aliases := [("x".toList, "a".toList)] } := by
  intro h
  obtain ⟨c, hc, _⟩ := h.1 "x".toList "a".toList (by decide)
  simp at hc

end Examples

end Duck
