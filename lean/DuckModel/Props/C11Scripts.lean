/-
  C11 - `unset` RUN FROM ITS REGENERATED SOURCE (`Generated.scripts`, std/var/unset/script.ds):
  the alias wrapper + `for name in ${arguments}` / `set_by_name ${name}` remove exactly the named
  variables (and, through the wrapper's `clear`, the command's own name space `scope::unset::`),
  for every argument list, variable map and state.  This ties the function `VarScope.cmdUnset`
  (the model of `unset` the C11 theorems of Props/C11.lean are about) to the script text: the
  source-run model computes it.

  Hypotheses:
    * `hnotin`: no argument is the name `scope::unset::arguments` (the loop's own handle variable:
      unsetting it ends the loop early - the remaining names stay defined; in /repo too);
    * `hempty`: without arguments the script's `for` reads a variable the wrapper did not set; the
      caller's value of it (if any) must not name an array;
    * `hstale`, `hcache`: the flow-control state (see Props/C12Scripts.lean); the instruction
      budget covers `3·n + 3` instructions.
-/
import DuckModel.Lemmas.ScriptLoopUnset
import DuckModel.Lemmas.VarScopeLemmas

namespace Duck
open Duck.Alias Duck.Coll Duck.ScriptRun Duck.Spec

/-- `unset` from source = `VarScope.cmdUnset` (result `Continue(None)`, variables), and pointwise:
    a variable is defined afterwards iff it was defined, is not named by an argument and is not in
    the command's own name space - with the value it had. -/
theorem C11_script_unset_correct (args : List Str) (vars : Vars) (st : ScriptSt)
    (hstale : NoStaleFor "scope::unset".toList st.forStack)
    (hcache : CacheOK st.forMeta "scope::unset::1".toList 3)
    (hempty : args = [] → ∀ l, tget st.coll.tbl ((vars.get "scope::unset::arguments".toList).getD []) ≠ some (.list l))
    (hnotin : "scope::unset::arguments".toList ∉ args)
    (hfuel : 3 * args.length + 3 ≤ scriptFuel) :
    (runScriptCmd "unset".toList args vars st).1 = (VarScope.cmdUnset vars args).2 ∧
    (runScriptCmd "unset".toList args vars st).2.1 = (VarScope.cmdUnset vars args).1 ∧
    (∀ k, Vars.get (runScriptCmd "unset".toList args vars st).2.1 k =
      if k ∈ args ∨ underPrefix "scope::unset".toList k = true then none else Vars.get vars k) := by
  obtain ⟨k, hk⟩ : ∃ k, scriptFuel = k + 3 * args.length + 3 := ⟨scriptFuel - (3 * args.length + 3), by omega⟩
  unfold runScriptCmd
  rw [hk, show scriptDepth = 5 + 1 from rfl, unset_runF 5 k args vars st hstale hcache hempty hnotin]
  refine ⟨rfl, rfl, ?_⟩
  intro x
  exact unset_get vars args x

/-- the table reads as before (the temporary argument array is gone again), the allocator drew
    one name (none without arguments), line context and both call stacks are as before -/
theorem C11_script_unset_frame (args : List Str) (vars : Vars) (st : ScriptSt)
    (hfree : tget st.coll.tbl (Coll.handleName st.coll.next) = none)
    (hstale : NoStaleFor "scope::unset".toList st.forStack)
    (hcache : CacheOK st.forMeta "scope::unset::1".toList 3)
    (hempty : args = [] → ∀ l, tget st.coll.tbl ((vars.get "scope::unset::arguments".toList).getD []) ≠ some (.list l))
    (hnotin : "scope::unset::arguments".toList ∉ args)
    (hfuel : 3 * args.length + 3 ≤ scriptFuel) :
    LookupEq (runScriptCmd "unset".toList args vars st).2.2.coll.tbl st.coll.tbl ∧
    (runScriptCmd "unset".toList args vars st).2.2.coll.next = st.coll.next + (if args = [] then 0 else 1) ∧
    (runScriptCmd "unset".toList args vars st).2.2.ctx = st.ctx ∧
    (runScriptCmd "unset".toList args vars st).2.2.forStack = st.forStack ∧
    (runScriptCmd "unset".toList args vars st).2.2.ifStack = st.ifStack ∧
    NoStaleFor "scope::unset".toList (runScriptCmd "unset".toList args vars st).2.2.forStack ∧
    CacheOK (runScriptCmd "unset".toList args vars st).2.2.forMeta "scope::unset::1".toList 3 := by
  obtain ⟨k, hk⟩ : ∃ k, scriptFuel = k + 3 * args.length + 3 := ⟨scriptFuel - (3 * args.length + 3), by omega⟩
  unfold runScriptCmd
  rw [hk, show scriptDepth = 5 + 1 from rfl, unset_runF 5 k args vars st hstale hcache hempty hnotin]
  refine ⟨?_, ?_, rfl, rfl, rfl, hstale, cacheOK_forMetaAfter _ _ _ hcache⟩
  · intro h
    by_cases ha : args = []
    · simp [uFinal, ha]
    · simp only [uFinal, ha, if_false, tget_tremove, tget_tinsert]
      by_cases e : h = Coll.handleName st.coll.next
      · simp [e, hfree]
      · simp [e]
  · by_cases ha : args = [] <;> simp [uFinal, ha]

/-- termination: every budget of at least `3·n + 3` instructions gives the same run -/
theorem C11_script_unset_terminates (depth fuel : Nat) (args : List Str) (vars : Vars) (st : ScriptSt)
    (hstale : NoStaleFor "scope::unset".toList st.forStack)
    (hcache : CacheOK st.forMeta "scope::unset::1".toList 3)
    (hempty : args = [] → ∀ l, tget st.coll.tbl ((vars.get "scope::unset::arguments".toList).getD []) ≠ some (.list l))
    (hnotin : "scope::unset::arguments".toList ∉ args)
    (hfuel : 3 * args.length + 3 ≤ fuel) :
    runScriptCmdF (depth + 1) fuel "unset".toList args vars st =
      runScriptCmdF (depth + 1) (3 * args.length + 3) "unset".toList args vars st := by
  obtain ⟨k, rfl⟩ : ∃ k, fuel = k + 3 * args.length + 3 := ⟨fuel - (3 * args.length + 3), by omega⟩
  have h0 := unset_runF depth 0 args vars st hstale hcache hempty hnotin
  rw [show 0 + 3 * args.length + 3 = 3 * args.length + 3 by omega] at h0
  rw [unset_runF depth k args vars st hstale hcache hempty hnotin, h0]

/-- `hnotin` cannot be dropped: naming the loop's own handle variable ends the loop early, the
    later names stay defined (here `b`); the specified function removes all three -/
theorem C11_script_unset_own_handle_variable :
    let vars : Vars := [("a".toList, "1".toList), ("b".toList, "2".toList)]
    let args := ["a".toList, "scope::unset::arguments".toList, "b".toList]
    Vars.get (runScriptCmd "unset".toList args vars {}).2.1 "b".toList = some "2".toList ∧
    Vars.get (runScriptCmd "unset".toList args vars {}).2.1 "a".toList = none ∧
    Vars.get (VarScope.cmdUnset vars args).1 "b".toList = none := by
  decide +kernel

/-- non-vacuity: the hypotheses hold in the initial state -/
example : NoStaleFor "scope::unset".toList ({} : ScriptSt).forStack ∧
    CacheOK ({} : ScriptSt).forMeta "scope::unset::1".toList 3 := by
  refine ⟨?_, Or.inl rfl⟩
  intro e h
  cases h

end Duck
