/-
  C04 / C05 — the interpreter model resolves the straight-line SDK commands it knows by
  exactly the spellings the source registers (regenerated on every run), and the flow-control
  commands by exactly the spellings of the regenerated keyword tables.
-/
import DuckModel.Sdk.Flow
import DuckModel.Generated.CmdNames
import DuckModel.Spec.TreeWF
import DuckModel.Lemmas.NamesLemmas

namespace Duck
open Duck.Generated Duck.Spec

/-- every registered spelling of set / equals / not / array / range resolves to that command,
    and the model knows no further spelling of them -/
theorem C04_straightline_names :
    (∀ n, n ∈ cmdNamesSet ↔ resolveCmd {} n = some .set) ∧
    (∀ n, n ∈ cmdNamesEquals ↔ resolveCmd {} n = some .equals) ∧
    (∀ n, n ∈ cmdNamesNot ↔ resolveCmd {} n = some .notC) ∧
    (∀ n, n ∈ cmdNamesArray ↔ resolveCmd {} n = some .array) ∧
    (∀ n, n ∈ cmdNamesRange ↔ resolveCmd {} n = some .range) := by
  refine ⟨fun n => ⟨?_, fun h => ?_⟩, fun n => ⟨?_, fun h => ?_⟩, fun n => ⟨?_, fun h => ?_⟩,
    fun n => ⟨?_, fun h => ?_⟩, fun n => ⟨?_, fun h => ?_⟩⟩
  · revert n; decide
  · rcases (resolveCmd_straight_inv h).1 rfl with rfl | rfl <;> decide
  · revert n; decide
  · rcases (resolveCmd_straight_inv h).2.1 rfl with rfl | rfl | rfl <;> decide
  · revert n; decide
  · rcases (resolveCmd_straight_inv h).2.2.1 rfl with rfl | rfl <;> decide
  · revert n; decide
  · rcases (resolveCmd_straight_inv h).2.2.2.1 rfl with rfl | rfl <;> decide
  · revert n; decide
  · rcases (resolveCmd_straight_inv h).2.2.2.2 rfl with rfl | rfl <;> decide

/-- every spelling of a flow-control keyword resolves to its command -/
theorem C04_flow_names (k : Str) :
    (isIfKw k = true → resolveCmd {} k = some .ifC) ∧
    (isElifKw k = true → resolveCmd {} k = some .elseIf) ∧
    (isElseKw k = true → resolveCmd {} k = some .elseC) ∧
    (namesEndIfCommand.contains k = true → resolveCmd {} k = some .endIf) ∧
    (isWhileKw k = true → resolveCmd {} k = some .whileC) ∧
    (namesEndWhileCommand.contains k = true → resolveCmd {} k = some .endWhile) ∧
    (isForKw k = true → resolveCmd {} k = some .forIn) ∧
    (namesEndForInCommand.contains k = true → resolveCmd {} k = some .endFor) ∧
    (isFnKw k = true → resolveCmd {} k = some .function) ∧
    (namesEndFunctionCommand.contains k = true → resolveCmd {} k = some .endFunction) ∧
    (namesReturnCommand.contains k = true → resolveCmd {} k = some .returnC) ∧
    (k = endWord → resolveCmd {} k = some .endC) := by
  refine ⟨?_, ?_, ?_, ?_, ?_, ?_, ?_, ?_, ?_, ?_, ?_, ?_⟩
  · exact forall_contains (by decide) k
  · exact forall_contains (by decide) k
  · exact forall_contains (by decide) k
  · exact forall_contains (by decide) k
  · exact forall_contains (by decide) k
  · exact forall_contains (by decide) k
  · exact forall_contains (by decide) k
  · exact forall_contains (by decide) k
  · exact forall_contains (by decide) k
  · exact forall_contains (by decide) k
  · exact forall_contains (by decide) k
  · rintro rfl; decide

end Duck
