/-
  C04 / C05 — the interpreter model resolves the straight-line SDK commands it knows by
  exactly the spellings the source registers (regenerated on every run), and the flow-control
  commands by exactly the spellings of the regenerated keyword tables.
-/
import DuckModel.Sdk.Flow
import DuckModel.Generated.CmdNames
import DuckModel.Spec.TreeWF
import DuckModel.Lemmas.NamesLemmas

namespace Duck
open Duck.Generated Duck.Spec

/-- every registered spelling of set / equals / not / array / range resolves to that command,
    and the model knows no further spelling of them -/
theorem C04_straightline_names :
    (∀ n, n ∈ cmdNamesSet ↔ resolveCmd {} n = some .set) ∧
    (∀ n, n ∈ cmdNamesEquals ↔ resolveCmd {} n = some .equals) ∧
    (∀ n, n ∈ cmdNamesNot ↔ resolveCmd {} n = some .notC) ∧
    (∀ n, n ∈ cmdNamesArray ↔ resolveCmd {} n = some .array) ∧
    (∀ n, n ∈ cmdNamesRange ↔ resolveCmd {} n = some .range) := by
  refine ⟨fun n => ⟨?_, fun h => ?_⟩, fun n => ⟨?_, fun h => ?_⟩, fun n => ⟨?_, fun h => ?_⟩,
    fun n => ⟨?_, fun h => ?_⟩, fun n => ⟨?_, fun h => ?_⟩⟩
  · revert n; decide
  · rcases (resolveCmd_straight_inv h).1 rfl with rfl | rfl <;> decide
  · revert n; decide
  · rcases (resolveCmd_straight_inv h).2.1 rfl with rfl | rfl | rfl <;> decide
  · revert n; decide
  · rcases (resolveCmd_straight_inv h).2.2.1 rfl with rfl | rfl <;> decide
  · revert n; decide
  · rcases (resolveCmd_straight_inv h).2.2.2.1 rfl with rfl | rfl <;> decide
  · revert n; decide
  · rcases (resolveCmd_straight_inv h).2.2.2.2 rfl with rfl | rfl <;> decide

/-- every spelling of a flow-control keyword resolves to its command -/
theorem C04_flow_names (k : Str) :
    (isIfKw k = true → resolveCmd {} k = some .ifC) ∧
    (isElifKw k = true → resolveCmd {} k = some .elseIf) ∧
    (isElseKw k = true → resolveCmd {} k = some .elseC) ∧
    (namesEndIfCommand.contains k = true → resolveCmd {} k = some .endIf) ∧
    (isWhileKw k = true → resolveCmd {} k = some .whileC) ∧
    (namesEndWhileCommand.contains k = true → resolveCmd {} k = some .endWhile) ∧
    (isForKw k = true → resolveCmd {} k = some .forIn) ∧
    (namesEndForInCommand.contains k = true → resolveCmd {} k = some .endFor) ∧
    (isFnKw k = true → resolveCmd {} k = some .function) ∧
    (namesEndFunctionCommand.contains k = true → resolveCmd {} k = some .endFunction) ∧
    (namesReturnCommand.contains k = true → resolveCmd {} k = some .returnC) ∧
    (k = endWord → resolveCmd {} k = some .endC) := by
  exact ⟨resolveCmd_ifKw k, resolveCmd_elifKw k, resolveCmd_elseKw k, resolveCmd_endIfKw k,
    resolveCmd_whileKw k, resolveCmd_endWhileKw k, resolveCmd_forKw k, resolveCmd_endForKw k,
    resolveCmd_fnKw k, resolveCmd_endFnKw k, resolveCmd_returnKw k,
    fun h => h ▸ resolveCmd_endWord⟩

end Duck
