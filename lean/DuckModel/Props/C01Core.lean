/-
  C01 — a line written with the documented syntax parses back to the same instruction.
  ONLY property theorems and their non-vacuity examples live here; helper lemmas are in
  DuckModel/Lemmas/.
-/
import DuckModel.Parser
import DuckModel.Spec.Render
import DuckModel.Lemmas.ParserLemmas

namespace Duck
open Duck.Spec

/-- Every argument list over arbitrary Unicode (spaces, quotes, backslashes, `#`, `=`, `:`,
    `$`, `%`, tabs, line breaks, the empty string …), rendered with any spacing and any
    quote-when-optional choice and followed by an optional comment, parses back to exactly
    that list. -/
theorem C01_args_roundtrip (ch : List (Nat × Bool)) (k : Nat) (args : List Str)
    (cm : Option (Nat × Str)) :
    parseArgsLoop false (renderArgs ch k args ++ renderComment cm) = .ok args :=
  parseArgsLoop_render ch args k (renderComment cm) (EolTail.renderComment cm)

/-- One rendered line parses to exactly the instruction it was rendered from. -/
theorem C01_line_roundtrip (ch : Choices) (i : ScriptInstr) (hi : InstrOK i) (hc : ChoicesOK ch) :
    parseLine (renderLine ch i) = .ok (expected i) :=
  line_roundtrip ch i hi hc

/-- A script of n rendered lines parses to n instructions in order, the k-th carrying
    source line number k. -/
theorem C01_script_roundtrip (items : List (Choices × ScriptInstr × Bool))
    (h : ∀ x ∈ items, InstrOK x.2.1 ∧ ChoicesOK x.1) :
    parseText (renderScript items) = .ok (numbered 1 items) := by
  unfold parseText parseTextFs
  exact script_roundtrip _ _ items h 1

/-- … also when the last line is not terminated. -/
theorem C01_script_roundtrip_open (items : List (Choices × ScriptInstr × Bool))
    (h : ∀ x ∈ items, InstrOK x.2.1 ∧ ChoicesOK x.1)
    (hlast : ∀ x, items.getLast? = some x → renderLine x.1 x.2.1 ≠ []) :
    parseText (renderScriptOpen items) = .ok (numbered 1 items) := by
  unfold parseText parseTextFs
  exact script_roundtrip_open _ _ items h hlast 1

/-! ### the hypotheses are satisfiable (non-vacuity) -/

/-- the label `:l`, the output `x`, the command `cmd` and awkward arguments -/
def C01_sampleInstr : ScriptInstr :=
  { label := some ":l".toList, output := some "x".toList, command := some "cmd".toList,
    args := some ["".toList, "a b".toList, "x\"y\\".toList, "#".toList, "=".toList,
      "${v}".toList, "\n".toList] }

def C01_sampleChoices : Choices :=
  { lead := " \t".toList, trail := "\r".toList, afterLabel := 2, eqBefore := 1, eqAfter := 3,
    args := [(0, true), (2, false)], comment := some (1, " note # \" ".toList) }

example : InstrOK C01_sampleInstr := instrOK_of_b _ (by decide)

example : ChoicesOK C01_sampleChoices := choicesOK_of_b _ (by decide)

/-- so the line theorem applies to the sample line -/
example : parseLine (renderLine C01_sampleChoices C01_sampleInstr) = .ok (.script C01_sampleInstr) :=
  C01_line_roundtrip _ _ (instrOK_of_b _ (by decide)) (choicesOK_of_b _ (by decide))

/-- … and the script theorems to a script made of it (LF and CRLF line ends) and a blank line -/
example : (∀ x ∈ [(C01_sampleChoices, C01_sampleInstr, true), (C01_sampleChoices, C01_sampleInstr, false),
      (({} : Choices), ({} : ScriptInstr), false)], InstrOK x.2.1 ∧ ChoicesOK x.1) := by
  intro x hx
  simp only [List.mem_cons, List.not_mem_nil, or_false] at hx
  rcases hx with rfl | rfl | rfl <;>
    exact ⟨instrOK_of_b _ (by decide), choicesOK_of_b _ (by decide)⟩

/-- white space other than the space character may stand INSIDE an argument written without
    quotes (only `' '` separates tokens); at either end it would be trimmed, so quotes are
    demanded there -/
example : canUnquote ['a', '\u00a0', 'b'] = true ∧ canUnquote ['a', '\u3000'] = false ∧
    canUnquote ['\u00a0', 'a'] = false ∧ canUnquote ['a', ' ', 'b'] = false := by decide

/-- an instruction outside the domain (output variable containing `=`) is rejected by `InstrOK` -/
example : ¬ InstrOK { output := some "a=b".toList, command := some "c".toList } := by
  intro h
  have := (h.output "a=b".toList rfl).2.1
  exact absurd (this '=' (by decide)) (by decide)

end Duck
