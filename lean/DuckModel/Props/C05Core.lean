/-
  C05 — functions: arguments, return values, early return and scoped isolation.

  Theorems about the transcribed commands of `Sdk/Flow.lean` (`run_call`, `end_fn`, `return`,
  `scope::push/pop`), at full generality: arbitrary nested evaluator `nested`, arbitrary generic-end
  dispatcher `endRec`, arbitrary instruction list `is`, arbitrary state, variables and arguments.

  * `C05_call_binds_args`, `C05_params_lookup`, `C05_params_other` — a call of a defined function
    jumps to the line after `fn`, pushes the call frame and binds `1`..`n` (on top of the caller's
    variables for a plain function, on top of NOTHING for a `<scope>` function).
  * `C05_call_undefined` — calling an undefined name is an error and changes nothing.
  * `C05_return_value`, `C05_return_bare`, `C05_return_scoped`, `C05_return_scoped_bare`,
    `C05_end_function`, `C05_end_function_scoped`, `C05_no_matching_frame_*` — what `return` and
    `end_fn` do with the frame, the output variable and the saved scope.
  * `C05_scoped_isolation` — scoped call, ANY body, `return v`: the caller's variables are exactly
    those before the call plus the output variable.
  * `C05_return_ignores_block_stacks_*` — `return` / `end_fn` neither read nor write the
    if / while / for stacks (why leaving if/while nests through `return` is harmless).
  * KNOWN DEFECT: `C05_return_leaves_for_state`, `C05_fresh_call_counterexample`,
    `C05_fresh_call_refuted` — `return` from inside a for-in body leaves the loop's iteration entry
    on the for stack, so the next call of the same function RESUMES the old iteration instead of
    starting afresh (`r1 = a`, `r2 = b`).

  Corner that the property leaves open, stated precisely in `C05_return_scoped_bare` /
  `C05_end_function_scoped`: a `<scope>` call that ends without a value restores EXACTLY the saved
  variables, so an output variable that held a value before the call holds it again afterwards
  (the runner erased it only in the callee's scope).
-/
import DuckModel.Sdk.Flow
import DuckModel.Spec.Tree
import DuckModel.Lemmas.FunctionLemmas

namespace Duck
open Duck.Fn

section commands
variable (nested : EvalFn)
  (endRec : Cmd → List Str → Option Str → Nat → Vars → Sdk → CmdResult × Vars × Sdk)
  (is : List Instruction)

/-- the frame `run_call` pushes -/
def callFrame (s : Sdk) (fi : FnInfo) (out : Option Str) (line : Nat) : FnCall :=
  { callLine := line, startLine := fi.start, endLine := fi.stop, ctx := s.lineCtx, out := out,
    isScoped := fi.isScoped }

/-- `return` on line `line` belongs to the frame `ci` -/
abbrev RetMatches (ci : FnCall) (line : Nat) (s : Sdk) : Prop :=
  ci.startLine < line ∧ line < ci.endLine ∧ ci.ctx = s.lineCtx

/-- `end_fn` on line `line` belongs to the frame `ci` -/
abbrev EndMatches (ci : FnCall) (line : Nat) (s : Sdk) : Prop :=
  ci.endLine = line ∧ ci.ctx = s.lineCtx

/-! ### 1. the call -/

/-- calling a defined function: jump to the first body line, push the frame, bind `1`..`n`;
    a `<scope>` function starts from the EMPTY variable map and the caller's variables are saved -/
theorem C05_call_binds_args (name : Str) (args : List Str) (out : Option Str) (line : Nat)
    (vars : Vars) (s : Sdk) (fi : FnInfo) (h : s.fns.get name = some fi) :
    runCmd nested endRec is (.call name) args out line vars s =
      (.goTo none (.line (fi.start + 1)),
       Spec.bindParams (if fi.isScoped then [] else vars) args,
       { s with fnStack := callFrame s fi out line :: s.fnStack,
                scopeStack := if fi.isScoped then vars :: s.scopeStack else s.scopeStack }) := by
  simp only [runCmd, h]
  cases hsc : fi.isScoped <;> simp [scopePush_nil, Spec.bindParams, callFrame, hsc]

/-- `${i+1}` is the `i`-th argument -/
theorem C05_params_lookup (base : Vars) (args : List Str) (i : Nat) (h : i < args.length) :
    (Spec.bindParams base args).get (natToStr (i + 1)) = args[i]? := by
  have := get_bindFrom_hit 0 base args i h
  simpa [bindParams_eq] using this

/-- every name that is not one of `1`..`n` keeps its `base` value -/
theorem C05_params_other (base : Vars) (args : List Str) (k : Str)
    (h : ¬ IsParam args.length k) :
    (Spec.bindParams base args).get k = base.get k := by
  rw [bindParams_eq]
  apply get_bindFrom_other
  intro i hi e
  exact h ⟨i, hi, by simpa using e⟩

/-- the parameter names are pairwise different (so the lookups above are unambiguous) -/
theorem C05_param_names_injective (i j : Nat) (h : natToStr (i + 1) = natToStr (j + 1)) : i = j := by
  have := natToStr_inj h
  omega

/-! ### 2. undefined function -/

theorem C05_call_undefined (name : Str) (args : List Str) (out : Option Str) (line : Nat)
    (vars : Vars) (s : Sdk) (h : s.fns.get name = none) :
    runCmd nested endRec is (.call name) args out line vars s = (.error [], vars, s) := by
  simp only [runCmd, h, errR]

/-! ### 3. `return` from a plain function -/

/-- `return v …`: pop the frame, store `v` in the call's output variable, resume after the call
    with `v` as the flow value; nothing else changes -/
theorem C05_return_value (v : Str) (more : List Str) (out : Option Str) (line : Nat) (vars : Vars)
    (s : Sdk) (ci : FnCall) (rest : List FnCall) (hs : s.fnStack = ci :: rest)
    (hm : RetMatches ci line s) (hp : ci.isScoped = false) :
    runCmd nested endRec is .returnC (v :: more) out line vars s =
      (.goTo (some v) (.line (ci.callLine + 1)), Vars.updateOutput vars ci.out (some v),
       { s with fnStack := rest }) := by
  obtain ⟨h1, h2, h3⟩ := hm
  simp only [runCmd, hs, List.head?_cons, h1, h2, h3, hp, and_self, if_true, List.tail_cons,
    List.head?_cons]
  cases ci.out <;> simp [Vars.updateOutput]

/-- bare `return`: pop the frame, ERASE the call's output variable, no flow value -/
theorem C05_return_bare (out : Option Str) (line : Nat) (vars : Vars)
    (s : Sdk) (ci : FnCall) (rest : List FnCall) (hs : s.fnStack = ci :: rest)
    (hm : RetMatches ci line s) (hp : ci.isScoped = false) :
    runCmd nested endRec is .returnC [] out line vars s =
      (.goTo none (.line (ci.callLine + 1)), Vars.updateOutput vars ci.out none,
       { s with fnStack := rest }) := by
  obtain ⟨h1, h2, h3⟩ := hm
  simp only [runCmd, hs, List.head?_cons, h1, h2, h3, hp, and_self, if_true, List.tail_cons]
  cases ci.out <;> simp [Vars.updateOutput]

/-- lookup form: only the output variable changes -/
theorem C05_return_lookup (vars : Vars) (o : Option Str) (v : Option Str) (k : Str) :
    (Vars.updateOutput vars o v).get k = if o = some k then v else vars.get k := by
  cases o with
  | none => simp [Vars.updateOutput]
  | some n =>
    cases v with
    | some x =>
      simp only [Vars.updateOutput, VarScope.get_set, Option.some.injEq]
      by_cases h : k = n
      · subst h; simp
      · have : ¬ n = k := fun e => h e.symm
        simp [h, this]
    | none =>
      simp only [Vars.updateOutput, VarScope.get_erase, Option.some.injEq]
      by_cases h : k = n
      · subst h; simp
      · have : ¬ n = k := fun e => h e.symm
        simp [h, this]

/-! ### 4. `return` from a `<scope>` function -/

/-- `return v …` with the caller's variables `saved` on top of the scope stack: the variables
    afterwards are `saved` plus `out ↦ v` — whatever the body did to the variable map -/
theorem C05_return_scoped (v : Str) (more : List Str) (out : Option Str) (line : Nat) (vars : Vars)
    (s : Sdk) (ci : FnCall) (rest : List FnCall) (saved : Vars) (scopes : List Vars)
    (hs : s.fnStack = ci :: rest) (hsc : s.scopeStack = saved :: scopes)
    (hm : RetMatches ci line s) (hp : ci.isScoped = true) :
    runCmd nested endRec is .returnC (v :: more) out line vars s =
      (.goTo (some v) (.line (ci.callLine + 1)), Vars.updateOutput saved ci.out (some v),
       { s with fnStack := rest, scopeStack := scopes }) := by
  obtain ⟨h1, h2, h3⟩ := hm
  simp only [runCmd, hs, List.head?_cons, h1, h2, h3, hp, and_self, if_true, List.tail_cons]
  cases ci.out with
  | none =>
    rw [scopePop_nil _ _ saved scopes (by simpa using hsc)]
    simp [Vars.updateOutput]
  | some n =>
    rw [scopePop_one _ _ saved scopes n (by simpa using hsc)]
    simp [Vars.updateOutput, VarScope.get_set]

/-- lookup form of `C05_return_scoped` -/
theorem C05_return_scoped_lookup (v : Str) (more : List Str) (out : Option Str) (line : Nat)
    (vars : Vars) (s : Sdk) (ci : FnCall) (rest : List FnCall) (saved : Vars) (scopes : List Vars)
    (hs : s.fnStack = ci :: rest) (hsc : s.scopeStack = saved :: scopes)
    (hm : RetMatches ci line s) (hp : ci.isScoped = true) (k : Str) :
    (runCmd nested endRec is .returnC (v :: more) out line vars s).2.1.get k =
      if ci.out = some k then some v else saved.get k := by
  rw [C05_return_scoped nested endRec is v more out line vars s ci rest saved scopes hs hsc hm hp]
  exact C05_return_lookup saved ci.out (some v) k

/-- bare `return` in a `<scope>` function: the variables afterwards are EXACTLY `saved`.  The
    output variable is erased in the callee's map first, so the copy list `[out]` finds nothing to
    copy: `ci.out` ends up with whatever value the caller had for it before the call
    (`saved.get out`), not "undefined" — the corner the property leaves open. -/
theorem C05_return_scoped_bare (out : Option Str) (line : Nat) (vars : Vars)
    (s : Sdk) (ci : FnCall) (rest : List FnCall) (saved : Vars) (scopes : List Vars)
    (hs : s.fnStack = ci :: rest) (hsc : s.scopeStack = saved :: scopes)
    (hm : RetMatches ci line s) (hp : ci.isScoped = true) :
    runCmd nested endRec is .returnC [] out line vars s =
      (.goTo none (.line (ci.callLine + 1)), saved,
       { s with fnStack := rest, scopeStack := scopes }) := by
  obtain ⟨h1, h2, h3⟩ := hm
  simp only [runCmd, hs, List.head?_cons, h1, h2, h3, hp, and_self, if_true, List.tail_cons]
  cases ci.out with
  | none =>
    rw [scopePop_nil _ _ saved scopes (by simpa using hsc)]
    simp
  | some n =>
    rw [scopePop_one _ _ saved scopes n (by simpa using hsc)]
    simp [VarScope.get_erase]

/-- a `<scope>` frame without a saved scope (cannot arise from `run_call`): error result; the
    frame is gone and the output variable already written -/
theorem C05_return_scoped_no_saved (args : List Str) (out : Option Str) (line : Nat) (vars : Vars)
    (s : Sdk) (ci : FnCall) (rest : List FnCall)
    (hs : s.fnStack = ci :: rest) (hsc : s.scopeStack = [])
    (hm : RetMatches ci line s) (hp : ci.isScoped = true) :
    runCmd nested endRec is .returnC args out line vars s =
      (.error [], Vars.updateOutput vars ci.out args.head?, { s with fnStack := rest }) := by
  obtain ⟨h1, h2, h3⟩ := hm
  simp only [runCmd, hs, List.head?_cons, h1, h2, h3, hp, and_self, if_true, List.tail_cons]
  rw [scopePop_empty _ _ _ (by simpa using hsc)]
  cases ci.out <;> cases args <;> simp [Vars.updateOutput, errR]

/-! ### 5. reaching the end of the function -/

/-- `end_fn` of a plain function: pop the frame, resume after the call, variables untouched -/
theorem C05_end_function (args : List Str) (out : Option Str) (line : Nat) (vars : Vars)
    (s : Sdk) (ci : FnCall) (rest : List FnCall) (hs : s.fnStack = ci :: rest)
    (hm : EndMatches ci line s) (hp : ci.isScoped = false) :
    runCmd nested endRec is .endFunction args out line vars s =
      (.goTo none (.line (ci.callLine + 1)), vars, { s with fnStack := rest }) := by
  obtain ⟨h1, h2⟩ := hm
  simp [runCmd, hs, h1, h2, hp]

/-- `end_fn` of a `<scope>` function: the variables are EXACTLY the saved ones (copy list empty) -/
theorem C05_end_function_scoped (args : List Str) (out : Option Str) (line : Nat) (vars : Vars)
    (s : Sdk) (ci : FnCall) (rest : List FnCall) (saved : Vars) (scopes : List Vars)
    (hs : s.fnStack = ci :: rest) (hsc : s.scopeStack = saved :: scopes)
    (hm : EndMatches ci line s) (hp : ci.isScoped = true) :
    runCmd nested endRec is .endFunction args out line vars s =
      (.goTo none (.line (ci.callLine + 1)), saved,
       { s with fnStack := rest, scopeStack := scopes }) := by
  obtain ⟨h1, h2⟩ := hm
  simp only [runCmd, hs, List.head?_cons, h1, h2, hp, and_self, if_true, List.tail_cons]
  rw [scopePop_nil _ _ saved scopes (by simpa using hsc)]

/-- `return` without a matching frame on top (or with no frame at all) is a no-op -/
theorem C05_no_matching_frame_return (args : List Str) (out : Option Str) (line : Nat)
    (vars : Vars) (s : Sdk) (h : ∀ ci, s.fnStack.head? = some ci → ¬ RetMatches ci line s) :
    runCmd nested endRec is .returnC args out line vars s = (.continue none, vars, s) := by
  simp only [runCmd]
  cases hh : s.fnStack.head? with
  | none => rfl
  | some ci =>
    have := h ci hh
    simp only [RetMatches] at this
    simp [this]

/-- `end_fn` without a matching frame on top (or with no frame at all) is a no-op -/
theorem C05_no_matching_frame_end (args : List Str) (out : Option Str) (line : Nat)
    (vars : Vars) (s : Sdk) (h : ∀ ci, s.fnStack.head? = some ci → ¬ EndMatches ci line s) :
    runCmd nested endRec is .endFunction args out line vars s = (.continue none, vars, s) := by
  simp only [runCmd]
  cases hh : s.fnStack.head? with
  | none => rfl
  | some ci =>
    have := h ci hh
    simp only [EndMatches] at this
    simp [this]

/-! ### 6. scoped isolation (call ∘ any body ∘ return) -/

/-- A `<scope>` call made with variables `vars0`; then ANY body: the variables `bodyVars` and the
    state `s1` at the `return` are arbitrary except that the call's frame and saved scope are on
    top of their stacks and the line context is the same.  The body started from the parameter
    bindings only (no caller variable is visible), and after `return v` the variables are `vars0`
    plus `out ↦ v`, the two stacks are back to what was below. -/
theorem C05_scoped_isolation (name : Str) (args : List Str) (out : Option Str) (callLine : Nat)
    (vars0 : Vars) (s0 : Sdk) (fi : FnInfo)
    (hfi : s0.fns.get name = some fi) (hsc : fi.isScoped = true)
    (bodyVars : Vars) (s1 : Sdk) (frames : List FnCall) (scopes : List Vars)
    (hfn : s1.fnStack = callFrame s0 fi out callLine :: frames)
    (hscope : s1.scopeStack = vars0 :: scopes) (hctx : s1.lineCtx = s0.lineCtx)
    (retLine : Nat) (h1 : fi.start < retLine) (h2 : retLine < fi.stop)
    (v : Str) (more : List Str) (retOut : Option Str) :
    let c := runCmd nested endRec is (.call name) args out callLine vars0 s0
    let r := runCmd nested endRec is .returnC (v :: more) retOut retLine bodyVars s1
    -- the call: parameters only, caller variables saved
    c.1 = .goTo none (.line (fi.start + 1)) ∧
    c.2.1 = Spec.bindParams [] args ∧
    (∀ k, ¬ IsParam args.length k → c.2.1.get k = none) ∧
    c.2.2.fnStack = callFrame s0 fi out callLine :: s0.fnStack ∧
    c.2.2.scopeStack = vars0 :: s0.scopeStack ∧
    -- the return
    r.1 = .goTo (some v) (.line (callLine + 1)) ∧
    (∀ k, r.2.1.get k = if out = some k then some v else vars0.get k) ∧
    r.2.2 = { s1 with fnStack := frames, scopeStack := scopes } := by
  intro c r
  have hc : c = _ := C05_call_binds_args nested endRec is name args out callLine vars0 s0 fi hfi
  have hm : RetMatches (callFrame s0 fi out callLine) retLine s1 :=
    ⟨h1, h2, by simp [callFrame, hctx]⟩
  have hr : r = _ := C05_return_scoped nested endRec is v more retOut retLine bodyVars s1
    (callFrame s0 fi out callLine) frames vars0 scopes hfn hscope hm (by simpa [callFrame] using hsc)
  clear_value c r
  subst hc hr
  refine ⟨rfl, by simp [hsc], ?_, rfl, by simp [hsc], rfl, ?_, rfl⟩
  · intro k hk
    simp only [hsc, if_true]
    rw [C05_params_other [] args k hk]
    rfl
  · intro k
    exact C05_return_lookup vars0 out (some v) k

/-! ### 7. `return` / `end_fn` do not look at the if / while / for stacks -/

/-- replace the three block stacks -/
def withBlockStacks (s : Sdk) (ifS : List IfCall) (whS : List WhileCall) (foS : List ForCall) : Sdk :=
  { s with ifStack := ifS, whileStack := whS, forStack := foS }

/-- not read: running with other block stacks gives the same result, variables and remaining
    state (the block stacks are carried along untouched) -/
theorem C05_return_ignores_block_stacks (c : Cmd) (hc : c = .returnC ∨ c = .endFunction)
    (args : List Str) (out : Option Str) (line : Nat) (vars : Vars) (s : Sdk)
    (ifS : List IfCall) (whS : List WhileCall) (foS : List ForCall) :
    runCmd nested endRec is c args out line vars (withBlockStacks s ifS whS foS) =
      ((runCmd nested endRec is c args out line vars s).1,
       (runCmd nested endRec is c args out line vars s).2.1,
       withBlockStacks (runCmd nested endRec is c args out line vars s).2.2 ifS whS foS) := by
  rcases hc with rfl | rfl
  · simp only [runCmd, withBlockStacks]
    cases s.fnStack.head? with
    | none => rfl
    | some ci =>
      simp only
      by_cases hcond : ci.startLine < line ∧ line < ci.endLine ∧ ci.ctx = s.lineCtx
      · simp only [hcond, and_self, if_true]
        cases hsc : ci.isScoped
        · simp
        · simp only [scopePop, if_true]
          cases s.scopeStack.head? <;> simp
      · simp only [hcond, if_false]
  · simp only [runCmd, withBlockStacks]
    cases s.fnStack.head? with
    | none => rfl
    | some ci =>
      simp only
      by_cases hcond : ci.endLine = line ∧ ci.ctx = s.lineCtx
      · simp only [hcond, and_self, if_true]
        cases hsc : ci.isScoped
        · simp
        · simp only [scopePop, if_true]
          cases s.scopeStack.head? <;> simp
      · simp only [hcond, if_false]

/-- not written: the three block stacks of the result are those of the input -/
theorem C05_return_keeps_block_stacks (c : Cmd) (hc : c = .returnC ∨ c = .endFunction)
    (args : List Str) (out : Option Str) (line : Nat) (vars : Vars) (s : Sdk) :
    (runCmd nested endRec is c args out line vars s).2.2.ifStack = s.ifStack ∧
    (runCmd nested endRec is c args out line vars s).2.2.whileStack = s.whileStack ∧
    (runCmd nested endRec is c args out line vars s).2.2.forStack = s.forStack := by
  rcases hc with rfl | rfl
  · simp only [runCmd]
    cases s.fnStack.head? with
    | none => exact ⟨rfl, rfl, rfl⟩
    | some ci =>
      simp only
      by_cases hcond : ci.startLine < line ∧ line < ci.endLine ∧ ci.ctx = s.lineCtx
      · simp only [hcond, and_self, if_true]
        cases hsc : ci.isScoped
        · simp
        · simp only [scopePop, if_true]
          cases s.scopeStack.head? <;> simp
      · simp only [hcond, if_false, and_self]
  · simp only [runCmd]
    cases s.fnStack.head? with
    | none => exact ⟨rfl, rfl, rfl⟩
    | some ci =>
      simp only
      by_cases hcond : ci.endLine = line ∧ ci.ctx = s.lineCtx
      · simp only [hcond, and_self, if_true]
        cases hsc : ci.isScoped
        · simp
        · simp only [scopePop, if_true]
          cases s.scopeStack.head? <;> simp
      · simp only [hcond, if_false, and_self]

/-! ### 8. the known defect: `return` out of a for-in loop leaves the loop's iteration state -/

/-- `return` leaves the for stack exactly as it is — even when the top entry `fc` is the iteration
    state of a loop INSIDE the returning function (`ci.startLine < fc.start`, `fc.stop < ci.endLine`,
    same line context), i.e. a loop that this `return` has just left for good. -/
theorem C05_return_leaves_for_state (args : List Str) (out : Option Str) (line : Nat)
    (vars : Vars) (s : Sdk) (ci : FnCall) (rest : List FnCall) (fc : ForCall) (fors : List ForCall)
    (_hs : s.fnStack = ci :: rest) (_hm : RetMatches ci line s)
    (_hf : s.forStack = fc :: fors)
    (_hin : ci.startLine < fc.start ∧ fc.stop < ci.endLine ∧ fc.ctx = ci.ctx) :
    (runCmd nested endRec is .returnC args out line vars s).2.2.forStack = fc :: fors := by
  rw [← _hf]
  exact (C05_return_keeps_block_stacks nested endRec is .returnC (Or.inl rfl) args out line vars s).2.2

end commands

/-! ### the witness program -/

/-- a script line from string literals -/
def C05_line (out : Option String) (cmd : String) (args : List String) : ScriptInstr :=
  Spec.mkInstr (out.map String.toList) cmd.toList (args.map String.toList)

/-- ```
    h = array a b c
    fn f
    for i in ${h}
    return ${i}
    end
    end
    r1 = f
    r2 = f
    ``` -/
def C05_witness : List Instruction := Spec.program.go
  [ C05_line (some "h") "array" ["a", "b", "c"],
    C05_line none "fn" ["f"],
    C05_line none "for" ["i", "in", "${h}"],
    C05_line none "return" ["${i}"],
    C05_line none "end" [],
    C05_line none "end" [],
    C05_line (some "r1") "f" [],
    C05_line (some "r2") "f" [] ] 1

/-- the two calls return DIFFERENT elements: the second call resumes the loop the first call left
    (a fresh call would return "a" twice); the stale entry is still on the for stack at the end -/
theorem C05_fresh_call_counterexample :
    (interpRun 200 C05_witness [] {}).2 = .reachedEnd ∧
    (interpRun 200 C05_witness [] {}).1.vars.get "r1".toList = some "a".toList ∧
    (interpRun 200 C05_witness [] {}).1.vars.get "r2".toList = some "b".toList ∧
    (interpRun 200 C05_witness [] {}).1.st.forStack =
      [{ iteration := 2, start := 2, stop := 4, ctx := [] }] ∧
    (interpRun 200 C05_witness [] {}).1.st.fnStack = [] := by
  decide +kernel

/-- The same function called twice with the same argument; `scoped = true` makes the body see
    exactly the same variables (only `1`) in both calls.
    ```
    h = array <items>
    fn [<scope>] f
    for i in ${1}
    return ${i}
    end
    end
    r1 = f ${h}
    r2 = f ${h}
    ``` -/
def C05_twoCalls (sc : Bool) (items : List Str) : List Instruction := Spec.program.go
  [ Spec.mkInstr (some "h".toList) "array".toList items,
    Spec.mkInstr none "fn".toList (if sc then ["<scope>".toList, "f".toList] else ["f".toList]),
    C05_line none "for" ["i", "in", "${1}"],
    C05_line none "return" ["${i}"],
    C05_line none "end" [],
    C05_line none "end" [],
    C05_line (some "r1") "f" ["${h}"],
    C05_line (some "r2") "f" ["${h}"] ] 1

/-- "every later call starts afresh": in the two-call program family (any array content, plain or
    `<scope>` function) both calls — same function, same argument — give the same result.
    FALSE for the implementation, see `C05_fresh_call_refuted`. -/
def C05_fresh_call_statement : Prop :=
  ∀ (sc : Bool) (items : List Str) (fuel : Nat),
    (interpRun fuel (C05_twoCalls sc items) [] {}).2 = .reachedEnd →
    (interpRun fuel (C05_twoCalls sc items) [] {}).1.vars.get "r1".toList =
      (interpRun fuel (C05_twoCalls sc items) [] {}).1.vars.get "r2".toList

theorem C05_fresh_call_scoped_counterexample :
    (interpRun 200 (C05_twoCalls true ["a".toList, "b".toList, "c".toList]) [] {}).2 = .reachedEnd ∧
    (interpRun 200 (C05_twoCalls true ["a".toList, "b".toList, "c".toList]) [] {}).1.vars.get "r1".toList
      = some "a".toList ∧
    (interpRun 200 (C05_twoCalls true ["a".toList, "b".toList, "c".toList]) [] {}).1.vars.get "r2".toList
      = some "b".toList := by
  decide +kernel

theorem C05_fresh_call_refuted : ¬ C05_fresh_call_statement := by
  intro h
  have h' := h true ["a".toList, "b".toList, "c".toList] 200
  obtain ⟨h0, h1, h2⟩ := C05_fresh_call_scoped_counterexample
  rw [h1, h2] at h'
  exact absurd (h' h0) (by decide)

/-- state form of "starts afresh": after a `return`, no iteration entry of a loop inside the
    function that has just returned is left on the for stack.  FALSE, by
    `C05_return_leaves_for_state`. -/
def C05_return_cleans_loops_statement : Prop :=
  ∀ (nested : EvalFn)
    (endRec : Cmd → List Str → Option Str → Nat → Vars → Sdk → CmdResult × Vars × Sdk)
    (is : List Instruction) (args : List Str) (out : Option Str) (line : Nat) (vars : Vars) (s : Sdk)
    (ci : FnCall) (rest : List FnCall), s.fnStack = ci :: rest → RetMatches ci line s →
    ∀ fc ∈ (runCmd nested endRec is .returnC args out line vars s).2.2.forStack,
      ¬ (ci.startLine < fc.start ∧ fc.stop < ci.endLine ∧ fc.ctx = ci.ctx)

theorem C05_return_cleans_loops_refuted : ¬ C05_return_cleans_loops_statement := by
  intro h
  let ci : FnCall := { callLine := 6, startLine := 1, endLine := 5, ctx := [], out := none, isScoped := false }
  let fc : ForCall := { iteration := 1, start := 2, stop := 4, ctx := [] }
  let s : Sdk := { fnStack := [ci], forStack := [fc] }
  have hm : RetMatches ci 3 s := by decide
  have hin : ci.startLine < fc.start ∧ fc.stop < ci.endLine ∧ fc.ctx = ci.ctx := by decide
  have hl := C05_return_leaves_for_state (fun _ _ v s => (none, none, v, s))
    (fun _ _ _ _ v s => (.continue none, v, s)) [] [] none 3 [] s ci [] fc [] rfl hm rfl hin
  exact h _ _ [] [] none 3 [] s ci [] rfl hm fc (by rw [hl]; simp) hin

/-! ### 9. non-vacuity: every hypothesis set above is satisfiable -/

section nonvacuity

def exFi : FnInfo := { start := 1, stop := 5, isScoped := true }
def exS0 : Sdk := { fns := [("f".toList, exFi)] }
def exFrame (sc : Bool) : FnCall :=
  { callLine := 6, startLine := 1, endLine := 5, ctx := [], out := some "r".toList, isScoped := sc }

/-- `C05_call_binds_args` -/
example : ∃ (s : Sdk) (name : Str) (fi : FnInfo), s.fns.get name = some fi :=
  ⟨exS0, "f".toList, exFi, by decide⟩
/-- `C05_params_lookup` -/
example : ∃ (args : List Str) (i : Nat), i < args.length := ⟨["x".toList], 0, by decide⟩
/-- `C05_params_other`: "x" is not a parameter name of a two-argument call -/
example : ¬ IsParam 2 "x".toList := by
  rintro ⟨i, hi, e⟩
  have : i = 0 ∨ i = 1 := by omega
  rcases this with rfl | rfl <;> exact absurd e (by decide)
/-- `C05_call_undefined` -/
example : (exS0.fns.get "g".toList) = none := by decide
/-- `C05_return_value`, `C05_return_bare`, `C05_return_scoped_no_saved` -/
example : ∃ s ci rest line, s.fnStack = ci :: rest ∧ RetMatches ci line s ∧ ci.isScoped = false ∧
    s.scopeStack = [] :=
  ⟨{ fnStack := [exFrame false] }, exFrame false, [], 3, rfl, by decide, rfl, rfl⟩
/-- `C05_return_scoped`, `C05_return_scoped_bare`, `C05_return_scoped_lookup` -/
example : ∃ s ci rest saved scopes line, s.fnStack = ci :: rest ∧ s.scopeStack = saved :: scopes ∧
    RetMatches ci line s ∧ ci.isScoped = true :=
  ⟨{ fnStack := [exFrame true], scopeStack := [[("x".toList, "1".toList)]] }, exFrame true, [], _, [], 3,
    rfl, rfl, by decide, rfl⟩
/-- `C05_end_function` -/
example : ∃ s ci rest line, s.fnStack = ci :: rest ∧ EndMatches ci line s ∧ ci.isScoped = false :=
  ⟨{ fnStack := [exFrame false] }, exFrame false, [], 5, rfl, by decide, rfl⟩
/-- `C05_end_function_scoped` -/
example : ∃ s ci rest saved scopes line, s.fnStack = ci :: rest ∧ s.scopeStack = saved :: scopes ∧
    EndMatches ci line s ∧ ci.isScoped = true :=
  ⟨{ fnStack := [exFrame true], scopeStack := [[]] }, exFrame true, [], [], [], 5, rfl, rfl, by decide, rfl⟩
/-- `C05_no_matching_frame_*`: empty stack, and a frame of another function -/
example : ∀ ci, ({} : Sdk).fnStack.head? = some ci → ¬ RetMatches ci 3 {} := by
  intro ci h; simp at h
example : ∀ ci, ({ fnStack := [exFrame false] } : Sdk).fnStack.head? = some ci →
    ¬ EndMatches ci 9 { fnStack := [exFrame false] } := by
  intro ci h
  simp only [List.head?_cons, Option.some.injEq] at h
  subst h
  decide
/-- `C05_scoped_isolation`: the hypotheses hold for the state right after the call itself -/
example : ∃ (s1 : Sdk) (frames : List FnCall) (scopes : List Vars) (vars0 : Vars) (retLine : Nat),
    exS0.fns.get "f".toList = some exFi ∧ exFi.isScoped = true ∧
    s1.fnStack = callFrame exS0 exFi (some "r".toList) 6 :: frames ∧
    s1.scopeStack = vars0 :: scopes ∧ s1.lineCtx = exS0.lineCtx ∧
    exFi.start < retLine ∧ retLine < exFi.stop :=
  ⟨{ exS0 with fnStack := [callFrame exS0 exFi (some "r".toList) 6], scopeStack := [[("x".toList, "1".toList)]] },
    [], [], _, 3, by decide, rfl, rfl, rfl, rfl, by decide, by decide⟩

/-- `C05_return_leaves_for_state`: see the state built in `C05_return_cleans_loops_refuted`; the
    witness run reaches such a state at its first `return` -/
example : ∃ (s : Sdk) (ci : FnCall) (rest : List FnCall) (fc : ForCall) (fors : List ForCall)
    (line : Nat), s.fnStack = ci :: rest ∧ RetMatches ci line s ∧
    s.forStack = fc :: fors ∧ (ci.startLine < fc.start ∧ fc.stop < ci.endLine ∧ fc.ctx = ci.ctx) :=
  ⟨{ fnStack := [exFrame false], forStack := [{ iteration := 1, start := 2, stop := 4, ctx := [] }] },
    exFrame false, [], _, [], 3, rfl, by decide, rfl, by decide⟩
/-- `C05_fresh_call_statement`: its premise (the run reaches the end) holds for the witness, and
    for the empty array both calls agree (so the statement is not trivially false either) -/
example : (interpRun 200 (C05_twoCalls true []) [] {}).2 = .reachedEnd ∧
    (interpRun 200 (C05_twoCalls true []) [] {}).1.vars.get "r1".toList =
      (interpRun 200 (C05_twoCalls true []) [] {}).1.vars.get "r2".toList := by
  decide +kernel

end nonvacuity

end Duck
