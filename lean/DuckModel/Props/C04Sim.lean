/-
  C04, stage 2 — execution is the structured one.
  The goto-machine (the runner model with the transcribed flow-control commands, their call
  stacks and line caches) executes a flattened well-nested program exactly like the
  tree-walking interpreter: same emit trace, same final variables, same collections.
-/
import DuckModel.Sdk.Flow
import DuckModel.Spec.TreeSimple
import DuckModel.Spec.TreeCmdCond
import DuckModel.Lemmas.SimLemmas
import DuckModel.Lemmas.SimMain
import DuckModel.Props.C03

namespace Duck
open Duck.Spec Duck.Generated

/-- the full statement of the property for the modelled interpreter: for every well-formed
    structured program without function definitions whose tree interpretation ends normally,
    the machine run of the flattened program reaches the end with the same observables -/
def C04_sim_statement : Prop :=
  ∀ (b : Block) (vars : Vars) (fuelT : Nat) (t' : TState),
    b.wf = true → b.noFn = true →
    execBlock (program b) fuelT b { vars := vars, sdk := {} } = .normal t' →
    ∃ fuelM rs, interpRun fuelM (program b) vars {} = (rs, .reachedEnd) ∧
      rs.vars = t'.vars ∧ rs.st.emitted = t'.sdk.emitted ∧ rs.st.handles = t'.sdk.handles

/-- proved for the simple fragment (conditions decided by the boolean-expression evaluator,
    straight-line commands set / equals / array / range / emit / inc / lt): if-chains with any
    number of elseif and an optional else, while loops and for-in loops, nested to any depth,
    any spelling of every keyword, any number of iterations -/
theorem C04_sim_partial (b : Block) (vars : Vars) (fuelT : Nat) (t' : TState)
    (hwf : b.wf = true) (hs : b.simple = true)
    (h : execBlock (program b) fuelT b { vars := vars, sdk := {} } = .normal t') :
    ∃ fuelM rs, interpRun fuelM (program b) vars {} = (rs, .reachedEnd) ∧
      rs.vars = t'.vars ∧ rs.st.emitted = t'.sdk.emitted ∧ rs.st.handles = t'.sdk.handles :=
  sim_program b vars fuelT t' hwf hs h

/-- the machine is deterministic in its fuel: once it reached the end, more fuel gives the
    same result — so the machine outcome above is THE outcome of the program -/
theorem C04_machine_fuel_mono (is : List Instruction) (vars : Vars) (s : Sdk) (fuel extra : Nat)
    (rs : RunState Sdk) (e : RunEnd)
    (h : runLoop (sdkSem (evalInstrsF fuel) is) is (labelTable is) (fun _ _ => false) fuel
          { line := 0, polls := 0, vars := vars, st := s } = (rs, e))
    (he : e ≠ .outOfFuel) :
    runLoop (sdkSem (evalInstrsF fuel) is) is (labelTable is) (fun _ _ => false) (fuel + extra)
          { line := 0, polls := 0, vars := vars, st := s } = (rs, e) :=
  C03_fuel_monotone _ is (labelTable is) _ fuel extra _ rs e h he

/-! ### command conditions (the simple2 fragment, Spec/TreeCmdCond.lean) -/

/-- conditions may also be COMMAND conditions — `equals …`, `lt …`, `emit …` (always falsy, logs its
    arguments) and `not` followed by one of those or by a value condition — which the interpreter
    evaluates by re-serialising the bound values, parsing the text again and running the single
    instruction in the nested mini-runner.  Hypothesis `CondArgsSafe`: every time a condition is
    evaluated in the tree run, the bound arguments of its command survive that round trip
    (`Reser.Safe`, `Reser.positionOK`, see C09); nothing is asked of value conditions. -/
theorem C04_sim_cmdcond_partial (b : Block) (vars : Vars) (fuelT : Nat) (t' : TState)
    (hwf : b.wf = true) (hs : b.simple2 = true) (hsafe : CondArgsSafe fuelT b vars)
    (h : execBlock (program b) fuelT b { vars := vars, sdk := {} } = .normal t') :
    ∃ fuelM rs, interpRun fuelM (program b) vars {} = (rs, .reachedEnd) ∧
      rs.vars = t'.vars ∧ rs.st.emitted = t'.sdk.emitted ∧ rs.st.handles = t'.sdk.handles :=
  sim_program2 b vars fuelT t' hwf hs hsafe h

/-- the fuel of the nested evaluator does not matter from 3 on for the conditions of the fragment
    (tree and machine evaluate conditions with different nested fuel) -/
theorem C04_nested_fuel_mono (cond : List Str) (vars : Vars) (is : List Instruction) (s : Sdk)
    (hc : condSimple2 cond = true) (hsafe : condArgsSafe (bind vars (some cond)) = true)
    (hf : s.fns = []) (f1 f2 : Nat) (h1 : 3 ≤ f1) (h2 : 3 ≤ f2) :
    evalCondition (evalInstrsF f1) is (bind vars (some cond)) vars s =
      evalCondition (evalInstrsF f2) is (bind vars (some cond)) vars s :=
  cond_fuel_mono cond vars is s hc hsafe hf f1 f2 h1 h2

/-- … and the restriction is needed: in the MODEL the fuel crash of an inner nested run is turned
    into an ordinary error by `eval_condition` (and `not` then reports an error), so a run that
    does not END in the fuel crash may still change with more fuel.  `not not true`: error with
    nested fuel 2, `true` with nested fuel 3.  (An artefact of the fuel, not of the interpreter.) -/
theorem C04_nested_fuel_crash_is_masked :
    (evalCondition (evalInstrsF 2) [] ["not".toList, "not".toList, "true".toList] [] {}).1 = .error () ∧
    (evalCondition (evalInstrsF 3) [] ["not".toList, "not".toList, "true".toList] [] {}).1 = .ok true :=
  ⟨nnt_fuel2, nnt_fuel3⟩

/-! ### the stages of the proof, as theorems about sub-fragments (all instances of `C04_sim_partial`;
    the restricting predicates are defined in Lemmas/SimMain.lean) -/

/-- stage B: blocks of straight-line statements -/
theorem C04_sim_lines (b : Block) (vars : Vars) (fuelT : Nat) (t' : TState)
    (hwf : b.wf = true) (hs : b.simple = true) (_hl : b.onlyLines = true)
    (h : execBlock (program b) fuelT b { vars := vars, sdk := {} } = .normal t') :
    ∃ fuelM rs, interpRun fuelM (program b) vars {} = (rs, .reachedEnd) ∧
      rs.vars = t'.vars ∧ rs.st.emitted = t'.sdk.emitted ∧ rs.st.handles = t'.sdk.handles :=
  C04_sim_partial b vars fuelT t' hwf hs h

/-- stage C: if chains (any number of elseif, optional else, nested), no loops -/
theorem C04_sim_if_partial (b : Block) (vars : Vars) (fuelT : Nat) (t' : TState)
    (hwf : b.wf = true) (hs : b.simple = true) (_hl : b.noLoop = true)
    (h : execBlock (program b) fuelT b { vars := vars, sdk := {} } = .normal t') :
    ∃ fuelM rs, interpRun fuelM (program b) vars {} = (rs, .reachedEnd) ∧
      rs.vars = t'.vars ∧ rs.st.emitted = t'.sdk.emitted ∧ rs.st.handles = t'.sdk.handles :=
  C04_sim_partial b vars fuelT t' hwf hs h

/-- stage D: if chains and while loops, no for/in -/
theorem C04_sim_if_while_partial (b : Block) (vars : Vars) (fuelT : Nat) (t' : TState)
    (hwf : b.wf = true) (hs : b.simple = true) (_hl : b.noFor = true)
    (h : execBlock (program b) fuelT b { vars := vars, sdk := {} } = .normal t') :
    ∃ fuelM rs, interpRun fuelM (program b) vars {} = (rs, .reachedEnd) ∧
      rs.vars = t'.vars ∧ rs.st.emitted = t'.sdk.emitted ∧ rs.st.handles = t'.sdk.handles :=
  C04_sim_partial b vars fuelT t' hwf hs h

end Duck
