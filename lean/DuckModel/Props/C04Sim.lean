/-
  C04, stage 2 — execution is the structured one.
  The goto-machine (the runner model with the transcribed flow-control commands, their call
  stacks and line caches) executes a flattened well-nested program exactly like the
  tree-walking interpreter: same emit trace, same final variables, same collections.
-/
import DuckModel.Sdk.Flow
import DuckModel.Spec.TreeSimple
import DuckModel.Lemmas.SimLemmas
import DuckModel.Lemmas.SimMain
import DuckModel.Props.C03

namespace Duck
open Duck.Spec Duck.Generated

/-- the full statement of the property for the modelled interpreter: for every well-formed
    structured program without function definitions whose tree interpretation ends normally,
    the machine run of the flattened program reaches the end with the same observables -/
def C04_sim_statement : Prop :=
  ∀ (b : Block) (vars : Vars) (fuelT : Nat) (t' : TState),
    b.wf = true → b.noFn = true →
    execBlock (program b) fuelT b { vars := vars, sdk := {} } = .normal t' →
    ∃ fuelM rs, interpRun fuelM (program b) vars {} = (rs, .reachedEnd) ∧
      rs.vars = t'.vars ∧ rs.st.emitted = t'.sdk.emitted ∧ rs.st.handles = t'.sdk.handles

/-- proved for the simple fragment (conditions decided by the boolean-expression evaluator,
    straight-line commands set / equals / array / range / emit / inc / lt): if-chains with any
    number of elseif and an optional else, while loops and for-in loops, nested to any depth,
    any spelling of every keyword, any number of iterations -/
theorem C04_sim_partial (b : Block) (vars : Vars) (fuelT : Nat) (t' : TState)
    (hwf : b.wf = true) (hs : b.simple = true)
    (h : execBlock (program b) fuelT b { vars := vars, sdk := {} } = .normal t') :
    ∃ fuelM rs, interpRun fuelM (program b) vars {} = (rs, .reachedEnd) ∧
      rs.vars = t'.vars ∧ rs.st.emitted = t'.sdk.emitted ∧ rs.st.handles = t'.sdk.handles :=
  sim_program b vars fuelT t' hwf hs h

/-- the machine is deterministic in its fuel: once it reached the end, more fuel gives the
    same result — so the machine outcome above is THE outcome of the program -/
theorem C04_machine_fuel_mono (is : List Instruction) (vars : Vars) (s : Sdk) (fuel extra : Nat)
    (rs : RunState Sdk) (e : RunEnd)
    (h : runLoop (sdkSem (evalInstrsF fuel) is) is (labelTable is) (fun _ _ => false) fuel
          { line := 0, polls := 0, vars := vars, st := s } = (rs, e))
    (he : e ≠ .outOfFuel) :
    runLoop (sdkSem (evalInstrsF fuel) is) is (labelTable is) (fun _ _ => false) (fuel + extra)
          { line := 0, polls := 0, vars := vars, st := s } = (rs, e) :=
  C03_fuel_monotone _ is (labelTable is) _ fuel extra _ rs e h he

/-! ### the stages of the proof, as theorems about sub-fragments (all instances of `C04_sim_partial`;
    the restricting predicates are defined in Lemmas/SimMain.lean) -/

/-- stage B: blocks of straight-line statements -/
theorem C04_sim_lines (b : Block) (vars : Vars) (fuelT : Nat) (t' : TState)
    (hwf : b.wf = true) (hs : b.simple = true) (_hl : b.onlyLines = true)
    (h : execBlock (program b) fuelT b { vars := vars, sdk := {} } = .normal t') :
    ∃ fuelM rs, interpRun fuelM (program b) vars {} = (rs, .reachedEnd) ∧
      rs.vars = t'.vars ∧ rs.st.emitted = t'.sdk.emitted ∧ rs.st.handles = t'.sdk.handles :=
  C04_sim_partial b vars fuelT t' hwf hs h

/-- stage C: if chains (any number of elseif, optional else, nested), no loops -/
theorem C04_sim_if_partial (b : Block) (vars : Vars) (fuelT : Nat) (t' : TState)
    (hwf : b.wf = true) (hs : b.simple = true) (_hl : b.noLoop = true)
    (h : execBlock (program b) fuelT b { vars := vars, sdk := {} } = .normal t') :
    ∃ fuelM rs, interpRun fuelM (program b) vars {} = (rs, .reachedEnd) ∧
      rs.vars = t'.vars ∧ rs.st.emitted = t'.sdk.emitted ∧ rs.st.handles = t'.sdk.handles :=
  C04_sim_partial b vars fuelT t' hwf hs h

/-- stage D: if chains and while loops, no for/in -/
theorem C04_sim_if_while_partial (b : Block) (vars : Vars) (fuelT : Nat) (t' : TState)
    (hwf : b.wf = true) (hs : b.simple = true) (_hl : b.noFor = true)
    (h : execBlock (program b) fuelT b { vars := vars, sdk := {} } = .normal t') :
    ∃ fuelM rs, interpRun fuelM (program b) vars {} = (rs, .reachedEnd) ∧
      rs.vars = t'.vars ∧ rs.st.emitted = t'.sdk.emitted ∧ rs.st.handles = t'.sdk.handles :=
  C04_sim_partial b vars fuelT t' hwf hs h

end Duck
