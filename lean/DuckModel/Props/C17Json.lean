/-
  C17 — the JSON *text* layer (`serde_json` as used by `json_parse` / `json_encode`):
  the reader (`from_str::<Value>`, model `parseJson`) undoes the compact writer
  (`Value::to_string`, model `printJson`).

  * strings: every string — all of Unicode, quotes, backslashes, every control character — is
    read back from its escaped form, whatever follows the closing quote;
  * documents: every value of the modelled class (`TextDoc`: number leaves are integers the
    crate keeps exact, objects have strictly increasing keys — the representation invariant of
    the crate's `BTreeMap`) with at most 127 nested containers is read back from its compact
    text, also with white space before and after it; the documents `json_encode --collection`
    emits (`StringDoc`: string leaves) are a sub-class; the normalisation of the property maps
    every document with sorted keys into `StringDoc` and does not deepen it;
  * the bound 127 is sharp (`serde_json`'s `remaining_depth` starts at 128 and the error is
    raised when it reaches 0): 128 nested arrays are refused.

  The composition with the AST theorem (`json_parse --collection` … `json_encode --collection`
  return a TEXT that reads back as the normalised document) is `C17_jsontext_encode_roundtrip`
  / `C17_jsontext_commands_roundtrip` in `Props/C17.lean`.

  * every JSON text: `Spec/JsonCst.lean` describes JSON texts as concrete syntax trees with
    everything a writer may choose made explicit (white space at every place of the RFC 8259
    grammar, the spelling of every string character — raw, short escape, `\uXXXX` of either case,
    surrogate pair —, members in any order with repeated keys).  `C17_jsontext_reads_every_text`:
    the reader returns the value of every well-formed tree (arrays in order, objects as maps
    with the LAST value of a repeated key, keys increasing) — it is insensitive to all those
    choices; `C17_jsontext_value_in_class`: that value lies in `TextDoc`, so the round trip
    applies to it; `C17_jsontext_object_is_map`: the object semantics is a map insertion.

  Outside the model: numbers the crate reads as `f64` (fractions, exponents, `-0`, integers
  beyond `u64`/`i64`) — `parseJsonE` answers `JErr.float` for a text containing one.  Not
  proved: that the reader REFUSES every text that is not the rendering of a tree (the error
  paths are compared with the crate by the harness stream `jparse`).
-/
import DuckModel.Sdk.JsonText
import DuckModel.Spec.JsonCst
import DuckModel.Lemmas.JsonTextLemmas
import DuckModel.Lemmas.JsonCstLemmas

namespace Duck
open Duck.Enc Duck.JsonText Duck.JsonCst

/-- every string is read back from its JSON form (`rest`: whatever follows the closing quote) -/
theorem C17_jsontext_string_roundtrip (s : List Char) (rest : List Char) :
    parseString (printString s ++ rest) = some (s, rest) :=
  parseString_print s rest

/-- the text of a string never contains a raw control character, and a quote or backslash only
    behind a backslash: it is one JSON string token (stated through the reader: reading stops
    exactly at the closing quote) — the writer's escapes, one character at a time -/
theorem C17_jsontext_char_roundtrip (c : Char) (T : List Char) :
    parseChars (escChar c ++ T) = consRes c (parseChars T) :=
  parseChars_esc c T

/-- the documents `json_encode --collection` emits (string leaves, strictly increasing keys) are
    read back from their compact text -/
theorem C17_jsontext_roundtrip (d : Json) (h : StringDoc d = true) (hd : depth d ≤ 127) :
    parseJson (printJson d) = some d := by
  have ht := stringDoc_textDoc d h
  simp only [TextDoc, Bool.and_eq_true] at ht
  have := parseJsonE_print d [] [] (by simp) (by simp) ht.1 ht.2 hd
  simp only [List.nil_append, List.append_nil] at this
  simp [parseJson, this]

/-- the same for the whole class of values of the model (null, booleans, exact integers,
    strings, arrays, objects with strictly increasing keys), with any white space before and
    after the text -/
theorem C17_jsontext_roundtrip_ws (d : Json) (w w' : List Char) (hw : ∀ c ∈ w, JsonText.isWs c = true)
    (hw' : ∀ c ∈ w', JsonText.isWs c = true) (h : TextDoc d = true) (hd : depth d ≤ 127) :
    parseJson (w ++ printJson d ++ w') = some d := by
  simp only [TextDoc, Bool.and_eq_true] at h
  unfold parseJson
  rw [parseJsonE_print d w w' hw hw' h.1 h.2 hd]

/-- `StringDoc` is a sub-class of `TextDoc` -/
theorem C17_jsontext_stringdoc_textdoc (d : Json) (h : StringDoc d = true) : TextDoc d = true :=
  stringDoc_textDoc d h

/-- the normalisation of the property (scalars become strings, nulls are dropped) maps every
    document whose objects have strictly increasing keys into `StringDoc`, and the result is not
    nested deeper than the document -/
theorem C17_jsontext_norm_stringdoc (doc j : Json) (hs : SortedKeys doc = true)
    (hn : norm doc = some j) : StringDoc j = true ∧ depth j ≤ depth doc := by
  refine ⟨?_, norm_depth doc j hn⟩
  simp [StringDoc, norm_strLeaves doc j hn, norm_sortedKeys doc j hn hs]

/-- a string token in ANY spelling of its characters is read as the string -/
theorem C17_jsontext_string_any_spelling (s : StrTok) (rest : List Char) (h : strOK s = true) :
    parseString (strText s ++ rest) = some (strValue s, rest) := by
  rw [strText_append]
  simp [parseString, parseChars_strBody s rest h]

/-- every JSON text without an `f64` number, up to 127 nested containers — any white space, any
    escape spelling, members in any order, keys repeated — is read as the document it denotes -/
theorem C17_jsontext_reads_every_text (c : Cst) (w w' : List Char) (hw : allWs w = true)
    (hw' : allWs w' = true) (hc : WF c = true) (hd : cdepth c ≤ 127) :
    parseJson (w ++ render c ++ w') = some (value c) := by
  unfold parseJson
  rw [parseJsonE_render c w w' hw hw' hc hd]

/-- the document a well-formed text denotes is in the class of the round-trip theorems and not
    deeper than the text -/
theorem C17_jsontext_value_in_class (c : Cst) (hc : WF c = true) :
    TextDoc (value c) = true ∧ JsonText.depth (value c) ≤ cdepth c := by
  obtain ⟨h1, h2, h3⟩ := value_class c hc
  exact ⟨by simp [TextDoc, h1, h2], h3⟩

/-- the object semantics (`BTreeMap::insert`, model `insertF`) is a map insertion: the key gets
    the new value, every other key keeps its value, the keys stay strictly increasing -/
theorem C17_jsontext_object_is_map (k : Str) (v : Json) (f : JFields) :
    lookupF k (insertF k v f) = some v ∧
    (∀ k2, k2 ≠ k → lookupF k2 (insertF k v f) = lookupF k2 f) ∧
    (sortedF f = true → sortedF (insertF k v f) = true) :=
  ⟨lookupF_insertF_same k v f, fun k2 h => lookupF_insertF_other k k2 v h f, sortedF_insertF k v f⟩

/-- `n` arrays around `d` -/
def nestArr : Nat → Json → Json
  | 0, d => d
  | n + 1, d => .arr (.cons (nestArr n d) .nil)

/-- the bound of the round-trip theorems is sharp: 127 nested arrays are read, 128 are refused
    (`recursion limit exceeded`) -/
theorem C17_jsontext_depth_limit_sharp :
    parseJson (printJson (nestArr 127 (.str []))) = some (nestArr 127 (.str [])) ∧
    parseJson (printJson (nestArr 128 (.str []))) = none := by
  constructor <;> decide +kernel

/-! ## Non-vacuity -/
section Examples

/-- `{"a\n":["x\"y\\","\u0001é😀/",{}],"b":{"c":[]}}` -/
private def exDoc : Json :=
  .obj (.cons "a\n".toList
      (.arr (.cons (.str "x\"y\\".toList) (.cons (.str "\x01é😀/".toList) (.cons (.obj .nil) .nil))))
    (.cons "b".toList (.obj (.cons "c".toList (.arr .nil) .nil)) .nil))

example : printJson exDoc = "{\"a\\n\":[\"x\\\"y\\\\\",\"\\u0001é😀/\",{}],\"b\":{\"c\":[]}}".toList := by rfl
example : StringDoc exDoc = true := by rfl
example : depth exDoc = 3 := by rfl
example : parseJson (printJson exDoc) = some exDoc := by decide +kernel
example : parseJson (printJson exDoc) = some exDoc := C17_jsontext_roundtrip exDoc (by rfl) (by decide)

/-- the escapes of the writer: two-character forms, `\u00XX` in lower case, DEL and `/` raw -/
example : printString "\x00\x08\t\n\x0b\x0c\r\x1f \"\\/\x7f\u2028".toList =
    "\"\\u0000\\b\\t\\n\\u000b\\f\\r\\u001f \\\"\\\\/\x7f\u2028\"".toList := by rfl

/-- the reader: white space between tokens, `\u` escapes of either case, a surrogate pair, `\/`,
    keys sorted, the LAST value of a repeated key -/
example : parseJson " { \"b\" : [ 1 , -2 , true , null ] ,\t\"a\":\"\\u00e9\\uD83D\\ude00\\/\",\r\n\"b\":\"last\" } ".toList
    = some (.obj (.cons "a".toList (.str "é😀/".toList) (.cons "b".toList (.str "last".toList) .nil))) := by decide +kernel
example : parseJson "[0,18446744073709551615,-9223372036854775808]".toList =
    some (.arr (.cons (.num "0".toList) (.cons (.num "18446744073709551615".toList)
      (.cons (.num "-9223372036854775808".toList) .nil)))) := by decide +kernel

/-- refused: lone surrogates, raw control character, trailing comma, leading zero, trailing
    garbage, unknown escape, cut-short literal, key that is not a string, missing colon -/
example : parseJson "\"\\ud800\"".toList = none ∧ parseJson "\"\\udc00\"".toList = none ∧
    parseJson "\"\\ud800\\u0041\"".toList = none ∧ parseJson "\"a\nb\"".toList = none ∧
    parseJson "[1,]".toList = none ∧ parseJson "{\"a\":1,}".toList = none ∧
    parseJson "01".toList = none ∧ parseJson "[1] x".toList = none ∧
    parseJson "\"\\x\"".toList = none ∧ parseJson "tru".toList = none ∧
    parseJson "{1:2}".toList = none ∧ parseJson "{\"a\" 1}".toList = none ∧
    parseJson "".toList = none ∧ parseJson "[".toList = none := by
  decide +kernel

/-- a concrete syntax tree: `{ "b" : [ 1 ,"\u00E9\ud83d\uDE00\/" ] , "a":null,"b":"x"}` — white
    space, `\u` escapes of both cases, a surrogate pair, `\/`, a repeated key, keys out of order -/
private def exCst : Cst :=
  .obj (.cons [' '] [('b', .raw)] [' '] [' ']
      (.arr [' '] (.num ['1'])
        (.cons [' '] [] (.str [('é', .u4 '0' '0' 'E' '9'), ('😀', .pair 'd' '8' '3' 'd' 'D' 'E' '0' '0'),
          ('/', .short '/')]) (.nil [' ']))) [' ']
    (.cons [' '] [('a', .raw)] [] [] .null []
      (.one [] [('b', .raw)] [] [] (.str [('x', .raw)]) [])))

example : render exCst =
    "{ \"b\" : [ 1 ,\"\\u00E9\\ud83d\\uDE00\\/\" ] , \"a\":null,\"b\":\"x\"}".toList := by decide +kernel
example : WF exCst = true ∧ cdepth exCst = 2 := by decide +kernel
example : value exCst = .obj (.cons ['a'] .null (.cons ['b'] (.str ['x']) .nil)) := by decide +kernel
example : parseJson (render exCst) = some (value exCst) := by decide +kernel
/-- ill-formed trees are excluded by `WF`: a raw quote, a raw control character, a lone surrogate -/
example : WF (.str [('"', .raw)]) = false ∧ WF (.str [('\n', .raw)]) = false ∧
    WF (.str [('a', .u4 'd' '8' '0' '0')]) = false ∧ WF (.arr0 ['x']) = false ∧
    WF (.num "01".toList) = false := by decide +kernel

/-- numbers the crate reads as `f64` are outside the model: a distinct answer, not an error -/
example : parseJsonE "[1.5]".toList = .error .float ∧ parseJsonE "-0".toList = .error .float ∧
    parseJsonE "1e3".toList = .error .float ∧
    parseJsonE "18446744073709551616".toList = .error .float ∧
    parseJsonE "-9223372036854775809".toList = .error .float ∧
    parseJsonE "1.".toList = .error .float ∧ parseJsonE "-".toList = .error .syntax := by
  refine ⟨?_, ?_, ?_, ?_, ?_, ?_, ?_⟩ <;> rfl

/-- the hypothesis "strictly increasing keys" is needed: the reader sorts -/
example : parseJson (printJson (.obj (.cons "b".toList (.str []) (.cons "a".toList (.str []) .nil))))
    = some (.obj (.cons "a".toList (.str []) (.cons "b".toList (.str []) .nil))) := by decide +kernel

private def okText : Except JErr (Option (Except EncErr (List Char))) → Option (List Char)
  | .ok (some (.ok t)) => some t
  | _ => none

/-- `json_parse --collection` + `json_encode --collection` on a text -/
example : okText (parseEncodeText " [ 1 , null , \"x\" , { \"b\" : true } ] ".toList) =
    some "[\"1\",\"x\",{\"b\":\"true\"}]".toList := by decide +kernel

end Examples

end Duck
