/-
  C08 (index arithmetic) — the parser "moves an index forward and backward by hand"; no
  character sequence makes that arithmetic panic.

  `DuckModel/ParserIndexed.lean` transcribes duckscript/src/parser.rs over an explicit
  `index : Nat` with an outcome `panic` wherever the Rust code would unwind (`line_text[index]`
  out of range, `index -= 1` at 0, `chars[0]` on an empty vector; also: the fuel of the
  argument `loop` running out).  Here: that outcome never occurs, the indices stay inside
  `[start, line.len()]`, and the index-faithful model computes exactly what the suffix model
  (`DuckModel/Parser.lean`) computes, so every theorem about the suffix model (Props/C01.lean,
  Props/C08.lean) holds for the index-faithful one.

  ONLY property theorems and their non-vacuity examples live here; helper lemmas are in
  DuckModel/Lemmas/Indexed*.lean.
-/
import DuckModel.ParserIndexed
import DuckModel.Lemmas.IndexedLemmas
import DuckModel.Lemmas.IndexedLineLemmas
import DuckModel.Lemmas.IndexedInvLemmas
import DuckModel.Props.C01Core
import DuckModel.Props.C08Core

namespace Duck
open Duck.Spec

/-! ### refinement: the index-faithful model computes what the suffix model computes -/

/-- `parse_line` -/
theorem C08_indexed_refines_suffix (line : Str) : iParseLine line = liftE (parseLine line) :=
  iParseLine_refines line

/-- the same, read outcome by outcome -/
theorem C08_indexed_refines_suffix_iff (line : Str) :
    (∀ ty, iParseLine line = .ok ty ↔ parseLine line = .ok ty) ∧
    (∀ e, iParseLine line = .err e ↔ parseLine line = .error e) := by
  rw [iParseLine_refines]
  exact ⟨fun ty => liftE_ok_iff _ _, fun e => liftE_err_iff _ _⟩

/-- `parse_next_value` from a start index inside the line: it returns index `idx` and value `v`
    exactly when the suffix model, run on what is left from `start`, returns what is left from
    `idx` and `v`; and `idx` is inside the line -/
theorem C08_next_value_refines (fl : PVFlags) (line : Str) (start idx : Nat) (v : Option Str)
    (h : start ≤ line.length) :
    iParseNextValue fl line start = .ok (idx, v) ↔
      idx ≤ line.length ∧ parseNextValue fl (line.drop start) = .ok (line.drop idx, v) := by
  rw [iParseNextValue_refines fl line start h]
  exact liftIdx_ok_iff line _ (fun r w hr => suffix_of_drop (parseNextValue_suffix hr)) idx v

/-- … with the same errors -/
theorem C08_next_value_refines_err (fl : PVFlags) (line : Str) (start : Nat) (e : PErr)
    (h : start ≤ line.length) :
    iParseNextValue fl line start = .err e ↔ parseNextValue fl (line.drop start) = .error e := by
  rw [iParseNextValue_refines fl line start h]
  exact liftIdx_err_iff line _ e

/-- `find_label` -/
theorem C08_find_label_refines (line : Str) (start idx : Nat) (v : Option Str)
    (h : start ≤ line.length) :
    (iFindLabel line start = .ok (idx, v) ↔
      idx ≤ line.length ∧ findLabel (line.drop start) = .ok (line.drop idx, v)) ∧
    (∀ e, iFindLabel line start = .err e ↔ findLabel (line.drop start) = .error e) := by
  rw [iFindLabel_refines line start h]
  exact ⟨liftIdx_ok_iff line _ (fun r w hr => suffix_of_drop (findLabel_suffix _ hr)) idx v,
    fun e => liftIdx_err_iff line _ e⟩

/-- `find_output_and_command` -/
theorem C08_find_output_and_command_refines (line : Str) (start idx : Nat)
    (oc : Option Str × Option Str) (h : start ≤ line.length) :
    (iFindOutputAndCommand line start = .ok (idx, oc) ↔
      idx ≤ line.length ∧ findOutputAndCommand (line.drop start) = .ok (line.drop idx, oc)) ∧
    (∀ e, iFindOutputAndCommand line start = .err e ↔
      findOutputAndCommand (line.drop start) = .error e) := by
  rw [iFindOutputAndCommand_refines line start h]
  exact ⟨liftIdx_ok_iff line _ (fun r w hr => suffix_of_drop (findOutputAndCommand_suffix hr)) idx oc,
    fun e => liftIdx_err_iff line _ e⟩

/-- `parse_arguments` / `reparse_arguments` (the fuel `line.len() + 1` is never exhausted) -/
theorem C08_arguments_refine (cac : Bool) (line : Str) (start : Nat) (h : start ≤ line.length) :
    iParseArgumentsWith cac line start = liftE (parseArgumentsWith cac (line.drop start)) :=
  iParseArgumentsWith_refines cac line start h

/-- `parse_pre_process_line` -/
theorem C08_pre_process_line_refines (line : Str) (start : Nat) (h : start ≤ line.length) :
    iParsePreProcessLine line start = liftE (parsePreProcessLine (line.drop start)) :=
  iParsePreProcessLine_refines line start h

/-- `parse_command_line` -/
theorem C08_command_line_refines (line : Str) (start : Nat) (h : start ≤ line.length) :
    iParseCommandLine line start = liftE (parseCommandLine (line.drop start)) :=
  iParseCommandLine_refines line start h

/-! ### start indices at or beyond the end (`start_index >= end_index` guards) -/

/-- what every function answers when started at or beyond the end of the line: nothing is read -/
theorem C08_start_beyond_end (fl : PVFlags) (cac : Bool) (line : Str) (start : Nat)
    (h : line.length ≤ start) :
    iParseNextValue fl line start = .ok (start, none) ∧
    iFindLabel line start = .ok (start, none) ∧
    iFindOutputAndCommand line start = .ok (start, none, none) ∧
    iParseArgumentsWith cac line start = .ok none ∧
    iParseCommandLine line start = .ok .empty ∧
    iParsePreProcessLine line start = .err .preProcessNoCommandFound :=
  ⟨iParseNextValue_beyond fl line start h, iFindLabel_beyond line start h,
    iFindOutputAndCommand_beyond line start h, iParseArgumentsWith_beyond cac line start h,
    iParseCommandLine_beyond line start h, iParsePreProcessLine_beyond line start h⟩

/-! ### no panic -/

/-- `parse_line` never panics, whatever the characters of the line -/
theorem C08_index_never_panics (line : Str) : iParseLine line ≠ .panic := by
  rw [iParseLine_refines]; exact liftE_ne_panic _

/-- `parse_next_value` never panics, for every flag combination and EVERY start index -/
theorem C08_next_value_never_panics (fl : PVFlags) (line : Str) (start : Nat) :
    iParseNextValue fl line start ≠ .panic :=
  iParseNextValue_ne_panic fl line start

theorem C08_find_label_never_panics (line : Str) (start : Nat) :
    iFindLabel line start ≠ .panic := by
  by_cases h : start ≤ line.length
  · rw [iFindLabel_refines line start h]; exact liftIdx_ne_panic _ _
  · rw [iFindLabel_beyond line start (by omega)]; simp

theorem C08_find_output_and_command_never_panics (line : Str) (start : Nat) :
    iFindOutputAndCommand line start ≠ .panic := by
  by_cases h : start ≤ line.length
  · rw [iFindOutputAndCommand_refines line start h]; exact liftIdx_ne_panic _ _
  · rw [iFindOutputAndCommand_beyond line start (by omega)]; simp

/-- … in particular the fuel of the argument loop is never exhausted -/
theorem C08_arguments_never_panic (cac : Bool) (line : Str) (start : Nat) :
    iParseArgumentsWith cac line start ≠ .panic := by
  by_cases h : start ≤ line.length
  · rw [iParseArgumentsWith_refines cac line start h]; exact liftE_ne_panic _
  · rw [iParseArgumentsWith_beyond cac line start (by omega)]; simp

theorem C08_pre_process_line_never_panics (line : Str) (start : Nat) :
    iParsePreProcessLine line start ≠ .panic := by
  by_cases h : start ≤ line.length
  · rw [iParsePreProcessLine_refines line start h]; exact liftE_ne_panic _
  · rw [iParsePreProcessLine_beyond line start (by omega)]; simp

theorem C08_command_line_never_panics (line : Str) (start : Nat) :
    iParseCommandLine line start ≠ .panic := by
  by_cases h : start ≤ line.length
  · rw [iParseCommandLine_refines line start h]; exact liftE_ne_panic _
  · rw [iParseCommandLine_beyond line start (by omega)]; simp

/-! ### loop invariants (proved on the index-faithful model alone) -/

/-- Shape of every `for _i in index..end_index` loop of the parser: if the body moves the index
    forward by exactly one when it continues, leaves it in `[old, end_index]` when it breaks and
    does not panic while the index is in range, then — started with
    `index + iterations = end_index` — the loop never panics and the final index is in
    `[start, end_index]`.  (So at the head of every iteration `index < end_index`: the read
    `line_text[index]` is in range.) -/
theorem C08_loop_invariant {σ : Type} (body : σ → IStep σ) (ix : σ → Nat) (E : Nat)
    (hnext : ∀ s s', ix s < E → body s = .next s' → ix s' = ix s + 1)
    (hbrk : ∀ s s', ix s < E → body s = .brk s' → ix s ≤ ix s' ∧ ix s' ≤ E)
    (hpanic : ∀ s, ix s < E → body s ≠ .panic) (n : Nat) (s : σ) (h : ix s + n = E) :
    iFor body n s ≠ .panic ∧ ∀ s', iFor body n s = .ok s' → ix s ≤ ix s' ∧ ix s' ≤ E :=
  iFor_index_inv body ix E hnext hbrk hpanic n s h

/-- The body of the `parse_next_value` loop, at ANY index and with ANY `end_index`:
    it unwinds exactly when the read is out of range — so `index -= 1` never underflows, because
    it is only applied to the index that was incremented in the same iteration;
    `continue` = index + 1; `break` = index (decremented back), index + 1, or `end_index`. -/
theorem C08_next_value_body_index (fl : PVFlags) (line : Str) (E : Nat) (s : IPV) :
    (ipvBody fl line E s = .panic ↔ line.length ≤ s.index) ∧
    (∀ s', ipvBody fl line E s = .next s' → s'.index = s.index + 1) ∧
    (∀ s', ipvBody fl line E s = .brk s' →
      s'.index = s.index ∨ s'.index = s.index + 1 ∨ s'.index = E) :=
  ⟨ipvBody_panic_iff fl line E s, fun s' => ipvBody_next_index fl line E s s',
    fun s' => ipvBody_brk_index fl line E s s'⟩

/-- the same for the loops of `find_label`, `find_output_and_command` and
    `parse_pre_process_line`: the read is the only source of a panic (the decrement in
    `find_label` is not), `continue` = index + 1 -/
theorem C08_other_bodies_index (line v : Str) :
    (∀ s, iflBody line s = .panic ↔ line.length ≤ s.index) ∧
    (∀ s s', iflBody line s = .next s' → s'.index = s.index + 1) ∧
    (∀ s s', s.index < line.length → iflBody line s = .brk s' →
      s.index ≤ s'.index ∧ s'.index ≤ line.length) ∧
    (∀ s, iocBody line v s = .panic ↔ line.length ≤ s.index) ∧
    (∀ s s', iocBody line v s = .next s' ∨ iocBody line v s = .brk s' → s'.index = s.index + 1) ∧
    (∀ s, ippBody line s = .panic ↔ line.length ≤ s.index) ∧
    (∀ s s', ippBody line s = .next s' ∨ ippBody line s = .brk s' → s'.index = s.index + 1) :=
  ⟨iflBody_panic_iff line, iflBody_next_index line, iflBody_brk_index line,
    iocBody_panic_iff line v, iocBody_index line v, ippBody_panic_iff line, ippBody_index line⟩

/-- the loop of `parse_next_value` started anywhere with `index + iterations = end_index` -/
theorem C08_next_value_loop_invariant (fl : PVFlags) (line : Str) (n : Nat) (s : IPV)
    (h : s.index + n = line.length) :
    iFor (ipvBody fl line line.length) n s ≠ .panic ∧
      ∀ s', iFor (ipvBody fl line line.length) n s = .ok s' →
        s.index ≤ s'.index ∧ s'.index ≤ line.length :=
  ipv_loop_inv fl line n s h

/-- the index `parse_next_value` hands back is never before the start index and, from a start
    inside the line, never beyond the end of the line -/
theorem C08_next_value_index_bounds (fl : PVFlags) (line : Str) (start idx : Nat) (v : Option Str)
    (h : iParseNextValue fl line start = .ok (idx, v)) :
    start ≤ idx ∧ (start ≤ line.length → idx ≤ line.length) :=
  iParseNextValue_index fl line start idx v h

/-! ### theorems about the suffix model carried over -/

/-- C01 for the index-faithful model: a rendered line parses back to its instruction -/
theorem C08_indexed_roundtrip (ch : Choices) (i : ScriptInstr) (hi : InstrOK i) (hc : ChoicesOK ch) :
    iParseLine (renderLine ch i) = .ok (expected i) := by
  rw [C08_indexed_refines_suffix, C01_line_roundtrip ch i hi hc]; rfl

/-- blank lines and comment lines (Props/C08.lean) -/
theorem C08_indexed_blank_or_comment_is_empty (l : Str)
    (h : trim l = [] ∨ (trim l).head? = some '#') : iParseLine l = .ok .empty := by
  rw [C08_indexed_refines_suffix, C08_blank_or_comment_is_empty l h]; rfl

/-- a malformed-line class of Props/C08.lean: the unterminated quoted argument -/
theorem C08_indexed_unterminated_quote (ch : Choices) (i : ScriptInstr) (hi : InstrOK i)
    (hc : ChoicesOK ch) (hcmd : i.command ≠ none) (hnc : ch.comment = none) (k : Nat) (s : Str) :
    iParseLine (ch.lead ++ renderBody ch i ++ spaces (k + 1) ++ '"' :: escape s ++ ch.trail) =
      .err .missingEndQuotes := by
  rw [C08_indexed_refines_suffix, C08_unterminated_quote ch i hi hc hcmd hnc k s]; rfl

/-- a line whose first token begins with a double quote -/
theorem C08_indexed_quote_starts_name (lead rest : Str) (hl : ∀ c ∈ lead, isWs c = true) :
    iParseLine (lead ++ '"' :: rest) = .err .invalidQuotesLocation := by
  rw [C08_indexed_refines_suffix, C08_quote_starts_name lead rest hl]; rfl

/-! ### non-vacuity: the model CAN panic, and the awkward line ends are exercised -/

/-- the outcome `panic` is reachable in the model as soon as the loop discipline is broken:
    one iteration too many reads `line_text[len]` … -/
example : iFor (ipvBody nameFlags "ab".toList 2) 3 { index := 0 } = .panic := by decide
/-- … and a decrement at index 0 underflows -/
example : decr 0 = none := rfl
example : rd "ab".toList 2 = none := rfl

/-- trailing spaces (untrimmed, as `parse_command_line` may be called): the argument scan runs
    to the very end of the line -/
example : iParseCommandLine "cmd a  ".toList 0 =
    .ok (.script { command := some "cmd".toList, args := some ["a".toList] }) := by decide

/-- `index -= 1` after the value: the returned index points AT the space / the `=` -/
example : iParseNextValue outputFlags "x=".toList 0 = .ok (1, some "x".toList) := by decide
example : iParseNextValue nameFlags "ab  ".toList 0 = .ok (2, some "ab".toList) := by decide
/-- `index = end_index` on `#` -/
example : iParseNextValue nameFlags "ab#cd".toList 0 = .ok (5, some "ab".toList) := by decide
example : iParseNextValue nameFlags " #".toList 0 = .ok (2, none) := by decide
/-- a start index beyond the end is handed back unchanged -/
example : iParseNextValue nameFlags "ab".toList 7 = .ok (7, none) := by decide

/-- `=` as the last character: `parse_next_value` is called with `index == len` -/
example : iParseLine "x =".toList = .ok (.script { output := some "x".toList }) := by decide
example : iParseLine "x=".toList = .ok (.script { output := some "x".toList }) := by decide
/-- `#` as the last character -/
example : iParseLine "cmd #".toList = .ok (.script { command := some "cmd".toList }) := by decide
example : iParseLine "cmd a#".toList =
    .ok (.script { command := some "cmd".toList, args := some ["a".toList] }) := by decide
/-- a lone `:` (the label scan starts at `index == len`), `:` then spaces, a lone `!` -/
example : iParseLine ":".toList = .ok .empty := by decide
example : iParseCommandLine ":  ".toList 0 = .ok .empty := by decide
example : iParseLine "!".toList = .err .preProcessNoCommandFound := by decide
example : iParseLine "!  x  ".toList = .ok (.preProcess (some "x".toList) none) := by decide
/-- an open quote / a dangling backslash at the end of the line -/
example : iParseLine "cmd \"a".toList = .err .missingEndQuotes := by decide
example : iParseLine "cmd \"a\\".toList = .err .controlWithoutValidValue := by decide

/-- the refinement on concrete start indices: the suffix model on `drop 3` -/
example : iParseNextValue (argFlags false) "cmd a b".toList 3 = .ok (5, some "a".toList) ∧
    parseNextValue (argFlags false) ("cmd a b".toList.drop 3) = .ok ("cmd a b".toList.drop 5, some "a".toList) :=
  ⟨by decide, rfl⟩

/-- the hypotheses of `C08_indexed_roundtrip` are those of C01 -/
example : iParseLine (renderLine C01_sampleChoices C01_sampleInstr) = .ok (.script C01_sampleInstr) :=
  C08_indexed_roundtrip _ _ (instrOK_of_b _ (by decide)) (choicesOK_of_b _ (by decide))

end Duck
