/-
  C08 / C01 — the hand-written scanner model IS the translation of the current source.

  `Generated/ScannerPNV.lean` is produced on every run by a Rust→Lean translator
  (bin/rust2lean.py, bin/fragments/scanner_pnv.py) from the character loop of
  `parse_next_value` in duckscript/src/parser.rs.  The theorems below prove that the step function
  all parser theorems (C01 round trip, C08 totality / error kinds, C02 spread re-parsing, C09
  re-serialisation, C14 includes) are stated about — `Duck.pvStep` in Parser.lean — equals that
  translation, for every flag setting, scanner state, character and remaining input; hence the
  loops and `parse_next_value` itself agree.  A change of the Rust loop body that alters its meaning
  makes this file fail to check: a broken proof obligation, not only a sampled difference.
-/
import DuckModel.Parser
import DuckModel.Generated.ScannerPNV

namespace Duck
open Duck.Generated

/-- the translated loop body equals the hand-written one -/
theorem C08_scanner_translation (fl : PVFlags) (st : PVSt) (c : Char) (rest : Str) :
    pvStepGen fl st c rest = pvStep fl st c rest := by
  unfold pvStepGen pvStep
  repeat' split
  all_goals first
    | rfl
    | (simp_all)

/-- the loop over the translated body (same shape as `pvLoop`) -/
def pvLoopGen (fl : PVFlags) : PVSt → Str → Except PErr (PVSt × Str × Bool)
  | st, [] => .ok (st, [], false)
  | st, c :: rest =>
    match pvStepGen fl st c rest with
    | .cont st' => pvLoopGen fl st' rest
    | .brk st' r fe => .ok (st', r, fe)
    | .err e => .error e

theorem C08_scanner_translation_loop (fl : PVFlags) (st : PVSt) (l : Str) :
    pvLoopGen fl st l = pvLoop fl st l := by
  induction l generalizing st with
  | nil => rfl
  | cons c rest ih =>
    unfold pvLoopGen pvLoop
    rw [C08_scanner_translation]
    cases pvStep fl st c rest with
    | cont st' => exact ih st'
    | brk st' r fe => rfl
    | err e => rfl

/-- `parse_next_value` built on the translated loop -/
def parseNextValueGen (fl : PVFlags) (l : Str) : Except PErr (Str × Option Str) :=
  match l with
  | [] => .ok ([], none)
  | _ =>
    match pvLoopGen fl {} l with
    | .error e => .error e
    | .ok (st, rest, fe) => pvFinish st rest fe

theorem C08_scanner_translation_value (fl : PVFlags) (l : Str) :
    parseNextValueGen fl l = parseNextValue fl l := by
  unfold parseNextValueGen parseNextValue
  cases l with
  | nil => rfl
  | cons c rest => simp only [C08_scanner_translation_loop]; rfl

/- the branch the hand-written model leaves out is dead: when the token ends on an unquoted
   character that is neither a blank nor `=`, that character is `#` -/
example (fl : PVFlags) (c : Char) (h : c = ' ' ∨ c = '#' ∨ (fl.stopOnEquals ∧ c = '='))
    (h2 : ¬ (c = ' ' ∨ c = '=')) : c = '#' := by
  rcases h with h | h | ⟨_, h⟩
  · exact absurd (Or.inl h) h2
  · exact h
  · exact absurd (Or.inr h) h2

end Duck
