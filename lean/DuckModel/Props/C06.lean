/-
  C06 — conditions: one truthiness rule, and-of-ors grouping, parentheses.
-/
import DuckModel.Sdk.Condition
import DuckModel.Spec.Cond
import DuckModel.Lemmas.ConditionLemmas

namespace Duck
open Duck.Spec

/-- the truthiness table of the code (regenerated from `is_true` on every run) is the one of
    the property statement: falsy exactly when absent, empty, '0', 'false' or 'no',
    case-insensitively -/
theorem C06_truthiness (v : Option Str) : isTrue v = truthy v := by
  sorry

theorem C06_falsy_iff (v : Option Str) :
    isTrue v = false ↔
      v = none ∨ ∃ s, v = some s ∧
        (asciiLower s = [] ∨ asciiLower s = "0".toList ∨ asciiLower s = "false".toList ∨
          asciiLower s = "no".toList) := by
  sorry

/-- every well-formed condition statement evaluates as the conjunction of disjunctions of
    its atoms, groups being atoms evaluated by the same rule, wherever a group stands -/
theorem C06_eval_correct (c : Cond) (h : c.OK) : evalSlice c.tokens = .ok c.eval := by
  sorry

/-- in particular a group in first position followed by `or` (the repaired defect) -/
theorem C06_group_first_or (g : Cond) (a : Atom) (hg : g.OK) (ha : a.OK) :
    evalSlice ((Atom.group g).tokens ++ "or".toList :: a.tokens) = .ok (g.eval || a.eval) := by
  sorry

/-- an empty statement and an empty group are falsy -/
theorem C06_empty_falsy : evalSlice [] = .ok false ∧ evalSlice ["(".toList, ")".toList] = .ok false := by
  sorry

/-- enough fuel is always provided: the result does not depend on extra fuel -/
theorem C06_fuel_irrelevant (args : List Str) (extra : Nat) :
    evalSliceF (args.length + 1 + extra) args = evalSlice args := by
  sorry

end Duck
