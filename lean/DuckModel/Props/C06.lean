/-
  C06 — conditions: one truthiness rule, and-of-ors grouping, parentheses.
  Props/C06Core.lean : the truthiness table and the evaluator (`C06_eval_correct` …).
  Props/C06Consumers.lean : if / elseif / while / not all decide by that same evaluation.
  Props/C06Translated.lean : the index-faithful TRANSLATION of the current source of
                          `eval_condition_for_slice` (Generated/ScannerCond.lean, regenerated on
                          every run by bin/rust2lean.py) never panics and computes exactly what the
                          evaluator model computes — so the theorems above hold of it.
-/
import DuckModel.Props.C06Core
import DuckModel.Props.C06Consumers
import DuckModel.Props.C06Translated
