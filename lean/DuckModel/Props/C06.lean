/-
  C06 — conditions: one truthiness rule, and-of-ors grouping, parentheses.
  Props/C06Core.lean : the truthiness table and the evaluator (`C06_eval_correct` …).
  Props/C06Consumers.lean : if / elseif / while / not all decide by that same evaluation.
-/
import DuckModel.Props.C06Core
import DuckModel.Props.C06Consumers
