/-
  C10 - an `Error` answered by a command INSIDE the body of a script-implemented command is the
  `Error` the script command itself answers; the runner then applies its error protocol
  (`C10_error_protocol`: output variable := false, on_error with the instruction's own line) at
  the CALLER's instruction, because the script command is the command of that instruction.

  General part (any command semantics, any body): the instruction loop stops at the first `Error`
  and the wrapper hands it on.  Instances: the size command of the `*_is_empty` scripts, and
  `array_is_empty not_a_handle` down to the message text.
-/
import DuckModel.Lemmas.ScriptRunLemmas

namespace Duck
open Duck.Alias Duck.Coll Duck.ScriptRun Duck.Spec

/-- `eval_instructions` stops at the first instruction whose command answers `Error m` and
    reports exactly that error (any semantics, any instruction list, any line, any fuel ≥ 1) -/
theorem C10_script_body_error_stops {σ : Type} (sem : CmdSem σ) (is : List Instruction)
    (fuel line poll : Nat) (fo : Option Str) (vars : Vars) (s : σ) (instr : Instruction) (si : ScriptInstr)
    (hget : is[line]? = some instr) (hty : instr.ty = .script si) (m : Str) (o : Option Str)
    (vars' : Vars) (s' : σ)
    (hr : runInstruction sem vars s instr line = (.error m, o, vars', s')) :
    evalInstructions sem (fun _ => false) is (fuel + 1) line poll fo vars s = some (.error m, vars', s') :=
  eval_error sem is fuel line poll fo vars s instr si hget hty m o vars' s' hr

/-- `AliasCommand::run` hands the body's `Error m` to its caller unchanged (the body wrote only
    under the command's prefix, so the leak detector stays silent); the cleanup has run -/
theorem C10_script_wrapper_passes_error (amount : Nat)
    (body : Vars → ScriptSt → BodyResult × Vars × ScriptSt) (scope : Str) (args : List Str)
    (vars : Vars) (st : ScriptSt) (hn : ¬ args.length < amount) (hne : args ≠ [])
    (m : Str) (vars2 : Vars) (st2 : ScriptSt)
    (hb : body (pubVars scope args vars st) (pubSt scope args st) = (.error m, vars2, st2))
    (hclear : clear scope vars2 = clear scope (pubVars scope args vars st)) :
    (aliasRun handleOps amount body scope args vars st).1 = .error m := by
  rw [aliasRun_handleOps amount body scope args vars st hn hne _ _ _ hb hclear]
  rfl

/-- `array_is_empty`: whenever the `array_length` it calls answers `Error m` (on the state the
    body runs in: the caller's table plus the temporary argument array), `array_is_empty` answers
    `Error m` - for every fuel ≥ 4, every argument list, every state -/
theorem C10_script_command_error_at_caller (depth fuel : Nat) (a : Str) (rest : List Str)
    (vars : Vars) (st : ScriptSt) (m : Str)
    (herr : (runNative (.coll .arrayLength) [a] (pubVars "scope::array_is_empty".toList (a :: rest) vars st)
              (pubSt "scope::array_is_empty".toList (a :: rest) st)).1 = .error m) :
    (runScriptCmdF depth (fuel + 4) "array_is_empty".toList (a :: rest) vars st).1 = .error m :=
  sizeScript_error "array_is_empty".toList "array_length".toList
    Generated.cmd_collections_array_is_empty .arrayLength
    (fun v => match v with | .list l => some l.length | _ => none)
    (by rfl) (parsesTo_eq (by decide +kernel)) rfl (by decide) (by decide)
    (by decide +kernel) (by decide +kernel)
    (by intro s key rest
        simp only [Coll.exec, cmdArrayLength]
        cases hv : tget s.tbl key with
        | none => rfl
        | some v => cases v <;> rfl)
    depth fuel a rest vars st m herr

/-- the instance `out = array_is_empty not_a_handle`, as the runner sees it: the instruction's
    command result is the `Error` of the inner `array_length`, text included - so
    `C10_error_protocol` applies at this instruction (the caller's line) -/
theorem C10_script_array_is_empty_not_a_handle (mi : Meta) (out : Option Str) (line : Nat)
    (vars : Vars) (st : ScriptSt) (hnone : tget st.coll.tbl "not_a_handle".toList = none) :
    (runInstruction scriptSem vars st
      ⟨mi, .script { output := out, command := some "array_is_empty".toList,
                     args := some ["not_a_handle".toList] }⟩ line).1 =
      .error "Array for handle: not_a_handle not found.".toList := by
  have hb : bind vars (some ["not_a_handle".toList]) = ["not_a_handle".toList] := by
    have := bind_templates vars [[Seg.lit "not_a_handle".toList]] (by
      intro t ht s hs
      simp at ht; subst ht
      simp at hs; subst hs
      show LitOK _
      decide)
    simpa [renderTemplate, Seg.render, tmplValue, Seg.value] using this
  have hsem := scriptSem_script "array_is_empty".toList Generated.cmd_collections_array_is_empty (by rfl)
    ["not_a_handle".toList] out line vars st
  have hrun := runInstruction_cmd scriptSem vars st mi
    { output := out, command := some "array_is_empty".toList, args := some ["not_a_handle".toList] }
    "array_is_empty".toList line rfl ["not_a_handle".toList] hb
    (runScriptCmd "array_is_empty".toList ["not_a_handle".toList] vars st).1
    (runScriptCmd "array_is_empty".toList ["not_a_handle".toList] vars st).2.1
    (runScriptCmd "array_is_empty".toList ["not_a_handle".toList] vars st).2.2 hsem
  rw [hrun]
  show (runScriptCmd "array_is_empty".toList ["not_a_handle".toList] vars st).1 = _
  have hmsg : "Array for handle: not_a_handle not found.".toList =
      msg "Array" ++ msg " for handle: " ++ "not_a_handle".toList ++ msg " not found." := by decide
  rw [hmsg]
  unfold runScriptCmd
  rw [scriptFuel_eq]
  apply C10_script_command_error_at_caller
  have hne : "not_a_handle".toList ≠ Coll.handleName st.coll.next := by
    simp [Coll.handleName, handlePrefix]
  generalize "not_a_handle".toList = a at hne hnone ⊢
  simp [runNative, runColl, Coll.exec, cmdArrayLength, pubSt, tget_tinsert, hne, hnone, collErrMsg]

end Duck
