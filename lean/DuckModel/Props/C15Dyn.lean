/-
  C15 ∘ C03: the registry invariant along RUNS in which commands change the command table.

  `DynScripted.lean` is the command semantics of the `runm` correspondence stream: commands
  register and remove commands (`reg`, `unreg`: `Commands::set` / `Commands::remove` through
  `CommandInvocationContext.commands`) while the runner executes a script, and one Context goes
  from run to run.  The theorems say that whatever the scripts do - any texts, any queue of
  command results, any number of runs - no alias of the returned command table ever points to a
  command that is gone (C15's invariant, here for every reachable state of the RUNNER, not only
  for histories of direct API calls).
-/
import DuckModel.DynScripted
import DuckModel.Lemmas.RegistryLemmas

namespace Duck
open Reg

/-- one command invocation keeps the invariant -/
theorem C15_dyn_command_inv (name : Str) (args : List Str) (out : Option Str) (line : Nat)
    (vars vars' : Vars) (s s' : DynSt) (r : CmdResult)
    (h : dynSem name args out line vars s = some (r, vars', s')) (hi : s.reg.InvP) :
    s'.reg.InvP := by
  unfold dynSem at h
  split at h
  · exact absurd h (by simp)
  · rename_i spec _
    simp only at h
    split at h
    · -- reg
      split at h
      · cases h; exact hi
      · rename_i n al
        cases h; exact invP_set _ _ hi
    · split at h
      · -- unreg
        split at h
        · cases h; exact hi
        · cases h; exact invP_remove _ _ hi
      · split at h
        · -- stput
          split at h <;> (cases h; exact hi)
        · split at h
          · -- vset
            split at h <;> (cases h; exact hi)
          · split at h
            · -- stget
              split at h <;> (cases h; exact hi)
            · split at h <;> (cases h; exact hi)

/-- `run_instruction` keeps it -/
theorem C15_dyn_instruction_inv (vars : Vars) (s : DynSt) (i : Instruction) (line : Nat)
    (hi : s.reg.InvP) : (runInstruction dynSem vars s i line).2.2.2.reg.InvP := by
  unfold runInstruction
  split
  · exact hi
  · exact hi
  · rename_i si
    split
    · exact hi
    · rename_i c
      split
      · exact hi
      · rename_i r vars' s' heq
        exact C15_dyn_command_inv _ _ _ _ _ _ _ _ _ heq hi

/-- the `on_error` dispatch keeps it -/
theorem C15_dyn_on_error_inv (vars : Vars) (s : DynSt) (e : Str) (mi : Meta)
    (hi : s.reg.InvP) : (runOnError dynSem vars s e mi).2.2.reg.InvP := by
  unfold runOnError
  split
  · exact hi
  · rename_i r vars' s' heq
    have := C15_dyn_command_inv _ _ _ _ _ _ _ _ _ heq hi
    split <;> exact this

/-- the invariant on what one iteration of the runner's loop returns (go on / ended) -/
def StepInv : RunState DynSt ⊕ (RunState DynSt × RunEnd) → Prop
  | .inl rs' => rs'.st.reg.InvP
  | .inr p => p.1.st.reg.InvP

/-- one iteration of the runner's loop keeps it (whether the loop goes on or the run ends) -/
theorem C15_dyn_step_inv (is : List Instruction) (labels : List (Str × Nat)) (rs : RunState DynSt)
    (hi : rs.st.reg.InvP) : StepInv (runStep dynSem is labels dynHalt rs) := by
  unfold runStep
  have hh : dynHalt rs.polls rs.st = false := rfl
  simp only [hh, Bool.false_eq_true, if_false]
  cases hget : is[rs.line]? with
  | none => exact hi
  | some instr =>
    · have h1 := C15_dyn_instruction_inv rs.vars rs.st instr rs.line hi
      rcases hres : runInstruction dynSem rs.vars rs.st instr rs.line with ⟨result, out, vars, st⟩
      rw [hres] at h1
      simp only [hres]
      simp only at h1
      cases result with
      | «continue» v => exact h1
      | crash e => exact h1
      | exit v =>
        simp only
        cases v.bind parseI32 with
        | none => exact h1
        | some code =>
          simp only
          split <;> exact h1
      | error e =>
        simp only
        have h2 := C15_dyn_on_error_inv (Vars.updateOutput vars out (some "false".toList)) st e instr.mi h1
        rcases hr2 : runOnError dynSem (Vars.updateOutput vars out (some "false".toList)) st e instr.mi with ⟨m, vars', st'⟩
        rw [hr2] at h2
        cases m <;> exact h2
      | goTo v g =>
        simp only
        cases g with
        | line n => exact h1
        | label l =>
          simp only
          cases lookupLabel labels l <;> exact h1

/-- the whole loop, any fuel -/
theorem C15_dyn_loop_inv (is : List Instruction) (labels : List (Str × Nat)) (fuel : Nat)
    (rs : RunState DynSt) (hi : rs.st.reg.InvP) :
    (runLoop dynSem is labels dynHalt fuel rs).1.st.reg.InvP := by
  induction fuel generalizing rs with
  | zero => exact hi
  | succ n ih =>
    unfold runLoop
    have h := C15_dyn_step_inv is labels rs hi
    cases hstep : runStep dynSem is labels dynHalt rs with
    | inl rs' => rw [hstep] at h; exact ih rs' h
    | inr r => rw [hstep] at h; exact h

/-- EVERY RUN: whatever the script, the queue of results, the variables and the fuel, the command
    table the run hands back has no dangling alias -/
theorem C15_dyn_run_no_dangling (fuel : Nat) (is : List Instruction) (vars : Vars) (s : DynSt)
    (hi : s.reg.InvP) : (run dynSem dynHalt fuel is vars s).1.st.reg.InvP :=
  C15_dyn_loop_inv is (labelTable is) fuel _ hi

/-- the embedder's registrations before the first run keep it -/
theorem C15_dyn_register_inv (cs : List CmdSpec) (r : Reg) (hi : r.InvP) : (dynRegister r cs).InvP := by
  induction cs generalizing r with
  | nil => exact hi
  | cons c cs ih => exact ih _ (invP_set r c hi)

/-- EVERY HISTORY OF RUNS on one Context (`dynRuns`): scripts as texts (parse errors included),
    each run starting from the state the previous one returned -/
theorem C15_dyn_runs_no_dangling (fuel : Nat) (texts : List Str) (vars : Vars) (s : DynSt)
    (hi : s.reg.InvP) : (dynRuns fuel texts vars s).2.reg.InvP := by
  induction texts generalizing vars s with
  | nil => exact hi
  | cons t rest ih =>
    unfold dynRuns
    cases hrun : runScript dynSem dynHalt fuel t vars s with
    | error e => exact hi
    | ok p =>
      obtain ⟨rs, e⟩ := p
      have h : rs.st.reg.InvP := by
        unfold runScript at hrun
        cases hp : parseText t with
        | error pe => rw [hp] at hrun; cases hrun
        | ok is =>
          rw [hp] at hrun
          simp only [Except.ok.injEq] at hrun
          have := C15_dyn_run_no_dangling fuel is vars s hi
          rw [hrun] at this
          exact this
      cases e with
      | fail msg mi => exact h
      | outOfFuel => exact h
      | exitCalled => exact ih _ _ h
      | reachedEnd => exact ih _ _ h
      | halted => exact ih _ _ h

/-- from the registrations of the `runm` stream: the invariant holds after any history -/
theorem C15_dyn_history_no_dangling (fuel : Nat) (cs : List CmdSpec) (queue : List CmdResult)
    (texts : List Str) (vars : Vars) :
    (dynRuns fuel texts vars { queue := queue, reg := dynRegister {} cs }).2.reg.InvP :=
  C15_dyn_runs_no_dangling fuel texts vars _ (C15_dyn_register_inv cs {} invP_empty)

/-- … and the alias-first resolution the log shows: the command that runs for a written word is
    the one its alias entry names, if there is one -/
theorem C15_dyn_resolution (s : DynSt) (word target : Str) (h : s.reg.aliases.get word = some target) :
    s.reg.get word = s.reg.commands.get target := by
  simp [Reg.get, Reg.resolve, h]

/- non-vacuity: a run in which a command registers `on_error` and a later error reaches it -/
example :
    let st : DynSt := { queue := [.error "boom".toList], reg := dynRegister {} [⟨"reg".toList, [], 0⟩, ⟨"c1".toList, ["k".toList], 0⟩] }
    ((dynRuns 100 ["reg on_error\nk".toList] [] st).2.log.map (·.name)) =
      ["reg".toList, "c1".toList, "on_error".toList] := by decide +kernel

end Duck
