/-
  C11 — variable commands and the scope stack behave like a map and a stack of maps.

  Model: DuckModel/Sdk/VarScope.lean (transcription of the commands and of scope::push/pop).
  Reference: DuckModel/Spec/MapStack.lean (a function `name → optional value` and a list of
  saved functions, written from the property statement).
  Relation and simulation lemmas: DuckModel/Lemmas/VarScopeLemmas.lean.

  Hypothesis `OpOK` (the operation does not CREATE a variable whose name starts with
  `scope::unset::`): `unset` is a script wrapped by the alias mechanism, which ends with
  `clear("scope::unset")` and therefore also deletes every caller variable in that name space;
  a plain map does not do that (see the last `example`: the refinement is false without the
  hypothesis).  Names that are only read, removed or copied are unrestricted.

  There is no `C11_no_panic`: after repair F4 no command of this family has a reachable
  panic (all argument indexing is guarded by a length test, `scope::push/pop` no longer
  `unwrap`), so the model has no panic outcome to exclude; totality of the model functions is
  the statement.  That the real code does not panic is checked by the harness (`PANIC` output).
-/
import DuckModel.Lemmas.VarScopeLemmas
import DuckModel.Props.C11Scripts

namespace Duck
open Duck.VarScope Duck.Spec.MapStack

/-- Refinement, from any pair of related states: for every operation sequence the outputs
    agree (`OutsEq`: equal command results; the list reported by get_all_var_names holds
    exactly the defined names), the variable maps are lookup-equal and the stacks have the
    same depth (in fact: are lookup-equal level by level, `Sim`).  Since the statement holds
    for every sequence it holds after every prefix, i.e. after every step. -/
theorem C11_refines_from (m : VsSt) (s : S) (h : Sim m s) (ops : List VsOp)
    (hok : ∀ op ∈ ops, OpOK op) :
    OutsEq (VarScope.run m ops).2 (Spec.MapStack.run s (ops.map specOp)).2 ∧
    (∀ k, Vars.get (VarScope.run m ops).1.vars k = (Spec.MapStack.run s (ops.map specOp)).1.map k) ∧
    (VarScope.run m ops).1.stack.length = (Spec.MapStack.run s (ops.map specOp)).1.stack.length ∧
    Sim (VarScope.run m ops).1 (Spec.MapStack.run s (ops.map specOp)).1 := by
  obtain ⟨hs, ho⟩ := sim_run h ops hok
  exact ⟨ho, hs.1.1, stackRel_length hs.2, hs⟩

/-- Refinement from the empty state. -/
theorem C11_refines (ops : List VsOp) (hok : ∀ op ∈ ops, OpOK op) :
    OutsEq (VarScope.run {} ops).2 (Spec.MapStack.run init (ops.map specOp)).2 ∧
    (∀ k, Vars.get (VarScope.run {} ops).1.vars k =
            (Spec.MapStack.run init (ops.map specOp)).1.map k) ∧
    (VarScope.run {} ops).1.stack.length =
      (Spec.MapStack.run init (ops.map specOp)).1.stack.length := by
  have h0 : Sim {} init := ⟨rel_empty, trivial⟩
  obtain ⟨a, b, c, _⟩ := C11_refines_from {} init h0 ops hok
  exact ⟨a, b, c⟩

/-- get_all_var_names reports exactly the defined names. -/
theorem C11_names_exact (st : VsSt) (out : Option Str) (h : Str) (k : Str) :
    (match (VarScope.apply st (.names out h)).2 with
      | .names l => k ∈ l
      | .res _ => False) ↔ (Vars.get st.vars k).isSome = true := by
  simp only [VarScope.apply, mem_keys]

/-- From the empty state no history ever makes get_all_var_names report a name twice (the
    association list keeps its keys unique, like the HashMap it stands for); together with
    `C11_names_exact` the reported list is the set of defined names. -/
theorem C11_names_nodup (ops : List VsOp) :
    ∀ o ∈ (VarScope.run {} ops).2, NamesNodup o :=
  (names_nodup_run (st := {}) ⟨nk_nil, fun _ h => by cases h⟩ ops).2

/-- Popping an empty stack is an error that changes nothing: the command leaves the whole
    state as it was; through the runner the only change is `false` in the output variable
    (none if the line has no output variable). -/
theorem C11_pop_empty_changes_nothing (st : VsSt) (args : List Str) (h : st.stack = []) :
    VarScope.runCmd st .popStack args = (st, .error []) ∧
    VarScope.apply st (.cmd none .popStack args) = (st, .res (.error [])) ∧
    ∀ o, VarScope.apply st (.cmd (some o) .popStack args) =
      ({ st with vars := st.vars.set o "false".toList }, .res (.error [])) := by
  have h1 : VarScope.runCmd st .popStack args = (st, .error []) := by
    simp [VarScope.runCmd, VarScope.scopePop, h]
  refine ⟨h1, ?_, ?_⟩
  · simp [VarScope.apply, h1, writeOutput, Vars.updateOutput]
  · intro o
    simp [VarScope.apply, h1, writeOutput, Vars.updateOutput]

/-- Last in, first out: after a push, any operation sequence that is balanced (every pop in
    it matches a push in it) leaves the stack exactly as the push left it, and the next pop
    removes that level again, restores the map saved by THAT push and overlays the copied
    names that are defined at the time of the pop. -/
theorem C11_lifo (st : VsSt) (o1 : Option Str) (pushArgs : List Str) (mid : List VsOp)
    (popArgs : List Str) (hb : balanced 0 mid = true) :
    let st1 := (VarScope.apply st (.cmd o1 .pushStack pushArgs)).1
    let st2 := (VarScope.run st1 mid).1
    let st3 := (VarScope.runCmd st2 .popStack popArgs).1
    st2.stack = st.vars :: st.stack ∧
    (VarScope.runCmd st2 .popStack popArgs).2 = .continue (some "true".toList) ∧
    st3.stack = st.stack ∧
    ∀ k, Vars.get st3.vars k =
      Map.overlay (Vars.get st.vars) (Vars.get st2.vars) (copyArgs popArgs) k := by
  intro st1 st2 st3
  have hs1 : st1.stack = st.vars :: st.stack := stack_apply st _
  have hs2 : st2.stack = st.vars :: st.stack :=
    stack_balanced st1 [] (st.vars :: st.stack) mid (by simpa using hs1) hb
  refine ⟨hs2, ?_, ?_, ?_⟩
  · simp [VarScope.runCmd, VarScope.scopePop, hs2]
  · simp [st3, VarScope.runCmd, VarScope.scopePop, hs2]
  · intro k
    simp only [st3, VarScope.runCmd, VarScope.scopePop, hs2, get_popMap, get_copyLoop_nil, Map.overlay]
    by_cases hc : k ∈ copyArgs popArgs
    · simp only [hc, if_true]
      cases Vars.get st2.vars k <;> rfl
    · simp [hc]

/-- Copy semantics.  Push saves the whole map and keeps exactly the copied names that are
    defined (with their values); pop restores the saved map and overlays the copied names that
    are defined; only the SET of copied names matters, so repeating a name (or reordering
    the list) changes nothing. -/
theorem C11_copy_semantics (vars old : Vars) (stack : List Vars) (copy : List Str) :
    -- push
    (VarScope.scopePush vars stack copy).2 = vars :: stack ∧
    (∀ k, Vars.get (VarScope.scopePush vars stack copy).1 k = if k ∈ copy then Vars.get vars k else none) ∧
    -- pop
    (∃ v', VarScope.scopePop vars (old :: stack) copy = some (v', stack) ∧
      ∀ k, Vars.get v' k =
        if k ∈ copy then
          (match Vars.get vars k with
            | some v => some v
            | none => Vars.get old k)
        else Vars.get old k) ∧
    -- duplicates / order
    (∀ copy', (∀ k, k ∈ copy ↔ k ∈ copy') →
      (∀ k, Vars.get (VarScope.scopePush vars stack copy).1 k = Vars.get (VarScope.scopePush vars stack copy').1 k) ∧
      (∀ k, (VarScope.scopePop vars (old :: stack) copy).map (fun r => Vars.get r.1 k) =
            (VarScope.scopePop vars (old :: stack) copy').map (fun r => Vars.get r.1 k))) := by
  have hpush : ∀ c k, Vars.get (VarScope.scopePush vars stack c).1 k =
      if k ∈ c then Vars.get vars k else none := by
    intro c k
    simp only [VarScope.scopePush, get_insertAll_nil, get_copyLoop_nil]
  have hpop : ∀ c k, (VarScope.scopePop vars (old :: stack) c).map (fun r => Vars.get r.1 k) =
      some (if k ∈ c then
          (match Vars.get vars k with
            | some v => some v
            | none => Vars.get old k)
        else Vars.get old k) := by
    intro c k
    simp only [VarScope.scopePop, Option.map, get_popMap, get_copyLoop_nil]
    by_cases hc : k ∈ c
    · simp only [hc, if_true]; rfl
    · simp [hc]
  refine ⟨rfl, hpush copy, ⟨_, rfl, ?_⟩, ?_⟩
  · intro k
    have := hpop copy k
    simpa [VarScope.scopePop] using this
  · intro copy' hm
    refine ⟨fun k => ?_, fun k => ?_⟩
    · rw [hpush, hpush]; simp only [hm k]
    · rw [hpop, hpop]; simp only [hm k]

/-! ### non-vacuity -/

section Examples
open VarScope

private def x : Str := "x".toList
private def y : Str := "y".toList
private def z : Str := "z".toList

/-- a history with nesting, an undefined copied name and a repeated one -/
private def hist : List VsOp := [
  .cmd (some x) .set ["1".toList],
  .cmd (some y) .set ["".toList, "or".toList, "2".toList],
  .cmd none .pushStack ["--copy".toList, x, z, x],
  .cmd (some z) .isDefined [y],
  .cmd none .popStack ["--copy".toList, z, "nope".toList],
  .cmd none .popStack []]

example : ∀ op ∈ hist, OpOK op := by decide

example : (VarScope.run {} hist).1.stack.length = 0 := by decide

example : Vars.get (VarScope.run {} hist).1.vars x = some "1".toList ∧
    Vars.get (VarScope.run {} hist).1.vars y = some "2".toList ∧
    Vars.get (VarScope.run {} hist).1.vars z = some "false".toList := by decide

example : (Spec.MapStack.run init (hist.map specOp)).1.map z = some "false".toList := by decide

/-- the last pop hits the empty stack -/
example : ((VarScope.run {} hist).2.getLast?.map fun o =>
    match o with
    | .res (.error _) => true
    | _ => false) = some true := by decide

example : balanced 0 [.cmd none .pushStack [], .cmd (some x) .set [y], .cmd none .popStack []] = true := by
  decide

/-- the hypothesis `OpOK` cannot be dropped: `unset` also deletes the caller's variables in
    the name space of its own temporaries, a plain map does not -/
example :
    let ops : List VsOp := [.cmd (some "scope::unset::mine".toList) .set [x], .cmd none .unset [y]]
    Vars.get (VarScope.run {} ops).1.vars "scope::unset::mine".toList = none ∧
    (Spec.MapStack.run init (ops.map specOp)).1.map "scope::unset::mine".toList = some x := by
  decide

end Examples

end Duck
