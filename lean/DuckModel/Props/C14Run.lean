import DuckModel.Lemmas.DirectiveLemmas
import DuckModel.Props.C03
import DuckModel.Props.C14
