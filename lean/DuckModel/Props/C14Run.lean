/-
  C14 (run level) — a script that pulls in other files with `!include_files` BEHAVES like the
  script obtained by pasting the listed files at each directive.
  ONLY property theorems and their non-vacuity examples live here (definitions and lemmas:
  Lemmas/DirectiveLemmas.lean).

  Props/C14.lean proves the PARSE-level statement: the parse of the root file, with the include
  directive instructions removed (`stripDirectives`), is the parse of the inlined lines.  The
  real parse keeps each directive line as a `PreProcess` instruction; the runner
  (`run_instruction`) does nothing for it: `Continue(None)`, no output variable.  This file
  proves that removing such instructions does not change what a run does.

  Setting.  `is` is an instruction list, `keep` a selection that only ever rejects pre-processor
  instructions (`DropsOnlyDirectives`; instances: `dropDirectives` = all pre-processor
  instructions removed, `stripDirectives` = the include directives removed, `!print` lines kept),
  `is.filter keep` the shorter list.  Index `k` of `is` corresponds to index `posIn keep is k` of
  the shorter list = the number of kept instructions before `k` (`C14_pos_counts_kept`).

  WHY the restriction on the command semantics.  Removing instructions shifts the ABSOLUTE
  indexes of all later instructions.  The runner hands every command the absolute index of the
  current line and obeys `GoTo(Line(n))` with an absolute `n`.  The theorems are therefore stated
  for command semantics `sem` that
    * do not depend on the line index they are given (`LineInsensitive sem`), and
    * never return `GoTo(_, Line(n))` (`NoAbsoluteJumps sem`);
  jumps to LABELS are covered in full (a label is always carried by a kept instruction, later
  duplicates win in both lists: `C14_label_positions`).  The restriction is necessary for a
  statement about an arbitrary `sem`: the example `C14_absolute_jump_differs` at the end is a
  one-command semantics jumping to an absolute line for which the two runs end differently.
  The SDK's block commands (`if/else/end`, `while`, `for`, `function`/`call`) are NOT in the
  fragment: they return `GoTo(Line(n))` with absolute indexes which they compute by scanning the
  very instruction list they run in (and they remember absolute indexes in their call/loop
  stacks), so what they compute is consistent WITHIN either list — the n computed in the long
  list is the position corresponding to the n computed in the short list.  Stating that needs
  the full interpreter model of those commands (state invariants relating the stored indexes
  through `posIn`); it is out of scope here.  For real SDK programs the harness compares
  `run_script_file` on the including script with a run of the inlined text.

  The halt flag.  The embedder's flag is polled once per loop iteration, and the long list makes
  extra iterations (one per directive it passes).  An oracle indexed by the NUMBER of the poll
  can therefore not be preserved (example `C14_poll_indexed_halt_differs`); the theorems hold
  for `noHalt` and for every oracle that looks at the state only (`StateOnlyHalt`), and then a
  halted run corresponds to a halted run as well.

  Fuel.  The model runner takes fuel (a script may loop forever).  A finished run of the long
  list is matched by the short list with the SAME fuel; a finished run of the short list with
  fuel `f'` is matched by the long list with fuel `f' * (length is + 1)`; and whenever both are
  finished (any two fuels) they end the same way (`SameOutcome`: same variables, same state,
  same `RunEnd` — `reachedEnd` / `exitCalled` / `halted` / `fail msg mi` with the same message
  and the same meta info `mi` of the failing instruction, which is the same instruction object
  in both lists).  Final line numbers correspond through `posIn`; poll counters are not related.

  Deviations from the task statement, found while proving:
    * the label statement `lookup is l = some k ↔ lookup is' l = some (pos k)` is FALSE from
      right to left when `k` is the index of a dropped directive immediately before the label
      line (`pos` is not injective: `pos k = pos (k+1)` there) — example
      `C14_label_iff_counterexample`.  The correct statement is the equation
      `lookup is' l = (lookup is l).map pos` (`C14_label_positions`).
-/
import DuckModel.Runner
import DuckModel.Spec.Machine
import DuckModel.Lemmas.DirectiveLemmas
import DuckModel.Props.C03

namespace Duck
open Duck.Spec

/-! ### the index map and the labels -/

/-- `posIn keep is k` counts the kept instructions before index `k` -/
theorem C14_pos_counts_kept (keep : Instruction → Bool) (is : List Instruction) (k : Nat) :
    posIn keep is k = ((is.take k).filter keep).length :=
  posIn_eq_take keep is k

/-- the two instances: all pre-processor instructions / the include directives only -/
theorem C14_drop_instances (is : List Instruction) :
    dropDirectives is = is.filter (fun i => !isPreProcess i) ∧
    stripDirectives is = is.filter (fun i => !isDirective i) ∧
    DropsOnlyDirectives (fun i => !isPreProcess i) ∧ DropsOnlyDirectives (fun i => !isDirective i) :=
  ⟨rfl, rfl, dropsOnly_notPre, dropsOnly_notDirective⟩

/-- Labels: the label table of the shorter list is the label table of the list, re-indexed.
    A label is carried by a kept instruction and the last line carrying it wins in both lists
    (proved through the declarative reading of the table, `C03_label_table`). -/
theorem C14_label_positions (keep : Instruction → Bool) (hD : DropsOnlyDirectives keep)
    (is : List Instruction) (l : Str) :
    lookupLabel (labelTable (is.filter keep)) l =
      (lookupLabel (labelTable is) l).map (posIn keep is) := by
  cases h : lookupLabel (labelTable is) l with
  | none =>
    rw [C03_label_table_none] at h
    simp only [Option.map_none]
    rw [C03_label_table_none]
    exact noLabelLine_filter keep is l h
  | some k =>
    rw [C03_label_table] at h
    simp only [Option.map_some]
    rw [C03_label_table]
    exact isLabelLine_filter keep hD is l k h

/-- the same, as implications -/
theorem C14_label_positions_iff (keep : Instruction → Bool) (hD : DropsOnlyDirectives keep)
    (is : List Instruction) (l : Str) :
    (∀ k, lookupLabel (labelTable is) l = some k →
        lookupLabel (labelTable (is.filter keep)) l = some (posIn keep is k)) ∧
    (∀ j, lookupLabel (labelTable (is.filter keep)) l = some j →
        ∃ k, lookupLabel (labelTable is) l = some k ∧ posIn keep is k = j) ∧
    (lookupLabel (labelTable is) l = none ↔ lookupLabel (labelTable (is.filter keep)) l = none) := by
  have h := C14_label_positions keep hD is l
  refine ⟨fun k hk => by rw [h, hk]; rfl, fun j hj => ?_, ?_⟩
  · rw [h] at hj
    cases hk : lookupLabel (labelTable is) l with
    | none => rw [hk] at hj; simp at hj
    | some k => rw [hk] at hj; exact ⟨k, rfl, by simpa using hj⟩
  · rw [h]
    cases lookupLabel (labelTable is) l <;> simp

/-! ### the runs -/

/-- Core, long list ⇒ short list.  For command semantics that ignore the line index and never
    jump to absolute lines, and a halt oracle that looks at the state only: a finished run of
    `is` from line `k` is matched, with the SAME fuel, by the run of the list without the
    directives from the corresponding line — same variables, same state, same end (same failure
    message and meta info), corresponding final line. -/
theorem C14_run_skips_directives {σ : Type} (sem : CmdSem σ) (hL : LineInsensitive sem)
    (hN : NoAbsoluteJumps sem) (halt : Nat → σ → Bool) (hH : StateOnlyHalt halt)
    (keep : Instruction → Bool) (hD : DropsOnlyDirectives keep) (is : List Instruction)
    (k polls polls' : Nat) (vars : Vars) (s : σ) (fuel : Nat)
    (hfin : Finished (runLoop sem is (labelTable is) halt fuel ⟨k, polls, vars, s⟩)) :
    Finished (runLoop sem (is.filter keep) (labelTable (is.filter keep)) halt fuel
        ⟨posIn keep is k, polls', vars, s⟩) ∧
    SameOutcome (runLoop sem is (labelTable is) halt fuel ⟨k, polls, vars, s⟩)
      (runLoop sem (is.filter keep) (labelTable (is.filter keep)) halt fuel
        ⟨posIn keep is k, polls', vars, s⟩) ∧
    (runLoop sem (is.filter keep) (labelTable (is.filter keep)) halt fuel
        ⟨posIn keep is k, polls', vars, s⟩).1.line =
      posIn keep is (runLoop sem is (labelTable is) halt fuel ⟨k, polls, vars, s⟩).1.line := by
  obtain ⟨r', hr', hc⟩ := runLoop_filter_forward sem hL hN halt hH keep hD is fuel
    ⟨k, polls, vars, s⟩ ⟨posIn keep is k, polls', vars, s⟩ _ _ ⟨rfl, rfl, rfl⟩ rfl hfin
  rw [hr']
  exact ⟨hfin, ⟨hc.2.1.symm, hc.2.2.symm, rfl⟩, hc.1⟩

/-- Core, short list ⇒ long list.  A finished run of the list without the directives with fuel
    `fuel'` is matched by the run of `is` with fuel `fuel' * (length is + 1)` (between two
    steps of the short list the long one makes at most `length is` directive steps). -/
theorem C14_run_skips_directives_conv {σ : Type} (sem : CmdSem σ) (hL : LineInsensitive sem)
    (hN : NoAbsoluteJumps sem) (halt : Nat → σ → Bool) (hH : StateOnlyHalt halt)
    (keep : Instruction → Bool) (hD : DropsOnlyDirectives keep) (is : List Instruction)
    (k polls polls' : Nat) (vars : Vars) (s : σ) (fuel' : Nat)
    (hfin : Finished (runLoop sem (is.filter keep) (labelTable (is.filter keep)) halt fuel'
        ⟨posIn keep is k, polls', vars, s⟩)) :
    Finished (runLoop sem is (labelTable is) halt (fuel' * (is.length + 1))
        ⟨k, polls, vars, s⟩) ∧
    SameOutcome (runLoop sem is (labelTable is) halt (fuel' * (is.length + 1)) ⟨k, polls, vars, s⟩)
      (runLoop sem (is.filter keep) (labelTable (is.filter keep)) halt fuel'
        ⟨posIn keep is k, polls', vars, s⟩) ∧
    (runLoop sem (is.filter keep) (labelTable (is.filter keep)) halt fuel'
        ⟨posIn keep is k, polls', vars, s⟩).1.line =
      posIn keep is (runLoop sem is (labelTable is) halt (fuel' * (is.length + 1))
        ⟨k, polls, vars, s⟩).1.line := by
  obtain ⟨f, r, hf, hr, hc⟩ := runLoop_filter_backward sem hL hN halt hH keep hD is fuel'
    (is.length - k) ⟨k, polls, vars, s⟩ ⟨posIn keep is k, polls', vars, s⟩ _ _ (Nat.le_refl _)
    ⟨rfl, rfl, rfl⟩ rfl hfin
  have hle : f ≤ fuel' * (is.length + 1) := by
    simp only at hf
    omega
  have hmono := C03_fuel_monotone sem is (labelTable is) halt f (fuel' * (is.length + 1) - f)
    _ _ _ hr hfin
  rw [Nat.add_sub_cancel' hle] at hmono
  rw [hmono]
  exact ⟨hfin, ⟨hc.2.1.symm, hc.2.2.symm, rfl⟩, hc.1⟩

/-- Core, both finished ⇒ same outcome, whatever the two fuels. -/
theorem C14_run_agrees {σ : Type} (sem : CmdSem σ) (hL : LineInsensitive sem)
    (hN : NoAbsoluteJumps sem) (halt : Nat → σ → Bool) (hH : StateOnlyHalt halt)
    (keep : Instruction → Bool) (hD : DropsOnlyDirectives keep) (is : List Instruction)
    (k polls polls' : Nat) (vars : Vars) (s : σ) (fuel fuel' : Nat)
    (h₁ : Finished (runLoop sem is (labelTable is) halt fuel ⟨k, polls, vars, s⟩))
    (h₂ : Finished (runLoop sem (is.filter keep) (labelTable (is.filter keep)) halt fuel'
        ⟨posIn keep is k, polls', vars, s⟩)) :
    SameOutcome (runLoop sem is (labelTable is) halt fuel ⟨k, polls, vars, s⟩)
      (runLoop sem (is.filter keep) (labelTable (is.filter keep)) halt fuel'
        ⟨posIn keep is k, polls', vars, s⟩) := by
  obtain ⟨h₃, hsame, _⟩ := C14_run_skips_directives sem hL hN halt hH keep hD is k polls polls'
    vars s fuel h₁
  have m₁ : runLoop sem (is.filter keep) (labelTable (is.filter keep)) halt (fuel + fuel')
        ⟨posIn keep is k, polls', vars, s⟩ =
      runLoop sem (is.filter keep) (labelTable (is.filter keep)) halt fuel
        ⟨posIn keep is k, polls', vars, s⟩ :=
    C03_fuel_monotone sem (is.filter keep) (labelTable (is.filter keep)) halt fuel fuel'
      ⟨posIn keep is k, polls', vars, s⟩ _ _ rfl h₃
  have m₂ : runLoop sem (is.filter keep) (labelTable (is.filter keep)) halt (fuel' + fuel)
        ⟨posIn keep is k, polls', vars, s⟩ =
      runLoop sem (is.filter keep) (labelTable (is.filter keep)) halt fuel'
        ⟨posIn keep is k, polls', vars, s⟩ :=
    C03_fuel_monotone sem (is.filter keep) (labelTable (is.filter keep)) halt fuel' fuel
      ⟨posIn keep is k, polls', vars, s⟩ _ _ rfl h₂
  rw [Nat.add_comm fuel' fuel, m₁] at m₂
  rw [← m₂]
  exact hsame

/-- the two oracles the theorems are meant for -/
theorem C14_halt_oracles {σ : Type} (h : σ → Bool) :
    StateOnlyHalt (noHalt : Nat → σ → Bool) ∧ StateOnlyHalt (fun (_ : Nat) (s : σ) => h s) :=
  ⟨fun _ _ _ => rfl, fun _ _ _ => rfl⟩

/-- Whole scripts (`run` = label table + loop from line 0), all pre-processor instructions
    removed: termination carries over in both directions and finished runs end the same way. -/
theorem C14_run_dropDirectives {σ : Type} (sem : CmdSem σ) (hL : LineInsensitive sem)
    (hN : NoAbsoluteJumps sem) (halt : Nat → σ → Bool) (hH : StateOnlyHalt halt)
    (is : List Instruction) (vars : Vars) (s : σ) :
    (∀ f, Finished (run sem halt f is vars s) → Finished (run sem halt f (dropDirectives is) vars s)) ∧
    (∀ f', Finished (run sem halt f' (dropDirectives is) vars s) →
      Finished (run sem halt (f' * (is.length + 1)) is vars s)) ∧
    (∀ f f', Finished (run sem halt f is vars s) → Finished (run sem halt f' (dropDirectives is) vars s) →
      SameOutcome (run sem halt f is vars s) (run sem halt f' (dropDirectives is) vars s)) := by
  have hp : posIn (fun i => !isPreProcess i) is 0 = 0 := posIn_zero _ is
  refine ⟨fun f h => ?_, fun f' h => ?_, fun f f' h₁ h₂ => ?_⟩
  · have := (C14_run_skips_directives sem hL hN halt hH _ dropsOnly_notPre is 0 0 0 vars s f h).1
    rw [hp] at this
    exact this
  · refine (C14_run_skips_directives_conv sem hL hN halt hH _ dropsOnly_notPre is 0 0 0 vars s f'
      ?_).1
    rw [hp]
    exact h
  · have := C14_run_agrees sem hL hN halt hH _ dropsOnly_notPre is 0 0 0 vars s f f' h₁
      (by rw [hp]; exact h₂)
    rw [hp] at this
    exact this

/-- The same at the level of the abstract machine of C03 (no fuel, no polls): the machine
    reaches a final outcome on `is` from line `k` iff it reaches the SAME outcome on the list
    without the directives from the corresponding line. -/
theorem C14_reaches_iff {σ : Type} (sem : CmdSem σ) (hL : LineInsensitive sem)
    (hN : NoAbsoluteJumps sem) (keep : Instruction → Bool) (hD : DropsOnlyDirectives keep)
    (is : List Instruction) (k : Nat) (vars : Vars) (s : σ) (fin : Final σ) :
    Reaches sem is ⟨k, vars, s⟩ fin ↔
      Reaches sem (is.filter keep) ⟨posIn keep is k, vars, s⟩ fin := by
  have hH : StateOnlyHalt (noHalt : Nat → σ → Bool) := fun _ _ _ => rfl
  have key : ∀ (a b : RunState σ × RunEnd), SameOutcome a b → finalOf a.1 a.2 = finalOf b.1 b.2 := by
    rintro ⟨a, ea⟩ ⟨b, eb⟩ ⟨h1, h2, h3⟩
    simp only at h1 h2 h3
    subst h3
    cases ea <;> simp [finalOf, h1, h2]
  have fin_of : ∀ (a : RunState σ × RunEnd), finalOf a.1 a.2 = some fin → Finished a := by
    rintro ⟨a, ea⟩ h hne
    simp only at hne
    subst hne
    simp [finalOf] at h
  constructor
  · intro h
    obtain ⟨fuel, rs', e, hrun, hf⟩ := C03_complete sem is ⟨k, vars, s⟩ fin h 0
    have hfin : Finished (runLoop sem is (labelTable is) noHalt fuel ⟨k, 0, vars, s⟩) :=
      fin_of _ (by rw [hrun]; exact hf)
    obtain ⟨_, hsame, _⟩ := C14_run_skips_directives sem hL hN noHalt hH keep hD is k 0 0 vars s
      fuel hfin
    have := key _ _ hsame
    rw [hrun] at this
    exact C03_sound sem (is.filter keep) fuel ⟨posIn keep is k, 0, vars, s⟩ _ _ fin rfl
      (by rw [← this]; exact hf)
  · intro h
    obtain ⟨fuel', rs', e, hrun, hf⟩ :=
      C03_complete sem (is.filter keep) ⟨posIn keep is k, vars, s⟩ fin h 0
    have hfin : Finished (runLoop sem (is.filter keep) (labelTable (is.filter keep)) noHalt fuel'
        ⟨posIn keep is k, 0, vars, s⟩) := fin_of _ (by rw [hrun]; exact hf)
    obtain ⟨_, hsame, _⟩ := C14_run_skips_directives_conv sem hL hN noHalt hH keep hD is k 0 0
      vars s fuel' hfin
    have := key _ _ hsame
    rw [hrun] at this
    exact C03_sound sem is (fuel' * (is.length + 1)) ⟨k, 0, vars, s⟩ _ _ fin rfl
      (by rw [this]; exact hf)

/-! ### including = pasting, at run time -/

/-- Including behaves like pasting.  When the inlining of `root` succeeds within the include
    depth and every inlined line is well-formed (the hypotheses of `C14_inline_equiv`;
    `∃ ty, lineOutcome l = .ok ty` is `LineWellFormed l`), the root file parses, and its parse
    `is` (directives still in it) and the instructions `ls.map instrOf` of the inlined text, run
    from the same variables and state under the same line-insensitive command semantics
    without absolute jumps, satisfy:
    (1) if the run of `is` finishes with fuel `f`, so does the run of the inlined text with `f`;
    (2) if the run of the inlined text finishes with fuel `f'`, so does the run of `is` with
        fuel `f' * (length is + 1)`;
    (3) whenever both finish they end the same way: same variables, same state, same end
        (for a failure: same message, same (file, line) of the failing instruction). -/
theorem C14_behaves_like_inlined {σ : Type} (fs : Fs) (fuel : Nat) (root : Str)
    (ls : List (Meta × Str))
    (hin : Spec.inline (worldOf fs) fuel root = (ls, none))
    (hok : ∀ p ∈ ls, ∃ ty, lineOutcome p.2 = .ok ty)
    (sem : CmdSem σ) (hL : LineInsensitive sem) (hN : NoAbsoluteJumps sem)
    (halt : Nat → σ → Bool) (hH : StateOnlyHalt halt) (vars : Vars) (s : σ) :
    ∃ is, parseFileF fs fuel root = .ok is ∧
    (∀ f, Finished (run sem halt f is vars s) → Finished (run sem halt f (ls.map instrOf) vars s)) ∧
    (∀ f', Finished (run sem halt f' (ls.map instrOf) vars s) →
      Finished (run sem halt (f' * (is.length + 1)) is vars s)) ∧
    (∀ f f', Finished (run sem halt f is vars s) → Finished (run sem halt f' (ls.map instrOf) vars s) →
      SameOutcome (run sem halt f is vars s) (run sem halt f' (ls.map instrOf) vars s)) := by
  obtain ⟨is, hparse, hstrip⟩ := inline_strip fs fuel root ls hin hok
  refine ⟨is, hparse, ?_⟩
  rw [← hstrip]
  have hp : posIn (fun i => !isDirective i) is 0 = 0 := posIn_zero _ is
  refine ⟨fun f h => ?_, fun f' h => ?_, fun f f' h₁ h₂ => ?_⟩
  · have := (C14_run_skips_directives sem hL hN halt hH _ dropsOnly_notDirective is 0 0 0 vars s
      f h).1
    rw [hp] at this
    exact this
  · refine (C14_run_skips_directives_conv sem hL hN halt hH _ dropsOnly_notDirective is 0 0 0
      vars s f' ?_).1
    rw [hp]
    exact h
  · have := C14_run_agrees sem hL hN halt hH _ dropsOnly_notDirective is 0 0 0 vars s f f' h₁
      (by rw [hp]; exact h₂)
    rw [hp] at this
    exact this

/-- The same for any instruction list `is` (it need not come from a parse) and the list `is₂`
    of its non-include-directive instructions — the conclusion of `C14_inline_equiv` is exactly
    `stripDirectives is = ls.map instrOf` for the parse `is` of the root file: never halted,
    both runs finished ⇒ same outcome. -/
theorem C14_run_stripDirectives {σ : Type} (is is₂ : List Instruction)
    (hstrip : stripDirectives is = is₂)
    (sem : CmdSem σ) (hL : LineInsensitive sem) (hN : NoAbsoluteJumps sem)
    (vars : Vars) (s : σ) (f f' : Nat)
    (h₁ : Finished (run sem noHalt f is vars s)) (h₂ : Finished (run sem noHalt f' is₂ vars s)) :
    SameOutcome (run sem noHalt f is vars s) (run sem noHalt f' is₂ vars s) := by
  subst hstrip
  have hp : posIn (fun i => !isDirective i) is 0 = 0 := posIn_zero _ is
  have := C14_run_agrees sem hL hN noHalt (fun _ _ _ => rfl) _ dropsOnly_notDirective is 0 0 0
    vars s f f' h₁ (by rw [hp]; exact h₂)
  rw [hp] at this
  exact this

/-! ### the hypotheses are satisfiable, the conclusions are about real runs (non-vacuity) -/

namespace C14RunExample

def L : Str := "L".toList
def x : Str := "x".toList

/-- `jump` / `!include_files f.ds` / `boom` / `:L x = set` -/
def prog : List Instruction :=
  [ ⟨{ line := some 1 }, .script { command := some "jump".toList }⟩,
    ⟨{ line := some 2 }, .preProcess (some includeName) (some ["f.ds".toList])⟩,
    ⟨{ line := some 3 }, .script { command := some "boom".toList }⟩,
    ⟨{ line := some 4 }, .script { label := some L, output := some x,
                                   command := some "set".toList }⟩ ]

/-- `set` / `!include_files f.ds` / `boom`: the run passes the directive, then fails -/
def prog₂ : List Instruction :=
  [ ⟨{ line := some 1 }, .script { output := some x, command := some "set".toList }⟩,
    ⟨{ line := some 2 }, .preProcess (some includeName) (some ["f.ds".toList])⟩,
    ⟨{ line := some 3 }, .script { command := some "boom".toList }⟩ ]

/-- `jump` goes to label `L`, `boom` crashes, `set` returns "1"; the line index is ignored -/
def sem : CmdSem Unit := fun name _ _ _ vars s =>
  if name = "jump".toList then some (.goTo none (.label L), vars, s)
  else if name = "boom".toList then some (.crash "bang".toList, vars, s)
  else if name = "set".toList then some (.continue (some "1".toList), vars, s)
  else none

end C14RunExample

open C14RunExample in
/-- the example semantics is in the fragment of the theorems -/
theorem C14_example_sem_ok : LineInsensitive sem ∧ NoAbsoluteJumps sem := by
  refine ⟨fun _ _ _ _ _ _ _ => rfl, ?_⟩
  intro name args out l vars s v n vars' s' h
  unfold sem at h
  repeat' split at h
  all_goals simp at h

namespace C14RunExample

/-- the directive is the only instruction removed, by either selection -/
example : dropDirectives prog = stripDirectives prog ∧ (dropDirectives prog).length = 3 := by
  decide

/-- the label sits at index 3 of the list and at index 2 = `posIn … 3` of the shorter list -/
example : lookupLabel (labelTable prog) L = some 3 ∧
    lookupLabel (labelTable (dropDirectives prog)) L = some 2 ∧
    posIn (fun i => !isPreProcess i) prog 3 = 2 := by decide

/-- the run of the list: jump over the directive and `boom` to the label, set `x`, end -/
example : run sem noHalt 3 prog [] () = (⟨4, 3, [(x, "1".toList)], ()⟩, .reachedEnd) := by rfl

example : run sem noHalt 3 (dropDirectives prog) [] () =
    (⟨3, 3, [(x, "1".toList)], ()⟩, .reachedEnd) := by rfl

/-- … and this is what the theorem says about them -/
example : SameOutcome (run sem noHalt 3 prog [] ()) (run sem noHalt 3 (dropDirectives prog) [] ()) :=
  (C14_run_dropDirectives sem C14_example_sem_ok.1 C14_example_sem_ok.2 noHalt (fun _ _ _ => rfl)
    prog [] ()).2.2 3 3 (by decide) (by decide)

/-- a run that executes the directive (one more step, one more poll) and then fails:
    same message, same meta info (line 3) on both sides -/
example : run sem noHalt 3 prog₂ [] () =
    (⟨2, 3, [(x, "1".toList)], ()⟩, .fail "bang".toList { line := some 3 }) := by rfl

example : run sem noHalt 2 (dropDirectives prog₂) [] () =
    (⟨1, 2, [(x, "1".toList)], ()⟩, .fail "bang".toList { line := some 3 }) := by rfl

example : Finished (run sem noHalt 3 (dropDirectives prog₂) [] ()) :=
  (C14_run_dropDirectives sem C14_example_sem_ok.1 C14_example_sem_ok.2 noHalt (fun _ _ _ => rfl)
    prog₂ [] ()).1 3 (by decide)

/-- the abstract machine of C03 agrees -/
example : Reaches sem (dropDirectives prog) ⟨0, [], ()⟩ (.ok [(x, "1".toList)] ()) :=
  (C14_reaches_iff sem C14_example_sem_ok.1 C14_example_sem_ok.2 _ dropsOnly_notPre prog 0 [] ()
    _).1 (C03_sound sem prog 3 ⟨0, 0, [], ()⟩ _ _ _ (by rfl) rfl)

end C14RunExample

/-! ### the restrictions are necessary (counterexamples) -/

open C14RunExample in
/-- the right-to-left half of `lookup is l = some k ↔ lookup is' l = some (pos k)` fails when
    `k` is the index of a dropped directive standing immediately before the label line:
    in `[jump, directive, :L set]` the label is at 2, `pos 1 = pos 2 = 1`, so for `k = 1` (the
    directive) the right-hand side holds and the left-hand side does not -/
theorem C14_label_iff_counterexample :
    let is : List Instruction :=
      [ ⟨{}, .script { command := some "jump".toList }⟩,
        ⟨{}, .preProcess (some includeName) none⟩,
        ⟨{}, .script { label := some L, command := some "set".toList }⟩ ]
    lookupLabel (labelTable (dropDirectives is)) L = some (posIn (fun i => !isPreProcess i) is 1) ∧
      lookupLabel (labelTable is) L ≠ some 1 := by decide

open C14RunExample in
/-- a command that jumps to an ABSOLUTE line: the long list lands on `:L x = set`, the short one
    past the end — the variables differ.  `NoAbsoluteJumps` cannot be dropped. -/
theorem C14_absolute_jump_differs :
    let semAbs : CmdSem Unit := fun name _ _ _ vars s =>
      if name = "jump".toList then some (.goTo none (.line 3), vars, s) else sem name [] none 0 vars s
    LineInsensitive semAbs ∧
    (run semAbs noHalt 9 prog [] ()).1.vars = [(x, "1".toList)] ∧
    (run semAbs noHalt 9 (dropDirectives prog) [] ()).1.vars = [] ∧
    (run semAbs noHalt 9 prog [] ()).2 = .reachedEnd ∧
    (run semAbs noHalt 9 (dropDirectives prog) [] ()).2 = .reachedEnd := by
  refine ⟨fun _ _ _ _ _ _ _ => rfl, ?_, ?_, ?_, ?_⟩ <;> rfl

open C14RunExample in
/-- a command that looks at its line index: `LineInsensitive` cannot be dropped either -/
theorem C14_line_sensitive_differs :
    let semLine : CmdSem Unit := fun _ _ _ line vars s =>
      some (.continue (some (natToStr line)), vars, s)
    NoAbsoluteJumps semLine ∧
    (run semLine noHalt 9 prog [] ()).1.vars = [(x, "3".toList)] ∧
    (run semLine noHalt 9 (dropDirectives prog) [] ()).1.vars = [(x, "2".toList)] := by
  refine ⟨?_, ?_, ?_⟩
  · intro name args out l vars s v n vars' s' h
    simp at h
  · decide
  · decide

open C14RunExample in
/-- an oracle indexed by the number of the poll is NOT preserved: "halt at the third poll"
    stops the long list before `boom`, while the short list has already failed by then -/
theorem C14_poll_indexed_halt_differs :
    let halt : Nat → Unit → Bool := fun k _ => k == 2
    (run sem halt 9 prog₂ [] ()).2 = .halted ∧
    (run sem halt 9 (dropDirectives prog₂) [] ()).2 = .fail "bang".toList { line := some 3 } := by
  constructor <;> rfl

end Duck
