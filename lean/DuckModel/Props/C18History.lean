/-
  C18 over HISTORIES — what a script relies on across several file commands.

  The per-command theorems of Props/C18.lean say what ONE command does at its own path.  The
  theorems here say what a command does NOT do (frame), that the asking commands change nothing,
  that every tree a history can reach is well-formed, and that a written file is read back after
  any number of later commands that stay away from it.  As everywhere in C18 the statements are
  facts about the reference file-tree model `DuckModel/Sdk/FsTree.lean` (model = spec); the tie to
  /repo is the correspondence check, which walks the real directory after every command.

  Definitions used in the statements (`apart`, `Op.args`, `Op.paths`, `Apart`, `Unrelated`,
  `Op.isQuery`, `nameOk`, `Node.WF`, `P.OK`, `Op.ArgsOK`, `treeAfter`) are at the top of
  Lemmas/FsTreeHistoryLemmas.lean.  Observations are made with `stat` / `lookup` as in
  Props/C18.lean.
-/
import DuckModel.Sdk.FsTree
import DuckModel.Lemmas.FsTreeLemmas
import DuckModel.Lemmas.FsTreeHistoryLemmas
import DuckModel.Lemmas.Utf8DecodeLemmas

namespace Duck
open Duck.FsTree

/-! ### 0. the two mutating commands Props/C18.lean has no statement for -/

/-- a successful `mkdir p` (= `create_dir_all`): `p` and every ancestor of `p` is a directory
    afterwards, and the observation at every other path — inside an already existing `p`
    included — is what it was -/
theorem C18_mkdir_creates (t t' : Node) (p : P) (v : Val) (h : mkdir t p = (t', .ok v)) :
    (∀ q, q <+: p.comps → stat t' q = some .dir) ∧
    (∀ q, ¬ q <+: p.comps → stat t' q = stat t q) := by
  unfold mkdir at h
  split at h
  · next t'' hm =>
    cases h
    refine ⟨?_, fun q hq => stat_mkdirs_frame hm q hq⟩
    intro q hq
    obtain ⟨es, he⟩ := lookup_mkdirs_prefix hm q hq
    simp [stat, he, Node.obs]
  · cases h

/-- a successful `touch p` (= `ensure_exists`): an existing file is left as it is (same tree);
    a missing one is created EMPTY below (possibly new) directories; nothing else changes -/
theorem C18_touch_creates (t t' : Node) (p : P) (v : Val) (h : touch t p = (t', .ok v)) :
    (stat t p.comps ≠ none → t' = t) ∧
    (stat t p.comps = none → stat t' p.comps = some (.file []) ∧
      ∀ q, q <+: p.comps → q ≠ p.comps → stat t' q = some .dir) ∧
    (∀ q, ¬ q <+: p.comps → stat t' q = stat t q) := by
  unfold touch at h
  split at h
  · next b hb =>
    cases h
    refine ⟨fun _ => rfl, ?_, fun _ _ => rfl⟩
    intro hs
    simp [stat, (resolve_file hb).1] at hs
  · cases h
  · split at h
    · cases h
    · split at h
      · cases h
      · next hl =>
        split at h
        · next t'' hp =>
          cases h
          refine ⟨?_, ?_, ?_⟩
          · intro hs; simp [stat, hl] at hs
          · intro _
            exact ⟨by simpa [Node.obs] using stat_putAt_self hp,
              fun q h1 h2 => stat_putAt_prefix hp q h1 h2⟩
          · intro q hq
            exact stat_putAt_file_frame hp (by simp [hl]) q hq
        · cases h

/-! ### 1. frame -/

/-- FRAME, for all sixteen commands, in every tree (whether the command succeeds, fails or is
    skipped): a path `q` that is unrelated to the command — for every path argument `a` (and for
    `mv` the computed target `mvTarget`), `q` is not a prefix of `a` (not `a` itself, not an
    ancestor) and `a` is not a prefix of `q` (`q` is not inside `a`) — is observed the same
    before and after -/
theorem C18_frame (t : Node) (op : Op) (q : List Str) (h : Unrelated op t q = true) :
    stat (step t op).1 q = stat t q := by
  rw [Unrelated_eq_Apart] at h
  exact stat_step_apart t op q h

/-- `Unrelated` in plain terms: every path of the command is incomparable with `q` -/
theorem C18_unrelated_iff (t : Node) (op : Op) (q : List Str) :
    Unrelated op t q = true ↔ ∀ a ∈ op.paths t, ¬ q <+: a ∧ ¬ a <+: q := by
  simp [Unrelated, List.all_eq_true, apart_iff]

/-- the tree argument of `Unrelated` adds nothing: a path apart from the destination of `mv` is
    apart from the computed target (`dst` or `dst/<basename of src>`) in every tree.  This is what
    lets a condition on a whole history be stated without the intermediate trees -/
theorem C18_unrelated_tree_free (t : Node) (op : Op) (q : List Str) :
    Unrelated op t q = Apart op q :=
  Unrelated_eq_Apart op t q

/-! ### 2. the asking commands change nothing -/

/-- readfile, readbinfile, is_path_exists, is_file, is_dir, get_file_size and the listing leave
    the tree EQUAL, whatever they answer -/
theorem C18_queries_pure (t : Node) (op : Op) (h : op.isQuery = true) : (step t op).1 = t := by
  cases op <;> first | rfl | simp [Op.isQuery] at h

/-! ### 3. well-formedness along a history -/

/-- what `WF` says, at every directory of the tree: the entry names are pairwise different and
    each is a normal file name (not empty, no `/`, not `.` or `..`).  `Entries.put` replaces an
    existing entry in place and `Entries.erase` removes all entries of a name, but the TYPE
    `Entries` is a plain association list and does not rule out repeated names — uniqueness is
    this invariant, not a structural fact -/
theorem C18_wf_meaning (t : Node) (ht : t.WF) (q : List Str) (es : Entries)
    (h : lookup t q = some (.dir es)) :
    (es.toList.map (·.1)).Nodup ∧ ∀ n ∈ es.toList.map (·.1), PlainName n :=
  Entries.WF_names ((Node.WF_dir es).mp (WF_lookup ht h))

/-- one command keeps a well-formed tree well-formed, when every component of its path arguments
    is a normal file name (success, failure and skip alike) -/
theorem C18_step_wf (t : Node) (op : Op) (ht : t.WF) (hop : op.ArgsOK) : (step t op).1.WF :=
  WF_step op ht hop

/-- `rm`, `rmdir` and the asking commands keep well-formedness for ANY path argument -/
theorem C18_step_wf_no_new_names (t : Node) (op : Op) (ht : t.WF)
    (h : op.isQuery = true ∨ (∃ r p, op = .rm r p) ∨ (∃ p, op = .rmdir p)) :
    (step t op).1.WF := by
  rcases h with h | ⟨r, p, rfl⟩ | ⟨p, rfl⟩
  · rw [C18_queries_pure t op h]; exact ht
  · rcases rm_shape t r p with h | h <;> simp only [step] <;> rw [h]
    · exact ht
    · exact WF_removeAt _ _ ht
  · rcases rmdir_shape t p with h | h <;> simp only [step] <;> rw [h]
    · exact ht
    · exact WF_removeAt _ _ ht

/-- every tree of every history from the empty directory (or from any well-formed tree) is
    well-formed -/
theorem C18_history_wf (ops : List Op) (hops : ∀ op ∈ ops, op.ArgsOK) :
    (∀ x ∈ run empty ops, x.2.WF) ∧
    (∀ t : Node, t.WF → ∀ x ∈ run t ops, x.2.WF) := by
  have key : ∀ t : Node, t.WF → ∀ x ∈ run t ops, x.2.WF := by
    intro t ht x hx
    obtain ⟨pre, op, post, he, rfl⟩ := mem_run hx
    refine WF_treeAfter _ ht ?_
    intro o ho
    refine hops o ?_
    rw [he]
    simp only [List.mem_append, List.mem_cons, List.mem_nil_iff, or_false] at ho ⊢
    rcases ho with ho | ho
    · exact .inl ho
    · exact .inr (.inl ho)
  exact ⟨key empty WF_empty, key⟩

/-- the hypothesis on the path arguments is met by every path the commands' path parser
    `parsePath` accepts (the only way a path enters the model from a request of the
    correspondence check): its components are normal file names -/
theorem C18_parsed_paths_ok (s : Str) (p : P) (h : parsePath s = some p) : p.OK :=
  parsePath_ok h

/-- … so every tree of every history over parsed paths is well-formed -/
theorem C18_history_wf_parsed (ops : List Op)
    (hops : ∀ op ∈ ops, ∀ a ∈ op.args, ∃ s p, parsePath s = some p ∧ p.comps = a) :
    ∀ x ∈ run empty ops, x.2.WF := by
  refine (C18_history_wf ops ?_).1
  intro op ho a ha
  obtain ⟨s, p, hp, rfl⟩ := hops op ho a ha
  exact parsePath_ok hp

/-! ### 4. last writer wins -/

/-- the trace of a history and `treeAfter` agree: the last entry of `run t (ops ++ [op])` is the
    result of `op` in the tree after `ops`, with the tree after `ops ++ [op]` -/
theorem C18_run_last (t : Node) (ops : List Op) (op : Op) :
    (run t (ops ++ [op])).getLast? =
      some ((step (treeAfter t ops) op).2, treeAfter t (ops ++ [op])) := by
  rw [run_append]
  simp [run, treeAfter_append]

/-- a path that every command of a history either only asks about or is unrelated to is observed
    the same after the whole history -/
theorem C18_history_frame (t : Node) (ops : List Op) (q : List Str)
    (h : ∀ op ∈ ops, op.isQuery = true ∨ Apart op q = true) : stat (treeAfter t ops) q = stat t q :=
  stat_treeAfter_apart t ops q h

/-- LAST WRITER WINS: in a history `pre ++ writefile p s :: post` whose `writefile` succeeds and
    whose later commands all either only ask (reading `p` itself included) or are unrelated to
    `p` (in the sense of `C18_frame`), `readfile p` after the whole history returns `s` (and `readbinfile p` its UTF-8 bytes) -/
theorem C18_history_read_last_write (t : Node) (pre post : List Op) (p : P) (s : Str) (v : Val)
    (hw : (step (treeAfter t pre) (.writeText p s)).2 = .ok v)
    (hpost : ∀ op ∈ post, op.isQuery = true ∨ Apart op p.comps = true) :
    readText (treeAfter t (pre ++ .writeText p s :: post)) p = .ok (.text s) ∧
    readBytes (treeAfter t (pre ++ .writeText p s :: post)) p = .ok (.bytes (utf8Encode s)) := by
  have hw' : writeText (treeAfter t pre) p s
      = ((step (treeAfter t pre) (.writeText p s)).1, .ok v) := by
    rw [← hw]; rfl
  obtain ⟨htr, hold, content, hp, h1, h2⟩ := writeGen_ok hw'
  have hc : content = utf8Encode s := by
    cases hl : lookup (treeAfter t pre) p.comps with
    | none => exact h2 hl
    | some n =>
      cases n with
      | dir es => exact absurd hl (hold es)
      | file old => simpa using h1 old hl
  subst hc
  have hs1 : stat (step (treeAfter t pre) (.writeText p s)).1 p.comps
      = some (.file (utf8Encode s)) := by
    simpa [Node.obs] using stat_putAt_self hp
  have hend : stat (treeAfter t (pre ++ .writeText p s :: post)) p.comps
      = some (.file (utf8Encode s)) := by
    rw [treeAfter_append, treeAfter_cons, stat_treeAfter_apart _ post _ hpost]
    exact hs1
  have hr := resolve_of_lookup_file (lookup_of_stat_file hend) htr
  exact ⟨by simp [readText, hr, utf8_roundtrip], by simp [readBytes, hr]⟩

/-- the same read off the trace: the last result of
    `run t (pre ++ writefile p s :: post ++ [readfile p])` is the text `s` -/
theorem C18_history_read_last_write_run (t : Node) (pre post : List Op) (p : P) (s : Str) (v : Val)
    (hw : (run t (pre ++ [.writeText p s])).getLast?.map (·.1) = some (.ok v))
    (hpost : ∀ op ∈ post, op.isQuery = true ∨ Apart op p.comps = true) :
    (run t ((pre ++ .writeText p s :: post) ++ [.readText p])).getLast?.map (·.1)
      = some (.ok (.text s)) := by
  rw [C18_run_last] at hw ⊢
  simp only [Option.map_some, Option.some.injEq] at hw
  simpa [step] using (C18_history_read_last_write t pre post p s v hw hpost).1

/-- the same by POSITION: the command at position `i` of `ops` is a successful `writefile p s`
    and no command at a later position is related to `p` -/
theorem C18_history_read_last_write_at (t : Node) (ops : List Op) (i : Nat) (p : P) (s : Str)
    (v : Val) (hi : ops[i]? = some (.writeText p s))
    (hw : (step (treeAfter t (ops.take i)) (.writeText p s)).2 = .ok v)
    (hlater : ∀ j op, i < j → ops[j]? = some op → op.isQuery = true ∨ Apart op p.comps = true) :
    readText (treeAfter t ops) p = .ok (.text s) := by
  obtain ⟨hlt, hget⟩ := List.getElem?_eq_some_iff.mp hi
  have hsplit : ops = ops.take i ++ .writeText p s :: ops.drop (i + 1) := by
    rw [← hget, ← List.drop_eq_getElem_cons hlt, List.take_append_drop]
  have hpost : ∀ op ∈ ops.drop (i + 1), op.isQuery = true ∨ Apart op p.comps = true := by
    intro op hop
    obtain ⟨k, hk⟩ := List.getElem?_of_mem hop
    rw [List.getElem?_drop] at hk
    exact hlater (i + 1 + k) op (by omega) hk
  have := (C18_history_read_last_write t (ops.take i) (ops.drop (i + 1)) p s v hw hpost).1
  rwa [← hsplit] at this

/-- the binary pair: `writebinfile p data`, later commands unrelated to `p`, then `readbinfile p`
    returns `data` — for arbitrary bytes -/
theorem C18_history_read_last_write_bytes (t : Node) (pre post : List Op) (p : P) (data : Bytes)
    (v : Val) (hw : (step (treeAfter t pre) (.writeBytes p data)).2 = .ok v)
    (hpost : ∀ op ∈ post, op.isQuery = true ∨ Apart op p.comps = true) :
    readBytes (treeAfter t (pre ++ .writeBytes p data :: post)) p = .ok (.bytes data) := by
  have hw' : writeBytes (treeAfter t pre) p data
      = ((step (treeAfter t pre) (.writeBytes p data)).1, .ok v) := by
    rw [← hw]; rfl
  obtain ⟨htr, hold, content, hp, h1, h2⟩ := writeGen_ok hw'
  have hc : content = data := by
    cases hl : lookup (treeAfter t pre) p.comps with
    | none => exact h2 hl
    | some n =>
      cases n with
      | dir es => exact absurd hl (hold es)
      | file old => simpa using h1 old hl
  subst hc
  have hs1 : stat (step (treeAfter t pre) (.writeBytes p content)).1 p.comps
      = some (.file content) := by
    simpa [Node.obs] using stat_putAt_self hp
  have hend : stat (treeAfter t (pre ++ .writeBytes p content :: post)) p.comps
      = some (.file content) := by
    rw [treeAfter_append, treeAfter_cons, stat_treeAfter_apart _ post _ hpost]
    exact hs1
  have hr := resolve_of_lookup_file (lookup_of_stat_file hend) htr
  simp [readBytes, hr]

/-! ### 5. the partiality of the `mv` theorem, as theorems -/

/-- a DIRECTORY source is outside the model: `mv` answers `skip` and leaves the tree alone
    (whatever the destination is) -/
theorem C18_mv_directory_source_skipped (t : Node) (src dst : P) (es : Entries)
    (h : resolve t src = some (.dir es)) : mv t src dst = (t, .skip) := by
  simp [mv, h]

/-- … and that is the ONLY way `mv` is skipped; a missing source is an error; so a successful
    `mv` (the hypothesis of `C18_mv_eq_cp_rm_partial`) had a file source: the theorem covers
    every `mv` the model gives an answer to -/
theorem C18_mv_outcome_by_source (t : Node) (src dst : P) :
    ((mv t src dst).2 = .skip ↔ ∃ es, resolve t src = some (.dir es)) ∧
    (resolve t src = none → mv t src dst = (t, .err)) ∧
    (∀ v, (mv t src dst).2 = .ok v → ∃ b, resolve t src = some (.file b)) := by
  refine ⟨⟨?_, ?_⟩, ?_, ?_⟩
  · intro h
    unfold mv at h
    split at h
    · cases h
    · next es hd => exact ⟨es, hd⟩
    · exfalso
      revert h
      repeat' split
      all_goals simp
  · rintro ⟨es, h⟩; simp [mv, h]
  · intro h; simp [mv, h]
  · intro v h
    unfold mv at h
    split at h
    · cases h
    · cases h
    · next b hb => exact ⟨b, hb⟩

/-- the same for `cp` -/
theorem C18_cp_directory_source_skipped (t : Node) (src dst : P) (es : Entries)
    (h : resolve t src = some (.dir es)) : cp t src dst = (t, .skip) := by
  simp [cp, h]

/-! ### non-vacuity: a concrete tree `a/b/f.txt`, `a/g.txt`, `d/` -/

namespace FsTree.HistoryExample

def t4 : Node :=
  .dir (.cons "a".toList (.dir (.cons "b".toList (.dir (.cons "f.txt".toList (.file [104, 105]) .nil))
      (.cons "g.txt".toList (.file [120]) .nil)))
    (.cons "d".toList (.dir .nil) .nil))

def f : P := { comps := ["a".toList, "b".toList, "f.txt".toList] }
def g : P := { comps := ["a".toList, "g.txt".toList] }
def d : P := { comps := ["d".toList] }
def ab : P := { comps := ["a".toList, "b".toList] }

example : stat t4 f.comps = some (.file [104, 105]) ∧ stat t4 g.comps = some (.file [120]) ∧
    stat t4 d.comps = some .dir := by decide

-- 0. mkdir of an existing directory, of new nested ones; touch of an existing and of a new file
example : (mkdir t4 ab).2 = .ok .unit ∧ stat (mkdir t4 ab).1 f.comps = stat t4 f.comps ∧
    (mkdir t4 { comps := ["a".toList, "n".toList, "m".toList] }).2 = .ok .unit ∧
    (touch t4 f).2 = .ok .unit ∧ stat (touch t4 f).1 f.comps = some (.file [104, 105]) ∧
    (touch t4 { comps := ["n".toList, "e".toList] }).2 = .ok .unit ∧
    stat (touch t4 { comps := ["n".toList, "e".toList] }).1 ["n".toList, "e".toList]
      = some (.file []) := by decide

-- 1. frame: `mv a/g.txt d` (into the existing directory d: target d/g.txt) is unrelated to
--    a/b/f.txt and to a/b, which are observed as before; it is RELATED to a, to d and to d/g.txt
example : Unrelated (.mv g d) t4 f.comps = true ∧ Unrelated (.mv g d) t4 ab.comps = true ∧
    (step t4 (.mv g d)).2 = .ok .unit ∧ mvTarget t4 g d = ["d".toList, "g.txt".toList] ∧
    Unrelated (.mv g d) t4 ["a".toList] = false ∧ Unrelated (.mv g d) t4 d.comps = false ∧
    Unrelated (.mv g d) t4 ["d".toList, "g.txt".toList] = false := by decide
-- the condition cannot simply be dropped: paths inside, equal to, or above the argument change
example : stat (step t4 (.rm true ab)).1 f.comps ≠ stat t4 f.comps ∧
    stat (step t4 (.mv g d)).1 ["d".toList, "g.txt".toList] ≠ stat t4 ["d".toList, "g.txt".toList] ∧
    stat (step t4 (.mkdir { comps := ["n".toList, "m".toList] })).1 ["n".toList]
      ≠ stat t4 ["n".toList] := by decide

-- 2. the asking commands
example : (Op.readText f).isQuery = true ∧ (Op.ls ab).isQuery = true ∧
    (step t4 (.readText f)).2 = .ok (.text "hi".toList) ∧
    (step t4 (.ls { comps := ["a".toList] })).2 = .ok (.names ["b".toList, "g.txt".toList]) := by
  decide

-- … while each of the other nine constructors changes this tree for suitable arguments
example : Node.beq (step t4 (.writeText f [])).1 t4 = false ∧
    Node.beq (step t4 (.appendText f "!".toList)).1 t4 = false ∧
    Node.beq (step t4 (.writeBytes f [255])).1 t4 = false ∧
    Node.beq (step t4 (.touch { comps := ["n".toList] })).1 t4 = false ∧
    Node.beq (step t4 (.mkdir { comps := ["n".toList] })).1 t4 = false ∧
    Node.beq (step t4 (.cp f { comps := ["n".toList] })).1 t4 = false ∧
    Node.beq (step t4 (.mv g d)).1 t4 = false ∧ Node.beq (step t4 (.rm false g)).1 t4 = false ∧
    Node.beq (step t4 (.rmdir d)).1 t4 = false := by decide

-- 3. well-formedness: t4 is, a tree with a repeated name / an empty name / a name with a
--    separator is not (the invariant is not vacuous on the type); the path arguments of a history
example : t4.WF := by decide
example : ¬ (Node.dir (.cons "a".toList (.file []) (.cons "a".toList (.dir .nil) .nil))).WF := by
  decide
example : ¬ (Node.dir (.cons [] (.file []) .nil)).WF ∧
    ¬ (Node.dir (.cons "x/y".toList (.file []) .nil)).WF ∧
    ¬ (Node.dir (.cons "..".toList (.file []) .nil)).WF := by decide
def hist : List Op :=
  [.mkdir ab, .writeText f "v1".toList, .writeText g "x".toList, .writeText f "hi".toList,
   .mkdir d, .readText f, .mv g d, .appendText { comps := ["d".toList, "g.txt".toList] } "y".toList,
   .rm true { comps := ["zz".toList] }, .fileSize f, .ls ab,
   .cp { comps := ["d".toList, "g.txt".toList] } g]
example : ∀ op ∈ hist, op.ArgsOK := by decide
example : (run empty hist).map (·.1) =
    [.ok .unit, .ok .unit, .ok .unit, .ok .unit, .ok .unit, .ok (.text "hi".toList), .ok .unit,
     .ok .unit, .ok .unit, .ok (.num 2), .ok (.names ["f.txt".toList]), .ok .unit] := by decide
example : parsePath "a//b/./f.txt".toList = some f ∧ f.OK ∧
    parsePath "a/../x".toList = none := by decide

-- 4. last writer wins: the second `writefile a/b/f.txt` is at position 3; the eight later
--    commands all succeed; five (mkdir d, mv a/g.txt d, appendfile d/g.txt, rm -r zz,
--    cp d/g.txt a/g.txt) are unrelated to a/b/f.txt, three only ask — about a/b/f.txt itself and
--    about its parent
example : hist = hist.take 3 ++ .writeText f "hi".toList :: hist.drop 4 ∧
    (step (treeAfter empty (hist.take 3)) (.writeText f "hi".toList)).2 = .ok .unit ∧
    (∀ op ∈ hist.drop 4, op.isQuery = true ∨ Apart op f.comps = true) ∧
    readText (treeAfter empty hist) f = .ok (.text "hi".toList) := by decide
example : hist[3]? = some (.writeText f "hi".toList) ∧
    (∀ j op, 3 < j → hist[j]? = some op → op.isQuery = true ∨ Apart op f.comps = true) := by
  refine ⟨by decide, ?_⟩
  intro j op hj hget
  have hmem : op ∈ hist.drop 4 := by
    obtain ⟨hlt, rfl⟩ := List.getElem?_eq_some_iff.mp hget
    exact List.mem_drop_iff_getElem.mpr ⟨j - 4, by omega, by congr 1; omega⟩
  have hall : ∀ o ∈ hist.drop 4, o.isQuery = true ∨ Apart o f.comps = true := by decide
  exact hall op hmem
-- … and the FIRST write (position 1) does not qualify: a later command writes to its path
example : ¬ (∀ op ∈ hist.drop 2, op.isQuery = true ∨ Apart op f.comps = true) := by decide

-- 5. directory source
example : (resolve t4 ab).map Node.obs = some .dir ∧
    (mv t4 ab d).2 = .skip ∧ Node.beq (mv t4 ab d).1 t4 = true ∧
    (cp t4 ab d).2 = .skip ∧ Node.beq (cp t4 ab d).1 t4 = true := by decide

end FsTree.HistoryExample

end Duck
