/-
  C17 — encodings round-trip.

  * base64: `base64_decode (base64_encode bytes) = bytes` for every byte list (any length);
  * UTF-8: `bytes_to_string (string_to_bytes text) = text` for every text (all scalar values);
  * hex: `hex_decode (hex_encode n) = n` for every `n < 2^64`, on the number level and on the
    level of the two commands (decimal text in, decimal text out);
  * JSON: `json_encode --collection (json_parse --collection doc)` is the normalised document
    (scalars → strings, nulls dropped), for every document none of whose texts is a live handle
    name.  That hypothesis is forced by the code: `encode_from_state_value` looks every string
    up in the handle store, so a string leaf that *is* a handle name is replaced by that
    handle's content (handle names are `handle:` + 20 random alphanumerics, so a document
    cannot contain one unless it was built from a handle on purpose).

  * properties: `map_to_properties` then `map_load_properties` — theorems `C17_props_…` in
    `Props/C17Props.lean` (model `Sdk/Properties.lean` of the `java-properties` writer/reader).

  * JSON text layer (`serde_json::from_str` / `Value::to_string`, model `Sdk/JsonText.lean`):
    theorems `C17_jsontext_…` in `Props/C17Json.lean` (the reader undoes the compact writer);
    composed with the AST theorem below: `C17_jsontext_encode_roundtrip` (the TEXT
    `json_encode --collection` returns reads back as the normalised document) and
    `C17_jsontext_commands_roundtrip` (text in, text out).  Numbers the crate reads as `f64`
    are outside the text model — see obligations `partial`.
-/
import DuckModel.Props.C17Props
import DuckModel.Props.C17Json
import DuckModel.Sdk.Encode
import DuckModel.Sdk.Utf8Decode
import DuckModel.Lemmas.EncodeLemmas
import DuckModel.Lemmas.Utf8DecodeLemmas

namespace Duck
open Duck.Enc

/-- base64: decoding an encoding gives the bytes back — every byte list, every length
    (induction in steps of three bytes, the three padding shapes as base cases) -/
theorem C17_base64_roundtrip (bs : List Nat) (h : ∀ b ∈ bs, b < 256) :
    b64Decode (b64Encode bs) = some bs :=
  b64_roundtrip bs h

/-- `string_to_bytes` then `bytes_to_string`: every text (1-, 2-, 3- and 4-byte scalars) -/
theorem C17_utf8_roundtrip (s : List Char) : utf8Decode (utf8Encode s) = some s :=
  utf8_roundtrip s

/-- text → bytes → base64 → bytes → text -/
theorem C17_text_base64_roundtrip (s : List Char) :
    (b64Decode (b64Encode (utf8Encode s))).bind utf8Decode = some s := by
  have hb : ∀ b ∈ utf8Encode s, b < 256 := by
    intro b hb
    simp only [utf8Encode, List.mem_flatMap] at hb
    obtain ⟨c, _, hc⟩ := hb
    have hv := char_valid_nat c
    unfold utf8EncodeChar at hc
    simp only at hc
    split at hc
    · simp at hc; omega
    · split at hc
      · simp at hc; omega
      · split at hc <;> simp at hc <;> omega
  rw [b64_roundtrip _ hb]
  exact utf8_roundtrip s

/-- `hex_decode (hex_encode n) = n` on numbers -/
theorem C17_hex_roundtrip (n : Nat) (h : n < 2 ^ 64) : hexDecode (hexEncode n) = some n :=
  hex_roundtrip n h

/-- the two commands composed on the decimal text of any `u64` -/
theorem C17_hex_commands_roundtrip (n : Nat) (h : n < 2 ^ 64) :
    (hexEncodeCmd (decEncode n)).bind hexDecodeCmd = some (decEncode n) := by
  simp [hexEncodeCmd, hexDecodeCmd, dec_roundtrip n h, hex_roundtrip n h]

/-- JSON, general form: any injective supply of handle names, any store whose handles were
    drawn from it, any document whose texts are not handle names.  The parsed value encodes
    to the normalised document in the resulting store, in every later store, with every
    fuel ≥ the recursion depth; a top-level `null` parses to "no value". -/
theorem C17_json_roundtrip_general (key : Nat → Str) (hinj : Injective key) (doc : Json)
    (st : Store) (hinv : Inv key st) (hno : NoHandle key doc) :
    match (parseJ key doc st).1 with
    | none => norm doc = none
    | some v => ∃ j, norm doc = some j ∧
        ∀ st'', Inv key st'' → Ext (parseJ key doc st).2 st'' → ∀ f, need doc ≤ f →
          encodeVal f st''.entries (.str v) = .ok j :=
  (parseJ_spec hinj doc st hinv hno).2.2

/-- JSON: `encodeFromStore (parseToStore doc) = normalise doc` -/
theorem C17_json_roundtrip (doc : Json) (hno : NoHandle handleKey doc) :
    match (parseToStore doc).1 with
    | none => norm doc = none
    | some v => ∃ j, norm doc = some j ∧ encodeFromStore (parseToStore doc).2 v = .ok j := by
  have hspec := parseJ_spec handleKey_injective doc {} (inv_empty _) hno
  have hlen := parseJ_length handleKey_injective doc {} (inv_empty _) hno
  have hneed := need_le doc
  unfold parseToStore
  cases hr : (parseJ handleKey doc {}).1 with
  | none => have := hspec.2.2; rw [hr] at this; exact this
  | some v =>
    have := hspec.2.2; rw [hr] at this
    obtain ⟨j, hj, hd⟩ := this
    refine ⟨j, hj, ?_⟩
    unfold encodeFromStore
    apply hd _ hspec.1 (Ext.refl _)
    rw [hlen]
    show need doc ≤ 2 * (0 + containers doc) + 2
    omega

/-- the handles `json_parse --collection` creates: one per array/object, none overwritten -/
theorem C17_json_parse_allocates (doc : Json) (hno : NoHandle handleKey doc) :
    (parseToStore doc).2.entries.length = containers doc := by
  have := parseJ_length handleKey_injective doc {} (inv_empty _) hno
  simpa [parseToStore] using this

open Duck.JsonText in
/-- JSON, text level, AST in / text out: for every document (in the domain of
    `C17_json_roundtrip`, objects with strictly increasing keys as in a `serde_json::Map`, at
    most 127 nested containers) the value `json_parse --collection` returns encodes to the
    normalised document `j`; the TEXT `json_encode --collection` returns is the compact text of
    `j`, and `serde_json::from_str` reads that text back as `j` -/
theorem C17_jsontext_encode_roundtrip (doc : Json) (hno : NoHandle handleKey doc)
    (hs : SortedKeys doc = true) (hd : depth doc ≤ 127) :
    match (parseToStore doc).1 with
    | none => norm doc = none
    | some v => ∃ j, norm doc = some j ∧
        (encodeFromStore (parseToStore doc).2 v).map printJson = .ok (printJson j) ∧
        parseJson (printJson j) = some j := by
  have h := C17_json_roundtrip doc hno
  cases hv : (parseToStore doc).1 with
  | none => rw [hv] at h; exact h
  | some v =>
    rw [hv] at h
    obtain ⟨j, hj, he⟩ := h
    have hc := C17_jsontext_norm_stringdoc doc j hs hj
    refine ⟨j, hj, ?_, C17_jsontext_roundtrip j hc.1 (by omega)⟩
    rw [he]; rfl

open Duck.JsonText in
/-- JSON, text level, text in / text out: for every document of the modelled class (exact
    integers, sorted keys; depth ≤ 127; no text that names a live handle) written compactly
    with any white space around it, `json_parse --collection` followed by
    `json_encode --collection` returns exactly the compact text of the normalised document (no
    value when the document is `null`), and that text reads back as the normalised document -/
theorem C17_jsontext_commands_roundtrip (doc : Json) (w w' : List Char)
    (hw : ∀ c ∈ w, JsonText.isWs c = true) (hw' : ∀ c ∈ w', JsonText.isWs c = true) (ht : TextDoc doc = true)
    (hd : depth doc ≤ 127) (hno : NoHandle handleKey doc) :
    parseEncodeText (w ++ printJson doc ++ w') =
      .ok ((norm doc).map fun j => .ok (printJson j)) ∧
    ∀ j, norm doc = some j → parseJson (printJson j) = some j := by
  have hs : SortedKeys doc = true := by
    simp only [TextDoc, Bool.and_eq_true] at ht; exact ht.2
  have hn : ExactNums doc = true := by
    simp only [TextDoc, Bool.and_eq_true] at ht; exact ht.1
  constructor
  · unfold parseEncodeText
    rw [parseJsonE_print doc w w' hw hw' hn hs hd]
    have h := C17_json_roundtrip doc hno
    dsimp only
    cases hv : (parseToStore doc).1 with
    | none => rw [hv] at h; simp [h]
    | some v =>
      rw [hv] at h
      obtain ⟨j, hj, he⟩ := h
      simp [hj, he]
  · intro j hj
    have hc := C17_jsontext_norm_stringdoc doc j hs hj
    exact C17_jsontext_roundtrip j hc.1 (by omega)

open Duck.JsonText Duck.JsonCst in
/-- C17 for JSON on the level of TEXTS, every text: for every JSON text (a well-formed concrete
    syntax tree `c` of `Spec/JsonCst.lean`: any white space, any escape spelling, members in any
    order, keys repeated; numbers exact integers; at most 127 nested containers; white space
    around it) none of whose texts names a live handle, `json_parse --collection` followed by
    `json_encode --collection` returns exactly the compact text of the normalisation of the
    document the text denotes (no value for `null`), and that text reads back as the normalised
    document -/
theorem C17_jsontext_text_roundtrip (c : Cst) (w w' : List Char) (hw : allWs w = true)
    (hw' : allWs w' = true) (hc : WF c = true) (hd : cdepth c ≤ 127)
    (hno : NoHandle handleKey (value c)) :
    parseEncodeText (w ++ render c ++ w') =
      .ok ((norm (value c)).map fun j => .ok (printJson j)) ∧
    ∀ j, norm (value c) = some j → parseJson (printJson j) = some j := by
  obtain ⟨ht, hdv⟩ := C17_jsontext_value_in_class c hc
  have hs : SortedKeys (value c) = true := by
    simp only [TextDoc, Bool.and_eq_true] at ht; exact ht.2
  constructor
  · unfold parseEncodeText
    rw [parseJsonE_render c w w' hw hw' hc hd]
    have h := C17_json_roundtrip (value c) hno
    dsimp only
    cases hv : (parseToStore (value c)).1 with
    | none => rw [hv] at h; simp [h]
    | some v =>
      rw [hv] at h
      obtain ⟨j, hj, he⟩ := h
      simp [hj, he]
  · intro j hj
    have hcl := C17_jsontext_norm_stringdoc (value c) j hs hj
    exact C17_jsontext_roundtrip j hcl.1 (by omega)

/-! ## Non-vacuity -/
section Examples

private def bytes1 : List Nat := [0, 255, 97, 10, 200]

example : b64Encode bytes1 = "AP9hCsg=".toList := by decide
example : b64Decode "AP9hCsg=".toList = some bytes1 := by decide
example : b64Encode [102, 111] = "Zm8=".toList ∧ b64Encode [102] = "Zg==".toList := by decide
/-- rejected: bad length, bad symbol, padding in the middle, non-zero trailing bits -/
example : b64Decode "Zm8".toList = none ∧ b64Decode "Zm8*".toList = none ∧
    b64Decode "Zg==Zg==".toList = none ∧ b64Decode "Zh==".toList = none := by decide

example : utf8Encode "a\x00é€😀".toList = [97, 0, 195, 169, 226, 130, 172, 240, 159, 152, 128] := by decide
example : utf8Decode [97, 0, 195, 169, 226, 130, 172, 240, 159, 152, 128] = some "a\x00é€😀".toList := by decide
/-- rejected: overlong, surrogate, truncated, stray continuation, above U+10FFFF -/
example : utf8Decode [0xC0, 0x80] = none ∧ utf8Decode [0xED, 0xA0, 0x80] = none ∧
    utf8Decode [0xE2, 0x82] = none ∧ utf8Decode [0x80] = none ∧
    utf8Decode [0xF4, 0x90, 0x80, 0x80] = none := by decide

example : hexEncode 255 = "0xff".toList ∧ hexEncode 0 = "0x0".toList := by decide
example : hexEncode 18446744073709551615 = "0xffffffffffffffff".toList := by decide
example : hexDecode "0x0xFf".toList = some 255 ∧ hexDecode "0x".toList = none ∧
    hexDecode "0x10000000000000000".toList = none ∧ hexDecode "+f".toList = some 15 ∧
    hexDecode "-f".toList = none := by decide
example : hexDecodeCmd "0xffffffffffffffff".toList = some "18446744073709551615".toList := by decide

/-- `{"a":[1,null,"x",{"b":true}],"n":null,"k k":[]}` -/
private def doc1 : Json :=
  .obj (.cons "a".toList (.arr (.cons (.num "1".toList) (.cons .null (.cons (.str "x".toList)
      (.cons (.obj (.cons "b".toList (.bool true) .nil)) .nil)))))
    (.cons "n".toList .null (.cons "k k".toList (.arr .nil) .nil)))

private def doc1n : Json :=
  .obj (.cons "a".toList (.arr (.cons (.str "1".toList) (.cons (.str "x".toList)
      (.cons (.obj (.cons "b".toList (.str "true".toList) .nil)) .nil))))
    (.cons "k k".toList (.arr .nil) .nil))

example : norm doc1 = some doc1n := by rfl
example : (parseToStore doc1).1 = some (handleKey 3) := by rfl
example : (parseToStore doc1).2.entries.length = 4 := by rfl
example : encodeFromStore (parseToStore doc1).2 (handleKey 3) = .ok doc1n := by rfl
example : NoHandle handleKey doc1 := by
  refine ⟨⟨?_, True.intro, ?_, ⟨?_, True.intro⟩, True.intro⟩, True.intro, True.intro, True.intro⟩ <;>
    exact not_handle_of_prefix _ (by decide)

/-- the hypothesis of the JSON theorem is needed: a string leaf that names a live handle is
    replaced by the handle's content (here the array refers to itself: out of fuel = the real
    code recurses until the stack overflows) -/
example : encodeFromStore (parseToStore (.arr (.cons (.str (handleKey 0)) .nil))).2 (handleKey 0)
    = .error .fuel := by rfl

/-- the text-level theorems apply to `doc1` (keys `a`, `k k`, `n` are NOT sorted there, so the
    sorted variant is used): hypotheses hold, the text is as expected -/
private def doc1s : Json :=
  .obj (.cons "a".toList (.arr (.cons (.num "1".toList) (.cons .null (.cons (.str "x\n".toList)
      (.cons (.obj (.cons "b".toList (.bool true) .nil)) .nil)))))
    (.cons "k k".toList (.arr .nil) (.cons "n".toList .null .nil)))

example : JsonText.TextDoc doc1s = true ∧ JsonText.depth doc1s = 3 := by decide
example : JsonText.printJson doc1s =
    "{\"a\":[1,null,\"x\\n\",{\"b\":true}],\"k k\":[],\"n\":null}".toList := by rfl
example : (norm doc1s).map JsonText.printJson =
    some "{\"a\":[\"1\",\"x\\n\",{\"b\":\"true\"}],\"k k\":[]}".toList := by decide +kernel

/-- a store with an unsupported value -/
example : encodeFromStore { next := 1, entries := [(handleKey 0, .other)] } (handleKey 0)
    = .error .unsupported := by rfl

end Examples

end Duck
