/-
  C18 — file commands behave like operations on a simple file tree.

  PARTIAL by nature: the truth of these commands lives in the operating system (and in the
  third-party crates fsio / fs_extra / glob).  `DuckModel/Sdk/FsTree.lean` IS the reference
  file-tree model the property speaks of (model = spec); the theorems below are facts about that
  model, and the tie to /repo is purely the correspondence check (harness/src/props/c18.rs),
  which walks the real directory after every command.

  Observations are made with `stat t q` (nothing / a file with its bytes / a directory at the
  component path `q`): two trees with the same `stat` everywhere have the same listing.

  Props/C18History.lean : what holds over HISTORIES — frame for every command, the asking commands
                          change nothing, well-formedness of every reachable tree, last writer
                          wins, directory sources of mv/cp are skipped.
-/
import DuckModel.Sdk.FsTree
import DuckModel.Props.C18History
import DuckModel.Lemmas.FsTreeLemmas
import DuckModel.Lemmas.Utf8DecodeLemmas

namespace Duck
open Duck.FsTree

/-! ### what was written is what is read -/

/-- after a successful `writefile p s`: `readfile p` gives `s` back (and `readbinfile` its UTF-8
    bytes), every proper ancestor of `p` is a directory, and the observation at every other
    path is what it was (frame) -/
theorem C18_read_after_write (t t' : Node) (p : P) (s : Str) (v : Val)
    (h : writeText t p s = (t', .ok v)) :
    readText t' p = .ok (.text s) ∧
    readBytes t' p = .ok (.bytes (utf8Encode s)) ∧
    (∀ q, q <+: p.comps → q ≠ p.comps → stat t' q = some .dir) ∧
    (∀ q, ¬ q <+: p.comps → stat t' q = stat t q) := by
  obtain ⟨htr, hold, content, hp, h1, h2⟩ := writeGen_ok h
  have hc : content = utf8Encode s := by
    cases hl : lookup t p.comps with
    | none => exact h2 hl
    | some n =>
      cases n with
      | dir es => exact absurd hl (hold es)
      | file old => simpa using h1 old hl
  subst hc
  have hr := writeGen_read htr hp
  refine ⟨?_, ?_, ?_, ?_⟩
  · simp [readText, hr, utf8_roundtrip]
  · simp [readBytes, hr]
  · intro q h1 h2; exact stat_putAt_prefix hp q h1 h2
  · intro q hq; exact stat_putAt_file_frame hp hold q hq

/-- the same for the binary pair `writebinfile` / `readbinfile`, for arbitrary bytes -/
theorem C18_read_after_write_bytes (t t' : Node) (p : P) (data : Bytes) (v : Val)
    (h : writeBytes t p data = (t', .ok v)) :
    readBytes t' p = .ok (.bytes data) ∧
    (∀ q, q <+: p.comps → q ≠ p.comps → stat t' q = some .dir) ∧
    (∀ q, ¬ q <+: p.comps → stat t' q = stat t q) := by
  obtain ⟨htr, hold, content, hp, h1, h2⟩ := writeGen_ok h
  have hc : content = data := by
    cases hl : lookup t p.comps with
    | none => exact h2 hl
    | some n =>
      cases n with
      | dir es => exact absurd hl (hold es)
      | file old => simpa using h1 old hl
  subst hc
  have hr := writeGen_read htr hp
  refine ⟨?_, ?_, ?_⟩
  · simp [readBytes, hr]
  · intro q h1 h2; exact stat_putAt_prefix hp q h1 h2
  · intro q hq; exact stat_putAt_file_frame hp hold q hq

/-- `appendfile` extends: an existing file's bytes get the UTF-8 bytes of the text appended, a
    missing file is created with exactly the text; ancestors are directories; frame -/
theorem C18_append_extends (t t' : Node) (p : P) (s : Str) (v : Val)
    (h : appendText t p s = (t', .ok v)) :
    (∀ old, readBytes t p = .ok (.bytes old) →
        readBytes t' p = .ok (.bytes (old ++ utf8Encode s))) ∧
    (stat t p.comps = none → readBytes t' p = .ok (.bytes (utf8Encode s)) ∧
        readText t' p = .ok (.text s)) ∧
    (∀ q, q <+: p.comps → q ≠ p.comps → stat t' q = some .dir) ∧
    (∀ q, ¬ q <+: p.comps → stat t' q = stat t q) := by
  obtain ⟨htr, hold, content, hp, h1, h2⟩ := writeGen_ok h
  have hr := writeGen_read htr hp
  refine ⟨?_, ?_, ?_, ?_⟩
  · intro old ho
    unfold readBytes at ho
    split at ho
    · next b hb =>
      cases ho
      have := h1 _ (resolve_file hb).1
      simp at this
      subst this
      simp [readBytes, hr]
    · cases ho
  · intro hs
    have hl : lookup t p.comps = none := by
      cases hl : lookup t p.comps with
      | none => rfl
      | some n => simp [stat, hl] at hs
    have := h2 hl
    subst this
    simp [readBytes, readText, hr, utf8_roundtrip]
  · intro q h1 h2; exact stat_putAt_prefix hp q h1 h2
  · intro q hq; exact stat_putAt_file_frame hp hold q hq

/-! ### copy -/

/-- a successful `cp src dst` (file source): the source is a file and still is, with the same
    bytes; the target is a file with equal bytes; missing parents of the target were created
    (every proper ancestor of the target is a directory); nothing else changed -/
theorem C18_cp_file (t t' : Node) (src dst : P) (v : Val)
    (h : cp t src dst = (t', .ok v)) :
    ∃ b, stat t src.comps = some (.file b) ∧
      stat t' src.comps = some (.file b) ∧
      stat t' dst.comps = some (.file b) ∧
      (∀ q, q <+: dst.comps → q ≠ dst.comps → stat t' q = some .dir) ∧
      (∀ q, ¬ q <+: dst.comps → stat t' q = stat t q) := by
  unfold cp at h
  split at h
  · cases h
  · cases h
  · next b hres =>
    obtain ⟨hl, _⟩ := resolve_file hres
    have hs : stat t src.comps = some (.file b) := by simp [stat, hl, Node.obs]
    refine ⟨b, hs, ?_⟩
    split at h
    · cases h
    · split at h
      · next heq =>
        cases h
        refine ⟨hs, heq ▸ hs, ?_, fun _ _ => rfl⟩
        intro q h1 h2
        obtain ⟨r, hr⟩ := h1
        have hr' : r ≠ [] := by
          intro e; subst e; simp at hr; exact h2 hr
        rw [heq, ← hr] at hl
        obtain ⟨es, he⟩ := lookup_prefix_dir hl hr'
        simp [stat, he, Node.obs]
      · next hne =>
        split at h
        · cases h
        · next hnd =>
          split at h
          · next t'' hp =>
            cases h
            have hold : ∀ es, lookup t dst.comps ≠ some (.dir es) := fun es e => hnd es e
            have hframe := stat_putAt_file_frame hp hold
            have hns : ¬ src.comps <+: dst.comps := by
              rintro ⟨r, hr⟩
              have hr' : r ≠ [] := by
                intro e; subst e; simp at hr; exact hne hr
              have := putAt_file_prefix_none hl r hr' (.file b)
              rw [hr, hp] at this
              cases this
            refine ⟨?_, ?_, ?_, hframe⟩
            · rw [hframe _ hns]; exact hs
            · simpa [Node.obs] using stat_putAt_self hp
            · intro q h1 h2; exact stat_putAt_prefix hp q h1 h2
          · cases h

/-! ### move = copy then delete -/

/-- PARTIAL (file sources only; directory sources are outside the property's domain):
    a successful `mv src dst` of a file leaves exactly the tree of "copy to the target the
    code's rule selects, then delete the source".  The target is `dst` itself when `dst` is an
    existing file, or is missing, has no trailing separator and its name has an extension
    ("move to file"); otherwise it is `dst/<basename of src>` ("move into the — possibly new —
    directory `dst`").  The copy succeeds and the delete succeeds.
    That a directory source is answered `skip` with the tree untouched, and that a successful
    `mv` always had a file source, are theorems: `C18_mv_directory_source_skipped`,
    `C18_mv_outcome_by_source` (Props/C18History.lean). -/
theorem C18_mv_eq_cp_rm_partial (t t' : Node) (src dst : P) (v : Val)
    (h : mv t src dst = (t', .ok v)) :
    let target : P := { comps := mvTarget t src dst, trail := false }
    (cp t src target).2 = .ok .unit ∧
    rm (cp t src target).1 false src = (t', .ok .unit) := by
  intro target
  unfold mv at h
  split at h
  · cases h
  · cases h
  · next b hres =>
    obtain ⟨hl, htr⟩ := resolve_file hres
    split at h
    · next hfile =>
      -- move to file
      have htarget : target = { comps := dst.comps, trail := false } := by
        simp [target, mvTarget, hfile]
      have hnd := mvTargetIsFile_not_dir hfile
      split at h
      · next t1 hp =>
        cases h
        rw [htarget]
        by_cases heq : src.comps = dst.comps
        · have ht1 : t1 = t := by
            have := putAt_id hl
            rw [heq, hp] at this
            exact (Option.some.inj this)
          subst ht1
          simp [cp, hres, heq, rm, Node.isFile]
        · have hcp : cp t src { comps := dst.comps, trail := false } = (t1, .ok .unit) := by
            unfold cp
            simp only [hres, heq, hp]
            cases hd : lookup t dst.comps with
            | none => simp
            | some n =>
              cases n with
              | file x => simp
              | dir es => exact absurd hd (hnd es)
          have hsv := src_survives hl htr hp heq hnd
          simp [hcp, rm, hsv]
      · cases h
    · next hfile =>
      -- move into the directory dst
      split at h
      · cases h
      · next t1 hmk =>
        split at h
        · cases h
        · next hnone =>
          split at h
          · next t2 hp =>
            cases h
            have hshape : mvTarget t src dst = dst.comps ++ src.comps.getLast?.toList := by
              simp [mvTarget, hfile]
            have hp' : putAt t (mvTarget t src dst) (.file b) = some t2 := by
              rw [hshape, ← putAt_mkdirs hmk]; rw [← hshape]; exact hp
            have hnone' : lookup t (mvTarget t src dst) = none := by
              cases hq : lookup t (mvTarget t src dst) with
              | none => rfl
              | some n =>
                obtain ⟨n', hn'⟩ := lookup_mkdirs_some hmk hq
                rw [hnone] at hn'; cases hn'
            have hne : src.comps ≠ mvTarget t src dst := by
              intro e; rw [← e, hl] at hnone'; cases hnone'
            have hnd : ∀ es, lookup t (mvTarget t src dst) ≠ some (.dir es) := by
              intro es e; rw [hnone'] at e; cases e
            have hcp : cp t src target = (t2, .ok .unit) := by
              unfold cp
              simp [target, hres, hne, hp', hnone']
            have hsv := src_survives hl htr hp' hne hnd
            simp [hcp, rm, hsv]
          · cases h

/-! ### delete -/

/-- a successful `rm [-r] p`: when nothing is at `p` the tree is unchanged; otherwise exactly
    the named path disappears — nothing is observed at `p` or below it any more, and the
    observation at every path outside `p`'s subtree is what it was -/
theorem C18_rm_exact (t t' : Node) (r : Bool) (p : P) (v : Val) (hp : p.comps ≠ [])
    (h : rm t r p = (t', .ok v)) :
    (resolve t p = none → t' = t) ∧
    (resolve t p ≠ none →
      (∀ r', stat t' (p.comps ++ r') = none) ∧
      (∀ q, ¬ p.comps <+: q → stat t' q = stat t q)) := by
  unfold rm at h
  split at h
  · next hn => cases h; exact ⟨fun _ => rfl, fun hne => absurd hn hne⟩
  · next b hb =>
    cases h
    refine ⟨fun hn => (by rw [hb] at hn; cases hn), fun _ => ⟨?_, ?_⟩⟩
    · intro r'; simp [stat, lookup_removeAt_below t p.comps hp r']
    · intro q hq; exact stat_removeAt_other t p.comps q hq
  · next es hd =>
    split at h
    · cases h
      refine ⟨fun hn => (by rw [hd] at hn; cases hn), fun _ => ⟨?_, ?_⟩⟩
      · intro r'; simp [stat, lookup_removeAt_below t p.comps hp r']
      · intro q hq; exact stat_removeAt_other t p.comps q hq
    · cases h

/-- a non-empty directory goes only with `-r`: plain `rm` and `rmdir` fail and leave the tree
    as it is, `rm -r` removes it -/
theorem C18_rm_nonempty_needs_r (t : Node) (p : P) (es : Entries)
    (hd : resolve t p = some (.dir es)) (hne : es.isEmpty = false) :
    rm t false p = (t, .err) ∧ rmdir t p = (t, .err) ∧
    rm t true p = (removeAt t p.comps, .ok .unit) := by
  simp [rm, rmdir, hd, hne]

/-- … while an EMPTY directory is removed by all three -/
theorem C18_rm_empty_dir (t : Node) (p : P) (es : Entries)
    (hd : resolve t p = some (.dir es)) (he : es.isEmpty = true) :
    rm t false p = (removeAt t p.comps, .ok .unit) ∧
    rmdir t p = (removeAt t p.comps, .ok .unit) := by
  simp [rm, rmdir, hd, he]

/-! ### a failing operation leaves the tree unchanged -/

/-- every command that reports a failure (`err`: output `false` or an error) leaves the tree
    EQUAL — for all sixteen commands, in every tree -/
theorem C18_failed_op_unchanged (t : Node) (op : Op) (h : (step t op).2 = .err) :
    (step t op).1 = t := by
  cases op <;> simp only [step] at h ⊢
  case writeText p s =>
    unfold writeText writeGen at h ⊢
    repeat' split <;> simp_all
  case appendText p s =>
    unfold appendText writeGen at h ⊢
    repeat' split <;> simp_all
  case writeBytes p b =>
    unfold writeBytes writeGen at h ⊢
    repeat' split <;> simp_all
  case touch p =>
    unfold touch at h ⊢
    repeat' split <;> simp_all
  case mkdir p =>
    unfold mkdir at h ⊢
    repeat' split <;> simp_all
  case cp s d =>
    unfold cp at h ⊢
    repeat' split <;> simp_all
  case mv s d =>
    unfold mv at h ⊢
    repeat' split <;> simp_all
  case rm r p =>
    unfold rm at h ⊢
    repeat' split <;> simp_all
  case rmdir p =>
    unfold rmdir at h ⊢
    repeat' split <;> simp_all

/-- the same for a command outside the domain (directory source of cp / mv): not modelled,
    tree untouched -/
theorem C18_skipped_op_unchanged (t : Node) (op : Op) (h : (step t op).2 = .skip) :
    (step t op).1 = t := by
  cases op <;> simp only [step] at h ⊢
  case writeText p s =>
    unfold writeText writeGen at h ⊢
    repeat' split <;> simp_all
  case appendText p s =>
    unfold appendText writeGen at h ⊢
    repeat' split <;> simp_all
  case writeBytes p b =>
    unfold writeBytes writeGen at h ⊢
    repeat' split <;> simp_all
  case touch p =>
    unfold touch at h ⊢
    repeat' split <;> simp_all
  case mkdir p =>
    unfold mkdir at h ⊢
    repeat' split <;> simp_all
  case cp s d =>
    unfold cp at h ⊢
    repeat' split <;> simp_all
  case mv s d =>
    unfold mv at h ⊢
    repeat' split <;> simp_all
  case rm r p =>
    unfold rm at h ⊢
    repeat' split <;> simp_all
  case rmdir p =>
    unfold rmdir at h ⊢
    repeat' split <;> simp_all

/-! ### basename / dirname / join_path -/

/-- laws of the path-string functions: for a normal name `b` (no separator, not `.`/`..`),
    `basename (d/b) = b` for EVERY `d`; `dirname (d/b) = d` whenever `d` is not empty and does
    not end in a separator or `/.`; `join_path` never leaves a `//` and changes nothing when
    there was none -/
theorem C18_path_functions :
    (∀ d b, PlainName b → basename (d ++ '/' :: b) = some b) ∧
    (∀ d b, PlainName b → d ≠ [] → CleanEnd d → dirname (d ++ '/' :: b) = some d) ∧
    (∀ args, hasDouble (joinPath args) = false) ∧
    (∀ args, hasDouble (joinSlash args) = false → joinPath args = joinSlash args) :=
  ⟨basename_join, dirname_join, fun _ => hasDouble_squeeze _, fun _ h => squeeze_id _ h⟩

/-! ### non-vacuity: a concrete 3-level tree `a/b/c/f.txt` -/

namespace FsTree.Example

def t3 : Node :=
  .dir (.cons "a".toList (.dir (.cons "b".toList (.dir (.cons "c".toList
    (.dir (.cons "f.txt".toList (.file [104, 105]) .nil)) .nil)) .nil)) .nil)

def f : P := { comps := ["a".toList, "b".toList, "c".toList, "f.txt".toList] }
def a : P := { comps := ["a".toList] }

-- the tree is what the commands build from the empty directory
example : ((run FsTree.empty [.mkdir { comps := ["a".toList, "b".toList, "c".toList] },
    .writeText f "hi".toList]).map (·.1)) = [.ok .unit, .ok .unit] := by decide
example : stat t3 f.comps = some (.file [104, 105]) := by decide

-- read after write with new parents, non-ASCII text
example : (writeText t3 { comps := ["a".toList, "n".toList, "é.txt".toList] } "héllo".toList).2
    = .ok .unit := by decide
-- append to an existing file
example : (appendText t3 f "!".toList).2 = .ok .unit ∧
    readBytes (appendText t3 f "!".toList).1 f = .ok (.bytes [104, 105, 33]) := by decide
-- copy creates x/y
example : (cp t3 f { comps := ["x".toList, "y".toList, "g.txt".toList] }).2 = .ok .unit ∧
    stat (cp t3 f { comps := ["x".toList, "y".toList, "g.txt".toList] }).1 ["x".toList, "y".toList]
      = some .dir := by decide
-- the three shapes of mv: into an existing directory, to a file name, into a new directory
example : (mv t3 f a).2 = .ok .unit ∧ mvTarget t3 f a = ["a".toList, "f.txt".toList] := by decide
example : (mv t3 f { comps := ["z.md".toList] }).2 = .ok .unit ∧
    mvTarget t3 f { comps := ["z.md".toList] } = ["z.md".toList] := by decide
example : (mv t3 f { comps := ["new".toList] }).2 = .ok .unit ∧
    mvTarget t3 f { comps := ["new".toList] } = ["new".toList, "f.txt".toList] ∧
    stat (mv t3 f { comps := ["new".toList] }).1 f.comps = none := by decide
-- rm: non-empty directory only with -r
example : (rm t3 false a).2 = .err ∧ (rm t3 true a).2 = .ok .unit ∧
    stat (rm t3 true a).1 f.comps = none := by decide
-- failing operations (a file among the ancestors; a directory where a file is expected;
-- trailing separator)
example : (writeText t3 { comps := f.comps ++ ["x".toList] } "t".toList).2 = .err := by decide
example : (writeText t3 a "t".toList).2 = .err ∧ (touch t3 a).2 = .err ∧
    (mkdir t3 f).2 = .err ∧ (writeText t3 { comps := ["q".toList, "r".toList], trail := true } []).2 = .err := by
  decide
-- path strings
example : basename "a/b/f.txt".toList = some "f.txt".toList ∧
    dirname "a/b/f.txt".toList = some "a/b".toList ∧
    joinPath ["a/".toList, "/b".toList] = "a/b".toList := by decide
example : PlainName "f.txt".toList ∧ CleanEnd "a/b".toList := by
  refine ⟨⟨by decide, by decide, by decide, by decide⟩, ?_⟩
  intro x hx
  have : (splitSlash "a/b".toList).getLast? = some "b".toList := by decide
  rw [this] at hx; cases hx; decide

end FsTree.Example

end Duck
