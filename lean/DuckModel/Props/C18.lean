/-
  C18 — file commands behave like operations on a simple file tree.

  PARTIAL by nature: the truth of these commands lives in the operating system (and in the
  third-party crates fsio / fs_extra / glob).  `DuckModel/Sdk/FsTree.lean` IS the reference
  file-tree model the property speaks of (model = spec); the theorems below are facts about that
  model, and the tie to /repo is purely the correspondence check (harness/src/props/c18.rs),
  which walks the real directory after every command.

  Observations are made with `stat t q` (nothing / a file with its bytes / a directory at the
  component path `q`): two trees with the same `stat` everywhere have the same listing.
-/
import DuckModel.Sdk.FsTree
import DuckModel.Lemmas.FsTreeLemmas
import DuckModel.Lemmas.Utf8DecodeLemmas

namespace Duck
open Duck.FsTree

namespace FsTree

theorem resolve_file {t : Node} {p : P} {b : Bytes} (h : resolve t p = some (.file b)) :
    lookup t p.comps = some (.file b) ∧ p.trail = false := by
  unfold resolve at h
  split at h
  · split at h
    · cases h
    · next hl _ => simp at h; subst h; exact ⟨hl, by simp_all⟩
  · cases h
  · cases h

theorem resolve_of_lookup_file {t : Node} {p : P} {b : Bytes}
    (h : lookup t p.comps = some (.file b)) (ht : p.trail = false) :
    resolve t p = some (.file b) := by
  simp [resolve, h, ht]

theorem resolve_dir {t : Node} {p : P} {es : Entries} (h : resolve t p = some (.dir es)) :
    lookup t p.comps = some (.dir es) := by
  unfold resolve at h
  split at h
  · split at h <;> cases h
  · next hl => simp at h; subst h; exact hl
  · cases h

/-- a successful write put a file with the expected content at the path, where no directory was -/
theorem writeGen_ok {t t' : Node} {p : P} {data : Bytes} {app : Bool} {v : Val}
    (h : writeGen t p data app = (t', .ok v)) :
    p.trail = false ∧ (∀ es, lookup t p.comps ≠ some (.dir es)) ∧
      ∃ content, putAt t p.comps (.file content) = some t' ∧
        ((∀ old, lookup t p.comps = some (.file old) →
            content = if app then old ++ data else data) ∧
         (lookup t p.comps = none → content = data)) := by
  unfold writeGen at h
  split at h
  · cases h
  · next htr =>
    refine ⟨by simpa using htr, ?_⟩
    split at h
    · cases h
    · next old hl =>
      split at h
      · next t'' hp =>
        cases h
        exact ⟨by simp [hl], _, hp, by simp [hl], by simp [hl]⟩
      · cases h
    · next hl =>
      split at h
      · next t'' hp =>
        cases h
        exact ⟨by simp [hl], _, hp, by simp [hl], by simp⟩
      · cases h

theorem writeGen_read {t t' : Node} {p : P} {content : Bytes} (htr : p.trail = false)
    (hp : putAt t p.comps (.file content) = some t') :
    resolve t' p = some (.file content) := by
  have := lookup_putAt_self hp []
  simp at this
  exact resolve_of_lookup_file this htr

end FsTree

/-! ### what was written is what is read -/

/-- after a successful `writefile p s`: `readfile p` gives `s` back (and `readbinfile` its UTF-8
    bytes), every proper ancestor of `p` is a directory, and the observation at every other
    path is what it was (frame) -/
theorem C18_read_after_write (t t' : Node) (p : P) (s : Str) (v : Val)
    (h : writeText t p s = (t', .ok v)) :
    readText t' p = .ok (.text s) ∧
    readBytes t' p = .ok (.bytes (utf8Encode s)) ∧
    (∀ q, q <+: p.comps → q ≠ p.comps → stat t' q = some .dir) ∧
    (∀ q, ¬ q <+: p.comps → stat t' q = stat t q) := by
  obtain ⟨htr, hold, content, hp, _, _⟩ := writeGen_ok h
  have hc : content = utf8Encode s := by
    obtain ⟨_, _, c2, hp2, h1, h2⟩ := writeGen_ok h
    cases hl : lookup t p.comps with
    | none =>
      have := h2 hl
      rw [hp] at hp2; cases hp2; exact this
    | some n =>
      cases n with
      | dir es => exact absurd hl (hold es)
      | file old =>
        have := h1 old hl
        rw [hp] at hp2; cases hp2; simpa using this
  subst hc
  have hr := writeGen_read htr hp
  refine ⟨?_, ?_, ?_, ?_⟩
  · simp [readText, hr, utf8_roundtrip]
  · simp [readBytes, hr]
  · intro q h1 h2; exact stat_putAt_prefix hp q h1 h2
  · intro q hq; exact stat_putAt_file_frame hp hold q hq

/-- the same for the binary pair `writebinfile` / `readbinfile`, for arbitrary bytes -/
theorem C18_read_after_write_bytes (t t' : Node) (p : P) (data : Bytes) (v : Val)
    (h : writeBytes t p data = (t', .ok v)) :
    readBytes t' p = .ok (.bytes data) ∧
    (∀ q, q <+: p.comps → q ≠ p.comps → stat t' q = some .dir) ∧
    (∀ q, ¬ q <+: p.comps → stat t' q = stat t q) := by
  obtain ⟨htr, hold, content, hp, h1, h2⟩ := writeGen_ok h
  have hc : content = data := by
    cases hl : lookup t p.comps with
    | none => exact h2 hl
    | some n =>
      cases n with
      | dir es => exact absurd hl (hold es)
      | file old => simpa using h1 old hl
  subst hc
  have hr := writeGen_read htr hp
  refine ⟨?_, ?_, ?_⟩
  · simp [readBytes, hr]
  · intro q h1 h2; exact stat_putAt_prefix hp q h1 h2
  · intro q hq; exact stat_putAt_file_frame hp hold q hq

/-- `appendfile` extends: an existing file's bytes get the UTF-8 bytes of the text appended, a
    missing file is created with exactly the text; ancestors are directories; frame -/
theorem C18_append_extends (t t' : Node) (p : P) (s : Str) (v : Val)
    (h : appendText t p s = (t', .ok v)) :
    (∀ old, readBytes t p = .ok (.bytes old) →
        readBytes t' p = .ok (.bytes (old ++ utf8Encode s))) ∧
    (stat t p.comps = none → readBytes t' p = .ok (.bytes (utf8Encode s)) ∧
        readText t' p = .ok (.text s)) ∧
    (∀ q, q <+: p.comps → q ≠ p.comps → stat t' q = some .dir) ∧
    (∀ q, ¬ q <+: p.comps → stat t' q = stat t q) := by
  obtain ⟨htr, hold, content, hp, h1, h2⟩ := writeGen_ok h
  have hr := writeGen_read htr hp
  refine ⟨?_, ?_, ?_, ?_⟩
  · intro old ho
    unfold readBytes at ho
    split at ho
    · next b hb =>
      cases ho
      have := h1 _ (resolve_file hb).1
      simp at this
      subst this
      simp [readBytes, hr]
    · cases ho
  · intro hs
    have hl : lookup t p.comps = none := by
      cases hl : lookup t p.comps with
      | none => rfl
      | some n => simp [stat, hl] at hs
    have := h2 hl
    subst this
    simp [readBytes, readText, hr, utf8_roundtrip]
  · intro q h1 h2; exact stat_putAt_prefix hp q h1 h2
  · intro q hq; exact stat_putAt_file_frame hp hold q hq

/-! ### copy -/

/-- a successful `cp src dst` (file source): the source is a file and still is, with the same
    bytes; the target is a file with equal bytes; missing parents of the target were created
    (every proper ancestor of the target is a directory); nothing else changed -/
theorem C18_cp_file (t t' : Node) (src dst : P) (v : Val)
    (h : cp t src dst = (t', .ok v)) :
    ∃ b, stat t src.comps = some (.file b) ∧
      stat t' src.comps = some (.file b) ∧
      stat t' dst.comps = some (.file b) ∧
      (∀ q, q <+: dst.comps → q ≠ dst.comps → stat t' q = some .dir) ∧
      (∀ q, ¬ q <+: dst.comps → stat t' q = stat t q) := by
  unfold cp at h
  split at h
  · cases h
  · cases h
  · next b hres =>
    obtain ⟨hl, _⟩ := resolve_file hres
    have hs : stat t src.comps = some (.file b) := by simp [stat, hl, Node.obs]
    refine ⟨b, hs, ?_⟩
    split at h
    · cases h
    · split at h
      · next heq =>
        cases h
        refine ⟨hs, heq ▸ hs, ?_, fun _ _ => rfl⟩
        intro q h1 h2
        obtain ⟨r, hr⟩ := h1
        have hr' : r ≠ [] := by
          intro e; subst e; simp at hr; exact h2 hr
        rw [← heq, ← hr] at hl
        obtain ⟨es, he⟩ := lookup_prefix_dir hl hr'
        simp [stat, he, Node.obs]
      · next hne =>
        split at h
        · cases h
        · next hnd =>
          split at h
          · next t'' hp =>
            cases h
            have hold : ∀ es, lookup t dst.comps ≠ some (.dir es) := fun es e => hnd es e
            have hframe := stat_putAt_file_frame hp hold
            have hns : ¬ src.comps <+: dst.comps := by
              rintro ⟨r, hr⟩
              have hr' : r ≠ [] := by
                intro e; subst e; simp at hr; exact hne hr
              have := putAt_file_prefix_none hl r hr' (.file b)
              rw [hr, hp] at this
              cases this
            refine ⟨?_, ?_, ?_, hframe⟩
            · rw [hframe _ hns]; exact hs
            · simpa [Node.obs] using stat_putAt_self hp
            · intro q h1 h2; exact stat_putAt_prefix hp q h1 h2
          · cases h

end Duck
