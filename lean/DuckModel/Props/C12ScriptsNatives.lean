/-
  C12 - `array_contains` and `array_join` RUN FROM THEIR REGENERATED SOURCE
  (`Generated.scripts`; natives `calc`, `strlen`, `substring`, `is_empty`, `equals`, `set`,
  `is_array`, for-in / if / not of Sdk/ScriptRun.lean).  The driver op `srun` compares these runs
  with the real commands on every check; what is PROVED here are evaluated instances (the
  ∀-theorems about the loop scripts live in Props/C12Scripts.lean) and the disagreement between
  the source-run model and the specified function `Coll.exec … .arrayJoin` - a finding of /repo:
  the body's `if not is_empty <separator>` re-reads the separator as script text.
-/
import DuckModel.Sdk.ScriptRun

namespace Duck
open Duck.Alias Duck.Coll Duck.ScriptRun

/-- the state of the instances: `handle:1` = [a, "b c", ü, a], `handle:2` = [], `handle:3` = a map -/
def c12NativesSt : ScriptSt :=
  { coll := (Coll.run {} [(.array, ["a".toList, "b c".toList, "ü".toList, "a".toList]), (.array, []),
      (.map, []), (.mapPut, [Coll.handleName 3, "k".toList, "v".toList])]).1 }

/-- the native callees added for the two scripts, on the argument forms the bodies use (and the
    ones they must reject): `calc` prints whole numbers without `.0`, `strlen` counts UTF-8
    BYTES, `substring` cuts at BYTE offsets and refuses an offset inside a character -/
theorem C12_script_natives_instances :
    runCalc ["0".toList, "+".toList, "1".toList] = .continue (some "1".toList) ∧
    runCalc ["11".toList, "+".toList, "1".toList] = .continue (some "12".toList) ∧
    runCalc ["7".toList, "-".toList, "2".toList] = .continue (some "5".toList) ∧
    runCalc ["0".toList, "-".toList, "1".toList] = .continue (some "-1".toList) ∧
    runCalc ["1.5".toList, "+".toList, "1.5".toList] = .continue (some "3".toList) ∧
    runCalc ["1".toList, "+".toList, "0.5".toList] = .crash calcUnmodelledMsg ∧
    runCalc ["9223372036854775807".toList, "+".toList, "1".toList] = .error (msg "evalexpr error") ∧
    runCalc [] = .error (msg "Missing input.") ∧
    runLength ["aü日🦆".toList] = .continue (some "10".toList) ∧
    runLength [[]] = .continue (some "0".toList) ∧
    runLength [] = .error (msg "No argument provided.") ∧
    runIsEmpty [] = .continue (some sTrue) ∧ runIsEmpty [[]] = .continue (some sTrue) ∧
    runIsEmpty [" ".toList] = .continue (some sFalse) ∧
    runSubstring ["aü, bü, ".toList, "0".toList, "8".toList] = .continue (some "aü, bü".toList) ∧
    runSubstring ["aü".toList, "0".toList, "2".toList] = .error (msg "Index is not on a character boundary of the text.") ∧
    runSubstring ["abc".toList, "0".toList, "3".toList] = .error (msg "End index cannot be bigger than total text size.") ∧
    runSubstring [[], "0".toList, "-1".toList] = .error (msg "Start index cannot be bigger than total text size.") ∧
    runSubstring ["abc".toList, "x".toList] = .error (msg "Non numeric value: x provided.") := by
  decide +kernel

/-- evaluated instances of `array_contains` from source: the index of the FIRST equal cell (index 0,
    a middle index, a multi-byte cell, a repeated cell), `false` for an absent value, an empty
    array, a handle of another kind and a missing handle; the caller's variables are kept, the
    temporary argument array is gone, the for-in entry of the loop is popped although the script
    leaves the loop by unsetting the handle variable (`argument::1 = set`: the next `for` reads an
    empty handle and jumps behind its `end`); the entry of the taken `if` stays on the if call
    stack (`end_if` pops nothing - in the code as well); each answer is the specified function's -/
theorem C12_script_array_contains_instances :
    let st := c12NativesSt
    let h1 := Coll.handleName 1
    (let r := runScriptCmd "array_contains".toList [h1, "a".toList] [("x".toList, "y".toList)] st
     r.1 = .continue (some "0".toList) ∧ r.2.1 = [("x".toList, "y".toList)] ∧
       r.2.2.coll.tbl.length = 3 ∧ tget r.2.2.coll.tbl (Coll.handleName 4) = none ∧
       r.2.2.forStack = [] ∧ r.2.2.ifStack.length = 1 ∧ r.2.2.ctx = []) ∧
    (runScriptCmd "array_contains".toList [h1, "b c".toList] [] st).1 = .continue (some "1".toList) ∧
    (runScriptCmd "array_contains".toList [h1, "ü".toList] [] st).1 = .continue (some "2".toList) ∧
    (runScriptCmd "array_contains".toList [h1, "absent".toList] [] st).1 = .continue (some sFalse) ∧
    (runScriptCmd "array_contains".toList [h1, []] [] st).1 = .continue (some sFalse) ∧
    (runScriptCmd "array_contains".toList [Coll.handleName 2, "a".toList] [] st).1 = .continue (some sFalse) ∧
    (runScriptCmd "array_contains".toList [Coll.handleName 3, "v".toList] [] st).1 = .continue (some sFalse) ∧
    (runScriptCmd "array_contains".toList ["nope".toList, "a".toList] [] st).1 = .continue (some sFalse) ∧
    (runScriptCmd "array_contains".toList [h1] [] st).1 = .error invalidArgsMsg ∧
    -- twice in a row on the state the first call left
    (let r1 := runScriptCmd "array_contains".toList [h1, "ü".toList] [] st
     (runScriptCmd "array_contains".toList [h1, "ü".toList] [] r1.2.2).1 = .continue (some "2".toList)) ∧
    -- the specified function on the same inputs
    (Coll.exec st.coll .arrayContains [h1, "a".toList]).2 = .val (some "0".toList) ∧
    (Coll.exec st.coll .arrayContains [h1, "b c".toList]).2 = .val (some "1".toList) ∧
    (Coll.exec st.coll .arrayContains [h1, "ü".toList]).2 = .val (some "2".toList) ∧
    (Coll.exec st.coll .arrayContains [h1, "absent".toList]).2 = .val (some sFalse) ∧
    (Coll.exec st.coll .arrayContains [Coll.handleName 3, "v".toList]).2 = .val (some sFalse) ∧
    (Coll.exec st.coll .arrayContains ["nope".toList, "a".toList]).2 = .val (some sFalse) ∧
    (Coll.exec st.coll .arrayContains [h1]).2 = .err := by
  decide +kernel

/-- evaluated instances of `array_join` from source: separators of one and two characters, a
    multi-byte separator (the trailing separator is cut at a BYTE offset computed by `strlen` and
    `calc`), the empty separator, the empty array, a call after a call (the wrapper removed
    `scope::array_join::string`), a map handle, a missing handle, too few arguments; each answer
    is the specified function's -/
theorem C12_script_array_join_instances :
    let st := c12NativesSt
    let h1 := Coll.handleName 1
    (let r := runScriptCmd "array_join".toList [h1, ", ".toList] [("x".toList, "y".toList)] st
     r.1 = .continue (some "a, b c, ü, a".toList) ∧ r.2.1 = [("x".toList, "y".toList)] ∧
       r.2.2.coll.tbl.length = 3 ∧ tget r.2.2.coll.tbl (Coll.handleName 4) = none ∧
       r.2.2.forStack = [] ∧ r.2.2.ifStack.length = 2 ∧ r.2.2.ctx = []) ∧
    (runScriptCmd "array_join".toList [h1, "ü".toList] [] st).1 = .continue (some "aüb cüüüa".toList) ∧
    (runScriptCmd "array_join".toList [h1, "日本".toList] [] st).1 = .continue (some "a日本b c日本ü日本a".toList) ∧
    (runScriptCmd "array_join".toList [h1, []] [] st).1 = .continue (some "ab cüa".toList) ∧
    (runScriptCmd "array_join".toList [h1, " ".toList] [] st).1 = .continue (some "a b c ü a".toList) ∧
    (runScriptCmd "array_join".toList [Coll.handleName 2, ",".toList] [] st).1 = .continue (some []) ∧
    (let r1 := runScriptCmd "array_join".toList [h1, ",".toList] [] st
     r1.1 = .continue (some "a,b c,ü,a".toList) ∧
     (runScriptCmd "array_join".toList [h1, ",".toList] [] r1.2.2).1 = .continue (some "a,b c,ü,a".toList)) ∧
    (runScriptCmd "array_join".toList [Coll.handleName 3, ",".toList] [] st).1 =
      .error "Invalid input, non array handle or array not found.".toList ∧
    (runScriptCmd "array_join".toList ["nope".toList, ",".toList] [] st).1 =
      .error "Invalid input, non array handle or array not found.".toList ∧
    (runScriptCmd "array_join".toList [h1] [] st).1 = .error invalidArgsMsg ∧
    -- the specified function on the same inputs
    (Coll.exec st.coll .arrayJoin [h1, ", ".toList]).2 = .val (some "a, b c, ü, a".toList) ∧
    (Coll.exec st.coll .arrayJoin [h1, "ü".toList]).2 = .val (some "aüb cüüüa".toList) ∧
    (Coll.exec st.coll .arrayJoin [h1, []]).2 = .val (some "ab cüa".toList) ∧
    (Coll.exec st.coll .arrayJoin [Coll.handleName 2, ",".toList]).2 = .val (some []) ∧
    (Coll.exec st.coll .arrayJoin [Coll.handleName 3, ",".toList]).2 = .err ∧
    (Coll.exec st.coll .arrayJoin ["nope".toList, ",".toList]).2 = .err ∧
    (Coll.exec st.coll .arrayJoin [h1]).2 = .err := by
  decide +kernel

/-- DISAGREEMENT source-run vs specified function (a finding of /repo, observed on the real command
    by the `srun` stream): the body decides whether to cut the trailing separator by
    `if not is_empty ${scope::array_join::argument::2}`; a command condition is re-serialised and
    RE-PARSED as script text (`eval_condition`), so the separator is read a second time:
     * TAB (also CR): the re-parsed line has no argument, `is_empty` answers `true`, the trailing
       separator stays: `x<TAB>y<TAB>` instead of `x<TAB>y`;
     * `=z`: the re-parsed line does not parse, `array_join` answers `Error`;
     * `${v}`: expanded against the CALLER's variables - the same call answers `x${v}y` when the
       caller has `v = 1` and `x${v}y${v}` when `v` is empty or undefined.
    The specified function (and the documentation) say `x<sep>y` in every case. -/
theorem C12_script_array_join_separator_reread :
    let st : ScriptSt := { coll := (Coll.run {} [(.array, ["x".toList, "y".toList])]).1 }
    let h1 := Coll.handleName 1
    (runScriptCmd "array_join".toList [h1, "\t".toList] [] st).1 = .continue (some "x\ty\t".toList) ∧
    (Coll.exec st.coll .arrayJoin [h1, "\t".toList]).2 = .val (some "x\ty".toList) ∧
    (runScriptCmd "array_join".toList [h1, "=z".toList] [] st).1 = flowErr ∧
    (Coll.exec st.coll .arrayJoin [h1, "=z".toList]).2 = .val (some "x=zy".toList) ∧
    (runScriptCmd "array_join".toList [h1, "${v}".toList] [("v".toList, "1".toList)] st).1 =
      .continue (some "x${v}y".toList) ∧
    (runScriptCmd "array_join".toList [h1, "${v}".toList] [("v".toList, [])] st).1 =
      .continue (some "x${v}y${v}".toList) ∧
    (runScriptCmd "array_join".toList [h1, "${v}".toList] [] st).1 =
      .continue (some "x${v}y${v}".toList) ∧
    (Coll.exec st.coll .arrayJoin [h1, "${v}".toList]).2 = .val (some "x${v}y".toList) := by
  decide +kernel

end Duck
