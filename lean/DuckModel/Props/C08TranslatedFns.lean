/-
  C08 / C01 — the hand-written model of the REST of the line parser is the translation of the
  current source.

  `Generated/ParserFns.lean` is produced on every run by the Rust→Lean translator
  (bin/rust2lean.py, fourth executor; bin/fragments/parser_fns.py) from the functions of
  duckscript/src/parser.rs that are built on `parse_next_value`:

    Rust function                   translation                      hand-written twin (ParserIndexed.lean) / suffix model (Parser.lean)
    parse_next_argument             parseNextArgumentGen             iParseNextValue (argFlags cac)   / parseNextValue (argFlags cac)
    parse_arguments_with_options    parseArgumentsWithOptionsGen     iParseArgumentsWith              / parseArgumentsWith
    parse_arguments                 parseArgumentsGen                iParseArguments                  / parseArguments
    reparse_arguments               reparseArgumentsGen              iReparseArguments                / reparseArguments
    find_label                      findLabelGen                     iFindLabel                       / findLabel
    find_output_and_command         findOutputAndCommandGen          iFindOutputAndCommand            / findOutputAndCommand
    parse_pre_process_line          parsePreProcessLineGen           iParsePreProcessLine             / parsePreProcessLine
    parse_command_line              parseCommandLineGen              iParseCommandLine                / parseCommandLine
    parse_line                      parseLineGen                     iParseLine                       / parseLine

  The translation is index faithful (a line, an explicit index, `.panic` where Rust would unwind).
  `C08_fn_translation_<function>` proves the translated function EQUAL to the hand-written
  index-faithful twin for EVERY input (every line, every start index — also beyond the end of the
  line, every flag, every instruction handed in).  `C08_fn_translation_<function>_suffix` carries
  this to the suffix model all parser theorems (C01, C08, C02, C09, C14) are stated about: for a
  start index inside the line (`start ≤ line.length`; `parse_line` needs no hypothesis) the
  translated function returns the index `line.length - r.length` exactly when the suffix model,
  run on `line.drop start`, returns what is left `r` (a REFINEMENT: index form vs suffix form),
  with the same value and the same errors, and never panics.

  The one statement with a hypothesis on the data: `find_output_and_command` writes into an
  instruction it is handed (`&mut ScriptInstruction`) and READS `instruction.output` after its
  `=` loop; the hand-written twin models the call on an instruction whose `output` is still
  `None` (what `parse_command_line` hands in), so the equality is stated for `ins.output = none`
  (the `example` at the end shows the two differ otherwise).

  A change of one of these Rust functions that alters its meaning makes this file fail to check.
-/
import DuckModel.ParserIndexed
import DuckModel.Generated.ParserFns
import DuckModel.Lemmas.FnTranslationLemmas
import DuckModel.Lemmas.IndexedLemmas
import DuckModel.Lemmas.IndexedLineLemmas

namespace Duck
open Duck.Generated

/-! ### equality with the index-faithful twin, for every input -/

theorem C08_fn_translation_parse_next_argument (line : Str) (start : Nat) (cac : Bool) :
    parseNextArgumentGen line start cac = iParseNextValue (argFlags cac) line start := rfl

theorem C08_fn_translation_parse_arguments_with_options (line : Str) (start : Nat) (cac : Bool) :
    parseArgumentsWithOptionsGen line start cac = iParseArgumentsWith cac line start := by
  unfold parseArgumentsWithOptionsGen iParseArgumentsWith
  rw [← argsLoopGen_eq]
  cases iLoop (parseArgumentsWithOptionsBodyGen line cac) (line.length + 1) (start, []) with
  | panic => rfl
  | err e => rfl
  | ok st => simp only [IOut.map]

theorem C08_fn_translation_parse_arguments (line : Str) (start : Nat) :
    parseArgumentsGen line start = iParseArguments line start :=
  C08_fn_translation_parse_arguments_with_options line start false

theorem C08_fn_translation_reparse_arguments (line : Str) (start : Nat) :
    reparseArgumentsGen line start = iReparseArguments line start :=
  C08_fn_translation_parse_arguments_with_options line start true

theorem C08_fn_translation_find_label (line : Str) (start : Nat) :
    findLabelGen line start = iFindLabel line start := by
  unfold findLabelGen iFindLabel
  have h := iFor_map iflTuple (iflBody line) (findLabelBodyGen line) (findLabelBodyGen_eq line)
    (line.length - start) { index := start }
  simp only [iflTuple] at h
  simp only [h]
  split
  · rfl
  · cases iFor (iflBody line) (line.length - start) { index := start } <;> rfl

/-- `find_output_and_command` on an instruction whose output is not set yet: the index, and the
    instruction with the output and (when one was found) the command filled in -/
theorem C08_fn_translation_find_output_and_command (line : Str) (start : Nat) (ins : ScriptInstr)
    (h : ins.output = none) :
    findOutputAndCommandGen line start ins =
      match iFindOutputAndCommand line start with
      | .ok (idx, output, command) =>
        .ok (idx, { ins with output := output,
                             command := match command with | some c => some c | none => ins.command })
      | .err e => .err e
      | .panic => .panic := by
  unfold findOutputAndCommandGen iFindOutputAndCommand
  simp only [outputFlags, nameFlags, h]
  cases iParseNextValue _ line start with
  | panic => rfl
  | err e => rfl
  | ok x =>
    obtain ⟨idx, v⟩ := x
    cases v with
    | none => simp only [← h]
    | some v =>
      have hm := iFor_map iocTuple (iocBody line v) (findOutputAndCommandBodyGen line v)
        (findOutputAndCommandBodyGen_eq line v) (line.length - idx) { index := idx }
      simp only [iocTuple] at hm
      simp only [hm]
      cases iFor (iocBody line v) (line.length - idx) { index := idx } with
      | panic => rfl
      | err e => rfl
      | ok s =>
        obtain ⟨i, o⟩ := s
        cases o with
        | none => simp [IOut.map, iocTuple]
        | some o =>
          simp only [IOut.map, iocTuple, Option.isSome_some, ↓reduceIte]
          cases iParseNextValue _ line i with
          | panic => rfl
          | err e => rfl
          | ok y => obtain ⟨j, c⟩ := y; cases c <;> rfl

theorem C08_fn_translation_parse_pre_process_line (line : Str) (start : Nat) :
    parsePreProcessLineGen line start = iParsePreProcessLine line start := by
  unfold parsePreProcessLineGen iParsePreProcessLine
  have hm := iFor_map ippTuple (ippBody line) (parsePreProcessLineBodyGen line)
    (parsePreProcessLineBodyGen_eq line) (line.length - start) { index := start }
  simp only [ippTuple] at hm
  simp only [hm, C08_fn_translation_parse_arguments]
  split
  · rfl
  · cases iFor (ippBody line) (line.length - start) { index := start } with
    | panic => rfl
    | err e => rfl
    | ok s =>
      simp only [IOut.map, ippTuple]
      split
      · rfl
      · cases iParseArguments line s.index <;> rfl

set_option linter.unusedSimpArgs false in   -- `hc'` serves the source with the operands of `||` swapped
theorem C08_fn_translation_parse_command_line (line : Str) (start : Nat) :
    parseCommandLineGen line start = iParseCommandLine line start := by
  unfold parseCommandLineGen iParseCommandLine
  simp only [C08_fn_translation_find_label, C08_fn_translation_parse_arguments]
  by_cases hc : line.isEmpty = true ∨ start ≥ line.length
  · have hc' : start ≥ line.length ∨ line.isEmpty = true := hc.symm
    simp only [hc, hc', ↓reduceIte]
  · have hc' : ¬ (start ≥ line.length ∨ line.isEmpty = true) := fun h => hc h.symm
    simp only [hc, hc', ↓reduceIte]
    cases iFindLabel line start with
    | panic => rfl
    | err e => rfl
    | ok x =>
      obtain ⟨i1, label⟩ := x
      cases label with
      | none =>
        simp only [C08_fn_translation_find_output_and_command line i1
          { label := none, output := none, command := none, args := none } rfl]
        cases iFindOutputAndCommand line i1 with
        | panic => rfl
        | err e => rfl
        | ok y =>
          obtain ⟨i2, o, c⟩ := y
          cases o <;> cases c <;> simp <;> cases iParseArguments line i2 <;> rfl
      | some l =>
        simp only [C08_fn_translation_find_output_and_command line i1
          { label := some l, output := none, command := none, args := none } rfl]
        cases iFindOutputAndCommand line i1 with
        | panic => rfl
        | err e => rfl
        | ok y =>
          obtain ⟨i2, o, c⟩ := y
          cases o <;> cases c <;> simp <;> cases iParseArguments line i2 <;> rfl

theorem C08_fn_translation_parse_line (line : Str) : parseLineGen line = iParseLine line := by
  unfold parseLineGen iParseLine
  simp only [C08_fn_translation_parse_pre_process_line, C08_fn_translation_parse_command_line]
  cases trim line with
  | nil => simp
  | cons c rest => simp [rd, @eq_comm _ '#' c]

/-! ### … hence the suffix model (Parser.lean) every parser theorem is stated about

  index form vs suffix form: from a start index inside the line the translated function answers
  the index `line.length - r.length` where the suffix model, run on what is left from `start`,
  answers "what is left" `r`; same values, same errors, no panic. -/

/-- `parse_line`: no hypothesis at all -/
theorem C08_fn_translation_parse_line_suffix (line : Str) :
    parseLineGen line = liftE (parseLine line) := by
  rw [C08_fn_translation_parse_line, iParseLine_refines]

theorem C08_fn_translation_parse_line_never_panics (line : Str) : parseLineGen line ≠ .panic := by
  rw [C08_fn_translation_parse_line_suffix]; exact liftE_ne_panic _

theorem C08_fn_translation_find_label_suffix (line : Str) (start : Nat) (h : start ≤ line.length) :
    findLabelGen line start =
      match findLabel (line.drop start) with
      | .ok (r, label) => .ok (line.length - r.length, label)
      | .error e => .err e := by
  rw [C08_fn_translation_find_label, iFindLabel_refines line start h]
  cases findLabel (line.drop start) with
  | error e => rfl
  | ok x => obtain ⟨r, v⟩ := x; rfl

theorem C08_fn_translation_find_output_and_command_suffix (line : Str) (start : Nat)
    (ins : ScriptInstr) (hi : ins.output = none) (h : start ≤ line.length) :
    findOutputAndCommandGen line start ins =
      match findOutputAndCommand (line.drop start) with
      | .ok (r, output, command) =>
        .ok (line.length - r.length,
          { ins with output := output,
                     command := match command with | some c => some c | none => ins.command })
      | .error e => .err e := by
  rw [C08_fn_translation_find_output_and_command line start ins hi,
    iFindOutputAndCommand_refines line start h]
  cases findOutputAndCommand (line.drop start) with
  | error e => rfl
  | ok x => obtain ⟨r, o, c⟩ := x; rfl

theorem C08_fn_translation_parse_arguments_with_options_suffix (line : Str) (start : Nat) (cac : Bool)
    (h : start ≤ line.length) :
    parseArgumentsWithOptionsGen line start cac = liftE (parseArgumentsWith cac (line.drop start)) := by
  rw [C08_fn_translation_parse_arguments_with_options, iParseArgumentsWith_refines cac line start h]

theorem C08_fn_translation_parse_arguments_suffix (line : Str) (start : Nat) (h : start ≤ line.length) :
    parseArgumentsGen line start = liftE (parseArguments (line.drop start)) :=
  C08_fn_translation_parse_arguments_with_options_suffix line start false h

theorem C08_fn_translation_parse_pre_process_line_suffix (line : Str) (start : Nat)
    (h : start ≤ line.length) :
    parsePreProcessLineGen line start = liftE (parsePreProcessLine (line.drop start)) := by
  rw [C08_fn_translation_parse_pre_process_line, iParsePreProcessLine_refines line start h]

theorem C08_fn_translation_parse_command_line_suffix (line : Str) (start : Nat)
    (h : start ≤ line.length) :
    parseCommandLineGen line start = liftE (parseCommandLine (line.drop start)) := by
  rw [C08_fn_translation_parse_command_line, iParseCommandLine_refines line start h]

/-! ### non-vacuity -/

/-- the translation computes: a whole line -/
example : parseLineGen "  :l out = cmd a \"b c\" # x".toList =
    .ok (.script { label := some ":l".toList, output := some "out".toList, command := some "cmd".toList,
                   args := some ["a".toList, "b c".toList] }) := by decide
example : parseLineGen "!include_files  a b".toList =
    .ok (.preProcess (some "include_files".toList) (some ["a".toList, "b".toList])) := by decide
example : parseLineGen "   # only a comment".toList = .ok .empty := by decide
example : parseLineGen "x = \"".toList = .err .invalidQuotesLocation := by decide
/-- the outcome `.panic` is reachable in the translation as soon as the loop discipline is broken
    (one iteration too many reads `line_text[len]`) -/
example : iFor (findLabelBodyGen " ".toList) 2 (0, none) = .panic := by decide
/-- the hypothesis of `C08_fn_translation_find_output_and_command` is needed: handed an
    instruction that already has an output, the function behaves as if it had seen `=` after the
    first word even when there is none (the twin models the call on a fresh instruction) -/
example : findOutputAndCommandGen "a b".toList 0 { output := some "o".toList } =
      .ok (3, { output := some "o".toList, command := none }) ∧
    iFindOutputAndCommand "a b".toList 0 = .ok (1, none, some "a".toList) := by decide

end Duck
