/-
  C02, from script TEXT to received arguments: a command line written the documented way
  (`Spec/TemplateText.lean`: `${name}`, `\${name}`, `%{name}`, quotes where needed or wanted,
  `\" \n \r \t` for quote and control characters of literal text) is parsed into exactly the
  written templates C02's binding theorems start from, hence the command receives exactly the
  template values — whatever the variables contain.

  Only theorem statements and non-vacuity examples; helper lemmas in Lemmas/TemplateTextLemmas.lean.
-/
import DuckModel.Parser
import DuckModel.Expansion
import DuckModel.Spec.TemplateText
import DuckModel.Lemmas.TemplateTextLemmas

namespace Duck
open Duck.Spec

/-- the parser delivers the arguments exactly as `Spec.renderTemplate` / `Spec.renderSpread`
    write them (quotes removed, `\"` `\n` `\r` `\t` decoded, `\${` kept as `\${`) -/
theorem C02_text_parse (cmd : Str) (args : List WArg) (hc : CmdTextOK cmd)
    (h : ∀ a ∈ args, a.OK) :
    parseLine (capLine cmd args) =
      .ok (.script { label := none, output := none, command := some cmd,
                     args := if args.isEmpty then none else some (args.map WArg.written) }) :=
  parseLine_capLine cmd args hc h

/-- end to end: the command receives, for every template argument, exactly its value under the
    variables (values inserted verbatim, never re-scanned), and for every `%{name}` the words of
    the value — for all variable environments (spread values free of `"` and `#`, as in
    `C02_spread_bind`) -/
theorem C02_text_end_to_end (vars : Vars) (cmd : Str) (args : List WArg) (hc : CmdTextOK cmd)
    (h : ∀ a ∈ args, a.OK)
    (hs : ∀ a ∈ args, ∀ n, a = .spread n → SpreadPlain ((vars.get n).getD [])) :
    ∃ si, parseLine (capLine cmd args) = .ok (.script si) ∧ si.command = some cmd ∧
      si.label = none ∧ si.output = none ∧
      bind vars si.args = args.flatMap (WArg.expected vars) :=
  ⟨_, C02_text_parse cmd args hc h, rfl, rfl, rfl, bind_written_opt vars args h hs⟩

/-! ### non-vacuity -/

/-- four arguments: one that must be quoted (it contains a space) with `\"`, `${x}` and `\${y}`;
    an unquoted one with two `\${…}`; the empty argument; a spread -/
def exArgs : List WArg :=
  [.tmpl [.lit "a \"b".toList, .var "x".toList, .escVar "y".toList] false,
   .tmpl [.escVar "p".toList, .lit "-".toList, .escVar "q".toList] false,
   .tmpl [] false,
   .spread "rest".toList]

/-- variable values with spaces, quotes and text that looks like `${z}` -/
def exVars : Vars :=
  [("x".toList, "v w \"q\" ${z}".toList), ("rest".toList, "r1  r2 ${z}".toList)]

/-- the hypotheses hold … -/
theorem exCmd_ok : CmdTextOK "echo".toList := by
  refine ⟨by decide, ?_, by decide, by decide⟩
  intro c hc
  simp at hc
  rcases hc with rfl | rfl | rfl | rfl <;> decide

theorem exArgs_ok : ∀ a ∈ exArgs, a.OK := by
  intro a ha
  simp only [exArgs, List.mem_cons, List.not_mem_nil, or_false] at ha
  rcases ha with rfl | rfl | rfl | rfl
  · simp [WArg.OK, Seg.TextOK, LitOK, NameTextOK, KeyOK]
  · simp [WArg.OK, Seg.TextOK, LitOK, NameTextOK, KeyOK]
  · simp [WArg.OK]
  · refine ⟨by simp [NameTextOK, KeyOK], ?_⟩
    intro c hc
    simp at hc
    rcases hc with rfl | rfl | rfl | rfl <;> decide

theorem exSpread_ok :
    ∀ a ∈ exArgs, ∀ n, a = .spread n → SpreadPlain ((exVars.get n).getD []) := by
  intro a ha n hn
  subst hn
  simp only [exArgs, List.mem_cons, List.not_mem_nil, or_false] at ha
  rcases ha with ha | ha | ha | ha
  · cases ha
  · cases ha
  · cases ha
  · cases ha
    simp [exVars, Vars.get, SpreadPlain]

/-- … the line is written `echo "a \"b${x}\${y}" \${p}-\${q} "" %{rest}` … -/
theorem exLine : capLine "echo".toList exArgs =
    "echo \"a \\\"b${x}\\${y}\" \\${p}-\\${q} \"\" %{rest}".toList := by decide

/-- … the parser delivers the four written templates (quotes gone, `\"` decoded, `\${` kept) … -/
example : parseLine "echo \"a \\\"b${x}\\${y}\" \\${p}-\\${q} \"\" %{rest}".toList =
    .ok (.script { label := none, output := none, command := some "echo".toList,
                   args := some ["a \"b${x}\\${y}".toList, "\\${p}-\\${q}".toList, [],
                                 "%{rest}".toList] }) := by
  rw [← exLine, C02_text_parse _ _ exCmd_ok exArgs_ok]
  rfl

/-- … and `echo` receives six arguments: the value of `x` verbatim (its spaces, quotes and
    `${z}` untouched) between the literal parts, `${p}-${q}`, the empty argument, and the three
    words of `rest` -/
example : ∃ si, parseLine "echo \"a \\\"b${x}\\${y}\" \\${p}-\\${q} \"\" %{rest}".toList =
      .ok (.script si) ∧ si.command = some "echo".toList ∧ si.label = none ∧ si.output = none ∧
      bind exVars si.args =
        ["a \"bv w \"q\" ${z}${y}".toList, "${p}-${q}".toList, [], "r1".toList, "r2".toList,
         "${z}".toList] := by
  obtain ⟨si, h1, h2, h3, h4, h5⟩ := C02_text_end_to_end exVars _ _ exCmd_ok exArgs_ok exSpread_ok
  rw [exLine] at h1
  refine ⟨si, h1, h2, h3, h4, ?_⟩
  rw [h5]
  decide

/-- a first argument that starts with `=` is written between quotes, a later one is not -/
example : capLine "set".toList [.tmpl [.lit "=".toList] false, .tmpl [.lit "=".toList] false] =
    "set \"=\" =".toList := by decide

/-- no argument at all -/
example : parseLine (capLine "pwd".toList []) =
    .ok (.script { label := none, output := none, command := some "pwd".toList, args := none }) := by
  have h : CmdTextOK "pwd".toList := by
    refine ⟨by decide, ?_, by decide, by decide⟩
    intro c hc
    simp at hc
    rcases hc with rfl | rfl | rfl <;> decide
  exact C02_text_parse _ [] h (by simp)

end Duck
