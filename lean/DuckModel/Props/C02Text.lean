/-
  C02, from script TEXT to received arguments: a command line written the documented way
  (`Spec/TemplateText.lean`: `${name}`, `\${name}`, `%{name}`, quotes where needed or wanted,
  `\" \n \r \t` for quote and control characters of literal text) is parsed into exactly the
  written templates C02's binding theorems start from, hence the command receives exactly the
  template values — whatever the variables contain.

  Only theorem statements and non-vacuity examples; helper lemmas in Lemmas/TemplateTextLemmas.lean.
-/
import DuckModel.Parser
import DuckModel.Expansion
import DuckModel.Spec.TemplateText
import DuckModel.Lemmas.TemplateTextLemmas

namespace Duck
open Duck.Spec

/-- the parser delivers the arguments exactly as `Spec.renderTemplate` / `Spec.renderSpread`
    write them (quotes removed, `\"` `\n` `\r` `\t` decoded, `\${` kept as `\${`) -/
theorem C02_text_parse (cmd : Str) (args : List WArg) (hc : CmdTextOK cmd)
    (h : ∀ a ∈ args, a.OK) :
    parseLine (capLine cmd args) =
      .ok (.script { label := none, output := none, command := some cmd,
                     args := if args.isEmpty then none else some (args.map WArg.written) }) := by
  sorry

/-- end to end: the command receives, for every template argument, exactly its value under the
    variables (values inserted verbatim, never re-scanned), and for every `%{name}` the words of
    the value — for all variable environments (spread values free of `"` and `#`, as in
    `C02_spread_bind`) -/
theorem C02_text_end_to_end (vars : Vars) (cmd : Str) (args : List WArg) (hc : CmdTextOK cmd)
    (h : ∀ a ∈ args, a.OK)
    (hs : ∀ a ∈ args, ∀ n, a = .spread n → SpreadPlain ((vars.get n).getD [])) :
    ∃ si, parseLine (capLine cmd args) = .ok (.script si) ∧ si.command = some cmd ∧
      si.label = none ∧ si.output = none ∧
      bind vars si.args = args.flatMap (WArg.expected vars) := by
  sorry

end Duck
