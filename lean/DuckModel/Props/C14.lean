/-
  C14 — including files is equivalent to pasting them in place, with provenance kept.
  ONLY property theorems and their non-vacuity examples live here.

  Reading of the statement.  `Spec.inline w fuel root` (Spec/Inline.lean) is the textual
  inlining: every include directive line is REPLACED by the lines of the files it lists, in
  order, recursively; each line carries its provenance (file, 1-based line in that file).
  The real parse keeps the directive line as a `PreProcess` instruction that does nothing at
  run time (it shifts absolute instruction indexes, but is never a label or a block target), so
  the equivalence is stated modulo these instructions (`stripDirectives`).
  All theorems hold for an ARBITRARY abstract file system `fs` (`read`, `resolve`) and any
  include-depth fuel; the concrete path model (`treeFs`) is only used for the path rule and
  the examples.  The fuel stands for the finite depth of an acyclic tree: an include cycle
  overflows the stack in the real code (finding counted under C07) and ends in
  `depthExceeded` in the model.
-/
import DuckModel.Parser
import DuckModel.Includes
import DuckModel.Spec.Inline
import DuckModel.Lemmas.IncludeLemmas
import DuckModel.Props.C14Run
import DuckModel.Props.C14Sdk

namespace Duck
open Duck.Spec

/-- a line that is accepted when parsed on its own (well-formed, and a known directive if it
    is a directive) -/
def LineWellFormed (l : Str) : Prop := ∃ ty, lineOutcome l = .ok ty

/-- Master equation (total: any file system, fuel, root; success and every failure):
    the parse of the root file, directive instructions removed, is the line-by-line parse of the
    inlined lines — same instructions, same order, same (file, line) — and it fails exactly when
    the inlined text does: at the first malformed line (with that line's provenance) or at the
    first file that cannot be read. -/
theorem C14_parse_eq_inlined (fs : Fs) (fuel : Nat) (root : Str) :
    mapOk stripDirectives (parseFileF fs fuel root) =
      parseInlined (Spec.inline (worldOf fs) fuel root) :=
  parseFileF_eq_inline fs fuel root

/-- When the inlining succeeds within the fuel and every inlined line is well-formed, the parse
    succeeds and its non-directive instructions are exactly, in order, the instructions of the
    inlined lines, each carrying the file and line it was written on. -/
theorem C14_inline_equiv (fs : Fs) (fuel : Nat) (root : Str) (ls : List (Meta × Str))
    (hin : Spec.inline (worldOf fs) fuel root = (ls, none))
    (hok : ∀ p ∈ ls, LineWellFormed p.2) :
    ∃ is, parseFileF fs fuel root = .ok is ∧ stripDirectives is = ls.map instrOf := by
  have h := C14_parse_eq_inlined fs fuel root
  rw [hin] at h
  obtain ⟨is', his', _, _⟩ := parseEach_all_ok ls hok
  simp only [parseInlined, his'] at h
  cases hp : parseFileF fs fuel root with
  | error e => simp [hp, mapOk] at h
  | ok is =>
    simp only [hp, mapOk, Except.ok.injEq] at h
    refine ⟨is, rfl, ?_⟩
    rw [h]
    exact parseEach_map ls is' his'

/-- Every instruction of a successful parse names a file that was read and a line number
    within that file, and it is the parse of exactly that line. -/
theorem C14_provenance (fs : Fs) (fuel : Nat) (root : Str) (is : List Instruction)
    (h : parseFileF fs fuel root = .ok is) :
    ∀ i ∈ is, ∃ f text k l, i.mi = { line := some k, source := some f } ∧
      fs.read f = some text ∧ 1 ≤ k ∧ k ≤ (lines text).length ∧
      (lines text)[k - 1]? = some l ∧ parseLine l = .ok i.ty :=
  parseFileF_provenance fs fuel root is h

/-- The inlined lines themselves carry true provenance: the pair (m, l) is line `k` of the
    readable file `f` named by `m`. -/
theorem C14_inlined_lines_provenance (fs : Fs) (fuel : Nat) (root : Str) :
    ∀ p ∈ (Spec.inline (worldOf fs) fuel root).1, ∃ f text k,
      p.1 = { line := some k, source := some f } ∧ fs.read f = some text ∧ 1 ≤ k ∧
      (lines text)[k - 1]? = some p.2 :=
  inline_provenance (worldOf fs) fuel root

/-- A directive naming an unreadable file fails the whole parse with `ErrorReadingFile` of the
    resolved path (`Spec.inline` stops with `.missing p` exactly when `p = resolve includer arg`
    — or the root itself — cannot be read), whatever follows it, provided the lines pasted before
    it are well-formed. -/
theorem C14_missing_file (fs : Fs) (fuel : Nat) (root : Str) (ls : List (Meta × Str)) (p : Str)
    (hin : Spec.inline (worldOf fs) fuel root = (ls, some (.missing p)))
    (hok : ∀ q ∈ ls, LineWellFormed q.2) :
    parseFileF fs fuel root = .error ⟨.errorReadingFile p, {}⟩ := by
  have h := C14_parse_eq_inlined fs fuel root
  rw [hin] at h
  obtain ⟨is', his', _, _⟩ := parseEach_all_ok ls hok
  simp only [parseInlined, his', stopFail] at h
  exact mapOk_error _ _ h

/-- the same, directly on the including file: the lines before the directive are accepted
    lines that include nothing, the files listed before the unreadable one parse, and the
    path handed to `read` is `resolve (some includer) arg` -/
theorem C14_missing_file_direct (fs : Fs) (fuel : Nat) (f text : Str) (pre post : List Str)
    (d : Str) (as bs : List Str) (a : Str)
    (hread : fs.read f = some text) (hl : lines text = pre ++ d :: post)
    (hpre : ∀ l ∈ pre, ∃ ty, parseLine l = .ok ty ∧ ∀ c x, ty = .preProcess c x → c = some printName)
    (hd : includeDirective d = some (as ++ a :: bs))
    (has : ∀ x ∈ as, ∃ is, parseFileF fs (fuel + 1) (fs.resolve (some f) x) = .ok is)
    (hmiss : fs.read (fs.resolve (some f) a) = none) :
    parseFileF fs (fuel + 2) f =
      .error ⟨.errorReadingFile (fs.resolve (some f) a), {}⟩ := by
  rw [parseFileF, hread]
  simp only [hl]
  refine parseLinesWith_error_after_good _ fs (some f) pre (d :: post) _ (1 + pre.length) 1 hpre rfl ?_
  rw [parseLinesWith_cons_seq]
  have hstep : lineStep (parseFileF fs (fuel + 1)) fs (some f) (1 + pre.length) d =
      .error ⟨.errorReadingFile (fs.resolve (some f) a), {}⟩ := by
    obtain ⟨args, hpl, hargs⟩ := includeDirective_some d _ hd
    unfold lineStep
    simp only [hpl, runPre]
    have hne : includeName ≠ printName := fun h => printName_ne_includeName h.symm
    simp only [hne, if_false, if_true, hargs]
    have herr : parseFileF fs (fuel + 1) (fs.resolve (some f) a) =
        .error ⟨.errorReadingFile (fs.resolve (some f) a), {}⟩ := by rw [parseFileF, hmiss]
    rw [includeFiles_append_error (parseFileF fs (fuel + 1)) fs (some f) as bs a _ has herr]
  rw [hstep]
  rfl

/-- A malformed line of an included file fails the whole parse with that line's error kind and
    the meta info (line k, file f) of the place it was written — wherever the file was included
    from, however deep, and whatever comes after it (even unreadable files). -/
theorem C14_error_in_included_file (fs : Fs) (fuel : Nat) (root : Str)
    (pre post : List (Meta × Str)) (m : Meta) (bad : Str) (stop : Option Stop) (k : PErr)
    (hin : Spec.inline (worldOf fs) fuel root = (pre ++ (m, bad) :: post, stop))
    (hpre : ∀ p ∈ pre, LineWellFormed p.2) (hbad : lineOutcome bad = .error k) :
    parseFileF fs fuel root = .error ⟨k, m⟩ ∧
      ∃ f text n, m = { line := some n, source := some f } ∧ fs.read f = some text ∧ 1 ≤ n ∧
        (lines text)[n - 1]? = some bad := by
  constructor
  · have h := C14_parse_eq_inlined fs fuel root
    rw [hin] at h
    simp only [parseInlined, parseEach_first_error pre post m bad k hpre hbad] at h
    exact mapOk_error _ _ h
  · have := C14_inlined_lines_provenance fs fuel root (m, bad) (by rw [hin]; simp)
    exact this

/-- The file handed to `parse_file` (hence to `read`) for an argument `a` of a directive written
    in file `f` is `fs.resolve (some f) a` — `f` being the file that contains the directive, not
    the root of the parse: the directive line contributes its own instruction, then the
    instructions of `resolve (some f) a`, then those of the remaining arguments. -/
theorem C14_relative_to_includer (inc : Str → Except ParseFail (List Instruction)) (fs : Fs)
    (f : Str) (n : Nat) (d : Str) (ls : List Str) (a : Str) (rest : List Str)
    (hd : parseLine d = .ok (.preProcess (some includeName) (some (a :: rest)))) :
    parseLinesWith inc fs (some f) n (d :: ls) =
      seqE (seqE (seqE (.ok [⟨{ line := some n, source := some f },
                              .preProcess (some includeName) (some (a :: rest))⟩])
                       (inc (fs.resolve (some f) a)))
                 (includeFiles inc fs (some f) rest))
           (parseLinesWith inc fs (some f) (n + 1) ls) := by
  rw [parseLinesWith_cons_seq]
  congr 1
  unfold lineStep
  have hne : includeName ≠ printName := fun h => printName_ne_includeName h.symm
  simp only [hd, runPre, hne, if_false, if_true, Option.getD_some]
  rw [includeFiles_cons_seq]
  cases inc (fs.resolve (some f) a) <;> cases includeFiles inc fs (some f) rest <;> simp [seqE]

/-- the path rule of the concrete model: an argument that does not start with `/` or `\` is
    joined to the parent directory of the INCLUDING file and canonicalised when that succeeds;
    an argument that does is taken as it is -/
theorem C14_path_rule (t : Tree) (s par a : Str) (hs : parentOf s = some par) :
    (treeFs t).resolve (some s) a =
      if a.head? = some '/' ∨ a.head? = some '\\' then a
      else (canonicalize t (joinPath par a)).getD (joinPath par a) := by
  simp only [treeFs, resolveT, hs]
  split
  · rfl
  · cases canonicalize t (joinPath par a) <;> rfl


/-! ### the hypotheses are satisfiable (non-vacuity): a 3-file tree with a nested directory,
    `c.ds` included twice (directly, and from `sub/b.ds` through `../c.ds`) -/

def C14_pMain : Str := "/R/main.ds".toList
def C14_pB : Str := "/R/sub/b.ds".toList
def C14_pC : Str := "/R/c.ds".toList
def C14_lA : Str := "a 1".toList
def C14_lZ : Str := "z 9".toList
def C14_lB1 : Str := "b 1".toList
def C14_lB3 : Str := "b 3".toList
def C14_lC1 : Str := "c 1".toList
def C14_dMain : Str := "!include_files sub/b.ds c.ds".toList
def C14_dB : Str := "!include_files ../c.ds".toList
def C14_argB : Str := "sub/b.ds".toList
def C14_argC : Str := "c.ds".toList
def C14_argUp : Str := "../c.ds".toList
def C14_main : Str := "a 1\n!include_files sub/b.ds c.ds\nz 9\n".toList
def C14_b : Str := "b 1\r\n!include_files ../c.ds\r\nb 3".toList
def C14_c : Str := "c 1\n".toList
def C14_tree : Tree := [(C14_pMain, C14_main), (C14_pB, C14_b), (C14_pC, C14_c)]
def C14_cmd (c a : String) : ScriptInstr := { command := some c.toList, args := some [a.toList] }

/-- the path rule on the tree: relative to the includer's directory, `..` resolved,
    a name that does not exist is left as joined, the OS resolves `..` when reading -/
example : (treeFs C14_tree).resolve (some C14_pMain) C14_argB = C14_pB := by decide
example : (treeFs C14_tree).resolve (some C14_pB) C14_argUp = C14_pC := by decide
example : (treeFs C14_tree).resolve (some C14_pB) C14_argC = "/R/sub/c.ds".toList := by decide
example : (treeFs C14_tree).resolve (some C14_pB) "/R/c.ds".toList = C14_pC := by decide
example : (treeFs C14_tree).read "/R/sub/../c.ds".toList = some C14_c := by decide
example : (treeFs C14_tree).read "/R/sub".toList = none := by decide
example : parentOf "/R/./sub//b.ds".toList = some "/R/./sub".toList := by decide
example : parentOf "/b.ds".toList = some "/".toList ∧ parentOf "/".toList = none := by decide

theorem C14_example_plain (c a : String) (h : instrOKb (C14_cmd c a) = true) :
    includeDirective (renderLine {} (C14_cmd c a)) = none ∧
      LineWellFormed (renderLine {} (C14_cmd c a)) := by
  have := plain_line_facts {} (C14_cmd c a) (instrOK_of_b _ h) (choicesOK_of_b _ (by decide))
  exact ⟨this.1, _, this.2⟩

/-- the inlining of the example tree: 6 lines, `c 1` twice, each with its own file and line -/
theorem C14_example_inline :
    Spec.inline (worldOf (treeFs C14_tree)) 3 C14_pMain =
      ([({ line := some 1, source := some C14_pMain }, C14_lA),
        ({ line := some 1, source := some C14_pB }, C14_lB1),
        ({ line := some 1, source := some C14_pC }, C14_lC1),
        ({ line := some 3, source := some C14_pB }, C14_lB3),
        ({ line := some 1, source := some C14_pC }, C14_lC1),
        ({ line := some 3, source := some C14_pMain }, C14_lZ)], none) := by
  have eA : renderLine {} (C14_cmd "a" "1") = C14_lA := by decide
  have eZ : renderLine {} (C14_cmd "z" "9") = C14_lZ := by decide
  have eB1 : renderLine {} (C14_cmd "b" "1") = C14_lB1 := by decide
  have eB3 : renderLine {} (C14_cmd "b" "3") = C14_lB3 := by decide
  have eC1 : renderLine {} (C14_cmd "c" "1") = C14_lC1 := by decide
  have lA : includeDirective C14_lA = none := eA ▸ (C14_example_plain "a" "1" (by decide)).1
  have lZ : includeDirective C14_lZ = none := eZ ▸ (C14_example_plain "z" "9" (by decide)).1
  have lB1 : includeDirective C14_lB1 = none := eB1 ▸ (C14_example_plain "b" "1" (by decide)).1
  have lB3 : includeDirective C14_lB3 = none := eB3 ▸ (C14_example_plain "b" "3" (by decide)).1
  have lC1 : includeDirective C14_lC1 = none := eC1 ▸ (C14_example_plain "c" "1" (by decide)).1
  have eD1 : renderDirective [] [C14_argB, C14_argC] = C14_dMain := by decide
  have eD2 : renderDirective [] [C14_argUp] = C14_dB := by decide
  have d1 : includeDirective C14_dMain = some [C14_argB, C14_argC] := eD1 ▸ directive_facts [] _ _
  have d2 : includeDirective C14_dB = some [C14_argUp] := eD2 ▸ directive_facts [] _ _
  have r1 : readT C14_tree C14_pMain = some C14_main := by decide
  have r2 : readT C14_tree C14_pB = some C14_b := by decide
  have r3 : readT C14_tree C14_pC = some C14_c := by decide
  have h1 : lines C14_main = [C14_lA, C14_dMain, C14_lZ] := by decide
  have h2 : lines C14_b = [C14_lB1, C14_dB, C14_lB3] := by decide
  have h3 : lines C14_c = [C14_lC1] := by decide
  have p1 : resolveT C14_tree (some C14_pMain) C14_argB = C14_pB := by decide
  have p2 : resolveT C14_tree (some C14_pMain) C14_argC = C14_pC := by decide
  have p3 : resolveT C14_tree (some C14_pB) C14_argUp = C14_pC := by decide
  simp [Spec.inline, worldOf, treeFs, inlineLines, inlineArgs, Inlined.seq, r1, r2, r3, h1, h2, h3,
    lA, lZ, lB1, lB3, lC1, d1, d2, p1, p2, p3]

/-- hypotheses of `C14_inline_equiv` hold for the example, so its conclusion is about a real
    parse: 8 instructions, of which 2 are directives -/
example : ∃ is, parseFileF (treeFs C14_tree) 3 C14_pMain = .ok is ∧
    (stripDirectives is).length = 6 := by
  have hwf : ∀ p ∈ [C14_lA, C14_lB1, C14_lC1, C14_lB3, C14_lZ], LineWellFormed p := by
    have eA : renderLine {} (C14_cmd "a" "1") = C14_lA := by decide
    have eZ : renderLine {} (C14_cmd "z" "9") = C14_lZ := by decide
    have eB1 : renderLine {} (C14_cmd "b" "1") = C14_lB1 := by decide
    have eB3 : renderLine {} (C14_cmd "b" "3") = C14_lB3 := by decide
    have eC1 : renderLine {} (C14_cmd "c" "1") = C14_lC1 := by decide
    intro p hp
    simp only [List.mem_cons, List.not_mem_nil, or_false] at hp
    rcases hp with rfl | rfl | rfl | rfl | rfl
    · exact eA ▸ (C14_example_plain "a" "1" (by decide)).2
    · exact eB1 ▸ (C14_example_plain "b" "1" (by decide)).2
    · exact eC1 ▸ (C14_example_plain "c" "1" (by decide)).2
    · exact eB3 ▸ (C14_example_plain "b" "3" (by decide)).2
    · exact eZ ▸ (C14_example_plain "z" "9" (by decide)).2
  obtain ⟨is, h1, h2⟩ := C14_inline_equiv (treeFs C14_tree) 3 C14_pMain _ C14_example_inline
    (by
      intro p hp
      simp only [List.mem_cons, List.not_mem_nil, or_false] at hp
      rcases hp with rfl | rfl | rfl | rfl | rfl | rfl <;> exact hwf _ (by simp))
  exact ⟨is, h1, by rw [h2]; rfl⟩

/-- a malformed line for `C14_error_in_included_file`, an unknown directive, and a tree in
    which a listed file is missing (`Spec.inline` stops with the resolved path) -/
example : lineOutcome ":\"".toList = .error .invalidQuotesLocation := by
  unfold lineOutcome
  rw [show ":\"".toList = ':' :: '"' :: [] from by decide, quote_starts_label []]

example : (Spec.inline (worldOf (treeFs [(C14_pMain, C14_main)])) 3 C14_pMain).2 =
    some (.missing C14_pB) := by
  have eA : renderLine {} (C14_cmd "a" "1") = C14_lA := by decide
  have lA : includeDirective C14_lA = none := eA ▸ (C14_example_plain "a" "1" (by decide)).1
  have eD1 : renderDirective [] [C14_argB, C14_argC] = C14_dMain := by decide
  have d1 : includeDirective C14_dMain = some [C14_argB, C14_argC] := eD1 ▸ directive_facts [] _ _
  have r1 : readT [(C14_pMain, C14_main)] C14_pMain = some C14_main := by decide
  have r2 : readT [(C14_pMain, C14_main)] C14_pB = none := by decide
  have h1 : lines C14_main = [C14_lA, C14_dMain, C14_lZ] := by decide
  have p1 : resolveT [(C14_pMain, C14_main)] (some C14_pMain) C14_argB = C14_pB := by
    decide
  simp [Spec.inline, worldOf, treeFs, inlineLines, inlineArgs, Inlined.seq, r1, r2, h1, lA, d1, p1]

end Duck
