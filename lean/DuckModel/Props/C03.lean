/-
  C03 — the runner executes exactly what the command results dictate.
  The model runner (`runLoop`, a transcription of `run_instructions`) and the abstract
  machine of the property statement (`Spec.Step`, `Spec.Reaches`) compute the same runs.
-/
import DuckModel.Runner
import DuckModel.Spec.Machine
import DuckModel.Lemmas.RunnerLemmas

namespace Duck
open Duck.Spec

/-- the label table built before execution maps a label to the last line carrying it -/
theorem C03_label_table (is : List Instruction) (l : Str) (k : Nat) :
    lookupLabel (labelTable is) l = some k ↔ IsLabelLine is l k := by
  sorry

theorem C03_label_table_none (is : List Instruction) (l : Str) :
    lookupLabel (labelTable is) l = none ↔ NoLabelLine is l := by
  sorry

/-- every terminating run of the model runner (never halted) is a run of the abstract machine -/
theorem C03_sound {σ : Type} (sem : CmdSem σ) (is : List Instruction) (fuel : Nat)
    (rs rs' : RunState σ) (e : RunEnd) (f : Final σ)
    (h : runLoop sem is (labelTable is) noHalt fuel rs = (rs', e)) (hf : finalOf rs' e = some f) :
    Reaches sem is ⟨rs.line, rs.vars, rs.st⟩ f := by
  sorry

/-- every run of the abstract machine is computed by the model runner given enough fuel -/
theorem C03_complete {σ : Type} (sem : CmdSem σ) (is : List Instruction) (c : Cfg σ) (f : Final σ)
    (h : Reaches sem is c f) (polls : Nat) :
    ∃ fuel rs' e, runLoop sem is (labelTable is) noHalt fuel ⟨c.pc, polls, c.vars, c.st⟩ = (rs', e) ∧
      finalOf rs' e = some f := by
  sorry

/-- the abstract machine is deterministic: a program has at most one outcome -/
theorem C03_deterministic {σ : Type} (sem : CmdSem σ) (is : List Instruction) (c : Cfg σ)
    (f₁ f₂ : Final σ) (h₁ : Reaches sem is c f₁) (h₂ : Reaches sem is c f₂) :
    (match f₁, f₂ with
     | .ok v₁ _, .ok v₂ _ => v₁ = v₂
     | .fail m₁ i₁ _, .fail m₂ i₂ _ => m₁ = m₂ ∧ i₁ = i₂
     | _, _ => False) := by
  sorry

/-- more fuel never changes a finished run (the history of a run is monotone) -/
theorem C03_fuel_monotone {σ : Type} (sem : CmdSem σ) (is : List Instruction)
    (labels : List (Str × Nat)) (halt : Nat → σ → Bool) (fuel extra : Nat)
    (rs rs' : RunState σ) (e : RunEnd)
    (h : runLoop sem is labels halt fuel rs = (rs', e)) (he : e ≠ .outOfFuel) :
    runLoop sem is labels halt (fuel + extra) rs = (rs', e) := by
  sorry

end Duck
