/-
  C03 — the runner executes exactly what the command results dictate.
  The model runner (`runLoop`, a transcription of `run_instructions`) and the abstract
  machine of the property statement (`Spec.Step`, `Spec.Reaches`) compute the same runs.
  Props/C03Translated.lean : one iteration of the loop of `run_instructions`, `run_instruction`,
                          `run_on_error_instruction` and `update_output` as TRANSLATED from the current
                          source (Generated/RunnerStep.lean) equal the hand-written `runStep`,
                          `runInstruction`, `runOnError`, `Vars.updateOutput`; `C03_sound` /
                          `C03_complete` restated about the loop over the translated step.
-/
import DuckModel.Runner
import DuckModel.Spec.Machine
import DuckModel.Lemmas.RunnerLemmas
import DuckModel.Props.C03Sdk
import DuckModel.Props.C03Translated

namespace Duck
open Duck.Spec

/-- the label table built before execution maps a label to the last line carrying it -/
theorem C03_label_table (is : List Instruction) (l : Str) (k : Nat) :
    lookupLabel (labelTable is) l = some k ↔ IsLabelLine is l k := by
  exact lookup_labelTable_some is l k

theorem C03_label_table_none (is : List Instruction) (l : Str) :
    lookupLabel (labelTable is) l = none ↔ NoLabelLine is l := by
  exact lookup_labelTable_none is l

/-- every terminating run of the model runner (never halted) is a run of the abstract machine -/
theorem C03_sound {σ : Type} (sem : CmdSem σ) (is : List Instruction) (fuel : Nat)
    (rs rs' : RunState σ) (e : RunEnd) (f : Final σ)
    (h : runLoop sem is (labelTable is) noHalt fuel rs = (rs', e)) (hf : finalOf rs' e = some f) :
    Reaches sem is ⟨rs.line, rs.vars, rs.st⟩ f := by
  exact runLoop_sound sem is fuel rs rs' e f h hf

/-- every run of the abstract machine is computed by the model runner given enough fuel -/
theorem C03_complete {σ : Type} (sem : CmdSem σ) (is : List Instruction) (c : Cfg σ) (f : Final σ)
    (h : Reaches sem is c f) (polls : Nat) :
    ∃ fuel rs' e, runLoop sem is (labelTable is) noHalt fuel ⟨c.pc, polls, c.vars, c.st⟩ = (rs', e) ∧
      finalOf rs' e = some f := by
  exact runLoop_complete sem is c f h ⟨c.pc, polls, c.vars, c.st⟩ rfl

/-- the abstract machine is deterministic: a program has at most one outcome -/
theorem C03_deterministic {σ : Type} (sem : CmdSem σ) (is : List Instruction) (c : Cfg σ)
    (f₁ f₂ : Final σ) (h₁ : Reaches sem is c f₁) (h₂ : Reaches sem is c f₂) :
    (match f₁, f₂ with
     | .ok v₁ _, .ok v₂ _ => v₁ = v₂
     | .fail m₁ i₁ _, .fail m₂ i₂ _ => m₁ = m₂ ∧ i₁ = i₂
     | _, _ => False) := by
  have hff := reaches_functional sem is c f₁ f₂ h₁ h₂
  subst hff
  cases f₁ with
  | ok v s => rfl
  | fail m i s => exact ⟨rfl, rfl⟩

/-- more fuel never changes a finished run (the history of a run is monotone) -/
theorem C03_fuel_monotone {σ : Type} (sem : CmdSem σ) (is : List Instruction)
    (labels : List (Str × Nat)) (halt : Nat → σ → Bool) (fuel extra : Nat)
    (rs rs' : RunState σ) (e : RunEnd)
    (h : runLoop sem is labels halt fuel rs = (rs', e)) (he : e ≠ .outOfFuel) :
    runLoop sem is labels halt (fuel + extra) rs = (rs', e) := by
  exact runLoop_fuel_mono sem is labels halt fuel extra rs rs' e h he

/-! ### non-vacuity: a concrete program with a duplicated label -/

namespace C03Example

/-- `:a jump` / `:a x = boom` / `:b quit` — label `a` is carried by lines 0 and 1 -/
def prog : List Instruction :=
  [ ⟨{}, .script { label := some "a".toList, command := some "jump".toList }⟩,
    ⟨{}, .script { label := some "a".toList, output := some "x".toList,
                   command := some "boom".toList }⟩,
    ⟨{}, .script { label := some "b".toList, command := some "quit".toList }⟩ ]

/-- `jump` goes to label `b`, `boom` raises an error, `quit` exits; no `on_error` command -/
def sem : CmdSem Unit := fun name _ _ _ vars s =>
  if name = "jump".toList then some (.goTo none (.label "b".toList), vars, s)
  else if name = "boom".toList then some (.error "bang".toList, vars, s)
  else if name = "quit".toList then some (.exit none, vars, s)
  else none

/-- the duplicated label resolves to its last line -/
example : IsLabelLine prog "a".toList 1 := (C03_label_table prog _ 1).1 (by decide)

example : ¬ IsLabelLine prog "a".toList 0 := fun h => by
  have := (C03_label_table prog _ 0).2 h
  revert this; decide

example : NoLabelLine prog "c".toList := (C03_label_table_none prog _).1 (by decide)

/-- from line 0 the abstract machine jumps to `b` and exits successfully -/
example : Reaches sem prog ⟨0, [], ()⟩ (.ok [] ()) :=
  C03_sound sem prog 5 ⟨0, 0, [], ()⟩ ⟨2, 2, [], ()⟩ .exitCalled _ (by rfl) rfl

/-- from line 1 the error is not handled: `x` becomes "false", then the script exits -/
example : Reaches sem prog ⟨1, [], ()⟩ (.ok [("x".toList, "false".toList)] ()) :=
  C03_sound sem prog 5 ⟨1, 0, [], ()⟩ ⟨2, 2, [("x".toList, "false".toList)], ()⟩ .exitCalled _
    (by rfl) rfl

/-- a failing run: `jump` to a label nobody carries -/
example : Reaches (fun _ _ _ _ vars s => some (.goTo none (.label "zz".toList), vars, s)) prog
    ⟨0, [], ()⟩ (.fail ("Label: ".toList ++ "zz".toList ++ " not found.".toList) {} ()) :=
  C03_sound _ prog 1 ⟨0, 0, [], ()⟩ ⟨0, 1, [], ()⟩ (.fail _ {}) _ (by rfl) rfl

end C03Example

end Duck
