/-
  Model of `Commands` (duckscript/src/types/command.rs): a name table plus an alias table.
  Mutating methods return the new registry together with the Rust return value, so that a
  partially applied update would be visible.
-/
import DuckModel.Types

namespace Duck

/-- association list used for both tables (keys unique: `put` erases first) -/
abbrev KV (α : Type) := List (Str × α)

namespace KV
variable {α : Type}

def get (m : KV α) (k : Str) : Option α :=
  match m with
  | [] => none
  | (k', v) :: rest => if k' = k then some v else get rest k

def erase (m : KV α) (k : Str) : KV α := m.filter (fun p => p.1 ≠ k)

def put (m : KV α) (k : Str) (v : α) : KV α := (k, v) :: erase m k

def containsKey (m : KV α) (k : Str) : Bool := (get m k).isSome

end KV

/-- what the registry knows about a command: its name, its aliases, and an identity tag
    (stands for the boxed implementation) -/
structure CmdSpec where
  name : Str
  aliases : List Str
  tag : Nat
deriving DecidableEq, Repr

structure Reg where
  commands : KV CmdSpec := []
  aliases : KV Str := []
deriving Repr

namespace Reg

/-- `Commands::set` -/
def set (r : Reg) (c : CmdSpec) : Reg × Bool :=
  if r.commands.containsKey c.name then (r, false)
  else if c.aliases.any (fun a => r.aliases.containsKey a) then (r, false)
  else
    ({ commands := r.commands.put c.name c,
       aliases := c.aliases.foldl (fun m a => m.put a c.name) (r.aliases.erase c.name) }, true)

/-- alias indirection shared by `get`, `get_for_use`, `remove` -/
def resolve (r : Reg) (name : Str) : Str := (r.aliases.get name).getD name

/-- `Commands::get` / `get_for_use` -/
def get (r : Reg) (name : Str) : Option CmdSpec := r.commands.get (r.resolve name)

/-- `Commands::exists` -/
def «exists» (r : Reg) (name : Str) : Bool := (r.get name).isSome

/-- `Commands::remove` -/
def remove (r : Reg) (name : Str) : Reg × Bool :=
  let n := r.resolve name
  match r.commands.get n with
  | none => (r, false)
  | some c =>
    ({ commands := r.commands.erase n,
       aliases := c.aliases.foldl
         (fun m a => if m.get a = some c.name then m.erase a else m) r.aliases }, true)

/-- insertion sort on strings by code points (= Rust `String` ordering, byte-wise UTF-8
    order coincides with code-point order) -/
def strLt : Str → Str → Bool
  | [], [] => false
  | [], _ :: _ => true
  | _ :: _, [] => false
  | a :: as, b :: bs => if a.toNat < b.toNat then true else if b.toNat < a.toNat then false else strLt as bs

def insertSorted (x : Str) : List Str → List Str
  | [] => [x]
  | y :: ys => if strLt y x then y :: insertSorted x ys else x :: y :: ys

def sortStrs (l : List Str) : List Str := l.foldr insertSorted []

/-- `Commands::get_all_command_names` -/
def names (r : Reg) : List Str := sortStrs (r.commands.map (·.1))

end Reg

inductive RegOp
  | set (c : CmdSpec)
  | get (name : Str)
  | «exists» (name : Str)
  | remove (name : Str)
  | names
deriving Repr

inductive RegOut
  | bool (b : Bool)
  | cmd (c : Option CmdSpec)
  | names (l : List Str)
deriving DecidableEq, Repr

def Reg.apply (r : Reg) : RegOp → Reg × RegOut
  | .set c => let (r', ok) := r.set c; (r', .bool ok)
  | .get n => (r, .cmd (r.get n))
  | .exists n => (r, .bool (r.exists n))
  | .remove n => let (r', ok) := r.remove n; (r', .bool ok)
  | .names => (r, .names r.names)

def Reg.run (r : Reg) : List RegOp → Reg × List RegOut
  | [] => (r, [])
  | op :: ops =>
    let (r', o) := r.apply op
    let (r'', os) := Reg.run r' ops
    (r'', o :: os)

end Duck
