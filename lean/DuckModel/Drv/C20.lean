/-
  Driver handler for C20.
  * `cli <args list> [<file content | ->]` → the action `run_cli` selects for
    `env::args() = "duck" :: args`:  `repl` | `version` | `help` | `eval:<text>` |
    `lint:<file>` | `run:<file>`   (the optional third token is for the harness only)
  * `lint <text>` → `ok` | `fail <line> <message>` | `parse-error`
    (lint of a file with that content and no includes)
-/
import DuckModel.Wire
import DuckModel.Cli

namespace Duck.Drv.C20
open Duck Duck.Wire Duck.Cli

def encAction : Action → String
  | .repl => "repl"
  | .version => "version"
  | .help => "help"
  | .evalText t => "eval:" ++ encStr t
  | .lint f => "lint:" ++ encStr f
  | .runFile f => "run:" ++ encStr f

def encLint : LintOutcome → String
  | .ok => "ok"
  | .fail mi m => "fail " ++ encOptNat mi.line ++ " " ++ encStr (lintMessage m)
  | .parseError _ => "parse-error"

def cli (args : String) : String :=
  match decList args with
  | some a => encAction (dispatch ("duck".toList :: a))
  | none => "BAD-REQUEST"

def handle (toks : List String) : Option String :=
  match toks with
  | ["lowertab"] =>
    -- the whole table of characters changed by `char::to_lowercase` (compared with the toolchain)
    some (",".intercalate (notLowerRanges.map fun r => toString r.1 ++ "-" ++ toString r.2))
  | ["lintinc", _, _] =>
    -- lint of a file that INCLUDES another one (the model's linter has no file system): the
    -- harness evaluates the property's relation on the real run (verdict and the reported
    -- source / line come from the library's parse_file)
    some "lintinc"
  | ["replfatal", _] =>
    -- REPL session with fatal errors: judged by the harness relation (failure status, nothing after the error)
    some "replfatal-ok"
  | ["clififo", _] =>
    -- the script file is a named pipe: judged by the harness relation (executable = library on
    -- the same pipe), the model's answer is the constant the relation prints when it holds
    some "fifo-ok"
  | ["repl", _] =>
    -- no arguments = the interactive loop (`C20_dispatch`); what the loop prints is compared by
    -- the harness with the library run of the same lines (the model does not run SDK commands)
    some "repl"
  | ["cli", args] => some (cli args)
  | ["cli", args, _] => some (cli args)
  | ["lint", text] =>
    match decStr text with
    | some t => some (encLint (lintText t))
    | none => some "BAD-REQUEST"
  | _ => none

end Duck.Drv.C20
