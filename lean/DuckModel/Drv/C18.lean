/-
  Driver handler for C18 (file commands on the reference file-tree model).

    fs <op>;<op>;…        run the history from the empty tree.  One op = `name:arg:arg`:
        wt:<hpath>:<htext>   writefile        at:<hpath>:<htext>  appendfile     rt:<hpath>  readfile
        wb:<hpath>:x<hex>    writebinfile     rb:<hpath>          readbinfile
        touch:<hpath>  mkdir:<hpath>  cp:<hsrc>:<hdst>  mv:<hsrc>:<hdst>
        rm:<hpath>  rmr:<hpath> (rm -r)  rmdir:<hpath>
        ex:<hpath> (is_path_exists)  isf:<hpath>  isd:<hpath>  size:<hpath>  ls:<hpath> (glob_array <path>/*)
      paths are strings relative to the case's root directory (`a/b c/é.txt`, `d/`, `a/./b`).
      answer: one token per step `<result>|<tree>`:
        result  ok | t | f | s<hex text> | x<hex bytes> | n<decimal> | l[<hname>,…] | err | skip
        tree    canonical listing after the step, pre-order with children sorted by name:
                `D<hex path>` / `F<hex path>:<hex content>` joined by `,`; `-` = empty;
                `=` = the same listing as after the previous step
      `reject` when a path does not parse (`..`, trailing `.`, no component).
    fspath base <hstr> | fspath dir <hstr> | fspath join [<hstr>,…]
      answer `<hstr>` or `-`
-/
import DuckModel.Wire
import DuckModel.Sdk.FsTree

namespace Duck.Drv.C18
open Duck Duck.Wire Duck.FsTree

def hexOfNats (l : List Nat) : String :=
  String.ofList (l.flatMap fun x => [hexDigit (x / 16), hexDigit (x % 16)])

def natsOfHex : List Char → Option (List Nat)
  | [] => some []
  | [_] => none
  | a :: b :: rest => do
    let x ← hexVal a
    let y ← hexVal b
    let r ← natsOfHex rest
    pure ((x * 16 + y) :: r)

def decBytes (t : String) : Option (List Nat) :=
  match t.toList with
  | 'x' :: hex => natsOfHex hex
  | _ => none

def hexOfStr (s : Str) : String := hexOfNats (utf8Encode s)

def decPath (t : String) : Option P := do
  let s ← decStr t
  parsePath s

def decOp (t : String) : Option Op :=
  match t.splitOn ":" with
  | ["wt", p, s] => do pure (.writeText (← decPath p) (← decStr s))
  | ["at", p, s] => do pure (.appendText (← decPath p) (← decStr s))
  | ["rt", p] => do pure (.readText (← decPath p))
  | ["wb", p, b] => do pure (.writeBytes (← decPath p) (← decBytes b))
  | ["rb", p] => do pure (.readBytes (← decPath p))
  | ["touch", p] => do pure (.touch (← decPath p))
  | ["mkdir", p] => do pure (.mkdir (← decPath p))
  | ["cp", s, d] => do pure (.cp (← decPath s) (← decPath d))
  | ["mv", s, d] => do pure (.mv (← decPath s) (← decPath d))
  | ["rm", p] => do pure (.rm false (← decPath p))
  | ["rmr", p] => do pure (.rm true (← decPath p))
  | ["rmdir", p] => do pure (.rmdir (← decPath p))
  | ["ex", p] => do pure (.pathExists (← decPath p))
  | ["isf", p] => do pure (.isFile (← decPath p))
  | ["isd", p] => do pure (.isDir (← decPath p))
  | ["size", p] => do pure (.fileSize (← decPath p))
  | ["ls", p] => do pure (.ls (← decPath p))
  | _ => none

def encRes : Res → String
  | .ok .unit => "ok"
  | .ok (.bool b) => if b then "t" else "f"
  | .ok (.text s) => "s" ++ hexOfStr s
  | .ok (.bytes b) => "x" ++ hexOfNats b
  | .ok (.num n) => "n" ++ toString n
  | .ok (.names l) => "l" ++ encList l
  | .err => "err"
  | .skip => "skip"

partial def showNode (pre : Str) (n : Node) : List String :=
  match n with
  | .file b => ["F" ++ hexOfStr pre ++ ":" ++ hexOfNats b]
  | .dir es =>
    (if pre.isEmpty then [] else ["D" ++ hexOfStr pre]) ++
      (sortEntries es.toList).flatMap fun (name, ch) =>
        showNode (if pre.isEmpty then name else pre ++ '/' :: name) ch

def showTree (t : Node) : String :=
  match showNode [] t with
  | [] => "-"
  | l => ",".intercalate l

def showTrace (prev : String) : List (Res × Node) → List String
  | [] => []
  | (r, t) :: rest =>
    let s := showTree t
    (encRes r ++ "|" ++ (if s = prev then "=" else s)) :: showTrace s rest

/-- an operation of a harness history: one model operation, or `rm [-r] p1 p2 …` (several paths
    in ONE command: the paths are removed in order, the first error ends the command with the
    error result and keeps what was removed before it) -/
inductive DOp
  | one (o : Op)
  | rmMany (recursive : Bool) (ps : List P)

def decDOp (t : String) : Option DOp :=
  match t.splitOn ":" with
  | "rmm" :: r :: ps => do
    let ps ← ps.mapM decPath
    if ps.isEmpty then none else pure (.rmMany (r == "1") ps)
  | _ => (decOp t).map .one

def rmManyGo (recursive : Bool) (t : Node) : List P → Node × Res
  | [] => (t, .ok .unit)
  | p :: rest =>
    match rm t recursive p with
    | (t', .ok _) => rmManyGo recursive t' rest
    | (t', r) => (t', r)

def stepD (t : Node) : DOp → Node × Res
  | .one o => step t o
  | .rmMany r ps => rmManyGo r t ps

def runD (t : Node) : List DOp → List (Res × Node)
  | [] => []
  | op :: rest => ((stepD t op).2, (stepD t op).1) :: runD (stepD t op).1 rest

def handle (toks : List String) : Option String :=
  match toks with
  | ["fs", ops] =>
    match (ops.splitOn ";").mapM decDOp with
    | none => some "reject"
    | some l => some (" ".intercalate (showTrace "-" (runD FsTree.empty l)))
  | ["fsrel", _] =>
    -- a script of file commands with RELATIVE names (run by a child process inside a private
    -- directory); the script asserts the property's expectations itself, the answer is `ok`
    some "ok"
  | ["fspath", "base", s] => (decStr s).map fun x => encOpt (basename x)
  | ["fspath", "dir", s] => (decStr s).map fun x => encOpt (dirname x)
  | ["fspath", "join", l] => (decList l).map fun x => encStr (joinPath x)
  | _ => none

end Duck.Drv.C18
