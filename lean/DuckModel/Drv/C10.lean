/-
  Driver handler for C10:

    err <text> <queue> <vars> <fuel> <src> <inc>

  runs the script `text` (parsed as text when `src` = `-`, as the file named `src` otherwise;
  `inc` = `-` or `hName=hText`, one file that `!include_files` can read) with the scripted
  commands `c0..c3` (results taken from `queue`), the logging no-op `probe`, and the
  error-reporting family composed on top (`withOnError`).  Answer:

    ok | VARS <vars> | REC <error>/<line>/<source>/<mode> | LOG <log>
    fail <message> <line>:<source> | LOG <log>
    fuel | PARSEERR …

    errb …   (programs over the whole SDK: judged by the harness relation only) → REL
-/
import DuckModel.Wire
import DuckModel.Parser
import DuckModel.Scripted
import DuckModel.Sdk.OnError

namespace Duck.Drv.C10
open Duck Duck.Wire

def cmdNames : List Str := ["c0".toList, "c1".toList, "c2".toList, "c3".toList]
def probeName : Str := "probe".toList

/-- scripted commands plus `probe` (logs its bound arguments, continues without a value and
    does not consume a result) -/
def baseSem : CmdSem ScriptedSt := fun name args out line vars s =>
  if name = probeName then
    some (.continue none, vars, { s with log := s.log ++ [{ name := name, args := args, line := line }] })
  else scriptedSem cmdNames name args out line vars s

def decInc (t : String) : Option (Option (Str × Str)) :=
  if t = "-" then some none else
    match t.splitOn "=" with
    | [n, x] => do pure (some ((← decStr n), (← decStr x)))
    | _ => none

def fsOf (inc : Option (Str × Str)) : Fs :=
  { read := fun n => match inc with
      | some (k, v) => if n = k then some v else none
      | none => none,
    resolve := fun _ a => a }

def parseProg (text : Str) (src : Option Str) (inc : Option (Str × Str)) :
    Except ParseFail (List Instruction) :=
  let fs := fsOf inc
  parseLinesWith (parseFileF fs 2) fs src 1 (lines text)

def encLog (l : List LogEntry) : String :=
  ";".intercalate (l.map fun e => encStr e.name ++ "@" ++ toString e.line ++ encList e.args)

def handle (toks : List String) : Option String :=
  match toks with
  | ["err", text, queue, vars, fuel, src, inc] =>
    some <|
    match decStr text, decQueue queue, decVars vars, fuel.toNat?, decOpt src, decInc inc with
    | some text, some queue, some vars, some fuel, some src, some inc =>
      match parseProg text src inc with
      | .error e => "PARSEERR " ++ encPErr e.kind ++ " " ++ encMeta e.mi
      | .ok is =>
        let st : ScriptedSt × ErrSt := ({ queue := queue }, {})
        let (rs, e) := run (withOnError baseSem) (fun _ _ => false) fuel is vars st
        let logs := " | LOG " ++ encLog rs.st.1.log
        match e with
        | .fail msg mi => "fail " ++ encStr msg ++ " " ++ encMeta mi ++ logs
        | .outOfFuel => "fuel" ++ logs
        | _ =>
          let r := rs.st.2
          "ok | VARS " ++ encVars rs.vars ++ " | REC " ++ encOpt r.lastError ++ "/" ++
            encOpt r.lastErrorLine ++ "/" ++ encOpt r.lastErrorSource ++ "/" ++
            (if r.exitOnError then "true" else "false") ++ logs
    | _, _, _, _, _, _ => "BAD-REQUEST"
  | "errb" :: _ => some "REL"
  | _ => none

end Duck.Drv.C10
