/-
  Driver handler for C12: `coll <op> <op> …`
    op   = `<command name>:<arg>,<arg>,…`      (no argument: `<command name>:`)
    arg  = `h<hex>` literal string | `@<k>` the value the output variable of op number k
           (0-based) holds: the output, nothing (= empty string) after `Continue(None)`,
           `false` after an error (what the runner stores)
  answer = `<out>,<out>,… <table>`; out = `h<hex>` | `-` (no output) | `E` (error);
           table = entries `<h(handle)>=<value>` sorted, joined by `;` (or `-` when empty);
           value = `L[cell,…]` in order (cell = `h<hex>` string, `n<hex of decimal>` number),
           `M[hK>cell,…]` sorted, `S[h..,…]` sorted, `O<tag>` other kind (only made by `__foreign:<tag>`).
  Handles are the model's `handle:<k>`; the harness renames the real ones.
-/
import DuckModel.Wire
import DuckModel.Sdk.Collections

namespace Duck.Drv.C12
open Duck Duck.Wire Duck.Coll

def cmdOfName : String → Option CollCmd
  | "array" => some .array
  | "range" => some .range
  | "array_push" => some .arrayPush
  | "array_pop" => some .arrayPop
  | "array_get" => some .arrayGet
  | "array_set" => some .arraySet
  | "array_remove" => some .arrayRemove
  | "array_clear" => some .arrayClear
  | "array_length" => some .arrayLength
  | "array_is_empty" => some .arrayIsEmpty
  | "array_contains" => some .arrayContains
  | "array_concat" => some .arrayConcat
  | "array_join" => some .arrayJoin
  | "map" => some .map
  | "map_put" => some .mapPut
  | "map_get" => some .mapGet
  | "map_remove" => some .mapRemove
  | "map_size" => some .mapSize
  | "map_keys" => some .mapKeys
  | "map_clear" => some .mapClear
  | "map_contains_key" => some .mapContainsKey
  | "map_contains_value" => some .mapContainsValue
  | "map_is_empty" => some .mapIsEmpty
  | "set_new" => some .setNew
  | "set_put" => some .setPut
  | "set_remove" => some .setRemove
  | "set_contains" => some .setContains
  | "set_size" => some .setSize
  | "set_clear" => some .setClear
  | "set_to_array" => some .setToArray
  | "set_from_array" => some .setFromArray
  | "set_is_empty" => some .setIsEmpty
  | "is_array" => some .isArray
  | "is_map" => some .isMap
  | "is_set" => some .isSet
  | "release" => some .release
  | _ => none

inductive Arg
  | lit (s : Str)
  | ref (k : Nat)

def decArg (t : String) : Option Arg :=
  match t.toList with
  | '@' :: r => (String.ofList r).toNat?.map .ref
  | _ => (decStr t).map .lit

/-- one request step: a collection command, or `__foreign:<tag>` = the EMBEDDER stores a value of
    one of the ten non-collection kinds (tag 0-9: Boolean, Number, UnsignedNumber, Number32Bit,
    UnsignedNumber32Bit, Number64Bit, UnsignedNumber64Bit, String, ByteArray, Any) under a fresh
    handle key — `put_handle`, which is what `Context.state` being public allows; the theorems
    `C12_refines*` hold from every related pair of states, so such tables are inside them -/
inductive DOp
  | cmd (c : CollCmd) (a : List Arg)
  | foreign (tag : Nat)
  /-- `__foreignlist:<key>`: the embedder stores the array `[apple, pear, plum]` in the handle table
      under a key OF ITS OWN (no `handle:` prefix): every command must treat it like any array -/
  | foreignList (key : Str)

def foreignListValue : Value := .list [.str "apple".toList, .str "pear".toList, .str "plum".toList]

def decOp (t : String) : Option DOp :=
  match t.splitOn ":" with
  | ["__foreign", a] => do
    let s ← decStr a
    let n ← (String.ofList s).toNat?
    pure (.foreign n)
  | ["__foreignlist", a] => do
    let s ← decStr a
    pure (.foreignList s)
  | [c, a] => do
    let cmd ← cmdOfName c
    let args ← if a.isEmpty then some [] else (a.splitOn ",").mapM decArg
    pure (.cmd cmd args)
  | _ => none

def resolve (outs : Array Res) : Arg → Str
  | .lit s => s
  | .ref k =>
    match outs[k]? with
    | some (.val (some v)) => v
    | some (.val none) => []
    | some .err => sFalse
    | none => []

def runOps (s : St) (outs : Array Res) : List DOp → St × Array Res
  | [] => (s, outs)
  | .cmd c a :: rest =>
    let (s', r) := exec s c (a.map (resolve outs))
    runOps s' (outs.push r) rest
  | .foreign tag :: rest =>
    let (s', h) := putHandle s (.other tag)
    runOps s' (outs.push (.val (some h))) rest
  | .foreignList key :: rest =>
    runOps { s with tbl := tinsert s.tbl key foreignListValue } (outs.push (.val (some key))) rest

def encRes : Res → String
  | .val none => "-"
  | .val (some v) => encStr v
  | .err => "E"

def sortStrings (l : List String) : List String := (l.toArray.qsort (· < ·)).toList

def encItem : Item → String
  | .str s => encStr s
  | .num i => "n" ++ (encStr (toString i).toList).drop 1

def encValue : Value → String
  | .list l => "L[" ++ ",".intercalate (l.map encItem) ++ "]"
  | .map m => "M[" ++ ",".intercalate (sortStrings (m.map fun (k, v) => encStr k ++ ">" ++ encItem v)) ++ "]"
  | .set s => "S[" ++ ",".intercalate (sortStrings (s.map encStr)) ++ "]"
  | .other t => "O" ++ toString t

def encTable (t : Table) : String :=
  if t.isEmpty then "-" else
  ";".intercalate (sortStrings (t.map fun (h, v) => encStr h ++ "=" ++ encValue v))

def handle (toks : List String) : Option String :=
  match toks with
  | "coll" :: ops =>
    match (ops.filter (· ≠ "")).mapM decOp with
    | none => some "BAD-REQUEST"
    | some l =>
      let (s, outs) := runOps {} #[] l
      some ((if outs.isEmpty then "-" else ",".intercalate (outs.toList.map encRes)) ++ " " ++ encTable s.tbl)
  | _ => none

end Duck.Drv.C12
