/-
  Driver handler for the java-properties part of C17 (model: `Sdk/Properties.lean`).

    m17props <vars>   map_to_properties of the entries IN THE ORDER OF THE TOKEN, then
                      map_load_properties of the produced text into an empty map.
                      answer: `ok <vars>` (the loaded map, sorted) | `err-write` | `err-load`
    m17write <vars>   the text map_to_properties returns for that order
                      answer: `<htext>` | `err-write`
    m17load  <htext>  map_load_properties of an arbitrary text into an empty map
                      answer: `ok <vars>` | `err-load`
-/
import DuckModel.Wire
import DuckModel.Sdk.Properties

namespace Duck.Drv.C17P
open Duck Duck.Wire Duck.JProps

def bad : String := "BAD-REQUEST"

def encLoaded (r : Except PropsErr Entries) : String :=
  match r with
  | .ok es => "ok " ++ encVars (toMap es)
  | .error _ => "err-load"

def doProps (m : Entries) : String :=
  match writeProps m with
  | .error _ => "err-write"
  | .ok t => encLoaded (loadProps t)

def doWrite (m : Entries) : String :=
  match writeProps m with
  | .error _ => "err-write"
  | .ok t => encStr t

def handle (toks : List String) : Option String :=
  match toks with
  | ["m17props", t] => some (match decVars t with | some m => doProps m | none => bad)
  | ["m17write", t] => some (match decVars t with | some m => doWrite m | none => bad)
  | ["m17load", t] => some (match decStr t with | some s => encLoaded (loadProps s) | none => bad)
  | _ => none

end Duck.Drv.C17P
