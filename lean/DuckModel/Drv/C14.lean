/-
  Driver handler for C14 (include files):
    inc    <root> <files>                               → `parse_file(root)` in `Wire.encParse` format
    incrun <root> <files> <names> <queue> <vars> <fuel> → `run_script_file(root)` with scripted commands
  <root> : hex path;  <files> : `hPATH=hTEXT,…` (canonical absolute paths) or `-`.
-/
import DuckModel.Wire
import DuckModel.Includes
import DuckModel.Scripted
import DuckModel.Sdk.ProcessCmd

namespace Duck.Drv.C14
open Duck Duck.Wire

def bad : String := "BAD-REQUEST"

/-- include depth allowed by the model: more than any acyclic tree over these files needs -/
def depthFuel (t : Tree) : Nat := t.length + 2

def handle (toks : List String) : Option String :=
  match toks with
  | ["inc", root, files] =>
    some <|
    match decStr root, decVars files with
    | some root, some t => encParse (parseFileT t (depthFuel t) root)
    | _, _ => bad
  | ["incsdk", _, _] =>
    -- full-SDK run of a tree of files against the run of the pasted text: judged by the harness
    -- relation (the model does not run SDK commands); the constant is what the relation prints when it holds
    some "incsdk-same"
  | ["incrun", root, files, names, queue, vars, fuel] =>
    some <|
    match decStr root, decVars files, decList names, decQueue queue, decVars vars, fuel.toNat? with
    | some root, some t, some names, some queue, some vars, some fuel =>
      match parseFileT t (depthFuel t) root with
      | .error e => "PARSEERR " ++ encPErr e.kind ++ " " ++ encMeta e.mi
      | .ok is =>
        let st : ScriptedSt := { queue := queue }
        let (rs, e) := run (scriptedSemX names) scriptedHalt fuel is vars st
        let log := ";".intercalate (rs.st.log.map fun l => encStr l.name ++ "@" ++ toString l.line ++ encList l.args)
        let logs := " | LOG " ++ log
        match e with
        | .fail msg mi =>
          let m := if "crash#".toList.isPrefixOf msg || "Exit with error code: ".toList.isPrefixOf msg then encStr msg else "runner-msg"
          "fail " ++ m ++ " " ++ encMeta mi ++ logs
        | .exitCalled => "ok | VARS " ++ encVars rs.vars ++ logs
        | .reachedEnd => "ok | VARS " ++ encVars rs.vars ++ logs
        | .halted => "ok | VARS " ++ encVars rs.vars ++ logs
        | .outOfFuel => "fuel" ++ logs
    | _, _, _, _, _, _ => bad
  | _ => none

end Duck.Drv.C14
