/-
  Driver handler for C07: `c07 <kind> <payload…>` → `ok`.

  C07 has no model-vs-code comparison of its own: the property is "control returns to the
  embedder".  The canonical output for "returned control" is `ok` on both sides; the harness
  answers `PANIC` / `HANG` / `ABORT…` when the real code does not return.  (What the model proves
  about the same inputs is in Props/C07.lean.)
-/
namespace Duck.Drv.C07

def handle (toks : List String) : Option String :=
  match toks with
  | "c07" :: _ => some "ok"
  | _ => none

end Duck.Drv.C07
