/-
  Driver handler for C09.

    rt <vars> <vals>            the raw model: `vals` = command name :: values
                                → `none` | `<output> <command> <args list>`
    safe <val>                  → `<Safe> <firstOK> <lastOK>` (1/0 each)
    c09 <vars> <vals> <wrapper> the harness case: the capture command `cap` is invoked with the
                                values `vals` held in the variables a0, a1, … (on top of `vars`),
                                directly and through `<wrapper>` (ignored by the model: all
                                wrappers take the same path)
                                → `<D|X> <wrapped> <direct>`
                                  D = all values Safe and positions admissible (domain of
                                      `C09_safe_partial`), X otherwise
                                  wrapped = `call:<args list>` | `nocall` (what `cap` receives
                                      through the wrapper per `roundTripFull`)
                                  direct = `call:<vals>` (C02: the direct call binds verbatim)
-/
import DuckModel.Wire
import DuckModel.Sdk.Reserialize

namespace Duck.Drv.C09
open Duck Duck.Wire Duck.Reser

def capName : Str := "cap".toList

def bit (b : Bool) : String := if b then "1" else "0"

/-- the variables a0, a1, … that hold the values -/
def argVars (vals : List Str) : Vars :=
  (List.range vals.length).zip vals |>.map fun (i, v) => (("a" ++ toString i).toList, v)

def encArrive (r : Option (Option Str × Option Str × List Str)) : String :=
  match r with
  | none => "none"
  | some (o, c, as) => encOpt o ++ " " ++ encOpt c ++ " " ++ encList as

def handle (toks : List String) : Option String :=
  match toks with
  | ["rt", vars, vals] =>
    match decVars vars, decList vals with
    | some vs, some vl => some (encArrive (roundTripFull vs vl))
    | _, _ => some "BAD-REQUEST"
  | ["safe", v] =>
    match decStr v with
    | some s => some (bit (Safe s) ++ " " ++ bit (firstOK s) ++ " " ++ bit (lastOK s))
    | none => some "BAD-REQUEST"
  | ["c09", vars, vals, wrapper] =>
    match decVars vars, decList vals with
    | some vs, some vl =>
      let env := vs ++ argVars vl
      let dom := vl.all Safe && positionOK vl
      let once (name : Str) (l : List Str) : Option (List Str) :=
        match roundTripFull env (name :: l) with
        | some (_, some c, as) => if c = name then some as else none
        | _ => none
      -- `alias2`: an alias of an alias = two passes through the rebuilt line; every other
      -- wrapper = one pass (`aliasjump` wraps the jumping twin of `cap`)
      -- `aliasdeep`: m41 is an alias of m40 … m1 an alias of cap: 41 passes, the rebuilt lines name
      -- m40, m39, …, m1, cap
      let deep : Option (List Str) :=
        (List.range 41).foldl (fun acc i =>
          acc.bind fun l => once (if i < 40 then ("m" ++ toString (40 - i)).toList else capName) l) (some vl)
      let arrived :=
        if wrapper == "aliasdeep" then deep
        else if wrapper == "alias2" then (once "mid".toList vl).bind (once capName)
        else if wrapper == "aliasjump" then once "capjump".toList vl
        else once capName vl
      let wrapped := match arrived with | some as => "call:" ++ encList as | none => "nocall"
      some ((if dom then "D" else "X") ++ " " ++ wrapped ++ " call:" ++ encList vl)
    | _, _ => some "BAD-REQUEST"
  | _ => none

end Duck.Drv.C09
