/-
  Driver handlers for the core properties (C01 C02 C03 C06 C08 C13 C15).
-/
import DuckModel.Wire
import DuckModel.Parser
import DuckModel.Spec.Render
import DuckModel.Scripted
import DuckModel.Sdk.ProcessCmd
import DuckModel.DynScripted
import DuckModel.Registry
import DuckModel.Sdk.Condition
import DuckModel.Spec.Template
import DuckModel.Spec.TemplateText

namespace Duck.Drv.Core
open Duck Duck.Wire

def bad : String := "BAD-REQUEST"
def unknownOp : String := "UNKNOWN-OP"

def decArgCh (x : String) : Option (Nat × Bool) :=
  match x.splitOn ":" with
  | [k, q] => k.toNat?.map fun n => (n, q == "1")
  | _ => none

def decComment (x : String) : Option (Nat × Str) :=
  match x.splitOn ":" with
  | [k, txt] => do
    let n ← k.toNat?
    let t ← decStr txt
    pure (n, t)
  | _ => none

def decRegOp (t : String) : Option RegOp :=
  match t.splitOn "/" with
  | ["S", n, al, tag] => do pure (.set { name := (← decStr n), aliases := (← decList al), tag := (← tag.toNat?) })
  | ["G", n] => (decStr n).map .get
  | ["E", n] => (decStr n).map .exists
  | ["R", n] => (decStr n).map .remove
  | ["N"] => some .names
  | _ => none

def encSpec (c : CmdSpec) : String := encStr c.name ++ "/" ++ encList c.aliases ++ "/" ++ toString c.tag

def encRegOut : RegOut → String
  | .bool b => if b then "1" else "0"
  | .cmd none => "-"
  | .cmd (some c) => encSpec c
  | .names l => encList l

def sortStrings (l : List String) : List String := (l.toArray.qsort (· < ·)).toList

def encReg (r : Reg) : String :=
  "CMDS " ++ ",".intercalate (sortStrings (r.commands.map fun (k, c) => encStr k ++ ">" ++ encSpec c)) ++
  " ALIASES " ++ ",".intercalate (sortStrings (r.aliases.map fun (k, v) => encStr k ++ ">" ++ encStr v))

inductive TArg
  | tmpl (t : List Spec.Seg)
  | spread (n : Str)

def decSeg (t : String) : Option Spec.Seg :=
  match t.toList with
  | 'L' :: r => (decStr (String.ofList r)).map .lit
  | 'V' :: r => (decStr (String.ofList r)).map .var
  | 'E' :: r => (decStr (String.ofList r)).map .escVar
  | _ => none

def decTArg (t : String) : Option TArg :=
  match t.toList with
  | 'S' :: r => (decStr (String.ofList r)).map .spread
  | _ => if t = "T" then some (.tmpl []) else ((t.splitOn "+").mapM decSeg).map .tmpl

def segOKb : Spec.Seg → Bool
  | .lit t => t.all fun c => c != '$' && c != '%' && c != '\\'
  | .var n => n.all fun c => c != '}' && c != ' ' && c != '=' && c != '\t' && c != '\r' && c != '\n'
  | .escVar n => n.all fun c => c != '}' && c != ' ' && c != '=' && c != '\t' && c != '\r' && c != '\n' &&
      c != '$' && c != '%' && c != '\\'

def keyOKb (n : Str) : Bool :=
  n.all fun c => c != '}' && c != ' ' && c != '=' && c != '\t' && c != '\r' && c != '\n'

/-- C01 item: label/output/command/args/lead/trail/afterLabel/eqBefore/eqAfter/argch/comment/crlf -/
def decItem (t : String) : Option (Spec.Choices × ScriptInstr × Bool) :=
  match t.splitOn "/" with
  | [lb, ou, cm, ar, ld, tr, al, eb, ea, ac, co, cr] => do
    let label ← decOpt lb
    let output ← decOpt ou
    let command ← decOpt cm
    let args ← decOptList ar
    let lead ← decStr ld
    let trail ← decStr tr
    let afterLabel ← al.toNat?
    let eqBefore ← eb.toNat?
    let eqAfter ← ea.toNat?
    let argch ← if ac = "-" then some [] else (ac.splitOn ",").mapM decArgCh
    let comment ← if co = "-" then some none else (decComment co).map some
    pure ({ lead := lead, trail := trail, afterLabel := afterLabel, eqBefore := eqBefore,
            eqAfter := eqAfter, args := argch, comment := comment },
          { label := label, output := output, command := command, args := args }, cr = "1")
  | _ => none

def handle (toks : List String) : Option String :=
  some <|
  match toks with
  | ["parse", t] =>
    match decStr t with
    | some s => encParse (parseText s)
    | none => bad
  | ["fparse", t] =>
    -- the same text read from a FILE (`parse_file`): the harness strips the source tag, which it
    -- checks separately, so the answer is that of `parse`
    match decStr t with
    | some s => encParse (parseText s)
    | none => bad
  | ["c01", opn, items] =>
    match (items.splitOn ";").mapM decItem with
    | some its =>
      let text := if opn = "1" then Spec.renderScriptOpen its else Spec.renderScript its
      -- (hypothesis `hlast` of `C01_script_roundtrip_open`: an unterminated last line that renders
      -- to nothing is not a line at all)
      let lastOk := opn != "1" || (match its.getLast? with
        | some x => !(Spec.renderLine x.1 x.2.1).isEmpty
        | none => true)
      let dom := (its.all fun x => Spec.instrOKb x.2.1 && Spec.choicesOKb x.1) && lastOk
      encStr text ++ " " ++ (if dom then "DOM" else "NODOM") ++ " " ++ encParse (parseText text)
    | none => bad
  | [op, text, names, queue, haltAt, vars, fuel] =>
    -- `runx`: the scripted commands plus the real `exit` / `goto` of the SDK (Sdk/ProcessCmd.lean)
    if op != "run" && op != "runx" then unknownOp else
    match decStr text, decList names, decQueue queue, decVars vars, fuel.toNat? with
    | some text, some names, some queue, some vars, some fuel =>
      let st : ScriptedSt := { queue := queue, haltAt := haltAt.toNat? }
      match runScript (if op == "runx" then scriptedSemX names else scriptedSem names) scriptedHalt fuel text vars st with
      | .error e => "PARSEERR " ++ encPErr e.kind ++ " " ++ encMeta e.mi
      | .ok (rs, e) =>
        let log := ";".intercalate (rs.st.log.map fun l => encStr l.name ++ "@" ++ toString l.line ++ encList l.args)
        let logs := " | LOG " ++ log
        match e with
        | .fail msg mi =>
          -- runner-generated texts are not compared (only that the run failed, and where);
          -- messages produced by commands ("crash#…") must arrive unchanged
          let m := if "crash#".toList.isPrefixOf msg || "Exit with error code: ".toList.isPrefixOf msg then encStr msg else "runner-msg"
          "fail " ++ m ++ " " ++ encMeta mi ++ logs
        | .exitCalled => "ok | VARS " ++ encVars rs.vars ++ logs
        | .reachedEnd => "ok | VARS " ++ encVars rs.vars ++ logs
        | .halted => "ok | VARS " ++ encVars rs.vars ++ logs
        | .outOfFuel => "fuel" ++ logs
    | _, _, _, _, _ => bad
  | ["runm", specs, queue, vars, fuel, texts] =>
    -- multi-run history on one Context with a command table that commands can change
    -- (DynScripted.lean); specs = `S/<name>/<aliases>/<tag>` joined by `;`, texts joined by `;`
    match (specs.splitOn ";").mapM decRegOp, decQueue queue, decVars vars, fuel.toNat?, (texts.splitOn ";").mapM decStr with
    | some ops, some queue, some vars, some fuel, some texts =>
      let cs := ops.filterMap fun o => match o with | .set c => some c | _ => none
      let st : DynSt := { queue := queue, reg := dynRegister {} cs }
      let (outs, s) := dynRuns fuel texts vars st
      let log := ";".intercalate (s.log.map fun l => encStr l.name ++ "@" ++ toString l.line ++ encList l.args)
      let encOut : DynOutcome → String
        | .ok v => "ok VARS " ++ encVars v
        | .fail msg mi => "fail " ++ (if "crash#".toList.isPrefixOf msg || "Exit with error code: ".toList.isPrefixOf msg then encStr msg else "runner-msg") ++ " " ++ encMeta mi
        | .parseErr e => "PARSEERR " ++ encPErr e.kind ++ " " ++ encMeta e.mi
        | .fuel => "fuel"
      let alive := outs.all fun o => match o with | .ok _ => true | _ => false
      " || ".intercalate (outs.map encOut) ++ " | LOG " ++ log ++
        (if alive then " | STATE " ++ (let e := sortStrings (s.store.map fun (k, v) => encStr k ++ "=" ++ encStr v); if e.isEmpty then "-" else ",".intercalate e) ++
          " | NAMES " ++ encList s.reg.names ++
          -- aliases that point to no command: 0 by `C15_dyn_history_no_dangling`
          " | DANG " ++ toString (s.reg.aliases.filter fun (_, m) => !(s.reg.commands.containsKey m)).length else "")
    | _, _, _, _, _ => bad
  | ["reg", ops] =>
    match (if ops = "-" then some [] else (ops.splitOn ";").mapM decRegOp) with
    | some ops =>
      let (r, outs) := Reg.run {} ops
      ";".intercalate (outs.map encRegOut) ++ " | " ++ encReg r
    | none => bad
  | ["cond", _consumer, toks, _exp] =>
    match decList toks with
    | some ts =>
      match evalSlice ts with
      | .ok b => if b then "ok 1" else "ok 0"
      | .error _ => "err"
    | none => bad
  | ["cond2", _consumer, toksA, toksB, _exp] =>
    -- two statements decided one after the other by the same interpreter thread: each on its own
    -- (a statement's value does not depend on what was decided before)
    match decList toksA, decList toksB with
    | some a, some b =>
      let one := fun ts => match evalSlice ts with
        | .ok v => if v then "ok 1" else "ok 0"
        | .error _ => "err"
      one a ++ " " ++ one b
    | _, _ => bad
  | ["truthy", v] =>
    match decOpt v with
    | some v => if isTrue v then "1" else "0"
    | none => bad
  | ["c02", vars, targs] =>
    match decVars vars, (targs.splitOn ",").mapM decTArg with
    | some vars, some targs =>
      let written := targs.map fun a => match a with
        | .tmpl t => Spec.renderTemplate t
        | .spread n => Spec.renderSpread n
      let expected := targs.flatMap fun a => match a with
        | .tmpl t => [Spec.tmplValue vars t]
        | .spread n => Spec.words ((Vars.get vars n).getD [])
      let dom := targs.all fun a => match a with
        | .tmpl t => t.all segOKb
        | .spread n => keyOKb n && ((Vars.get vars n).getD []).all fun c => c != '"' && c != '#'
      encList written ++ " " ++ (if dom then "DOM" else "NODOM") ++ " " ++ encList expected ++ " " ++
        encList (bind vars (some written))
    | _, _ => bad
  | ["c02t", vars, targs, qbits] =>
    -- the templates WRITTEN AS ONE LINE OF SCRIPT TEXT by the specification
    -- (`Spec.capLine`: quoted where needed or where bit k of `qbits` says so, `\${name}` written
    -- as such): parse the line with the parser model, bind the parsed arguments
    match decVars vars, (targs.splitOn ",").mapM decTArg, qbits.toNat? with
    | some vars, some targs, some q =>
      let wargs : List Spec.WArg := targs.zipIdx.map fun (a, k) => match a with
        | .tmpl t => .tmpl t (q.testBit k)
        | .spread n => .spread n
      let text := Spec.capLine "cap".toList wargs
      let expected := wargs.flatMap (Spec.WArg.expected vars)
      let nameOK := fun (n : Str) => keyOKb n && n.all fun c => c != '"' && c != '\\'
      let dom := targs.all fun a => match a with
        | .tmpl t => t.all fun sg => segOKb sg && (match sg with | .lit _ => true | .var n => nameOK n | .escVar n => nameOK n)
        | .spread n => nameOK n && (n.all fun c => !isWs c && c != '#') &&
            ((Vars.get vars n).getD []).all fun c => c != '"' && c != '#'
      let got := match parseLine text with
        | .ok (.script si) =>
          if si.command == some "cap".toList && si.label.isNone && si.output.isNone then encList (bind vars si.args)
          else "NOT-THE-CAP-LINE"
        | .ok _ => "NOT-A-SCRIPT-LINE"
        | .error e => "PARSE-ERROR-" ++ encPErr e
      "T" ++ encStr text ++ " " ++ (if dom then "DOM" else "NODOM") ++ " " ++ encList expected ++ " " ++ got
    | _, _, _ => bad
  | ["parsehuge", _] =>
    -- megabyte inputs whose correct parse is known by construction: judged by the harness
    -- (the model's list-based scanner is not built for them)
    "huge-ok"
  | ["c13t", _, _] =>
    -- second-thread schedule: nothing to compute, the expected verdict is constant (the harness
    -- checks "returns Ok promptly, at most one tick observed the flag set" on the real code)
    "sched ok"
  | ["bind", vars, args] =>
    match decVars vars, decList args with
    | some vars, some args => encList (bind vars (some args))
    | _, _ => bad
  | ["ws", n] =>
    match n.toNat? with
    | some k => if isWs (Char.ofNat k) then "1" else "0"
    | none => bad
  | _ => unknownOp

end Duck.Drv.Core
