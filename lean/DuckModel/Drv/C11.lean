/-
  Driver handler for C11: `vs <mode> <ops>` runs an operation history of the variable /
  scope-stack commands from the empty state and prints, per step, the command output, the
  whole sorted variable map and the stack depth.

    ops  : `-` or op;op;…      op : `C/<out>/<command>/<args>`  |  `N/<out>/<handle>`
    out  : `-` or hex string   args : `[h..,h..]`
    step : `<result>@<vars>@<depth>`   result : `C/<opt>` `E` `X` `G` `Q` `N/[sorted names]`

  `<mode>` (how the harness feeds the real code: `D` direct invocation, `S` one-line scripts)
  is ignored by the model.
-/
import DuckModel.Wire
import DuckModel.Sdk.VarScope

namespace Duck.Drv.C11
open Duck Duck.Wire Duck.VarScope

def decCmd : String → Option VsCmd
  | "set" => some .set
  | "unset" => some .unset
  | "set_by_name" => some .setByName
  | "get_by_name" => some .getByName
  | "is_defined" => some .isDefined
  | "unset_all_vars" => some .unsetAllVars
  | "clear_scope" => some .clearScope
  | "scope_push_stack" => some .pushStack
  | "scope_pop_stack" => some .popStack
  | _ => none

def decOp (t : String) : Option VsOp :=
  match t.splitOn "/" with
  | ["C", out, c, args] => do pure (.cmd (← decOpt out) (← decCmd c) (← decList args))
  | ["N", out, h] => do pure (.names (← decOpt out) (← decStr h))
  | _ => none

def sortStrings (l : List String) : List String := (l.toArray.qsort (· < ·)).toList

def encOut : VsOut → String
  | .res (.continue v) => "C/" ++ encOpt v
  | .res (.error _) => "E"
  | .res (.crash _) => "X"
  | .res (.goTo _ _) => "G"
  | .res (.exit _) => "Q"
  | .names l => "N/[" ++ ",".intercalate (sortStrings (l.map encStr)) ++ "]"

def trace (st : VsSt) : List VsOp → List String
  | [] => []
  | op :: ops =>
    let (st', o) := apply st op
    (encOut o ++ "@" ++ encVars st'.vars ++ "@" ++ toString st'.stack.length) :: trace st' ops

def handle (toks : List String) : Option String :=
  match toks with
  | ["vs", _mode, ops] =>
    match (if ops = "-" then some [] else (ops.splitOn ";").mapM decOp) with
    | some ops => some ("ok " ++ ";".intercalate (trace {} ops))
    | none => some "BAD-REQUEST"
  | _ => none

end Duck.Drv.C11
