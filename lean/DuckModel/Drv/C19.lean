/-
  Driver handler for C19 (script-implemented commands).  Requests:

    c19scripts
        the regenerated table: `<hname>:<[haliases]>:<hscope>:<amount>:<hdir>` joined by `;`

    c19wrap <halias> <[args]> <vars> <hctx> <sets> <[dels]> <nalloc> <rel> <result>
        `aliasRun` for the table entry with that alias, the body being the entry's own script run
        by `evalInstructions`, where the FIRST command the script calls is replaced by a scripted
        command (the harness replaces the same command in the real registry): it sets the
        variables `sets` (in order), erases `dels`, allocates `nalloc` handles, releases the
        temporary `::arguments` handle when `rel` = 1, and returns `result` (wire `decResult`).
        The only other command these entries call is `equals`.
        answer: `<C/opt | E | X | Q/opt> <vars> <live handles> <hctx afterwards>`

    c19hist <form> <prelude> <steps>
        a history of invocations of real script commands; `form` = top | fn:<k> | loop:<k> |
        fnloop:<k> (every step runs k times), `steps` = `<halias>|<out>|<[written args]>` joined by
        `;`.  The model cannot run the native callees; its answer is the PROPERTY's prediction for
        every executed step: `few:<n>` (fewer written arguments than `arguments_amount`) or
        `run:<n>`, followed by no leaked / modified / removed caller variable and a handle balance
        of 0: `:[]:[]:[]:0`.
-/
import DuckModel.Wire
import DuckModel.Sdk.AliasCmd
import DuckModel.Generated.Scripts

namespace Duck.Drv.C19
open Duck Duck.Wire Duck.Alias

def bad : String := "BAD-REQUEST"

def findCmd (a : Str) : Option Generated.ScriptCmd :=
  Generated.scripts.find? fun s => s.aliases.contains a || s.name == a

def doScripts : String :=
  ";".intercalate (Generated.scripts.map fun s =>
    encStr s.name ++ ":" ++ encList s.aliases ++ ":" ++ encStr s.scopeName ++ ":" ++
      toString s.argumentsAmount ++ ":" ++ encStr s.dir.toList)

/-! ### c19wrap -/

structure Scripted where
  sets : Vars
  dels : List Str
  nalloc : Nat
  rel : Bool
  result : CmdResult

def scripted (b : Scripted) (scope : Str) (vars : Vars) (st : Store) : CmdResult × Vars × Store :=
  let vars1 := b.sets.foldl (fun m p => m.set p.1 p.2) vars
  let vars2 := b.dels.foldl Vars.erase vars1
  let st1 := (List.range b.nalloc).foldl (fun s _ => (storeOps.put s []).2) st
  let st2 :=
    if b.rel then
      match vars.get (argsKey scope) with
      | some h => storeOps.remove st1 h
      | none => st1
    else st1
  (b.result, vars2, st2)

def equalsNames : List Str := ["equals".toList, "eq".toList, "std::string::Equals".toList]

/-- first command word of the script (the one that is replaced) -/
def firstCommand (is : List Instruction) : Option Str :=
  is.findSome? fun i =>
    match i.ty with
    | .script si => si.command
    | _ => none

def semFor (native : Str) (b : Scripted) (scope : Str) : CmdSem Store :=
  fun name args _ _ vars s =>
    if name = native then some (scripted b scope vars s)
    else if equalsNames.contains name then
      match args with
      | a :: c :: _ => some (.continue (some (if a = c then "true".toList else "false".toList)), vars, s)
      | _ => some (.error [], vars, s)
    else none

def encRes : CmdResult → String
  | .continue v => "C/" ++ encOpt v
  | .goTo v (.label l) => "GL/" ++ encOpt v ++ "/" ++ encStr l
  | .goTo v (.line n) => "GN/" ++ encOpt v ++ "/" ++ toString n
  | .error _ => "E"
  | .crash _ => "X"
  | .exit v => "Q/" ++ encOpt v

def doWrap (alias : Str) (args : List Str) (vars : Vars) (ctx : Str) (b : Scripted) : String :=
  match findCmd alias with
  | none => bad
  | some cmd =>
    match parseText cmd.script with
    | .error _ => "PARSE-ERROR"
    | .ok is =>
      match firstCommand is with
      | none => bad
      | some native =>
        let body := scriptBody (semFor native b cmd.scopeName) (fun _ => false) 10000 is
        let (r, vars', st') := aliasRun storeOps cmd.argumentsAmount body cmd.scopeName args vars
          { handles := [], ctx := ctx }
        encRes r ++ " " ++ encVars vars' ++ " " ++ toString st'.handles.length ++ " " ++ encStr st'.ctx

/-! ### c19hist -/

def parseForm (f : String) : Option Nat :=
  match f.splitOn ":" with
  | ["top"] => some 1
  | ["fn", k] => k.toNat?
  | ["loop", k] => k.toNat?
  | ["fnloop", k] => k.toNat?
  | _ => none

def stepLine (t : String) : Option String :=
  match t.splitOn "|" with
  | [a, _, args] => do
    let alias ← decStr a
    let l ← decList args
    let cmd ← findCmd alias
    let cls := if l.length < cmd.argumentsAmount then "few" else "run"
    pure (cls ++ ":" ++ toString l.length ++ ":[]:[]:[]:0")
  | _ => none

def doHist (form : String) (steps : String) : String :=
  match parseForm form, (steps.splitOn ";").mapM stepLine with
  | some k, some ls => ";".intercalate ((List.replicate k ls).flatten)
  | _, _ => bad

def handle (toks : List String) : Option String :=
  match toks with
  | ["c19scripts"] => some doScripts
  | ["c19line", _, _] =>
    -- a script-implemented command called from the body of the CALLER's for-in loop whose `for`
    -- line has a given index: the loop runs like its unrolled form (model-free relation on the
    -- real run; the model's answer is the relation's expected verdict)
    some "same-as-unrolled"
  | ["c19wrap", a, args, vars, ctx, sets, dels, nalloc, rel, res] =>
    some <| (do
      let alias ← decStr a
      let args ← decList args
      let vars ← decVars vars
      let ctx ← decStr ctx
      let sets ← decVars sets
      let dels ← decList dels
      let n ← nalloc.toNat?
      let r ← decResult res
      pure (doWrap alias args vars ctx { sets := sets, dels := dels, nalloc := n, rel := rel == "1", result := r })
      : Option String).getD bad
  | ["c19hist", form, _, steps] => some (doHist form steps)
  | _ => none

end Duck.Drv.C19
