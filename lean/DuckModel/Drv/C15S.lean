/-
  Driver handler for the script-level part of C15: `regs <ops>` runs an operation history of
  alias / unalias / remove_command / is_command_defined / fn (and embedder registrations) from
  the empty state and prints every operation's result and the final state.

    ops : `-` or op;op;…
    op  : `N/<name>/<aliases>/<t>`   embedder `Commands::set` of a native command
          `A/<args>/<id>`            alias <args…>     (id identifies the stored target arguments)
          `U/<args>`                 unalias <args…>
          `R/<args>`                 remove_command <args…>
          `D/<args>`                 is_command_defined <args…>
          `F/<name>/<line>/<0|1>/<0|1>`  `fn name` executed at line <line>; 1 = the block has an
                                     end; last field: written as `fn <scope> name` (same model op)
    result : `1` `0` (answer true/false) `goto` `err` `crash` `S1` `S0`
    state  : `CMDS name>kind/aliases,… ALIASES alias>name,… SUB name,… FNS name>line,… DANG 0|1`
             kind = `n<t>` native, `a<id>` created by alias, `f<line>` created by fn;
             everything sorted; DANG = some alias points to a missing command
-/
import DuckModel.Wire
import DuckModel.Sdk.RegistryCmd

namespace Duck.Drv.C15S
open Duck Duck.Wire Duck.RegCmd

def decOp (t : String) : Option Op :=
  match t.splitOn "/" with
  | ["N", n, al, tag] => do pure (.native (← decStr n) (← decList al) (← tag.toNat?))
  | ["A", args, id] => do pure (.alias (← decList args) (← id.toNat?))
  | ["U", args] => (decList args).map .unalias
  | ["R", args] => (decList args).map .removeCommand
  | ["D", args] => (decList args).map .isCommandDefined
  | ["F", n, line, e, _scoped] => do
    let e ← (if e = "1" then some true else if e = "0" then some false else none)
    pure (.defineFn (← decStr n) (← line.toNat?) e)
  | _ => none

def encOut : Out → String
  | .value true => "1"
  | .value false => "0"
  | .goto => "goto"
  | .error => "err"
  | .crash => "crash"
  | .set true => "S1"
  | .set false => "S0"

def encKind (tag : Nat) : String :=
  match Kind.ofTag tag with
  | .native t => "n" ++ toString t
  | .aliasOf i => "a" ++ toString i
  | .function l => "f" ++ toString l

def sortStrings (l : List String) : List String := (l.toArray.qsort (· < ·)).toList

def encState (s : RState) : String :=
  let dang := s.reg.aliases.any fun (_, m) => !(s.reg.commands.containsKey m)
  "CMDS " ++ ",".intercalate (sortStrings (s.reg.commands.map fun (k, c) =>
      encStr k ++ ">" ++ encKind c.tag ++ "/" ++ encList c.aliases)) ++
  " ALIASES " ++ ",".intercalate (sortStrings (s.reg.aliases.map fun (k, v) => encStr k ++ ">" ++ encStr v)) ++
  " SUB " ++ ",".intercalate (sortStrings (s.sub.map fun (k, _) => encStr k)) ++
  " FNS " ++ ",".intercalate (sortStrings (s.fns.map fun (k, l) => encStr k ++ ">" ++ toString l)) ++
  " DANG " ++ (if dang then "1" else "0")

def handle (toks : List String) : Option String :=
  match toks with
  | ["regs", ops] =>
    match (if ops = "-" then some [] else (ops.splitOn ";").mapM decOp) with
    | some ops =>
      let (s, outs) := run {} ops
      some (";".intercalate (outs.map encOut) ++ " | " ++ encState s)
    | none => some "BAD-REQUEST"
  | _ => none

end Duck.Drv.C15S
