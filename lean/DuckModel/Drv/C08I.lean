/-
  Driver handler for the index-faithful parser model (C08, index arithmetic):
  `iparse <text>` runs `iParseLine` (DuckModel/ParserIndexed.lean) on every line of the text
  (`str::lines`; `iParseLine` trims as `parse_line` does) and compares it with the suffix model:
    `PANIC`   some line makes the index-faithful model panic
    `differs` no panic, but some line differs from `parseLine`
    `same`    every line: `iParseLine l = liftE (parseLine l)`
  (Props/C08Indexed.lean proves the answer is always `same`; the harness requires `same` and
  runs the real `parse_text` under `catch_unwind` on the same text.)
-/
import DuckModel.Wire
import DuckModel.Parser
import DuckModel.ParserIndexed

namespace Duck.Drv.C08I
open Duck Duck.Wire

def isPanic {α : Type} : IOut α → Bool
  | .panic => true
  | _ => false

def answer (text : Str) : String :=
  let ls := lines text
  if ls.any (fun l => isPanic (iParseLine l)) then "PANIC"
  else if ls.all (fun l => decide (iParseLine l = liftE (parseLine l))) then "same"
  else "differs"

def handle (toks : List String) : Option String :=
  match toks with
  | ["iparse", t] =>
    match decStr t with
    | some s => some (answer s)
    | none => some "BAD-REQUEST"
  | _ => none

end Duck.Drv.C08I
