/-
  Driver handler for C16:
  * `str <command> <args list>` →
    `ok <opt value>` | `err` | `PANIC` | `arr <list>` | `unmodelled`
  * `casetab lower|upper` → the whole table `cp:t+t+t,…` (sorted by code point) of the characters
    `char::to_lowercase` / `char::to_uppercase` change; `casetab cased|ignorable` → the ranges
    `a-b,…` — compared with the installed toolchain on every run
  * `calc <args list>` → `Q <num>/<den>` | `APPROX` | `ERR` | `unmodelled`
  * `f64bits <text>` → the 16 hex digits of `str::parse::<f64>(text)?.to_bits()` | `NAN` | `ERR`
-/
import DuckModel.Wire
import DuckModel.Sdk.Strings
import DuckModel.Sdk.Calc

namespace Duck.Drv.C16
open Duck Duck.Wire Duck.Strings

def encBytes (b : Bytes) : String :=
  "h" ++ String.ofList (b.flatMap fun x => [hexDigit (x / 16), hexDigit (x % 16)])

def encOut : Out → String
  | .str b => "ok " ++ encBytes b
  | .none => "ok -"
  | .nat n => "ok " ++ encStr (toString n).toList
  | .bool b => "ok " ++ encStr (if b then "true" else "false").toList
  | .pieces l => "arr [" ++ ",".intercalate (l.map encBytes) ++ "]"
  | .ints l => "arr [" ++ ",".intercalate (l.map fun i => encStr (toString i).toList) ++ "]"
  | .err => "err"
  | .panic => "PANIC"
  | .unmodelled => "unmodelled"

def encMap (m : List (Nat × List Nat)) : String :=
  ",".intercalate (m.map fun e => toString e.1 ++ ":" ++ "+".intercalate (e.2.map toString))

def encRanges (rs : List (Nat × Nat)) : String :=
  ",".intercalate (rs.map fun r => toString r.1 ++ "-" ++ toString r.2)

def encAns : Calc.Ans → String
  | .err => "ERR"
  | .q f => "Q " ++ toString f.num ++ "/" ++ toString f.den
  | .approx => "APPROX"
  | .unmodelled => "unmodelled"

def hex16 (n : Nat) : String :=
  String.ofList ((List.range 16).reverse.map fun i => hexDigit ((n / 16 ^ i) % 16))

def encBits (s : Str) : String :=
  match F64.parseF64 s with
  | Option.none => "ERR"
  | some x => match x.bits with
    | Option.none => "NAN"
    | some b => hex16 b

def handle (toks : List String) : Option String :=
  match toks with
  | ["str", cmd, args] =>
    match decList args with
    | some a => (run cmd a).map encOut
    | none => some "BAD-REQUEST"
  | ["casetab", "lower"] => some (encMap UCase.lowerMap)
  | ["casetab", "upper"] => some (encMap UCase.upperMap)
  | ["casetab", "cased"] => some (encRanges UCase.casedRanges)
  | ["casetab", "ignorable"] => some (encRanges UCase.caseIgnorableRanges)
  | ["f64bits", t] =>
    match decStr t with
    | some a => some (encBits a)
    | none => some "BAD-REQUEST"
  | ["calc", args] =>
    match decList args with
    | some a => some (encAns (Calc.calcCmd a))
    | none => some "BAD-REQUEST"
  | _ => none

end Duck.Drv.C16
