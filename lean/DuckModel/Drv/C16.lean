/-
  Driver handler for C16: `str <command> <args list>` →
  `ok <opt value>` | `err` | `PANIC` | `arr <list>` | `unmodelled`
-/
import DuckModel.Wire
import DuckModel.Sdk.Strings

namespace Duck.Drv.C16
open Duck Duck.Wire Duck.Strings

def encBytes (b : Bytes) : String :=
  "h" ++ String.ofList (b.flatMap fun x => [hexDigit (x / 16), hexDigit (x % 16)])

def encOut : Out → String
  | .str b => "ok " ++ encBytes b
  | .none => "ok -"
  | .nat n => "ok " ++ encStr (toString n).toList
  | .bool b => "ok " ++ encStr (if b then "true" else "false").toList
  | .pieces l => "arr [" ++ ",".intercalate (l.map encBytes) ++ "]"
  | .ints l => "arr [" ++ ",".intercalate (l.map fun i => encStr (toString i).toList) ++ "]"
  | .err => "err"
  | .panic => "PANIC"
  | .unmodelled => "unmodelled"

def handle (toks : List String) : Option String :=
  match toks with
  | ["str", cmd, args] =>
    match decList args with
    | some a => (run cmd a).map encOut
    | none => some "BAD-REQUEST"
  | _ => none

end Duck.Drv.C16
