/-
  Driver handler for C17 (encodings).  Requests (every op name carries the prefix `e17`:
  `e17text`, `e17bytes`, …)

    text  <hstr>      string_to_bytes → base64_encode → base64_decode → bytes_to_string
                      answer: `x<bytes> <hb64> x<bytes'> <htext'|err>`
    bytes x<hex>      (arbitrary bytes) base64_encode → base64_decode → bytes_to_string
                      answer: `<hb64> x<bytes'> <htext|err>`
    b64d  <hstr>      base64_decode of an arbitrary string; answer `x<bytes>` or `err`
    hex   <hstr>      hex_encode of a decimal text, then hex_decode; answer `<hhex> <hdec>` or `err`
    hexd  <hstr>      hex_decode of an arbitrary string; answer `<hdec>` or `err`
    json  <doc>       json_parse --collection, json_encode --collection;
                      answer `J <encoded|-|err> <normalised|->`
    jprint <doc>      the JSON TEXT layer (`Sdk/JsonText.lean`): the compact text of the document and
                      the text `json_parse --collection` + `json_encode --collection` make of it;
                      answer `P <hex text> <hex text'|-|err|err-parse|FLOAT|FUEL>`
    jparse <htext>    `serde_json::from_str::<Value>` of an arbitrary text; answer `V <doc>`,
                      `ERR`, `FLOAT` (the text has a number the crate reads as f64: outside the
                      model) or `FUEL` (never)
    props <vars>      map_to_properties → map_load_properties.  There is no model of the
                      java-properties format: the answer is the property's reading itself
                      (the same map back), `ok <vars>`.

  JSON token (prefix form, no spaces): `n` `t` `f` `#<hex>;` (number text) `s<hex>;`
  `a<count>:`items `o<count>:`(`<hex>;`value)*
-/
import DuckModel.Wire
import DuckModel.Sdk.Encode
import DuckModel.Sdk.Utf8Decode
import DuckModel.Sdk.JsonText

namespace Duck.Drv.C17
open Duck Duck.Wire Duck.Enc

def hexOfNats (l : List Nat) : String :=
  String.ofList (l.flatMap fun x => [hexDigit (x / 16), hexDigit (x % 16)])

def natsOfHex : List Char → Option (List Nat)
  | [] => some []
  | [_] => none
  | a :: b :: rest => do
    let x ← hexVal a
    let y ← hexVal b
    let r ← natsOfHex rest
    pure ((x * 16 + y) :: r)

def encBytes (l : List Nat) : String := "x" ++ hexOfNats l

def decBytes (t : String) : Option (List Nat) :=
  match t.toList with
  | 'x' :: hex => natsOfHex hex
  | _ => none

def encOptStr (o : Option Str) : String :=
  match o with
  | some s => encStr s
  | none => "err"

def encOptBytes (o : Option (List Nat)) : String :=
  match o with
  | some s => encBytes s
  | none => "err"

def hexOfStr (s : Str) : String := (encStr s).drop 1 |>.toString

def strOfHex (hex : List Char) : Option Str := decStr (String.ofList ('h' :: hex))

def splitAt (c : Char) : List Char → Option (List Char × List Char)
  | [] => none
  | x :: r => if x = c then some ([], r) else (splitAt c r).map fun (a, b) => (x :: a, b)

mutual
  partial def pJson : List Char → Option (Json × List Char)
    | 'n' :: r => some (.null, r)
    | 't' :: r => some (.bool true, r)
    | 'f' :: r => some (.bool false, r)
    | '#' :: r => do
      let (h, r') ← splitAt ';' r
      pure (.num (← strOfHex h), r')
    | 's' :: r => do
      let (h, r') ← splitAt ';' r
      pure (.str (← strOfHex h), r')
    | 'a' :: r => do
      let (c, r') ← splitAt ':' r
      let (l, r'') ← pList (← (String.ofList c).toNat?) r'
      pure (.arr l, r'')
    | 'o' :: r => do
      let (c, r') ← splitAt ':' r
      let (l, r'') ← pFields (← (String.ofList c).toNat?) r'
      pure (.obj l, r'')
    | _ => none
  partial def pList : Nat → List Char → Option (JList × List Char)
    | 0, r => some (.nil, r)
    | n + 1, r => do
      let (j, r') ← pJson r
      let (t, r'') ← pList n r'
      pure (.cons j t, r'')
  partial def pFields : Nat → List Char → Option (JFields × List Char)
    | 0, r => some (.nil, r)
    | n + 1, r => do
      let (h, r0) ← splitAt ';' r
      let k ← strOfHex h
      let (j, r') ← pJson r0
      let (t, r'') ← pFields n r'
      pure (.cons k j t, r'')
end

mutual
  def lenL : JList → Nat
    | .nil => 0
    | .cons _ t => 1 + lenL t
  def lenF : JFields → Nat
    | .nil => 0
    | .cons _ _ t => 1 + lenF t
end

mutual
  def eJson : Json → String
    | .null => "n"
    | .bool b => if b then "t" else "f"
    | .num t => "#" ++ hexOfStr t ++ ";"
    | .str t => "s" ++ hexOfStr t ++ ";"
    | .arr l => "a" ++ toString (lenL l) ++ ":" ++ eList l
    | .obj l => "o" ++ toString (lenF l) ++ ":" ++ eFields l
  def eList : JList → String
    | .nil => ""
    | .cons h t => eJson h ++ eList t
  def eFields : JFields → String
    | .nil => ""
    | .cons k v t => hexOfStr k ++ ";" ++ eJson v ++ eFields t
end

def bad : String := "BAD-REQUEST"

def doText (t : Str) : String :=
  let bytes := utf8Encode t
  let b64 := b64Encode bytes
  let back := b64Decode b64
  let txt := back.bind utf8Decode
  encBytes bytes ++ " " ++ encStr b64 ++ " " ++ encOptBytes back ++ " " ++ encOptStr txt

def doBytes (bytes : List Nat) : String :=
  let b64 := b64Encode bytes
  let back := b64Decode b64
  encStr b64 ++ " " ++ encOptBytes back ++ " " ++ encOptStr (utf8Decode bytes)

def doHex (s : Str) : String :=
  match hexEncodeCmd s with
  | none => "err"
  | some h => encStr h ++ " " ++ encOptStr (hexDecodeCmd h)

def doJson (doc : Json) : String :=
  let p := parseToStore doc
  let enc := match p.1 with
    | none => "-"
    | some v =>
      match encodeFromStore p.2 v with
      | .ok j => eJson j
      | .error _ => "err"
  let nrm := match norm doc with
    | some j => eJson j
    | none => "-"
  "J " ++ enc ++ " " ++ nrm

def errName : JsonText.JErr → String
  | .syntax => "ERR"
  | .float => "FLOAT"
  | .fuel => "FUEL"

def doJPrint (doc : Json) : String :=
  let text := JsonText.printJson doc
  let back := match JsonText.parseEncodeText text with
    | .error .syntax => "err-parse"
    | .error e => errName e
    | .ok none => "-"
    | .ok (some (.error _)) => "err"
    | .ok (some (.ok t)) => hexOfStr t
  "P " ++ hexOfStr text ++ " " ++ back

def doJParse (text : Str) : String :=
  match JsonText.parseJsonE text with
  | .ok j => "V " ++ eJson j
  | .error e => errName e

def handle (toks : List String) : Option String :=
  match toks with
  | ["e17text", t] => some (match decStr t with | some s => doText s | none => bad)
  | ["e17bytes", t] => some (match decBytes t with | some b => doBytes b | none => bad)
  | ["e17b64d", t] => some (match decStr t with | some s => encOptBytes (b64Decode s) | none => bad)
  | ["e17hex", t] => some (match decStr t with | some s => doHex s | none => bad)
  | ["e17hexd", t] => some (match decStr t with | some s => encOptStr (hexDecodeCmd s) | none => bad)
  | ["e17json", t] =>
    some (match pJson t.toList with
      | some (doc, []) => doJson doc
      | _ => bad)
  | ["e17jprint", t] =>
    some (match pJson t.toList with
      | some (doc, []) => doJPrint doc
      | _ => bad)
  | ["e17jparse", t] => some (match decStr t with | some s => doJParse s | none => bad)
  | ["e17props", t] => some (match decVars t with | some m => "ok " ++ encVars m | none => bad)
  | _ => none

end Duck.Drv.C17
