/-
  Driver handler for the source-run script commands: `srun <op> <op> …`
  Request encoding = the `coll` op of Drv/C12.lean (same ops, same `@k` references, same
  `__foreign:<tag>`); answer in the same format.  Difference: the script-implemented commands
  listed in `fromSource` are executed by `ScriptRun.runScriptCmd` - `AliasCommand::run` over the
  parse of the regenerated `script.ds` - instead of their specified function.  (`fromSource`: all
  nine collection scripts: the four loop-free ones of the theorems C12_script_*_correct and
  set_from_array, array_concat, map_contains_value, array_contains, array_join, whose for-in / if
  bodies - and calc / strlen / substring / is_empty inside them - the model runs too.)

  Running from source allocates the temporary `::arguments` array, so the model's counter no
  longer numbers the handles the way the harness renames the real ones (order of first appearance
  in an output).  The handler therefore renames too: a model handle is registered when it first
  occurs, live, in an output, and every output / table key / stored string is printed with the
  registered handles replaced by `handle:<rank>`.  A live handle that never appeared in an output
  is printed as `LEAKED-HANDLE:<value>` (as the harness does).  Variables: the handler keeps the
  variable map the harness keeps in the real `Context` - `a<k>_<j>` = the j-th literal argument of
  operation k, `o<k>` = its output (removed after `Continue(None)`, `false` after an error) -
  because a script body can READ them: `if not is_empty <separator>` of array_join re-parses the
  separator as script text, so a separator `%{o0}` or `${a0_0}` is expanded against the caller's
  variables.  A source-run command that changes the NUMBER of variables is reported as
  ` LEAKED-VARIABLES` (the harness counts them too).
-/
import DuckModel.Drv.C12
import DuckModel.Sdk.ScriptRun

namespace Duck.Drv.C12S
open Duck Duck.Wire Duck.Coll Duck.ScriptRun Duck.Drv.C12

def nameOfCmd : CollCmd → Option String
  | .arrayIsEmpty => some "array_is_empty"
  | .mapIsEmpty => some "map_is_empty"
  | .setIsEmpty => some "set_is_empty"
  | .mapContainsKey => some "map_contains_key"
  | .setFromArray => some "set_from_array"
  | .arrayConcat => some "array_concat"
  | .mapContainsValue => some "map_contains_value"
  | .arrayContains => some "array_contains"
  | .arrayJoin => some "array_join"
  | _ => none

/-- the script commands run from source -/
def fromSource (c : CollCmd) : Option Str := (nameOfCmd c).map String.toList

/-! ### renaming by first appearance -/

def isDigit (c : Char) : Bool := '0' ≤ c && c ≤ '9'

/-- the longest non-empty digit prefix `p` of `l` such that `ok (handle:p)`; with the rest -/
def longestHandle (ok : Str → Bool) (l : Str) : Option (Str × Str) :=
  let ds := l.takeWhile isDigit
  let rec go : Nat → Option (Str × Str)
    | 0 => none
    | n + 1 =>
      let p := ds.take (n + 1)
      if ok (handlePrefix ++ p) then some (handlePrefix ++ p, l.drop (n + 1)) else go n
  go ds.length

/-- scan `text` for handles accepted by `ok`; `f` is applied to each occurrence -/
def scan (ok : Str → Bool) (f : Str → Str) : Nat → Str → Str
  | 0, t => t
  | _, [] => []
  | fuel + 1, c :: r =>
    if handlePrefix.isPrefixOf (c :: r) then
      match longestHandle ok ((c :: r).drop handlePrefix.length) with
      | some (h, rest) => f h ++ scan ok f fuel rest
      | none => c :: scan ok f fuel r
    else c :: scan ok f fuel r

/-- occurrences (in order) of handles accepted by `ok` -/
def occurrences (ok : Str → Bool) : Nat → Str → List Str
  | 0, _ => []
  | _, [] => []
  | fuel + 1, c :: r =>
    if handlePrefix.isPrefixOf (c :: r) then
      match longestHandle ok ((c :: r).drop handlePrefix.length) with
      | some (h, rest) => h :: occurrences ok fuel rest
      | none => occurrences ok fuel r
    else occurrences ok fuel r

/-- does some occurrence of `handle:` in `s` admit TWO readings (`handle:1` followed by `0…` and
    `handle:10…`, both live)?  The model's handles are numbered by allocation, the harness renames
    the real random handles by first appearance: translating one numbering into the other inside a
    text is only possible when every occurrence has one reading.  Such a request gets no verdict. -/
def ambiguousAt (ok : Str → Bool) (l : Str) : Bool :=
  let ds := l.takeWhile isDigit
  ((List.range ds.length).filter fun n => ok (handlePrefix ++ ds.take (n + 1))).length ≥ 2

def ambiguous (ok : Str → Bool) : Nat → Str → Bool
  | 0, _ => false
  | _, [] => false
  | fuel + 1, c :: r =>
    (handlePrefix.isPrefixOf (c :: r) && ambiguousAt ok ((c :: r).drop handlePrefix.length)) || ambiguous ok fuel r

/-- handles are printed under the model's own names (the harness names the real handles after
    them, operation by operation); a handle counts as revealed when it was the WHOLE output of an
    operation -/
def see (names : List Str) (t : Table) (out : Str) : List Str :=
  if (tget t out).isSome && !names.contains out then names ++ [out] else names

def rankOf (names : List Str) (h : Str) : Nat := (names.takeWhile (· ≠ h)).length + 1

def rename (_names : List Str) (s : Str) : Str := s

/-! ### running -/

inductive Out
  | res (r : Res)
  | crash
  | other

structure Run where
  st : ScriptSt := {}
  /-- raw results (for `@k`) -/
  raw : Array Res := #[]
  /-- printed outputs -/
  outs : Array String := #[]
  names : List Str := []
  leakedVars : Bool := false
  /-- keys the embedder chose itself (`__foreignlist`): printed as they are -/
  custom : List Str := []
  /-- an output in which a handle occurrence has two readings was seen -/
  ambig : Bool := false
  /-- the caller's variables (`a<k>_<j>`, `o<k>`) -/
  vars : Vars := []

def pushVal (r : Run) (st : ScriptSt) (o : Option Str) : Run :=
  match o with
  | some v =>
    let names := see r.names st.coll.tbl v
    let amb := false
    { r with st := st, raw := r.raw.push (.val (some v)), outs := r.outs.push (encStr (rename names v)), names := names,
             ambig := r.ambig || amb }
  | none => { r with st := st, raw := r.raw.push (.val none), outs := r.outs.push "-" }

def outVar (k : Nat) : Str := 'o' :: (toString k).toList
def argVar (k j : Nat) : Str := 'a' :: (toString k).toList ++ '_' :: (toString j).toList

/-- the literal arguments of operation `k` as the harness stores them before the call -/
def bindArgs (k : Nat) : Nat → List Arg → Vars → Vars
  | _, [], vars => vars
  | j, .lit v :: rest, vars => bindArgs k (j + 1) rest (vars.set (argVar k j) v)
  | j, .ref _ :: rest, vars => bindArgs k (j + 1) rest vars

/-- the output variable of operation `k` after the call -/
def bindOut (k : Nat) (out : String) (raw : Option Res) (vars : Vars) : Vars :=
  match raw with
  | some (.val (some v)) => vars.set (outVar k) v
  | some (.val none) => vars.erase (outVar k)
  | some .err => if out == "?" then vars else vars.set (outVar k) sFalse
  | none => vars

def stepCore (r : Run) : DOp → Run
  | .foreign tag =>
    let (c', h) := putHandle r.st.coll (.other tag)
    pushVal r { r.st with coll := c' } (some h)
  | .foreignList key =>
    let st' : ScriptSt := { r.st with coll := { r.st.coll with tbl := tinsert r.st.coll.tbl key Duck.Drv.C12.foreignListValue } }
    { r with st := st', raw := r.raw.push (.val (some key)), outs := r.outs.push (encStr key), custom := key :: r.custom }
  | .cmd c a =>
    let args := a.map (resolve r.raw)
    let r := { r with vars := bindArgs r.raw.size 0 a r.vars }
    match fromSource c with
    | some name =>
      let (res, vars', st') := runScriptCmd name args r.vars r.st
      let r := { r with leakedVars := r.leakedVars || vars'.length != r.vars.length, vars := vars' }
      match res with
      | .continue o => pushVal r st' o
      | .error _ => { r with st := st', raw := r.raw.push .err, outs := r.outs.push "E" }
      | .crash _ => { r with st := st', raw := r.raw.push .err, outs := r.outs.push "X" }
      | _ => { r with st := st', raw := r.raw.push .err, outs := r.outs.push "?" }
    | none =>
      let (c', res) := exec r.st.coll c args
      match res with
      | .val o => pushVal r { r.st with coll := c' } o
      | .err => { r with st := { r.st with coll := c' }, raw := r.raw.push .err, outs := r.outs.push "E" }

def step (r : Run) (op : DOp) : Run :=
  let k := r.raw.size
  let r' := stepCore r op
  { r' with vars := bindOut k (r'.outs[k]?.getD "") r'.raw[k]? r'.vars }

def encItemR (names : List Str) : Item → String
  | .str s => encStr (rename names s)
  | .num i => "n" ++ (encStr (toString i).toList).drop 1

def encValueR (names : List Str) : Value → String
  | .list l => "L[" ++ ",".intercalate (l.map (encItemR names)) ++ "]"
  | .map m => "M[" ++ ",".intercalate (sortStrings (m.map fun (k, v) => encStr (rename names k) ++ ">" ++ encItemR names v)) ++ "]"
  | .set s => "S[" ++ ",".intercalate (sortStrings (s.map fun x => encStr (rename names x))) ++ "]"
  | .other t => "O" ++ toString t

def encTableR (names custom : List Str) (t : Table) : String :=
  if t.isEmpty then "-" else
  ";".intercalate (sortStrings (t.map fun (h, v) =>
    let key := if names.contains h then rename names h else if custom.contains h then h
               else "LEAKED-HANDLE:".toList ++ (encValueR names v).toList
    encStr key ++ "=" ++ encValueR names v))

def handle (toks : List String) : Option String :=
  match toks with
  | "srun" :: ops =>
    match (ops.filter (· ≠ "")).mapM decOp with
    | none => some "BAD-REQUEST"
    | some l =>
      let r := l.foldl step {}
      if r.ambig then some "AMBIGUOUS-HANDLE-TEXT" else
      some ((if r.outs.isEmpty then "-" else ",".intercalate r.outs.toList) ++ " " ++ encTableR r.names r.custom r.st.coll.tbl
        ++ (if r.leakedVars then " LEAKED-VARIABLES" else ""))
  | _ => none

end Duck.Drv.C12S
