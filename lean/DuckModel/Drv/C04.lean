/-
  Driver handler for C04 / C05: structured programs.
  request: `c04 <tree> <vars> <fuel>`; tree = `;`-separated prefix encoding
    Block  := B<n> Stmt*n
    Stmt   := L out cmd args
            | I kwIf cond Block E<k> (kw cond Block)*k X(-|kwElse) [Block] kwEnd
            | W kw cond Block kwEnd
            | F kw var handle Block kwEnd
            | D kw (0|1) name Block kwEnd
            | R kw (-|value)
  response: `T<script text> M:<model outcome> S:<spec outcome>`
-/
import DuckModel.Wire
import DuckModel.Spec.Tree
import DuckModel.Spec.StrictEnd
import DuckModel.Spec.Render
import DuckModel.Sdk.FlowHalt

namespace Duck.Drv.C04
open Duck Duck.Wire Duck.Spec

def decKw (t : String) : Option Str := decStr t

mutual
  partial def decStmt (ts : List String) : Option (Stmt × List String) :=
    match ts with
    | "L" :: out :: cmd :: args :: rest => do
      pure (.line { out := (← decOpt out), cmd := (← decStr cmd), args := (← decList args) }, rest)
    | "I" :: kw :: cond :: rest => do
      let kw ← decStr kw
      let cond ← decList cond
      let (body, rest) ← decBlock rest
      match rest with
      | e :: rest =>
        let k ← (e.drop 1).toString.toNat?
        let (elifs, rest) ← decElifs k rest
        match rest with
        | x :: rest =>
          if x = "X-" then
            match rest with
            | kwEnd :: rest => pure (.ifChain kw cond body elifs none .nil (← decStr kwEnd), rest)
            | _ => none
          else
            let kwElse ← decStr (x.drop 1).toString
            let (eb, rest) ← decBlock rest
            match rest with
            | kwEnd :: rest => pure (.ifChain kw cond body elifs (some kwElse) eb (← decStr kwEnd), rest)
            | _ => none
        | _ => none
      | _ => none
    | "W" :: kw :: cond :: rest => do
      let (body, rest) ← decBlock rest
      match rest with
      | kwEnd :: rest => pure (.whileLoop (← decStr kw) (← decList cond) body (← decStr kwEnd), rest)
      | _ => none
    | "F" :: kw :: v :: h :: rest => do
      let (body, rest) ← decBlock rest
      match rest with
      | kwEnd :: rest => pure (.forIn (← decStr kw) (← decStr v) (← decStr h) body (← decStr kwEnd), rest)
      | _ => none
    | "D" :: kw :: sc :: name :: rest => do
      let (body, rest) ← decBlock rest
      match rest with
      | kwEnd :: rest => pure (.fnDef (← decStr kw) (sc == "1") (← decStr name) body (← decStr kwEnd), rest)
      | _ => none
    | "R" :: kw :: v :: rest => do
      pure (.ret (← decStr kw) (← decOpt v), rest)
    | _ => none
  partial def decBlock (ts : List String) : Option (Block × List String) :=
    match ts with
    | b :: rest =>
      if b.startsWith "B" then do
        let n ← (b.drop 1).toString.toNat?
        decStmts n rest
      else none
    | _ => none
  partial def decStmts (n : Nat) (ts : List String) : Option (Block × List String) :=
    match n with
    | 0 => some (.nil, ts)
    | n + 1 => do
      let (s, rest) ← decStmt ts
      let (b, rest) ← decStmts n rest
      pure (.cons s b, rest)
  partial def decElifs (k : Nat) (ts : List String) : Option (Elifs × List String) :=
    match k with
    | 0 => some (.nil, ts)
    | k + 1 =>
      match ts with
      | kw :: cond :: rest => do
        let (body, rest) ← decBlock rest
        let (more, rest) ← decElifs k rest
        pure (.cons (← decStr kw) (← decList cond) body more, rest)
      | _ => none
end

/-- values that are collection handles are printed as `handle:*` on both sides -/
def canonVal (v : Str) : Str :=
  if "handle:".toList.isPrefixOf v then "handle:*".toList else v

def encEmitted (e : List (List Str)) : String :=
  ";".intercalate (e.map fun l => encList (l.map canonVal))

def encOutcomeVars (vars : Vars) (sdk : Sdk) : String :=
  -- HANDLES = number of live collection handles in the state the run hands back
  "ok VARS " ++ encVars (vars.map fun (k, v) => (k, canonVal v)) ++ " EMIT " ++ encEmitted sdk.emitted ++
    " HANDLES " ++ toString sdk.handles.length

def scriptText (b : Block) : Str :=
  -- one rendered line per instruction (default rendering choices), LF-terminated
  (b.flatten.flatMap fun si =>
    renderLine { args := (si.args.getD []).map fun _ => (0, false) } si ++ ['\n'])

/-- `c04` : structured tree (goto machine + tree interpreter);
    `c13s` : a structured tree run by the halt-aware goto machine (`interpRunH`);
    `c04raw` : the same encoding used for an arbitrary sequence of lines (keyword probes that
    are not well-nested trees): only the goto machine runs, the spec column is `fuel` (= no
    verdict from the tree interpreter) -/
def handle (toks : List String) : Option String :=
  match toks with
  | [op, tree, vars, fuel] =>
    if op != "c04" && op != "c04raw" && op != "c13s" then none else
    match decBlock (tree.splitOn ";"), decVars vars, fuel.toNat? with
    | some (b, []), some vars, some fuel =>
      let text := scriptText b
      let model :=
        match parseText text with
        | .error _ => "parse-error"
        | .ok is =>
          -- `c13s`: the halt flag may be raised from inside (`emit __halt__`), see Sdk/FlowHalt.lean
          match (if op == "c13s" then interpRunH fuel is vars {} else interpRun fuel is vars {}) with
          | (rs, .reachedEnd) => encOutcomeVars rs.vars rs.st
          | (rs, .exitCalled) => encOutcomeVars rs.vars rs.st
          | (rs, .halted) => encOutcomeVars rs.vars rs.st
          | (_, .fail _ mi) => "fail " ++ encOptNat mi.line
          | (_, .outOfFuel) => "fuel"
      let spec :=
        if op == "c04raw" || op == "c13s" then "fuel" else
        match runTree fuel b vars with
        | .normal t => encOutcomeVars t.vars t.sdk
        | .returning _ t => encOutcomeVars t.vars t.sdk
        | .failed => "fail"
        | .outOfFuel => "fuel"
      -- C05: the literal reading of "ends without a value => output variable undefined"
      -- (Spec/StrictEnd.lean); printed only where it differs from the tree interpretation
      let spec2 :=
        if op != "c04" then spec else
        match runTree fuel b.strictEnds vars with
        | .normal t => encOutcomeVars t.vars t.sdk
        | .returning _ t => encOutcomeVars t.vars t.sdk
        | _ => spec
      let s2 := if spec2 == spec || spec == "fail" || spec == "fuel" then "" else " S2:" ++ spec2.replace " " "_"
      some ("T" ++ encStr text ++ " M:" ++ model.replace " " "_" ++ " S:" ++ spec.replace " " "_" ++ s2)
    | _, _, _ => some "BAD-REQUEST"
  | _ => none

end Duck.Drv.C04
