/-
  C17 — the java-properties round trip: `map_to_properties` / `map_load_properties`.

  Rust sources mirrored here
  * `duckscript_sdk/src/sdk/std/collections/map_to_properties/mod.rs`: the map's entries are
    copied into a `HashMap<String,String>` (no sorting: the writer sees them in that map's
    iteration order — the model takes the order of the list it is given), written with
    `java_properties::write` into a `Vec<u8>`, the bytes are read back with `str::from_utf8`
    (error ⇒ the command fails) and the text is `trim`med (`str::trim`, Unicode white space);
  * `map_load_properties/mod.rs`: `java_properties::read(text.as_bytes())`, every pair is
    `insert`ed into the target map (later pairs replace earlier ones);
  * crate `java-properties` 2.0.0 (`src/lib.rs`):
    - `PropertiesWriter::write_escaped` (the escapes of keys and values), separator `=`, line
      ending LF, `EncodingWriter::write` over the `encoding_rs` windows-1252 encoder: a character
      the encoding cannot express is written as `\u` + `format!("{:x}")` — NOT padded to four
      digits — and that escape is written ONCE into whatever room the 256-byte buffer has left
      (an `OutputFull` of the escape only reserves more room, the rest of the escape is lost);
    - `DecodeIter` (windows-1252 decoder WITH BOM sniffing: a text starting with U+FEFF is taken
      as UTF-8), `NaturalLines` (CR, LF, CRLF), `LogicalLines` (comment lines, continuation lines
      with an odd number of trailing backslashes, `str::trim_start` of the continuation; a
      continuation still pending at the end of the input is DROPPED), `LINE_RE`/`parse_line`
      (key, separators `=` `:` white space, value, comments), `unescape`
      (`\t \n \f \r \uXXXX`, any other `\c` is `c`, a dangling backslash is NUL).

  The optional `--prefix` argument of both commands is not modelled.
  Bytes are `Nat`s below 256.  Core Lean only (linked into the `driver` executable).
-/
import DuckModel.Chars
import DuckModel.Types
import DuckModel.Sdk.Utf8
import DuckModel.Sdk.Utf8Decode

namespace Duck.JProps

/-- error classes: `utf8` = `str::from_utf8` of the written bytes failed (map_to_properties),
    `escape` = a `PropertiesError` of the reader ("Malformed \uxxxx encoding") -/
inductive PropsErr
  | utf8
  | escape
deriving DecidableEq, Repr, Inhabited

abbrev Entries := List (Str × Str)

/-! ## windows-1252 (the WHATWG index used by `encoding_rs`) -/

/-- code points of the bytes 0x80 … 0x9F -/
def cp1252High : List Nat := [
  0x20AC, 0x0081, 0x201A, 0x0192, 0x201E, 0x2026, 0x2020, 0x2021,
  0x02C6, 0x2030, 0x0160, 0x2039, 0x0152, 0x008D, 0x017D, 0x008F,
  0x0090, 0x2018, 0x2019, 0x201C, 0x201D, 0x2022, 0x2013, 0x2014,
  0x02DC, 0x2122, 0x0161, 0x203A, 0x0153, 0x009D, 0x017E, 0x0178]

def indexOf (n : Nat) : List Nat → Nat
  | [] => 0
  | x :: r => if x = n then 0 else indexOf n r + 1

/-- decoder: one byte → one character -/
def cp1252Decode (b : Nat) : Char :=
  if b < 0x80 then Char.ofNat b
  else if b < 0xA0 then Char.ofNat (cp1252High.getD (b - 0x80) 0xFFFD)
  else Char.ofNat b

/-- encoder: `none` = `EncoderResult::Unmappable` -/
def cp1252Encode (c : Char) : Option Nat :=
  let n := c.toNat
  if n < 0x80 then some n
  else if 0xA0 ≤ n ∧ n < 0x100 then some n
  else if cp1252High.contains n then some (0x80 + indexOf n cp1252High)
  else none

/-! ## writer -/

def hexDigitLower (d : Nat) : Char :=
  if d < 10 then Char.ofNat (48 + d) else Char.ofNat (87 + d)

def hexLowerAux : Nat → Nat → Str → Str
  | 0, _, acc => acc
  | fuel + 1, n, acc =>
    if n < 16 then hexDigitLower n :: acc
    else hexLowerAux fuel (n / 16) (hexDigitLower (n % 16) :: acc)

/-- `format!("{:x}", n)` (no padding); enough fuel for every scalar value -/
def hexLower (n : Nat) : Str := hexLowerAux 8 n []

/-- `format!("\\u{:x}", c)` -/
def uEscape (n : Nat) : Str := '\\' :: 'u' :: hexLower n

/-- one character of `PropertiesWriter::write_escaped` -/
def escapeChar (c : Char) : Str :=
  if c = '\\' then ['\\', '\\']
  else if c = ' ' then ['\\', ' ']
  else if c = '\t' then ['\\', 't']
  else if c = '\r' then ['\\', 'r']
  else if c = '\n' then ['\\', 'n']
  else if c = '\x0c' then ['\\', 'f']
  else if c = ':' then ['\\', ':']
  else if c = '=' then ['\\', '=']
  else if c = '!' then ['\\', '!']
  else if c = '#' then ['\\', '#']
  else if c.toNat < 0x20 then uEscape c.toNat
  else [c]

def escapeText (s : Str) : Str := s.flatMap escapeChar

/-- `EncodingWriter::write(data)` from the state (capacity `cap` of the buffer, `len` bytes
    already in it): returns the capacity afterwards and the bytes appended.

    Per character: a full buffer first gives `OutputFull` ⇒ `reserve(2·cap)` (new capacity
    `len + 2·cap`).  A character of the encoding is one byte.  An unmappable character is
    replaced by its `\u` escape, of which only `min(room, length)` bytes arrive; if it did not
    fit, the buffer is full and `reserve(2·cap)` follows, but the escape is not resumed. -/
def encGo : Nat → Nat → Str → Nat × List Nat
  | cap, _, [] => (cap, [])
  | cap, len, c :: rest =>
    let cap1 := if len = cap then len + 2 * cap else cap
    match cp1252Encode c with
    | some b =>
      let r := encGo cap1 (len + 1) rest
      (r.1, b :: r.2)
    | none =>
      let esc := (uEscape c.toNat).map Char.toNat
      let w := min (cap1 - len) esc.length
      let cap2 := if w < esc.length then (len + w) + 2 * cap1 else cap1
      let r := encGo cap2 (len + w) rest
      (r.1, esc.take w ++ r.2)

/-- one `EncodingWriter::write` call (the buffer is flushed and cleared at its end; its
    capacity stays) -/
def encWrite (cap : Nat) (data : Str) : Nat × List Nat := encGo cap 0 data

/-- `PropertiesWriter::write(key, value)` -/
def writeEntry (cap : Nat) (k v : Str) : Nat × List Nat :=
  let r1 := encWrite cap (escapeText k)
  let r2 := encWrite r1.1 ['=']
  let r3 := encWrite r2.1 (escapeText v)
  let r4 := encWrite r3.1 ['\n']
  (r4.1, r1.2 ++ r2.2 ++ r3.2 ++ r4.2)

def writeAll : Nat → Entries → List Nat
  | _, [] => []
  | cap, e :: rest =>
    let r := writeEntry cap e.1 e.2
    r.2 ++ writeAll r.1 rest

/-- `java_properties::write(&mut buffer, &properties)`: the bytes in the `Vec<u8>`
    (`Vec::with_capacity(256)` for the encoder's buffer) -/
def writeBytes (m : Entries) : List Nat := writeAll 256 m

/-- `map_to_properties`: `str::from_utf8(&buffer)` then `trim` -/
def writeProps (m : Entries) : Except PropsErr Str :=
  match utf8Decode (writeBytes m) with
  | none => .error .utf8
  | some t => .ok (trim t)

/-! ## reader -/

/-- `DecodeIter` over `text.as_bytes()`: the windows-1252 decoder is created with BOM sniffing,
    so a leading U+FEFF switches to UTF-8 (and is removed); otherwise every byte of the UTF-8
    form of the text becomes one character -/
def decodeInput (text : Str) : Str :=
  match text with
  | c :: rest => if c.toNat = 0xFEFF then rest else (utf8Encode text).map cp1252Decode
  | [] => []

/-- `NaturalLines`: split at CR, LF, CRLF; the piece before the end of the input is always
    produced (also when empty).  `afterCr`: the previous character was CR (a LF is swallowed). -/
def natLines : Bool → Str → Str → List Str
  | _, acc, [] => [acc]
  | afterCr, acc, c :: rest =>
    if c = '\n' ∧ afterCr = true then natLines false acc rest
    else if c = '\r' then acc :: natLines true [] rest
    else if c = '\n' then acc :: natLines false [] rest
    else natLines false (acc ++ [c]) rest

/-- the white space of the format: `[\x20\t\r\n\x0c]` -/
def isW (c : Char) : Bool :=
  c = ' ' || c = '\t' || c = '\r' || c = '\n' || c = '\x0c'

/-- `COMMENT_RE = ^[ \t\r\n\x0c]*[#!]` -/
def isCommentLine (l : Str) : Bool :=
  match l.dropWhile isW with
  | c :: _ => c = '#' || c = '!'
  | [] => false

/-- `count_ending_backslashes` -/
def countEndBs (l : Str) : Nat := l.foldl (fun n c => if c = '\\' then n + 1 else 0) 0

/-- `LogicalLines`: `cur = none` ⇔ `first`; otherwise the buffer so far.  When the natural
    lines run out while a continuation is pending, the buffer is dropped. -/
def logicalLines : List Str → Option Str → List Str
  | [], _ => []
  | line :: rest, cur =>
    let buf := match cur with
      | none => line
      | some b => b ++ trimStart line
    if cur.isNone && isCommentLine line then buf :: logicalLines rest none
    else if countEndBs line % 2 = 1 then logicalLines rest (some buf.dropLast)
    else buf :: logicalLines rest none

inductive Parsed
  | comment (text : Str)
  | pair (key value : Str)
deriving DecidableEq, Repr

/-- the key loop of `LINE_RE`: `(?:[^\\:=\x20\t\r\n\x0c]|\\.)*` (greedy) -/
def spanKey : Str → Str × Str
  | [] => ([], [])
  | c :: rest =>
    if c = '\\' then
      match rest with
      | [] => ([], [c])
      | e :: rest' =>
        let r := spanKey rest'
        (c :: e :: r.1, r.2)
    else if c = ':' ∨ c = '=' ∨ isW c = true then ([], c :: rest)
    else
      let r := spanKey rest
      (c :: r.1, r.2)

/-- strip `[\x20\t\r\n\x0c]*` at the end -/
def trimEndW (l : Str) : Str := (l.reverse.dropWhile isW).reverse

/-- `parse_line` (the leftmost-first match of `LINE_RE`):
    leading white space; `#`/`!` ⇒ comment (white space around the text removed); otherwise key,
    then `ws* [:=] ws*` or `ws+`, then the value = everything that is left; a lone backslash at
    the very end after the key belongs to the key; an empty line is nothing -/
def parseLine (l : Str) : Option Parsed :=
  match l.dropWhile isW with
  | [] => none
  | c :: rest =>
    if c = '#' ∨ c = '!' then some (.comment (trimEndW (rest.dropWhile isW)))
    else
      let kr := spanKey (c :: rest)
      match kr.2 with
      | [] => if kr.1.isEmpty then none else some (.pair kr.1 [])
      | ['\\'] => some (.pair (kr.1 ++ ['\\']) [])
      | r =>
        match r.dropWhile isW with
        | [] => some (.pair kr.1 [])
        | d :: r2 =>
          if d = ':' ∨ d = '=' then some (.pair kr.1 (r2.dropWhile isW))
          else some (.pair kr.1 (d :: r2))

/-- `char::to_digit(16)` -/
def hexDigitVal (c : Char) : Option Nat :=
  let n := c.toNat
  if 48 ≤ n ∧ n ≤ 57 then some (n - 48)
  else if 97 ≤ n ∧ n ≤ 102 then some (n - 87)
  else if 65 ≤ n ∧ n ≤ 70 then some (n - 55)
  else none

def hexDigitsVal : Str → Nat → Option Nat
  | [], acc => some acc
  | c :: r, acc =>
    match hexDigitVal c with
    | some d => hexDigitsVal r (acc * 16 + d)
    | none => none

/-- `u16::from_str_radix(tmp, 16)` for the four characters collected after `\u`:
    an optional leading `+` is accepted by Rust's integer parser -/
def parseHex4 (a b c d : Char) : Option Nat :=
  if a = '+' then hexDigitsVal [b, c, d] 0 else hexDigitsVal [a, b, c, d] 0

/-- `char::from_u32` of a `u16` -/
def charOfU16 (n : Nat) : Option Char :=
  if 0xD800 ≤ n ∧ n ≤ 0xDFFF then none else some (Char.ofNat n)

def unescapeLetter (e : Char) : Char :=
  if e = 't' then '\t' else if e = 'n' then '\n' else if e = 'f' then '\x0c'
  else if e = 'r' then '\r' else e

/-- `unescape` -/
def unescape : Str → Except PropsErr Str
  | [] => .ok []
  | c :: rest =>
    if c = '\\' then
      match rest with
      | [] => .ok ['\x00']
      | e :: rest' =>
        if e = 'u' then
          match rest' with
          | a :: b :: c2 :: d :: rest'' =>
            match parseHex4 a b c2 d with
            | none => .error .escape
            | some v =>
              match charOfU16 v with
              | none => .error .escape
              | some ch =>
                match unescape rest'' with
                | .ok t => .ok (ch :: t)
                | .error x => .error x
          | _ => .error .escape
        else
          match unescape rest' with
          | .ok t => .ok (unescapeLetter e :: t)
          | .error x => .error x
    else
      match unescape rest with
      | .ok t => .ok (c :: t)
      | .error x => .error x

/-- `PropertiesIter` + `read_into`: the pairs in file order; comments are unescaped too (an
    escape error in a comment fails the whole read); the first error ends the read -/
def readLines : List Str → Except PropsErr Entries
  | [] => .ok []
  | l :: rest =>
    match parseLine l with
    | none => readLines rest
    | some (.comment t) =>
      match unescape t with
      | .error x => .error x
      | .ok _ => readLines rest
    | some (.pair k v) =>
      match unescape k with
      | .error x => .error x
      | .ok k' =>
        match unescape v with
        | .error x => .error x
        | .ok v' =>
          match readLines rest with
          | .error x => .error x
          | .ok es => .ok ((k', v') :: es)

/-- `java_properties::read(text.as_bytes())` before the pairs go into the hash map -/
def loadProps (text : Str) : Except PropsErr Entries :=
  readLines (logicalLines (natLines false [] (decodeInput text)) none)

/-- `HashMap::insert` on an association list -/
def insertKV : Entries → Str → Str → Entries
  | [], k, v => [(k, v)]
  | (k', v') :: r, k, v => if k' = k then (k, v) :: r else (k', v') :: insertKV r k v

/-- inserting the pairs in order (`read` into its own map, then `map_load_properties` into the
    target map): later pairs win -/
def insertAll (m : Entries) (l : Entries) : Entries := l.foldl (fun acc e => insertKV acc e.1 e.2) m

def toMap (l : Entries) : Entries := insertAll [] l

/-- `map_to_properties` then `map_load_properties` into an empty map -/
def roundTrip (m : Entries) : Except PropsErr Entries :=
  match writeProps m with
  | .error e => .error e
  | .ok t => loadProps t

/-! ## the input classes of the round-trip theorem (not used by the model itself) -/

/-- TAB, LF, FF, CR and U+0020 … U+007F: written as themselves or as a two-character escape -/
def safeAsciiChar (c : Char) : Bool :=
  let n := c.toNat
  n = 9 || n = 10 || n = 12 || n = 13 || (0x20 ≤ n && n ≤ 0x7F)

/-- U+1000 … U+FFFF outside windows-1252: written as `\u` + exactly four digits -/
def safeBmpChar (c : Char) : Bool :=
  let n := c.toNat
  0x1000 ≤ n && n ≤ 0xFFFF && !cp1252High.contains n

/-- the characters for which writer and reader agree -/
def safeChar (c : Char) : Bool := safeAsciiChar c || safeBmpChar c

/-- the number of bytes `EncodingWriter::write` wants to put into its buffer for `data` -/
def encLen : Str → Nat
  | [] => 0
  | c :: rest =>
    (match cp1252Encode c with
     | some _ => 1
     | none => (uEscape c.toNat).length) + encLen rest

/-- no `\u` escape is cut at the end of the writer's buffer: the text needs no such escape, or
    its escaped form fits into the initial 256 bytes -/
def fitsBuffer (s : Str) : Bool := s.all safeAsciiChar || decide (encLen (escapeText s) ≤ 256)

def safeText (s : Str) : Bool := s.all safeChar && fitsBuffer s

def safeEntries (m : Entries) : Bool := m.all fun e => safeText e.1 && safeText e.2

/-- the value written last does not end in a blank (`trim` of the whole text would cut it) -/
def lastValueOk (m : Entries) : Bool :=
  match m.getLast? with
  | none => true
  | some e => e.2.getLast? != some ' '

end Duck.JProps
