/-
  C17 — `str::from_utf8` (used by `bytes_to_string`): validation + decoding of a byte list.
  Accept set = the Unicode definition of well-formed UTF-8 (Table 3-7), which is what
  `core::str::from_utf8` implements: no stray continuation bytes, no overlong forms, no
  surrogates, nothing above U+10FFFF, no truncated sequence.
-/
import DuckModel.Sdk.Utf8

namespace Duck

def validScalar (n : Nat) : Bool := n < 0xD800 || (0xDFFF < n && n < 0x110000)

/-- decode one scalar from the front of the bytes; `none` = `Utf8Error` -/
def utf8DecodeOne : Bytes → Option (Char × Bytes)
  | [] => none
  | b0 :: rest =>
    if b0 < 0x80 then some (Char.ofNat b0, rest)
    else if b0 < 0xC0 then none
    else if b0 < 0xE0 then
      match rest with
      | b1 :: r =>
        let n := (b0 - 0xC0) * 64 + (b1 - 0x80)
        if isCont b1 && decide (0x80 ≤ n) then some (Char.ofNat n, r) else none
      | _ => none
    else if b0 < 0xF0 then
      match rest with
      | b1 :: b2 :: r =>
        let n := (b0 - 0xE0) * 4096 + (b1 - 0x80) * 64 + (b2 - 0x80)
        if isCont b1 && isCont b2 && decide (0x800 ≤ n) && validScalar n then some (Char.ofNat n, r)
        else none
      | _ => none
    else if b0 < 0xF8 then
      match rest with
      | b1 :: b2 :: b3 :: r =>
        let n := (b0 - 0xF0) * 262144 + (b1 - 0x80) * 4096 + (b2 - 0x80) * 64 + (b3 - 0x80)
        if isCont b1 && isCont b2 && isCont b3 && decide (0x10000 ≤ n) && decide (n < 0x110000) then
          some (Char.ofNat n, r)
        else none
      | _ => none
    else none

/-- every successful step consumes at least one byte, so `fuel = length` is enough -/
def utf8DecodeLoop : Nat → Bytes → Option (List Char)
  | _, [] => some []
  | 0, _ :: _ => none
  | fuel + 1, b :: bs =>
    match utf8DecodeOne (b :: bs) with
    | none => none
    | some (c, rest) =>
      match utf8DecodeLoop fuel rest with
      | none => none
      | some cs => some (c :: cs)

/-- `str::from_utf8(bytes).map(str::to_string)` -/
def utf8Decode (bs : Bytes) : Option (List Char) := utf8DecodeLoop bs.length bs

end Duck
