/-
  The SDK interpreter with the embedder's halt flag raised FROM INSIDE a script (C13 over
  programs that use the flow-control commands, including command conditions and functions
  called in condition position, which run in the NESTED evaluator `eval_instructions`).

  The flag is not a new piece of state: the harness command `emit` raises the real flag when
  its arguments are exactly `__halt__`, and it records its arguments as always — so "the flag
  has been raised" is the predicate `haltSeen` on the emit trace (the trace only grows, hence
  the flag, once seen, stays seen, like the real `AtomicBool` that nobody resets).

  * the top-level runner polls the flag at the top of every iteration (`Runner.runStep`, the
    oracle is `haltSeen` on the current SDK state);
  * the nested evaluator polls it at the top of every iteration as well (duckscript_sdk/src/
    utils/eval.rs `eval_instructions`, since the repair F9) and then just stops, handing back
    what it has: `(None, flow_output)`.

  `evalInstrsH` is `Flow.evalInstrsF` plus that poll; everything else (`runCmd`, `sdkSem`,
  `run`) is shared with the model used by C04 / C05 / C09.
-/
import DuckModel.Sdk.Flow

namespace Duck

def haltWord : List Str := ["__halt__".toList]

/-- the flag as seen by a poll: some `emit __halt__` has run -/
def haltSeen (s : Sdk) : Bool := s.emitted.any (fun l => l == haltWord)

/-- `eval_instructions` with its halt poll -/
def evalInstrsH : Nat → EvalFn
  | 0 => fun _ _ vars s => (some (.crash "fuel".toList), none, vars, s)
  | fuel + 1 => fun is line vars s => go fuel (evalInstrsH fuel) (fuel + 1) is line vars s none
where
  go (fuel : Nat) (nested : EvalFn) : Nat → List Instruction → Nat → Vars → Sdk → Option Str →
      Option CmdResult × Option Str × Vars × Sdk
    | 0, _, _, vars, s, _ => (some (.crash "fuel".toList), none, vars, s)
    | n + 1, is, line, vars, s, flowOut =>
      if haltSeen s then (none, flowOut, vars, s) else
      match is[line]? with
      | none => (none, flowOut, vars, s)
      | some instr =>
        match instr.ty with
        | .script si =>
          let (r, _, vars, s) := runInstruction (sdkSem nested is) vars s instr line
          match r with
          | .exit v => (some (.exit v), flowOut, vars, s)
          | .error e => (some (.error e), flowOut, vars, s)
          | .crash e => (some (.crash e), flowOut, vars, s)
          | .goTo v g =>
            match g with
            | .label _ => (some (.error []), v, vars, s)
            | .line l => go fuel nested n is l vars s v
          | .continue v =>
            let vars :=
              match si.output with
              | some o => (match v with | some x => vars.set o x | none => vars.erase o)
              | none => vars
            go fuel nested n is (line + 1) vars s v
        | _ => go fuel nested n is (line + 1) vars s flowOut

/-- `run_script` with the SDK commands and the flag raised from inside -/
def interpRunH (fuel : Nat) (is : List Instruction) (vars : Vars) (s : Sdk) : RunState Sdk × RunEnd :=
  run (sdkSem (evalInstrsH fuel) is) (fun _ s => haltSeen s) fuel is vars s

end Duck
