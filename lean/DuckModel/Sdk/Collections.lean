/-
  C12 — model of the handle table and of the collection commands.

  Rust sources transcribed:
    duckscript_sdk/src/utils/state.rs            put_handle / get_handle / remove_handle /
                                                 remove_handle_recursive / return_handle,
                                                 mutate_list / mutate_map / mutate_set
    duckscript_sdk/src/sdk/std/collections/*/mod.rs   (native commands, one function each)
    duckscript_sdk/src/sdk/std/release/mod.rs

  Representation.
  * `Context.state["handles"]` (a `HashMap<String, StateValue>`) is an association list
    `Table`.  `HashMap::remove` = `tremove`, `HashMap::insert` = `tinsert` (erase, then cons):
    after a take-out / put-back the table is in general NOT syntactically the table it was
    before, only lookup-equal — which is exactly what the property has to establish.
  * `StateValue` has 13 kinds.  `list`, `map` (`SubState`), `set` are the collections; the ten
    other kinds (`Boolean … ByteArray, Any`) are the constructor `other tag`; every arm of the
    three `mutate_*` helpers for those ten kinds has literally the same shape
    (`state.insert(key, Kind(value)); Err(..)`), so one model arm stands for the ten.
  * A list cell / map value (`Item`) is `StateValue::String` (every command that stores a value)
    or `StateValue::Number64Bit` (the cells made by `range`).  No modelled command stores any
    other kind inside a collection, so `get_as_string` (here `Item.render`) cannot fail.
  * `HashSet<String>` is a duplicate-free list in insertion order, `HashMap<String,StateValue>`
    an association list with unique keys in insertion order.  The iteration order of the real
    hash containers is unspecified; the two commands that expose it (`map_keys`,
    `set_to_array`) return the ascending order here, and the harness sorts the freshly made
    real list (see harness/src/props/c12.rs).
  * `put_handle` draws 20 random alphanumeric characters.  Model: a counter, handle number k is
    the string `handle:<k>`; the harness renames real handles by order of first appearance.
    Assumption: the RNG never returns a key that is live.
  * Commands implemented by a `script.ds` (`CollCmd.native = false`) are NOT transcribed: they
    are modelled by the function they are documented to compute (section "script-implemented"
    below); their tie to the code is the correspondence run only.
-/
import DuckModel.Types
import DuckModel.Sdk.CollectionsCmd

namespace Duck.Coll
open Duck

/-! ## values -/

inductive Item
  | str (s : Str)
  | num (i : Int)
deriving DecidableEq, Repr, Inhabited

/-- `get_as_string` on the two kinds that occur -/
def Item.render : Item → Str
  | .str s => s
  | .num i => (toString i).toList

inductive Value
  | list (l : List Item)
  | map (m : List (Str × Item))
  | set (s : List Str)
  | other (tag : Nat)
deriving DecidableEq, Repr, Inhabited

abbrev Table := List (Str × Value)

/-- `Command` result restricted to what collection commands return:
    `Continue(Some v)`, `Continue(None)`, `Error(_)` (message text not modelled) -/
inductive Res
  | val (o : Option Str)
  | err
deriving DecidableEq, Repr, Inhabited

def sTrue : Str := "true".toList
def sFalse : Str := "false".toList
def boolStr (b : Bool) : Str := if b then sTrue else sFalse
def natStr (n : Nat) : Str := (Nat.repr n).toList

/-! ## the handle table (HashMap get / remove / insert) -/

def tget : Table → Str → Option Value
  | [], _ => none
  | (k, v) :: r, h => if k = h then some v else tget r h

def tremove : Table → Str → Table
  | [], _ => []
  | (k, v) :: r, h => if k = h then tremove r h else (k, v) :: tremove r h

def tinsert (t : Table) (h : Str) (v : Value) : Table := (h, v) :: tremove t h

/-- two tables that answer every lookup alike -/
def LookupEq (t t' : Table) : Prop := ∀ h, tget t h = tget t' h

structure St where
  tbl : Table := []
  next : Nat := 1
deriving Repr, Inhabited

def handlePrefix : Str := "handle:".toList
def handleName (k : Nat) : Str := handlePrefix ++ (Nat.repr k).toList

/-- `put_handle`: fresh key, then `return_handle` (= insert) -/
def putHandle (s : St) (v : Value) : St × Str :=
  let h := handleName s.next
  ({ tbl := tinsert s.tbl h v, next := s.next + 1 }, h)

/-! ## the three take-out / mutate / put-back helpers -/

/-- `mutate_list(key, state, handler)`.  The handler returns the mutated list together with
    its `Result`, so a mutation made before an `Err` stays visible. -/
def mutateList (t : Table) (key : Str) (f : List Item → List Item × Res) : Table × Res :=
  let t' := tremove t key            -- state.remove(&key)
  match tget t key with
  | some (.list l) => let (l', r) := f l; (tinsert t' key (.list l'), r)
  | some (.map m) => (tinsert t' key (.map m), .err)
  | some (.set s) => (tinsert t' key (.set s), .err)
  | some (.other g) => (tinsert t' key (.other g), .err)
  | none => (t', .err)

def mutateMap (t : Table) (key : Str) (f : List (Str × Item) → List (Str × Item) × Res) : Table × Res :=
  let t' := tremove t key
  match tget t key with
  | some (.map m) => let (m', r) := f m; (tinsert t' key (.map m'), r)
  | some (.list l) => (tinsert t' key (.list l), .err)
  | some (.set s) => (tinsert t' key (.set s), .err)
  | some (.other g) => (tinsert t' key (.other g), .err)
  | none => (t', .err)

def mutateSet (t : Table) (key : Str) (f : List Str → List Str × Res) : Table × Res :=
  let t' := tremove t key
  match tget t key with
  | some (.set s) => let (s', r) := f s; (tinsert t' key (.set s'), r)
  | some (.list l) => (tinsert t' key (.list l), .err)
  | some (.map m) => (tinsert t' key (.map m), .err)
  | some (.other g) => (tinsert t' key (.other g), .err)
  | none => (t', .err)

/-! ## number parsing (`str::parse::<usize>()`, `str::parse::<i64>()`) -/

def digitVal (c : Char) : Option Nat :=
  if '0' ≤ c ∧ c ≤ '9' then some (c.toNat - 48) else none

def parseDigits : List Char → Nat → Option Nat
  | [], acc => some acc
  | c :: r, acc =>
    match digitVal c with
    | none => none
    | some d => parseDigits r (acc * 10 + d)

/-- `usize::from_str` (64-bit): optional single `+`, then at least one ASCII digit, no
    overflow; a `-` is an invalid digit for an unsigned type -/
def parseUsize (s : Str) : Option Nat :=
  let body := match s with
    | '+' :: r => r
    | _ => s
  if body.isEmpty then none else
  match parseDigits body 0 with
  | some n => if n < 2 ^ 64 then some n else none
  | none => none

/-- `i64::from_str`: optional single `+` or `-`, at least one digit, range check -/
def parseI64 (s : Str) : Option Int :=
  let (neg, body) := match s with
    | '+' :: r => (false, r)
    | '-' :: r => (true, r)
    | _ => (false, s)
  if body.isEmpty then none else
  match parseDigits body 0 with
  | some n =>
    if neg then (if n ≤ 2 ^ 63 then some (- (n : Int)) else none)
    else (if n < 2 ^ 63 then some (n : Int) else none)
  | none => none

/-! ## inner containers -/

def mget : List (Str × Item) → Str → Option Item
  | [], _ => none
  | (k, v) :: r, x => if k = x then some v else mget r x

/-- `HashMap::insert`: replace the value of an existing key, else add the entry -/
def minsert : List (Str × Item) → Str → Item → List (Str × Item)
  | [], x, v => [(x, v)]
  | (k, w) :: r, x, v => if k = x then (k, v) :: r else (k, w) :: minsert r x v

def mremove : List (Str × Item) → Str → List (Str × Item)
  | [], _ => []
  | (k, w) :: r, x => if k = x then r else (k, w) :: mremove r x

/-- `HashSet::insert` -/
def sinsert (s : List Str) (x : Str) : List Str := if x ∈ s then s else s ++ [x]

def sinsertAll (s : List Str) (xs : List Str) : List Str := xs.foldl sinsert s

def sremove (s : List Str) (x : Str) : List Str := s.filter (· ≠ x)

/-- lexicographic order by code point (= byte order of the UTF-8 encodings = `String::cmp`) -/
def strLe : Str → Str → Bool
  | [], _ => true
  | _ :: _, [] => false
  | a :: r, b :: q => if a.toNat < b.toNat then true else if b.toNat < a.toNat then false else strLe r q

def insertSorted (x : Str) : List Str → List Str
  | [] => [x]
  | y :: r => if strLe x y then x :: y :: r else y :: insertSorted x r

def sortStr : List Str → List Str
  | [] => []
  | x :: r => insertSorted x (sortStr r)

/-! ## native commands.  `args` are the received (already expanded) arguments. -/

def okTrue : Res → Res
  | .val _ => .val (some sTrue)
  | .err => .err

def cmdArray (s : St) (args : List Str) : St × Res :=
  let (s', h) := putHandle s (.list (args.map .str))
  (s', .val (some h))

def cmdRange (s : St) : List Str → St × Res
  | a :: b :: _ =>
    match parseI64 a with
    | none => (s, .err)
    | some st =>
      match parseI64 b with
      | none => (s, .err)
      | some en =>
        if st > en then (s, .err) else
        let l := (List.range (en - st).toNat).map fun (k : Nat) => Item.num (st + Int.ofNat k)
        let (s', h) := putHandle s (.list l)
        (s', .val (some h))
  | _ => (s, .err)

def cmdArrayPush (s : St) : List Str → St × Res
  | [] => (s, .err)
  | key :: rest =>
    let (t, r) := mutateList s.tbl key fun l => (l ++ rest.map .str, .val none)
    ({ s with tbl := t }, okTrue r)

def cmdArrayPop (s : St) : List Str → St × Res
  | [] => (s, .err)
  | key :: _ =>
    let (t, r) := mutateList s.tbl key fun l => (l.dropLast, .val (l.getLast?.map Item.render))
    ({ s with tbl := t }, r)

def cmdArrayGet (s : St) : List Str → St × Res
  | key :: i :: _ =>
    match parseUsize i with
    | none => (s, .err)
    | some idx =>
      let (t, r) := mutateList s.tbl key fun l => (l, .val (l[idx]?.map Item.render))
      ({ s with tbl := t }, r)
  | _ => (s, .err)

def cmdArraySet (s : St) : List Str → St × Res
  | key :: i :: v :: _ =>
    match parseUsize i with
    | none => (s, .err)
    | some idx =>
      let (t, r) := mutateList s.tbl key fun l =>
        if l.length > idx then (l.set idx (.str v), .val (some sTrue)) else (l, .err)
      ({ s with tbl := t }, r)
  | _ => (s, .err)

def cmdArrayRemove (s : St) : List Str → St × Res
  | key :: i :: _ =>
    match parseUsize i with
    | none => (s, .err)
    | some idx =>
      let (t, r) := mutateList s.tbl key fun l =>
        if l.length > idx then (l.eraseIdx idx, .val (some sTrue)) else (l, .err)
      ({ s with tbl := t }, r)
  | _ => (s, .err)

def cmdArrayClear (s : St) : List Str → St × Res
  | [] => (s, .err)
  | key :: _ =>
    let (t, r) := mutateList s.tbl key fun _ => ([], .val none)
    ({ s with tbl := t }, okTrue r)

def cmdArrayLength (s : St) : List Str → St × Res
  | [] => (s, .err)
  | key :: _ =>
    match tget s.tbl key with
    | some (.list l) => (s, .val (some (natStr l.length)))
    | _ => (s, .err)

def cmdMap (s : St) (_args : List Str) : St × Res :=
  let (s', h) := putHandle s (.map [])
  (s', .val (some h))

def cmdMapPut (s : St) : List Str → St × Res
  | key :: k :: v :: _ =>
    let (t, r) := mutateMap s.tbl key fun m => (minsert m k (.str v), .val none)
    ({ s with tbl := t }, okTrue r)
  | _ => (s, .err)

/-- `map_get` takes the entry out of the inner `HashMap` and re-inserts the same entry; on a
    `HashMap` that is the identity (trusted container semantics), so the inner map is left as
    it is here -/
def cmdMapGet (s : St) : List Str → St × Res
  | key :: k :: _ =>
    let (t, r) := mutateMap s.tbl key fun m => (m, .val ((mget m k).map Item.render))
    ({ s with tbl := t }, r)
  | _ => (s, .err)

def cmdMapRemove (s : St) : List Str → St × Res
  | key :: k :: _ =>
    let (t, r) := mutateMap s.tbl key fun m => (mremove m k, .val ((mget m k).map Item.render))
    ({ s with tbl := t }, r)
  | _ => (s, .err)

def cmdMapSize (s : St) : List Str → St × Res
  | [] => (s, .err)
  | key :: _ =>
    match tget s.tbl key with
    | some (.map m) => (s, .val (some (natStr m.length)))
    | _ => (s, .err)

def cmdMapKeys (s : St) : List Str → St × Res
  | [] => (s, .err)
  | key :: _ =>
    match tget s.tbl key with
    | some (.map m) =>
      let (s', h) := putHandle s (.list ((sortStr (m.map Prod.fst)).map .str))
      (s', .val (some h))
    | _ => (s, .err)

def cmdMapClear (s : St) : List Str → St × Res
  | [] => (s, .err)
  | key :: _ =>
    let (t, r) := mutateMap s.tbl key fun _ => ([], .val none)
    ({ s with tbl := t }, okTrue r)

def cmdSetNew (s : St) (args : List Str) : St × Res :=
  let (s', h) := putHandle s (.set (sinsertAll [] args))
  (s', .val (some h))

def cmdSetPut (s : St) : List Str → St × Res
  | [] => (s, .err)
  | key :: rest =>
    let (t, r) := mutateSet s.tbl key fun x => (sinsertAll x rest, .val none)
    ({ s with tbl := t }, okTrue r)

def cmdSetRemove (s : St) : List Str → St × Res
  | key :: v :: _ =>
    let (t, r) := mutateSet s.tbl key fun x => (sremove x v, .val (some (boolStr (x.contains v))))
    ({ s with tbl := t }, r)
  | _ => (s, .err)

def cmdSetContains (s : St) : List Str → St × Res
  | key :: v :: _ =>
    let (t, r) := mutateSet s.tbl key fun x => (x, .val (some (boolStr (x.contains v))))
    ({ s with tbl := t }, r)
  | _ => (s, .err)

def cmdSetSize (s : St) : List Str → St × Res
  | [] => (s, .err)
  | key :: _ =>
    match tget s.tbl key with
    | some (.set x) => (s, .val (some (natStr x.length)))
    | _ => (s, .err)

def cmdSetClear (s : St) : List Str → St × Res
  | [] => (s, .err)
  | key :: _ =>
    let (t, r) := mutateSet s.tbl key fun _ => ([], .val none)
    ({ s with tbl := t }, okTrue r)

def cmdSetToArray (s : St) : List Str → St × Res
  | [] => (s, .err)
  | key :: _ =>
    match tget s.tbl key with
    | some (.set x) =>
      let (s', h) := putHandle s (.list ((sortStr x).map .str))
      (s', .val (some h))
    | _ => (s, .err)

def cmdIsArray (s : St) : List Str → St × Res
  | [] => (s, .err)
  | key :: _ =>
    match tget s.tbl key with
    | some (.list _) => (s, .val (some sTrue))
    | _ => (s, .val (some sFalse))

def cmdIsMap (s : St) : List Str → St × Res
  | [] => (s, .err)
  | key :: _ =>
    match tget s.tbl key with
    | some (.map _) => (s, .val (some sTrue))
    | _ => (s, .val (some sFalse))

def cmdIsSet (s : St) : List Str → St × Res
  | [] => (s, .err)
  | key :: _ =>
    match tget s.tbl key with
    | some (.set _) => (s, .val (some sTrue))
    | _ => (s, .val (some sFalse))

/-! ## release -/

/-- the strings stored in a value: candidates for handles when releasing recursively -/
def children : Value → List Str
  | .list l => l.filterMap fun | .str x => some x | .num _ => none
  | .set x => x
  | .map m => m.filterMap fun | (_, .str x) => some x | (_, .num _) => none
  | .other _ => []

/-- the `for value in … { remove_handle_recursive(state, value) }` loops -/
def removeAll (f : Table → Str → Option (Table × Bool)) : List Str → Table → Option Table
  | [], t => some t
  | c :: cs, t =>
    match f t c with
    | none => none
    | some (t', _) => removeAll f cs t'

/-- `remove_handle_recursive`; `none` = out of fuel.  The Rust recursion has no fuel: it
    terminates because every call that recurses has removed a handle first.  Fuel is consumed
    only by a call that finds (and removes) a handle, so fuel = number of table entries is never
    exhausted (`C12_release_recursive_terminates`). -/
def removeRec : Nat → Table → Str → Option (Table × Bool)
  | 0, t, key =>
    match tget t key with
    | none => some (tremove t key, false)
    | some _ => none
  | fuel + 1, t, key =>
    match tget t key with
    | none => some (tremove t key, false)
    | some v => (removeAll (removeRec fuel) (children v) (tremove t key)).map fun t' => (t', true)

def isRecFlag (a : Str) : Bool := a = "-r".toList || a = "--recursive".toList

/-- `release [-r|--recursive] handle`.  An exhausted fuel would be reported as `err`
    (it cannot happen, see above). -/
def cmdRelease (s : St) : List Str → St × Res
  | [] => (s, .val (some sFalse))
  | [a] => ({ s with tbl := tremove s.tbl a }, .val (some (boolStr (tget s.tbl a).isSome)))
  | a :: b :: _ =>
    if isRecFlag a then
      match removeRec s.tbl.length s.tbl b with
      | some (t, r) => ({ s with tbl := t }, .val (some (boolStr r)))
      | none => (s, .err)
    else ({ s with tbl := tremove s.tbl a }, .val (some (boolStr (tget s.tbl a).isSome)))

/-! ## script-implemented commands — modelled by their SPECIFIED function, not transcribed
    (array_is_empty, array_contains, array_concat, array_join, map_contains_key,
     map_contains_value, map_is_empty, set_from_array, set_is_empty).
    Every alias command first checks the number of arguments. -/

def cmdArrayIsEmpty (s : St) : List Str → St × Res
  | [] => (s, .err)
  | key :: _ =>
    match tget s.tbl key with
    | some (.list l) => (s, .val (some (boolStr l.isEmpty)))
    | _ => (s, .err)

def indexOfStr (v : Str) : List Str → Nat → Option Nat
  | [], _ => none
  | x :: r, i => if x = v then some i else indexOfStr v r (i + 1)

/-- index of the first cell equal to the value, else `false`; a handle that is no array has
    no cells (the `for … in` loop of the script does not run) -/
def cmdArrayContains (s : St) : List Str → St × Res
  | key :: v :: _ =>
    match tget s.tbl key with
    | some (.list l) =>
      match indexOfStr v (l.map Item.render) 0 with
      | some i => (s, .val (some (natStr i)))
      | none => (s, .val (some sFalse))
    | _ => (s, .val (some sFalse))
  | _ => (s, .err)

def lists? (t : Table) : List Str → Option (List (List Item))
  | [] => some []
  | h :: r =>
    match tget t h with
    | some (.list l) => (lists? t r).map (l :: ·)
    | _ => none

/-- new array holding the cells of all given arrays (as strings) -/
def cmdArrayConcat (s : St) (args : List Str) : St × Res :=
  match lists? s.tbl args with
  | some ls =>
    let (s', h) := putHandle s (.list (ls.flatten.map fun i => .str i.render))
    (s', .val (some h))
  | none => (s, .err)

def joinStr (sep : Str) : List Str → Str
  | [] => []
  | [x] => x
  | x :: y :: r => x ++ sep ++ joinStr sep (y :: r)

def cmdArrayJoin (s : St) : List Str → St × Res
  | key :: sep :: _ =>
    match tget s.tbl key with
    | some (.list l) => (s, .val (some (joinStr sep (l.map Item.render))))
    | _ => (s, .err)
  | _ => (s, .err)

def cmdMapContainsKey (s : St) : List Str → St × Res
  | key :: k :: _ =>
    match tget s.tbl key with
    | some (.map m) => (s, .val (some (boolStr (mget m k).isSome)))
    | _ => (s, .err)
  | _ => (s, .err)

def cmdMapContainsValue (s : St) : List Str → St × Res
  | key :: v :: _ =>
    match tget s.tbl key with
    | some (.map m) => (s, .val (some (boolStr ((m.map fun kv => kv.2.render).contains v))))
    | _ => (s, .err)
  | _ => (s, .err)

def cmdMapIsEmpty (s : St) : List Str → St × Res
  | [] => (s, .err)
  | key :: _ =>
    match tget s.tbl key with
    | some (.map m) => (s, .val (some (boolStr m.isEmpty)))
    | _ => (s, .err)

def cmdSetFromArray (s : St) : List Str → St × Res
  | [] => (s, .err)
  | key :: _ =>
    match tget s.tbl key with
    | some (.list l) =>
      let (s', h) := putHandle s (.set (sinsertAll [] (l.map Item.render)))
      (s', .val (some h))
    | _ => (s, .err)

def cmdSetIsEmpty (s : St) : List Str → St × Res
  | [] => (s, .err)
  | key :: _ =>
    match tget s.tbl key with
    | some (.set x) => (s, .val (some (boolStr x.isEmpty)))
    | _ => (s, .err)

/-! ## dispatch and op sequences -/

def exec (s : St) (c : CollCmd) (args : List Str) : St × Res :=
  match c with
  | .array => cmdArray s args
  | .range => cmdRange s args
  | .arrayPush => cmdArrayPush s args
  | .arrayPop => cmdArrayPop s args
  | .arrayGet => cmdArrayGet s args
  | .arraySet => cmdArraySet s args
  | .arrayRemove => cmdArrayRemove s args
  | .arrayClear => cmdArrayClear s args
  | .arrayLength => cmdArrayLength s args
  | .arrayIsEmpty => cmdArrayIsEmpty s args
  | .arrayContains => cmdArrayContains s args
  | .arrayConcat => cmdArrayConcat s args
  | .arrayJoin => cmdArrayJoin s args
  | .map => cmdMap s args
  | .mapPut => cmdMapPut s args
  | .mapGet => cmdMapGet s args
  | .mapRemove => cmdMapRemove s args
  | .mapSize => cmdMapSize s args
  | .mapKeys => cmdMapKeys s args
  | .mapClear => cmdMapClear s args
  | .mapContainsKey => cmdMapContainsKey s args
  | .mapContainsValue => cmdMapContainsValue s args
  | .mapIsEmpty => cmdMapIsEmpty s args
  | .setNew => cmdSetNew s args
  | .setPut => cmdSetPut s args
  | .setRemove => cmdSetRemove s args
  | .setContains => cmdSetContains s args
  | .setSize => cmdSetSize s args
  | .setClear => cmdSetClear s args
  | .setToArray => cmdSetToArray s args
  | .setFromArray => cmdSetFromArray s args
  | .setIsEmpty => cmdSetIsEmpty s args
  | .isArray => cmdIsArray s args
  | .isMap => cmdIsMap s args
  | .isSet => cmdIsSet s args
  | .release => cmdRelease s args

/-- run a sequence of commands with literal arguments; outputs in order -/
def run (s : St) : List (CollCmd × List Str) → St × List Res
  | [] => (s, [])
  | (c, a) :: rest =>
    let (s1, r) := exec s c a
    let (s2, rs) := run s1 rest
    (s2, r :: rs)

end Duck.Coll
