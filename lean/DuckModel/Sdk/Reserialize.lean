/-
  C09 model: what a command receives when it is invoked through one of the wrappers
  (if / elseif / while / not, a user alias, eval).

  All wrappers hand the already-bound argument values to `utils/eval.rs::parse`, which
  rebuilds a script line from them (`serializeLine`, transcribed in `Sdk/Flow.lean`), parses
  that text (`parseText`), takes the first instruction, and gives it to
  `runner::run_instruction`, which binds the re-parsed arguments AGAIN
  (`bind_command_arguments`) before calling the command.

    utils/eval.rs        parse, eval, eval_with_error, eval_with_instructions
    utils/condition.rs   eval_condition (dispatch: first value names a command?)
    sdk/std/lib/alias/set/mod.rs   AliasCommand::run (stored args ++ call args, then eval)
    sdk/std/eval/mod.rs            eval_with_error on the arguments
    sdk/std/not/mod.rs, flowcontrol/ifelse, flowcontrol/while_mod: eval_condition
-/
import DuckModel.Sdk.Flow

namespace Duck
namespace Reser

/-- what `run_instruction` does with an instruction up to the point where the command is
    called: (output variable, command name, bound arguments); no command = nothing is called -/
def arrive (vars : Vars) (i : Instruction) : Option Str × Option Str × List Str :=
  match i.ty with
  | .script si =>
    match si.command with
    | some c => (si.output, some c, bind vars si.args)
    | none => (si.output, none, [])
  | _ => (none, none, [])

/-- `eval::parse` followed by the head of `run_instruction`:
    `none` = the rebuilt line does not parse (the wrapper reports an error);
    `some (out, cmd, args)` = output variable, command name and argument list that arrive.
    The empty list is never parsed (`if arguments.is_empty() { Continue(None) }`): nothing is
    called.  `parse_text` of a non-empty rebuilt line always yields one instruction, so
    `instructions[0]` cannot panic (theorem `Reser.evalParse_some_or_err`). -/
def roundTripFull (vars : Vars) (vals : List Str) : Option (Option Str × Option Str × List Str) :=
  match vals with
  | [] => some (none, none, [])
  | _ => (evalParse vals).map (arrive vars)

/-- command name and argument list that arrive after
    `serializeLine` → `parseText` → first instruction → `bind` -/
def roundTrip (vars : Vars) (vals : List Str) : Option (Option Str × List Str) :=
  (roundTripFull vars vals).map fun r => (r.2.1, r.2.2)

/-- the wrapping positions of C09 -/
inductive Wrapper
  | ifC | elseIf | whileC | notC
  /-- a user alias `alias name stored…` -/
  | alias (stored : List Str)
  | eval
deriving DecidableEq, Repr

/-- what arrives when the wrapper is invoked with the (bound) arguments `args`;
    `isCmd` = `Commands::exists`.  The four condition wrappers only take the re-parsing path
    when the first value names a command (otherwise the values are read as a boolean
    expression and no command is called: `none` here means "no command invocation"). -/
def viaWrapper (isCmd : Str → Bool) (w : Wrapper) (vars : Vars) (args : List Str) :
    Option (Option (Option Str × Option Str × List Str)) :=
  match w with
  | .alias stored => some (roundTripFull vars (stored ++ args))
  | .eval => some (roundTripFull vars args)
  | _ =>
    match args with
    | [] => none
    | first :: _ => if isCmd first then some (roundTripFull vars args) else none

/-! ### the decidable value classes -/

def hasChar (s : Str) (c : Char) : Bool := s.any (· == c)

/-- where the second binding (`expand_by_wrapper`) stands inside a value:
    `force` = right after a backslash (force_push), `dollar` = right after a `$` (prefix_index = 1) -/
inductive XMode
  | normal | force | dollar
deriving DecidableEq, Repr

/-- the second binding leaves the value alone: no `%` at all (any `%` switches the value to
    the spread type, which is re-split), no `$` right after a live backslash (the backslash would be
    consumed) and no `{` right after a live `$` (a variable reference would be resolved).
    A `$` elsewhere (`a$b`, `$$`, a final `$`, dollar-backslash-dollar) is harmless. -/
def xStable : XMode → Str → Bool
  | _, [] => true
  | m, c :: t =>
    if c = '%' then false
    else
      match m with
      | .normal =>
        if c = '\\' then xStable .force t else if c = '$' then xStable .dollar t else xStable .normal t
      | .force => if c = '$' then false else xStable .normal t
      | .dollar => if c = '{' then false else xStable .normal t

/-- a value that survives the round trip in any position but the first/last special cases:
    stable under the second binding (`xStable`: no `%`, no `${`, no live backslash-dollar), no CR, no LF; when it
    contains a space (it is then written in quotes) no `"`; when it contains no space
    (written bare) no `#` and it does not start with `"`. -/
def Safe (v : Str) : Bool :=
  xStable .normal v && !hasChar v '\r' && !hasChar v '\n' &&
  (if hasChar v ' ' then !hasChar v '"' else !hasChar v '#' && v.head? != some '"')

/-- first argument: must not be read as the `=` of an assignment (bare value starting with `=`) -/
def firstOK (v : Str) : Bool := hasChar v ' ' || v.head? != some '='

/-- last argument: a bare value must not end in white space (it is trimmed with the line) -/
def lastOK (v : Str) : Bool :=
  hasChar v ' ' || match v.getLast? with
    | some c => !isWs c
    | none => true

def positionOK (vals : List Str) : Bool :=
  (match vals.head? with | some v => firstOK v | none => true) &&
  (match vals.getLast? with | some v => lastOK v | none => true)

/-- a command name that can be written as the first token of a line (the C01 token
    conditions `Spec.NameOK`, `Spec.NoEq`, `Spec.FirstOK`): non-empty, no white space, no
    `#`, `\`, `=`, not starting with `"`, `:` (label) or `!` (directive) -/
def cmdOK (c : Str) : Bool :=
  !c.isEmpty && c.all (fun x => !isWs x && x != '#' && x != '\\' && x != '=') &&
  c.head? != some '"' && c.head? != some ':' && c.head? != some '!'

end Reser
end Duck
