/-
  C12 — the vocabulary of collection commands (names only).  Shared by the implementation
  model (`Sdk/Collections.lean`) and by the reference model (`Spec/Store.lean`); it contains
  no behaviour.
-/
import DuckModel.Types

namespace Duck

/-- the collection commands of the property text (one constructor per public command name;
    `setNew` is the command registered as `set_new`, module `collections/set`) -/
inductive CollCmd
  | array | range | arrayPush | arrayPop | arrayGet | arraySet | arrayRemove | arrayClear | arrayLength
  | arrayIsEmpty | arrayContains | arrayConcat | arrayJoin
  | map | mapPut | mapGet | mapRemove | mapSize | mapKeys | mapClear
  | mapContainsKey | mapContainsValue | mapIsEmpty
  | setNew | setPut | setRemove | setContains | setSize | setClear | setToArray | setFromArray | setIsEmpty
  | isArray | isMap | isSet
  | release
deriving DecidableEq, Repr, Inhabited

/-- the three kinds of collection -/
inductive CollKind
  | vec | map | set
deriving DecidableEq, Repr, Inhabited

/-- implemented natively in Rust (true) or by a duckscript `script.ds` (false) -/
def CollCmd.native : CollCmd → Bool
  | .arrayIsEmpty | .arrayContains | .arrayConcat | .arrayJoin
  | .mapContainsKey | .mapContainsValue | .mapIsEmpty | .setFromArray | .setIsEmpty => false
  | _ => true

/-- the kind of collection the command expects behind its FIRST argument (`none`: the command
    takes no handle first: constructors, `array_concat` (any number of handles), `release`) -/
def CollCmd.expects : CollCmd → Option CollKind
  | .arrayPush | .arrayPop | .arrayGet | .arraySet | .arrayRemove | .arrayClear | .arrayLength
  | .arrayIsEmpty | .arrayContains | .arrayJoin | .setFromArray | .isArray => some .vec
  | .mapPut | .mapGet | .mapRemove | .mapSize | .mapKeys | .mapClear
  | .mapContainsKey | .mapContainsValue | .mapIsEmpty | .isMap => some .map
  | .setPut | .setRemove | .setContains | .setSize | .setClear | .setToArray | .setIsEmpty | .isSet => some .set
  | .array | .range | .map | .setNew | .arrayConcat | .release => none

end Duck
