/-
  C17 — the JSON *text* layer: `serde_json` (1.0.139, default features: `Map` is a `BTreeMap`,
  no `arbitrary_precision`, no `float_roundtrip`, no `unbounded_depth`) as used by

  * `duckscript_sdk/src/sdk/std/json/parse/mod.rs`  (`serde_json::from_str::<Value>`), and
  * `duckscript_sdk/src/sdk/std/json/encode/mod.rs` (`Value::to_string`, the COMPACT writer,
    the same text as `serde_json::to_string`).

  Rust sources mirrored here (registry copy of the crate):
  * writer  `ser.rs`: `format_escaped_str_contents` with the table `ESCAPE`
    (`"` `\\` `\b` `\t` `\n` `\f` `\r` two-character escapes, every other byte below 0x20 as
    `\u00XX` with LOWER-case hexadecimal digits, all other bytes raw — `/`, U+007F, U+2028 and
    every non-ASCII character are written as they are), `CompactFormatter`
    (`[a,b]`, `{"k":v}` — no white space), numbers through `itoa`;
  * reader  `de.rs`: `parse_whitespace` (space, `\t`, `\n`, `\r`), `deserialize_any`,
    `parse_ident`, `parse_integer`/`parse_number`, `SeqAccess::has_next_element`,
    `MapAccess::next_key_seed`, `parse_object_colon`, `end_seq`/`end_map`, `Deserializer::end`
    (only white space may follow the document), `check_recursion!` (`remaining_depth` starts at
    128, is decremented when a `[`/`{` is entered and an error is raised when it reaches 0: at
    most 127 containers may be open at once);
    `read.rs`: `parse_str_bytes` (a raw byte below 0x20 inside a string is an error),
    `parse_escape`, `parse_unicode_escape` (`\uXXXX`, 4 hexadecimal digits of either case; a
    lone trailing surrogate, a leading surrogate not followed by `\uDC00`–`\uDFFF` are errors);
    `value/de.rs::ValueVisitor::visit_map` (`BTreeMap::insert`: keys sorted by their bytes —
    for UTF-8 that is the order of the code points —, a repeated key keeps the LAST value).

  Numbers.  A `Json.num` carries the canonical text of the number (`Number::to_string`).  The
  parser models the integers that `serde_json` keeps exact: `0`‥`18446744073709551615` (`u64`)
  and `-9223372036854775808`‥`-1` (`i64`); for those the canonical text is the source text.
  Everything that `serde_json` turns into an `f64` (`-0`, a fraction, an exponent, an integer
  outside those ranges) is OUTSIDE the modelled class: the parser answers `JErr.float` as soon
  as it meets such a token (the `f64` arithmetic of `f64_from_parts` and the `ryu` printer are
  not modelled; the harness compares those inputs against the real crate only).

  Text is `List Char`; the input of `from_str` is a `&str`, i.e. valid UTF-8, so a character
  level model loses nothing.
-/
import DuckModel.Sdk.Encode

namespace Duck.JsonText
open Duck Duck.Enc

/-! ## The compact writer -/

/-- `format_escaped_str_contents` for one character (table `ESCAPE`, `write_char_escape`) -/
def escChar (c : Char) : List Char :=
  if c = '"' then ['\\', '"']
  else if c = '\\' then ['\\', '\\']
  else if c.toNat = 8 then ['\\', 'b']
  else if c.toNat = 9 then ['\\', 't']
  else if c.toNat = 10 then ['\\', 'n']
  else if c.toNat = 12 then ['\\', 'f']
  else if c.toNat = 13 then ['\\', 'r']
  else if c.toNat < 32 then
    ['\\', 'u', '0', '0', lowerHexDigit (c.toNat / 16), lowerHexDigit (c.toNat % 16)]
  else [c]

def printChars : Str → List Char
  | [] => []
  | c :: r => escChar c ++ printChars r

/-- `format_escaped_str`: the contents between two quotes -/
def printString (s : Str) : List Char := '"' :: (printChars s ++ ['"'])

mutual
  /-- `Value::to_string` / `serde_json::to_string(&value)` -/
  def printJson : Json → List Char
    | .null => ['n', 'u', 'l', 'l']
    | .bool b => boolText b
    | .num t => t
    | .str s => printString s
    | .arr l => '[' :: (printItems l ++ [']'])
    | .obj f => '{' :: (printFields f ++ ['}'])
  /-- the items of an array: the first one bare, … -/
  def printItems : JList → List Char
    | .nil => []
    | .cons h t => printJson h ++ printItemsTail t
  /-- … every further one after a comma -/
  def printItemsTail : JList → List Char
    | .nil => []
    | .cons h t => ',' :: (printJson h ++ printItemsTail t)
  def printFields : JFields → List Char
    | .nil => []
    | .cons k v t => printString k ++ ':' :: (printJson v ++ printFieldsTail t)
  def printFieldsTail : JFields → List Char
    | .nil => []
    | .cons k v t => ',' :: (printString k ++ ':' :: (printJson v ++ printFieldsTail t))
end

/-! ## The reader -/

inductive JErr
  /-- any `serde_json::Error` of `from_str` (syntax, end of input, recursion limit, trailing
      characters, lone surrogate, control character, …) -/
  | syntax
  /-- the document contains a number `serde_json` reads as an `f64`: outside the model -/
  | float
  /-- the model's own recursion fuel ran out (does not happen: `parseJsonE` gives more fuel
      than the text has characters) -/
  | fuel
deriving DecidableEq, Repr

/-- `parse_whitespace` -/
def isWs (c : Char) : Bool := c = ' ' || c = '\n' || c = '\t' || c = '\r'

def skipWs : List Char → List Char
  | [] => []
  | c :: r => if isWs c then skipWs r else c :: r

/-- `decode_four_hex_digits` (digits of either case) -/
def hex4 (a b c d : Char) : Option Nat :=
  match digitVal 16 a, digitVal 16 b, digitVal 16 c, digitVal 16 d with
  | some x, some y, some z, some w => some (((x * 16 + y) * 16 + z) * 16 + w)
  | _, _, _, _ => none

/-- the single-character escapes of `parse_escape` -/
def unescape (e : Char) : Option Char :=
  if e = '"' then some '"'
  else if e = '\\' then some '\\'
  else if e = '/' then some '/'
  else if e = 'b' then some (Char.ofNat 8)
  else if e = 'f' then some (Char.ofNat 12)
  else if e = 'n' then some '\n'
  else if e = 'r' then some '\r'
  else if e = 't' then some '\t'
  else none

def consRes (c : Char) : Option (Str × List Char) → Option (Str × List Char)
  | some (s, rest) => some (c :: s, rest)
  | none => none

/-- `parse_str` after the opening quote: the string and the text after the closing quote
    (`none` = any error: end of input, raw control character, invalid escape, bad `\u`) -/
def parseChars : List Char → Option (Str × List Char)
  | [] => none
  | c :: rest =>
    if c = '"' then some ([], rest)
    else if c = '\\' then
      match rest with
      | [] => none
      | e :: rest1 =>
        if e = 'u' then
          match rest1 with
          | h1 :: h2 :: h3 :: h4 :: rest2 =>
            match hex4 h1 h2 h3 h4 with
            | none => none
            | some n =>
              if 0xDC00 ≤ n ∧ n ≤ 0xDFFF then none
              else if 0xD800 ≤ n ∧ n ≤ 0xDBFF then
                match rest2 with
                | b :: u :: l1 :: l2 :: l3 :: l4 :: rest3 =>
                  if b = '\\' ∧ u = 'u' then
                    match hex4 l1 l2 l3 l4 with
                    | none => none
                    | some m =>
                      if 0xDC00 ≤ m ∧ m ≤ 0xDFFF then
                        consRes (Char.ofNat ((n - 0xD800) * 1024 + (m - 0xDC00) + 0x10000))
                          (parseChars rest3)
                      else none
                  else none
                | _ => none
              else consRes (Char.ofNat n) (parseChars rest2)
          | _ => none
        else
          match unescape e with
          | some ch => consRes ch (parseChars rest1)
          | none => none
    else if c.toNat < 32 then none
    else consRes c (parseChars rest)

/-- a JSON string token: opening quote, contents, closing quote -/
def parseString : List Char → Option (Str × List Char)
  | [] => none
  | c :: rest => if c = '"' then parseChars rest else none

def isDigit (c : Char) : Bool := 48 ≤ c.toNat && c.toNat ≤ 57

/-- the longest prefix of digits and what follows -/
def spanDigits : List Char → List Char × List Char
  | [] => ([], [])
  | c :: r => if isDigit c then ((spanDigits r).1.cons c, (spanDigits r).2) else ([], c :: r)

def digitsValue : Nat → List Char → Nat
  | acc, [] => acc
  | acc, c :: r => digitsValue (acc * 10 + (c.toNat - 48)) r

/-- `parse_integer` + `parse_number` after an optional `-` (`neg`): at least one digit, no
    leading zero; a `.`/`e`/`E` continuation, `-0`, a value above `u64::MAX` or below
    `i64::MIN` are read as `f64` by the crate (`JErr.float`).  The result is the canonical text
    of the `Number` (= the source text of an integer) -/
def parseNumber (neg : Bool) (s : List Char) : Except JErr (Str × List Char) :=
  let ds := (spanDigits s).1
  let rest := (spanDigits s).2
  match ds with
  | [] => .error .syntax
  | d0 :: more =>
    if d0 = '0' ∧ more ≠ [] then .error .syntax
    else
      match rest with
      | c :: _ =>
        if c = '.' ∨ c = 'e' ∨ c = 'E' then .error .float
        else parseNumberEnd neg ds rest
      | [] => parseNumberEnd neg ds rest
where
  parseNumberEnd (neg : Bool) (ds rest : List Char) : Except JErr (Str × List Char) :=
    let v := digitsValue 0 ds
    if neg then
      if v = 0 then .error .float
      else if v ≤ 9223372036854775808 then .ok ('-' :: ds, rest)
      else .error .float
    else
      if v < u64Bound then .ok (ds, rest) else .error .float

/-- `parse_ident` -/
def stripPrefix : List Char → List Char → Option (List Char)
  | [], s => some s
  | _ :: _, [] => none
  | p :: ps, c :: r => if p = c then stripPrefix ps r else none

/-- lexicographic order of the code points = byte order of the UTF-8 encodings = `Ord for String` -/
def ltStr : Str → Str → Bool
  | [], [] => false
  | [], _ :: _ => true
  | _ :: _, [] => false
  | a :: as, b :: bs => a.toNat < b.toNat || (a = b && ltStr as bs)

/-- `BTreeMap::insert` on the sorted field list: a key already present keeps its place and
    takes the new value -/
def insertF (k : Str) (v : Json) : JFields → JFields
  | .nil => .cons k v .nil
  | .cons k' v' t =>
    if k = k' then .cons k v t
    else if ltStr k k' then .cons k v (.cons k' v' t)
    else .cons k' v' (insertF k v t)

/-- `serde_json`'s default `remaining_depth` -/
def depthLimit : Nat := 128

mutual
  /-- `deserialize_any` for `Value`: `fuel` bounds the model's call depth, `rem` is
      `remaining_depth` -/
  def pValue : Nat → Nat → List Char → Except JErr (Json × List Char)
    | 0, _, _ => .error .fuel
    | f + 1, rem, s =>
      match skipWs s with
      | [] => .error .syntax
      | c :: r =>
        if c = 'n' then
          match stripPrefix ['u', 'l', 'l'] r with
          | some r' => .ok (.null, r')
          | none => .error .syntax
        else if c = 't' then
          match stripPrefix ['r', 'u', 'e'] r with
          | some r' => .ok (.bool true, r')
          | none => .error .syntax
        else if c = 'f' then
          match stripPrefix ['a', 'l', 's', 'e'] r with
          | some r' => .ok (.bool false, r')
          | none => .error .syntax
        else if c = '-' then
          match parseNumber true r with
          | .ok (t, r') => .ok (.num t, r')
          | .error e => .error e
        else if isDigit c then
          match parseNumber false (c :: r) with
          | .ok (t, r') => .ok (.num t, r')
          | .error e => .error e
        else if c = '"' then
          match parseChars r with
          | some (str, r') => .ok (.str str, r')
          | none => .error .syntax
        else if c = '[' then
          -- check_recursion!: remaining_depth -= 1; error when it is 0
          if rem ≤ 1 then .error .syntax
          else
            match skipWs r with
            | [] => .error .syntax
            | c1 :: r1 =>
              if c1 = ']' then .ok (.arr .nil, r1)
              else
                match pValue f (rem - 1) (c1 :: r1) with
                | .error e => .error e
                | .ok (v, r2) =>
                  match pItems f (rem - 1) r2 with
                  | .error e => .error e
                  | .ok (t, r3) => .ok (.arr (.cons v t), r3)
        else if c = '{' then
          if rem ≤ 1 then .error .syntax
          else
            match skipWs r with
            | [] => .error .syntax
            | c1 :: r1 =>
              if c1 = '}' then .ok (.obj .nil, r1)
              else
                match pField f (rem - 1) .nil (c1 :: r1) with
                | .error e => .error e
                | .ok (fs, r2) => .ok (.obj fs, r2)
        else .error .syntax
  termination_by structural f => f
  /-- after an item of an array: `]`, or `,` and the next item (`has_next_element`; `[1,]` fails
      because `]` does not start a value) -/
  def pItems : Nat → Nat → List Char → Except JErr (JList × List Char)
    | 0, _, _ => .error .fuel
    | f + 1, rem, s =>
      match skipWs s with
      | [] => .error .syntax
      | c :: r =>
        if c = ']' then .ok (.nil, r)
        else if c = ',' then
          match pValue f rem r with
          | .error e => .error e
          | .ok (v, r1) =>
            match pItems f rem r1 with
            | .error e => .error e
            | .ok (t, r2) => .ok (.cons v t, r2)
        else .error .syntax
  termination_by structural f => f
  /-- one member `"key" : value` (`next_key_seed`: the key must be a string; `parse_object_colon`),
      inserted into the map read so far, then the rest of the object -/
  def pField : Nat → Nat → JFields → List Char → Except JErr (JFields × List Char)
    | 0, _, _, _ => .error .fuel
    | f + 1, rem, acc, s =>
      match skipWs s with
      | [] => .error .syntax
      | c :: r =>
        if c = '"' then
          match parseChars r with
          | none => .error .syntax
          | some (k, r1) =>
            match skipWs r1 with
            | [] => .error .syntax
            | c2 :: r2 =>
              if c2 = ':' then
                match pValue f rem r2 with
                | .error e => .error e
                | .ok (v, r3) => pFields f rem (insertF k v acc) r3
              else .error .syntax
        else .error .syntax
  termination_by structural f => f
  /-- after a member: `}`, or `,` and the next member (`{"a":1,}` fails: `}` is not a key) -/
  def pFields : Nat → Nat → JFields → List Char → Except JErr (JFields × List Char)
    | 0, _, _, _ => .error .fuel
    | f + 1, rem, acc, s =>
      match skipWs s with
      | [] => .error .syntax
      | c :: r =>
        if c = '}' then .ok (acc, r)
        else if c = ',' then pField f rem acc r
        else .error .syntax
  termination_by structural f => f
end

/-- `serde_json::from_str::<Value>`: one value, then only white space (`Deserializer::end`) -/
def parseJsonE (s : List Char) : Except JErr Json :=
  match pValue (s.length + 1) depthLimit s with
  | .error e => .error e
  | .ok (v, rest) =>
    match skipWs rest with
    | [] => .ok v
    | _ :: _ => .error .syntax

/-- `from_str(..).ok()` on the modelled class (`none` = error, or a document with an `f64`) -/
def parseJson (s : List Char) : Option Json :=
  match parseJsonE s with
  | .ok v => some v
  | .error _ => none

/-! ## The two commands on the level of texts -/

/-- `json_parse --collection text` in the empty store followed by `json_encode --collection`:
    the text the second command returns (`.ok none`: the document is `null`, `json_parse`
    returns no value) -/
def parseEncodeText (text : List Char) : Except JErr (Option (Except EncErr (List Char))) :=
  match parseJsonE text with
  | .error e => .error e
  | .ok doc =>
    let p := parseToStore doc
    match p.1 with
    | none => .ok none
    | some v =>
      match encodeFromStore p.2 v with
      | .ok j => .ok (some (.ok (printJson j)))
      | .error x => .ok (some (.error x))

/-! ## The class of documents of the round-trip theorems -/

mutual
  /-- nesting of containers: the number of `[`/`{` open at the deepest point -/
  def depth : Json → Nat
    | .null => 0
    | .bool _ => 0
    | .num _ => 0
    | .str _ => 0
    | .arr l => 1 + depthL l
    | .obj f => 1 + depthF f
  def depthL : JList → Nat
    | .nil => 0
    | .cons h t => max (depth h) (depthL t)
  def depthF : JFields → Nat
    | .nil => 0
    | .cons _ v t => max (depth v) (depthF t)
end

/-- every key of `f` is greater than `k` -/
def keysGt (k : Str) : JFields → Bool
  | .nil => true
  | .cons k' _ t => ltStr k k' && keysGt k t

/-- the keys are strictly increasing (the representation invariant of a `BTreeMap`) -/
def sortedF : JFields → Bool
  | .nil => true
  | .cons k _ t => keysGt k t && sortedF t

mutual
  /-- every object of the document has strictly increasing keys -/
  def SortedKeys : Json → Bool
    | .null => true
    | .bool _ => true
    | .num _ => true
    | .str _ => true
    | .arr l => SortedKeysL l
    | .obj f => sortedF f && SortedKeysF f
  def SortedKeysL : JList → Bool
    | .nil => true
    | .cons h t => SortedKeys h && SortedKeysL t
  def SortedKeysF : JFields → Bool
    | .nil => true
    | .cons _ v t => SortedKeys v && SortedKeysF t
end

/-- a non-empty run of digits without a superfluous leading zero -/
def canonDigits (ds : List Char) : Bool :=
  match ds with
  | [] => false
  | d0 :: more => ds.all isDigit && !(d0 = '0' && !more.isEmpty)

/-- the canonical text (`Number::to_string`) of a number `serde_json` keeps exact:
    `0`‥`18446744073709551615` or `-9223372036854775808`‥`-1` -/
def IntText (t : Str) : Bool :=
  match t with
  | [] => false
  | c :: ds =>
    if c = '-' then
      canonDigits ds && decide (0 < digitsValue 0 ds) && decide (digitsValue 0 ds ≤ 9223372036854775808)
    else canonDigits t && decide (digitsValue 0 t < u64Bound)

mutual
  /-- every number leaf is an exact integer (no `f64`): the class of values the model covers -/
  def ExactNums : Json → Bool
    | .null => true
    | .bool _ => true
    | .num t => IntText t
    | .str _ => true
    | .arr l => ExactNumsL l
    | .obj f => ExactNumsF f
  def ExactNumsL : JList → Bool
    | .nil => true
    | .cons h t => ExactNums h && ExactNumsL t
  def ExactNumsF : JFields → Bool
    | .nil => true
    | .cons _ v t => ExactNums v && ExactNumsF t
end

mutual
  /-- every leaf is a string: what `json_encode --collection` emits -/
  def StrLeaves : Json → Bool
    | .null => false
    | .bool _ => false
    | .num _ => false
    | .str _ => true
    | .arr l => StrLeavesL l
    | .obj f => StrLeavesF f
  def StrLeavesL : JList → Bool
    | .nil => true
    | .cons h t => StrLeaves h && StrLeavesL t
  def StrLeavesF : JFields → Bool
    | .nil => true
    | .cons _ v t => StrLeaves v && StrLeavesF t
end

/-- the documents `json_encode --collection` emits: string leaves, objects with strictly
    increasing keys -/
def StringDoc (d : Json) : Bool := StrLeaves d && SortedKeys d

/-- the whole class of values of the model (what `parseJson` can return): number leaves are
    exact integers, objects have strictly increasing keys -/
def TextDoc (d : Json) : Bool := ExactNums d && SortedKeys d

end Duck.JsonText
