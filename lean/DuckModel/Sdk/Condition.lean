/-
  Model of duckscript_sdk/src/utils/condition.rs: `is_true`, `eval_condition_for_slice`
  (after repair F1), and the dispatch of `eval_condition`.

  Transcription: one token = one structural step.  Instead of remembering `start_block` and
  `index` and slicing afterwards, the tokens of an open group are collected in `block`
  (same tokens, same order); the recursive call on the slice becomes a call of the
  evaluator one fuel level down.
-/
import DuckModel.Chars
import DuckModel.Generated.Falsy

namespace Duck

/-- `is_true` -/
def isTrue (v : Option Str) : Bool :=
  match v with
  | none => false
  | some s => !(Generated.falsyWords.contains (asciiLower s))

inductive FoundToken
  | none | and | or | value
deriving DecidableEq, Repr

inductive CondErr
  | unexpectedValue | unexpectedAnd | unexpectedOr | unexpectedClose | missingClose | fuel
deriving DecidableEq, Repr

/-- mutable locals of `eval_condition_for_slice` -/
structure CSt where
  searching : Bool := false
  counter : Nat := 0
  block : List Str := []
  total : Option Bool := none
  part : Option Bool := none
  found : FoundToken := .none
deriving Repr

inductive CStep
  | cont (st : CSt)
  | ret (b : Bool)
  | err (e : CondErr)

def tokOpen : Str := "(".toList
def tokClose : Str := ")".toList
def tokAnd : Str := "and".toList
def tokOr : Str := "or".toList

/-- fold an evaluated atom (value or closed group) into the accumulators -/
def foldAtom (st : CSt) (evaluated : Bool) : CStep :=
  match st.found with
  | .none => .cont { st with part := some evaluated, found := .value }
  | .and => .cont { st with part := some evaluated, found := .value }
  | .or => .cont { st with part := some (evaluated || st.part.getD false), found := .value }
  | .value => .err .unexpectedValue

/-- one iteration of `for argument in arguments`; `ev` evaluates the slice of a closed group -/
def cStep (ev : List Str → Except CondErr Bool) (st : CSt) (a : Str) : CStep :=
  if a = tokOpen then
    .cont { st with searching := true, counter := st.counter + 1,
                    block := if st.counter = 0 then [] else st.block ++ [a] }
  else if a = tokClose then
    if st.counter = 0 then .err .unexpectedClose
    else if st.counter = 1 then
      match ev st.block with
      | .error e => .err e
      | .ok evaluated => foldAtom { st with searching := false, counter := 0, block := [] } evaluated
    else .cont { st with counter := st.counter - 1, block := st.block ++ [a] }
  else if st.searching then .cont { st with block := st.block ++ [a] }
  else if a = tokAnd then
    match st.found with
    | .value =>
      let total := st.total.getD true && st.part.getD true
      if total then .cont { st with found := .and, total := some total, part := none }
      else .ret false
    | _ => .err .unexpectedAnd
  else if a = tokOr then
    match st.found with
    | .value => .cont { st with found := .or }
    | _ => .err .unexpectedOr
  else foldAtom st (isTrue (some a))

def cLoop (ev : List Str → Except CondErr Bool) : CSt → List Str → Except CondErr Bool
  | st, [] =>
    if st.searching then .error .missingClose
    else if st.total.isNone && st.part.isNone then .ok (isTrue none)
    else .ok (st.part.getD true && st.total.getD true)
  | st, a :: rest =>
    match cStep ev st a with
    | .cont st' => cLoop ev st' rest
    | .ret b => .ok b
    | .err e => .error e

/-- `eval_condition_for_slice`, recursion depth bounded by fuel -/
def evalSliceF : Nat → List Str → Except CondErr Bool
  | 0, _ => .error .fuel
  | fuel + 1, args =>
    match args with
    | [] => .ok (isTrue none)
    | _ => cLoop (evalSliceF fuel) {} args

/-- nesting can never be deeper than the number of tokens -/
def evalSlice (args : List Str) : Except CondErr Bool := evalSliceF (args.length + 1) args

end Duck
