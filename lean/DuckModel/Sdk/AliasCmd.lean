/-
  Model of the wrapper that runs a standard-library command written in duckscript
  (property C19):

    duckscript_sdk/src/types/command.rs   `AliasCommand::run` (lines 85-150)
    duckscript_sdk/src/types/scope.rs     `clear`, `set_line_context_name`
    duckscript_sdk/src/utils/eval.rs      `eval_instructions` (lines 128-211, incl. the halt poll of fix 9977171)

  The BODY (what `eval_instructions` does with the parsed `script.ds`) is a parameter of
  `aliasRun`; `scriptBody` instantiates it with the model of `eval_instructions` over the shared
  runner model (`Runner.runInstruction`) and an arbitrary command semantics.

  State: `context.variables` is `Vars`; of `context.state` the wrapper touches the handle table
  (`put_handle` / `handles.remove`) and the line-context name - both behind the abstract
  interface `HandleOps`, with `live` as the observation of the handle table.

  `variables.len()` is `List.length`: the association list has unique keys (`Vars.set` erases
  first, `erase`/`clear` filter) - the theorems that talk about the leak counter carry that
  representation invariant (`NK`) as a hypothesis.
-/
import DuckModel.Vars
import DuckModel.Runner

namespace Duck.Alias
open Duck

/-! ### what the wrapper needs from `context.state` -/

structure HandleOps (σ : Type) where
  /-- `put_handle(state, StateValue::List(arguments))`: the new key and the new state -/
  put : σ → List Str → Str × σ
  /-- `get_handles_sub_state(state).remove(&handle)`; the result of `remove` is discarded -/
  remove : σ → Str → σ
  /-- `get_line_context_name` (a non-string entry cannot be produced by any command: the only
      writer is `set_line_context_name`) -/
  getCtx : σ → Str
  /-- `set_line_context_name` (its return value is `getCtx` of the old state) -/
  setCtx : σ → Str → σ
  /-- observation: is this key a live handle -/
  live : σ → Str → Bool

/-- what is assumed of the handle table in `C19_temp_array_released` (a `HashMap` with keys that
    `put_handle` draws fresh) -/
structure HandleOps.Lawful {σ : Type} (H : HandleOps σ) : Prop where
  live_put : ∀ s v k, H.live (H.put s v).2 k = (H.live s k || k == (H.put s v).1)
  fresh_put : ∀ s v, H.live s (H.put s v).1 = false
  live_remove : ∀ s h k, H.live (H.remove s h) k = (H.live s k && k != h)
  live_setCtx : ∀ s c k, H.live (H.setCtx s c) k = H.live s k
  ctx_setCtx : ∀ s c, H.getCtx (H.setCtx s c) = c
  ctx_remove : ∀ s h, H.getCtx (H.remove s h) = H.getCtx s

/-! ### `eval_instructions` seen from the wrapper -/

/-- how the instruction loop over the body ended -/
inductive BodyResult
  /-- ran past the last instruction: `(None, flow_output)` -/
  | finished (out : Option Str)
  | exit (v : Option Str)
  | error (msg : Str)
  | crash (msg : Str)
  /-- an instruction of the body answered `GoTo(_, Label(l))` -/
  | gotoLabel (v : Option Str) (label : Str)
deriving DecidableEq, Repr, Inhabited

def gotoLabelMsg : Str := "goto label result not supported in alias command flow.".toList
def invalidArgsMsg : Str := "Invalid arguments provided.".toList
def leakMsg (delta : Nat) : Str := "Memory leak detected, delta variables count: ".toList ++ natToStr delta

/-- `flow_result` / `flow_output` of `eval_instructions` mapped to the command result
    (command.rs:143-146 with eval.rs:158-181) -/
def resultOf : BodyResult → CmdResult
  | .finished out => .continue out
  | .exit v => .exit v
  | .error m => .error m
  | .crash m => .crash m
  | .gotoLabel _ _ => .error gotoLabelMsg

/-! ### scope names -/

def sep : Str := "::".toList

/-- `clear`'s prefix: `name + "::"` -/
def scopePrefix (scope : Str) : Str := scope ++ sep

def underPrefix (scope : Str) (k : Str) : Bool := (scopePrefix scope).isPrefixOf k

/-- `scope_name + "::argument::" + index` -/
def argKey (scope : Str) (i : Nat) : Str := scope ++ ("::argument::".toList ++ natToStr i)

/-- `scope_name + "::arguments"` -/
def argsKey (scope : Str) : Str := scope ++ "::arguments".toList

/-- types/scope.rs `clear`: `variables.retain(|key, _| !key.starts_with(name + "::"))` -/
def clear (scope : Str) (vars : Vars) : Vars :=
  vars.filter fun p => !underPrefix scope p.1

/-- the `for argument in context.arguments` loop: `index` is incremented first -/
def publishArgs (scope : Str) : Nat → List Str → Vars → Vars
  | _, [], vars => vars
  | index, a :: rest, vars => publishArgs scope (index + 1) rest (vars.set (argKey scope (index + 1)) a)

/-- "define script arguments" (command.rs:92-114): the handle (if any), variables, state -/
def publish {σ : Type} (H : HandleOps σ) (scope : Str) (args : List Str) (vars : Vars) (st : σ) :
    Option Str × Vars × σ :=
  if args.isEmpty then (none, vars, st)
  else
    let vars1 := publishArgs scope 0 args vars
    let (h, st1) := H.put st args
    (some h, vars1.set (argsKey scope) h, st1)

/-- the cleanup after `eval_instructions` (command.rs:125-135): handle removal, `clear`,
    line-context restore -/
def cleanup {σ : Type} (H : HandleOps σ) (scope : Str) (prevCtx : Str) (handle : Option Str)
    (vars : Vars) (st : σ) : Vars × σ :=
  let st1 := match handle with
    | some h => H.remove st h
    | none => st
  (clear scope vars, H.setCtx st1 prevCtx)

/-- `AliasCommand::run`.  `amount` = `arguments_amount`, `scope` = the stored (prefixed) scope
    name.  Too few arguments: `Error`, nothing touched.  Too many: accepted, all are published.
    The command's OUTPUT variable is not written here: the runner's `update_output` does that
    with the returned result. -/
def aliasRun {σ : Type} (H : HandleOps σ) (amount : Nat)
    (body : Vars → σ → BodyResult × Vars × σ)
    (scope : Str) (args : List Str) (vars : Vars) (st : σ) : CmdResult × Vars × σ :=
  if args.length < amount then (.error invalidArgsMsg, vars, st)
  else
    let startCount := vars.length
    let prevCtx := H.getCtx st
    let st0 := H.setCtx st scope
    let (handle, vars1, st1) := publish H scope args vars st0
    let (br, vars2, st2) := body vars1 st1
    let (vars3, st3) := cleanup H scope prevCtx handle vars2 st2
    let endCount := vars3.length
    if startCount < endCount then (.crash (leakMsg (endCount - startCount)), vars3, st3)
    else (resultOf br, vars3, st3)

/-! ### `eval_instructions` over the runner model -/

/-- `eval_instructions(instructions, …, start_line)`.  `halt k` is the embedder's flag as seen by
    the k-th poll at the top of the loop (a halted evaluation ends like one that ran past the last
    line).  `none` = out of fuel (the real loop has no bound of its own: a body that jumps back
    forever returns only when halted). -/
def evalInstructions {σ : Type} (sem : CmdSem σ) (halt : Nat → Bool) (is : List Instruction) :
    Nat → Nat → Nat → Option Str → Vars → σ → Option (BodyResult × Vars × σ)
  | 0, _, _, _, _, _ => none
  | fuel + 1, line, poll, flowOut, vars, s =>
    if halt poll then some (.finished flowOut, vars, s)
    else
    match is[line]? with
    | none => some (.finished flowOut, vars, s)
    | some instr =>
      match instr.ty with
      | .script si =>
        let r := runInstruction sem vars s instr line
        match r.1 with
        | .exit v => some (.exit v, r.2.2.1, r.2.2.2)
        | .error m => some (.error m, r.2.2.1, r.2.2.2)
        | .crash m => some (.crash m, r.2.2.1, r.2.2.2)
        | .goTo v (.label l) => some (.gotoLabel v l, r.2.2.1, r.2.2.2)
        | .goTo v (.line n) => evalInstructions sem halt is fuel n (poll + 1) v r.2.2.1 r.2.2.2
        | .continue v =>
          evalInstructions sem halt is fuel (line + 1) (poll + 1) v (r.2.2.1.updateOutput si.output v) r.2.2.2
      | _ => evalInstructions sem halt is fuel (line + 1) (poll + 1) flowOut vars s

def outOfFuelMsg : Str := "<model: out of fuel>".toList

/-- a body given by parsed instructions and a command semantics -/
def scriptBody {σ : Type} (sem : CmdSem σ) (halt : Nat → Bool) (fuel : Nat) (is : List Instruction)
    (vars : Vars) (st : σ) : BodyResult × Vars × σ :=
  (evalInstructions sem halt is fuel 0 0 none vars st).getD (.crash outOfFuelMsg, vars, st)


/-! ### a concrete handle table (driver, non-vacuity of `HandleOps.Lawful`) -/

structure Store where
  /-- live handles with the array they hold -/
  handles : List (Str × List Str) := []
  ctx : Str := []
deriving DecidableEq, Repr, Inhabited

def maxLen : List (Str × List Str) → Nat
  | [] => 0
  | (k, _) :: r => max k.length (maxLen r)

/-- `put_handle` draws a random key; the model takes one that is longer than every live key
    (only freshness matters, handle names are never observed) -/
def freshName (l : List (Str × List Str)) : Str := List.replicate (maxLen l + 1) '#'

def storeOps : HandleOps Store where
  put s v := (freshName s.handles, { s with handles := (freshName s.handles, v) :: s.handles })
  remove s h := { s with handles := s.handles.filter fun p => p.1 != h }
  getCtx s := s.ctx
  setCtx s c := { s with ctx := c }
  live s k := s.handles.any fun p => p.1 == k

/-! ### static reading of a script (for the per-script facts over `Generated.scripts`) -/

def forNames : List Str := ["for".toList, "std::flowcontrol::ForIn".toList]

/-- variables an instruction writes by its own syntax: the output variable, and the loop
    variable of a `for <var> in <handle>` line -/
def writtenBy (i : Instruction) : List Str :=
  match i.ty with
  | .script si =>
    (match si.output with | some o => [o] | none => []) ++
    (match si.command, si.args with
     | some c, some (v :: _) => if forNames.contains c then [v] else []
     | _, _ => [])
  | _ => []

def writtenVars (is : List Instruction) : List Str := is.flatMap writtenBy

/-- commands that evaluate their arguments as a condition; a condition whose first word is a
    command name runs that command (utils/condition.rs `eval_condition`) -/
def condNames : List Str :=
  ["if".toList, "elif".toList, "elseif".toList, "while".toList, "not".toList]

def isBareWord (a : Str) : Bool := !a.contains '$' && !a.contains '%' && !a.isEmpty

/-- the command words of `c args`: `c` itself and, through condition-evaluating commands, the
    leading bare words -/
def calleesOfCall : Nat → Str → List Str → List Str
  | 0, c, _ => [c]
  | fuel + 1, c, args =>
    if condNames.contains c then
      match args with
      | a :: rest => if isBareWord a then c :: calleesOfCall fuel a rest else [c]
      | [] => [c]
    else [c]

def calleesBy (i : Instruction) : List Str :=
  match i.ty with
  | .script si =>
    match si.command with
    | some c => calleesOfCall 4 c (si.args.getD [])
    | none => []
  | _ => []

def callees (is : List Instruction) : List Str := is.flatMap calleesBy

end Duck.Alias
