/-
  C17 — encodings: base64 (STANDARD alphabet, canonical padding), hexadecimal numbers,
  JSON <-> collection handles.

  Rust sources mirrored here
  * `duckscript_sdk/src/sdk/std/string/base64_encode|base64_decode/mod.rs`
    (`base64::engine::general_purpose::STANDARD.encode/.decode`; the crate's behaviour is
    modelled: alphabet `A–Z a–z 0–9 + /`, `=` padding required, length a multiple of 4,
    non-zero trailing bits refused),
  * `duckscript_sdk/src/sdk/std/math/hex_encode/mod.rs` (`parse::<u64>()`, `format!("{:#x}")`)
    and `hex_decode/mod.rs` (`trim_start_matches("0x")`, `u64::from_str_radix(_, 16)`),
  * `duckscript_sdk/src/sdk/std/json/parse/mod.rs::create_structure` and
    `json/encode/mod.rs::encode_from_state_value` over a store of handles
    (`utils/state.rs::put_handle`).

  Bytes are `Nat`s below 256.  UTF-8 lives in `Sdk/Utf8.lean` / `Sdk/Utf8Decode.lean`.
-/
import DuckModel.Types

namespace Duck.Enc

/-! ## base64 -/

/-- the STANDARD alphabet -/
def b64Char (n : Nat) : Char :=
  if n < 26 then Char.ofNat (65 + n)
  else if n < 52 then Char.ofNat (71 + n)
  else if n < 62 then Char.ofNat (n - 4)
  else if n = 62 then '+'
  else '/'

/-- inverse table (`=` and everything else is an invalid symbol) -/
def b64Val (c : Char) : Option Nat :=
  let n := c.toNat
  if 65 ≤ n ∧ n ≤ 90 then some (n - 65)
  else if 97 ≤ n ∧ n ≤ 122 then some (n - 71)
  else if 48 ≤ n ∧ n ≤ 57 then some (n + 4)
  else if n = 43 then some 62
  else if n = 47 then some 63
  else none

/-- `STANDARD.encode`: 3 bytes → 4 symbols, the last group padded with `=` -/
def b64Encode : List Nat → List Char
  | a :: b :: c :: rest =>
    b64Char (a / 4) :: b64Char ((a % 4) * 16 + b / 16) :: b64Char ((b % 16) * 4 + c / 64) ::
      b64Char (c % 64) :: b64Encode rest
  | [a, b] => [b64Char (a / 4), b64Char ((a % 4) * 16 + b / 16), b64Char ((b % 16) * 4), '=']
  | [a] => [b64Char (a / 4), b64Char ((a % 4) * 16), '=', '=']
  | [] => []

/-- `STANDARD.decode` (`none` = any `DecodeError`): groups of 4 symbols; only the last group
    may end in `=` or `==`; the unused low bits of the last symbol must be zero
    (`decode_allow_trailing_bits = false`); any other length or symbol is an error. -/
def b64Decode : List Char → Option (List Nat)
  | [] => some []
  | c0 :: c1 :: c2 :: c3 :: rest =>
    if rest.isEmpty ∧ c3 = '=' then
      if c2 = '=' then
        match b64Val c0, b64Val c1 with
        | some v0, some v1 => if v1 % 16 = 0 then some [v0 * 4 + v1 / 16] else none
        | _, _ => none
      else
        match b64Val c0, b64Val c1, b64Val c2 with
        | some v0, some v1, some v2 =>
          if v2 % 4 = 0 then some [v0 * 4 + v1 / 16, (v1 % 16) * 16 + v2 / 4] else none
        | _, _, _ => none
    else
      match b64Val c0, b64Val c1, b64Val c2, b64Val c3, b64Decode rest with
      | some v0, some v1, some v2, some v3, some r =>
        some ((v0 * 4 + v1 / 16) :: ((v1 % 16) * 16 + v2 / 4) :: ((v2 % 4) * 64 + v3) :: r)
      | _, _, _, _, _ => none
  | _ => none

/-! ## numbers in radix 10 / 16 (`u64`) -/

def u64Bound : Nat := 18446744073709551616

/-- `char::to_digit(radix)` for radix 10 and 16 -/
def digitVal (radix : Nat) (c : Char) : Option Nat :=
  let n := c.toNat
  if 48 ≤ n ∧ n ≤ 57 then some (n - 48)
  else if radix = 16 ∧ 97 ≤ n ∧ n ≤ 102 then some (n - 87)
  else if radix = 16 ∧ 65 ≤ n ∧ n ≤ 70 then some (n - 55)
  else none

def foldDigits (radix : Nat) : Nat → List Char → Option Nat
  | acc, [] => some acc
  | acc, c :: cs =>
    match digitVal radix c with
    | some d => foldDigits radix (acc * radix + d) cs
    | none => none

/-- `u64::from_str_radix` / `str::parse::<u64>` (`none` = `ParseIntError`): one optional
    leading `+`, at least one digit, no overflow. -/
def parseU64 (radix : Nat) (s : List Char) : Option Nat :=
  let body := match s with
    | c :: r => if c = '+' then r else s
    | [] => s
  if body.isEmpty then none
  else
    match foldDigits radix 0 body with
    | some v => if v < u64Bound then some v else none
    | none => none

def lowerHexDigit (d : Nat) : Char := if d < 10 then Char.ofNat (48 + d) else Char.ofNat (87 + d)

/-- most significant digit first, in front of `acc`; `fuel` ≥ number of digits -/
def digitsAux (radix : Nat) : Nat → Nat → List Char → List Char
  | 0, _, acc => acc
  | fuel + 1, n, acc =>
    if n < radix then lowerHexDigit n :: acc
    else digitsAux radix fuel (n / radix) (lowerHexDigit (n % radix) :: acc)

/-- `format!("{:#x}", n)` for `n : u64` (16 digits suffice) -/
def hexEncode (n : Nat) : List Char := '0' :: 'x' :: digitsAux 16 16 n []

/-- `n.to_string()` for `n : u64` (20 digits suffice) -/
def decEncode (n : Nat) : List Char := digitsAux 10 20 n []

/-- `str::trim_start_matches("0x")` -/
def stripHexPrefix : List Char → List Char
  | c0 :: c1 :: rest => if c0 = '0' ∧ c1 = 'x' then stripHexPrefix rest else c0 :: c1 :: rest
  | s => s

/-- `hex_decode` on the number level -/
def hexDecode (s : List Char) : Option Nat := parseU64 16 (stripHexPrefix s)

/-- the `hex_encode` command: decimal text → `0x…` text -/
def hexEncodeCmd (s : List Char) : Option (List Char) := (parseU64 10 s).map hexEncode

/-- the `hex_decode` command: `0x…` text → decimal text -/
def hexDecodeCmd (s : List Char) : Option (List Char) := (hexDecode s).map decEncode

/-! ## JSON documents and the handle store -/

mutual
  /-- `serde_json::Value`; a number is carried as its canonical text (`Number::to_string`),
      an object as the list of its fields (`serde_json::Map` is a `BTreeMap`: keys are
      unique — the model relies on that representation invariant and keeps the order) -/
  inductive Json
    | null
    | bool (b : Bool)
    | num (text : Str)
    | str (s : Str)
    | arr (items : JList)
    | obj (fields : JFields)
  inductive JList
    | nil
    | cons (head : Json) (tail : JList)
  inductive JFields
    | nil
    | cons (key : Str) (value : Json) (tail : JFields)
end

/-- the `StateValue`s that collections hold (`array`, `map`, `json_parse --collection` store
    only `StateValue::String` items); `other` = `ByteArray`/`Set`/`Any` -/
inductive SVal
  | str (s : Str)
  | list (items : List Str)
  | map (kvs : List (Str × Str))
  | other
deriving DecidableEq, Repr

abbrev Entries := List (Str × SVal)

def lookup (k : Str) : Entries → Option SVal
  | [] => none
  | (k', v) :: r => if k' = k then some v else lookup k r

/-- `HashMap::insert` -/
def put (k : Str) (v : SVal) : Entries → Entries
  | [] => [(k, v)]
  | (k', v') :: r => if k' = k then (k, v) :: r else (k', v') :: put k v r

/-- the handles sub-state with a supply of fresh handle names.  The real names are
    `handle:` + 20 random alphanumerics (`put_handle`); the model draws `key next`. -/
structure Store where
  next : Nat := 0
  entries : Entries := []

/-- `put_handle` -/
def alloc (key : Nat → Str) (st : Store) (v : SVal) : Str × Store :=
  (key st.next, { next := st.next + 1, entries := put (key st.next) v st.entries })

def boolText (b : Bool) : Str := if b then "true".toList else "false".toList

mutual
  /-- `create_structure`: scalars become their text, `null` becomes "no value" (dropped by the
      enclosing array/object), arrays and objects become fresh handles -/
  def parseJ (key : Nat → Str) : Json → Store → Option Str × Store
    | .null, st => (none, st)
    | .bool b, st => (some (boolText b), st)
    | .num t, st => (some t, st)
    | .str s, st => (some s, st)
    | .arr items, st =>
      let r := parseL key items st
      let a := alloc key r.2 (.list r.1)
      (some a.1, a.2)
    | .obj fields, st =>
      let r := parseF key fields st
      let a := alloc key r.2 (.map r.1)
      (some a.1, a.2)
  def parseL (key : Nat → Str) : JList → Store → List Str × Store
    | .nil, st => ([], st)
    | .cons h t, st =>
      let r := parseJ key h st
      let q := parseL key t r.2
      (match r.1 with
       | some v => v :: q.1
       | none => q.1, q.2)
  def parseF (key : Nat → Str) : JFields → Store → List (Str × Str) × Store
    | .nil, st => ([], st)
    | .cons k v t, st =>
      let r := parseJ key v st
      let q := parseF key t r.2
      (match r.1 with
       | some x => (k, x) :: q.1
       | none => q.1, q.2)
end

inductive EncErr
  /-- "Unsupported value type." -/
  | unsupported
  /-- recursion deeper than the fuel: only possible through a cyclic store (the real code
      overflows its stack there — C07) -/
  | fuel
deriving DecidableEq, Repr

def encItems (g : Str → Except EncErr Json) : List Str → Except EncErr JList
  | [] => .ok .nil
  | s :: r =>
    match g s with
    | .error e => .error e
    | .ok j =>
      match encItems g r with
      | .error e => .error e
      | .ok js => .ok (.cons j js)

def encFields (g : Str → Except EncErr Json) : List (Str × Str) → Except EncErr JFields
  | [] => .ok .nil
  | (k, s) :: r =>
    match g s with
    | .error e => .error e
    | .ok j =>
      match encFields g r with
      | .error e => .error e
      | .ok js => .ok (.cons k j js)

/-- `encode_from_state_value`: a string that names a handle is replaced by the encoding of
    that handle's value; one unit of fuel per recursive call -/
def encodeVal : Nat → Entries → SVal → Except EncErr Json
  | 0, _, _ => .error .fuel
  | f + 1, e, .str s =>
    match lookup s e with
    | some v => encodeVal f e v
    | none => .ok (.str s)
  | f + 1, e, .list items =>
    match encItems (fun s => encodeVal f e (.str s)) items with
    | .ok js => .ok (.arr js)
    | .error x => .error x
  | f + 1, e, .map kvs =>
    match encFields (fun s => encodeVal f e (.str s)) kvs with
    | .ok js => .ok (.obj js)
    | .error x => .error x
  | _ + 1, _, .other => .error .unsupported

mutual
  /-- the normalisation of the property: scalars become strings, nulls are dropped -/
  def norm : Json → Option Json
    | .null => none
    | .bool b => some (.str (boolText b))
    | .num t => some (.str t)
    | .str s => some (.str s)
    | .arr items => some (.arr (normL items))
    | .obj fields => some (.obj (normF fields))
  def normL : JList → JList
    | .nil => .nil
    | .cons h t =>
      match norm h with
      | some j => .cons j (normL t)
      | none => normL t
  def normF : JFields → JFields
    | .nil => .nil
    | .cons k v t =>
      match norm v with
      | some j => .cons k j (normF t)
      | none => normF t
end

mutual
  /-- recursion depth of `encode_from_state_value` on the parsed document -/
  def need : Json → Nat
    | .null => 1
    | .bool _ => 1
    | .num _ => 1
    | .str _ => 1
    | .arr items => 2 + needL items
    | .obj fields => 2 + needF fields
  def needL : JList → Nat
    | .nil => 0
    | .cons h t => max (need h) (needL t)
  def needF : JFields → Nat
    | .nil => 0
    | .cons _ v t => max (need v) (needF t)
end

mutual
  /-- number of arrays and objects of a document = number of handles `json_parse` allocates -/
  def containers : Json → Nat
    | .null => 0
    | .bool _ => 0
    | .num _ => 0
    | .str _ => 0
    | .arr items => 1 + containersL items
    | .obj fields => 1 + containersF fields
  def containersL : JList → Nat
    | .nil => 0
    | .cons h t => containers h + containersL t
  def containersF : JFields → Nat
    | .nil => 0
    | .cons _ v t => containers v + containersF t
end

/-- the model's handle names: `handle:` followed by `n` times `h` (any injective supply does) -/
def handlePrefix : Str := ['h', 'a', 'n', 'd', 'l', 'e', ':']

def handleKey (n : Nat) : Str := handlePrefix ++ List.replicate n 'h'

/-- `json_parse --collection doc` in the empty store -/
def parseToStore (doc : Json) : Option Str × Store := parseJ handleKey doc {}

/-- `json_encode --collection v` (`encode_from_state`): twice the number of handles plus two
    calls are enough unless the store is cyclic -/
def encodeFromStore (st : Store) (v : Str) : Except EncErr Json :=
  encodeVal (2 * st.entries.length + 2) st.entries (.str v)

end Duck.Enc
