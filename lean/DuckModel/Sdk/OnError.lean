/-
  Model of the error-reporting command family of the standard library:

    duckscript_sdk/src/sdk/std/on_error/mod.rs                    (`get_value`, state keys)
    duckscript_sdk/src/sdk/std/on_error/on_error/mod.rs           on_error
    duckscript_sdk/src/sdk/std/on_error/exit_on_error/mod.rs      exit_on_error, set_exit_on_error
    duckscript_sdk/src/sdk/std/on_error/get_last_error*/mod.rs    the three queries
    duckscript_sdk/src/sdk/std/on_error/set_error/mod.rs          set_error
    duckscript_sdk/src/sdk/std/on_error/trigger_error/mod.rs      trigger_error
    duckscript_sdk/src/sdk/std/test/assert_error/mod.rs           assert_error

  The sub state `on_error` of the interpreter state holds the keys `error`, `line`, `source`
  (strings; `source` can be removed again by `set_error`) and `exit_on_error` (a boolean; the
  missing key reads as `false` through `condition::is_true(None)`, so a `Bool` is enough).

  The family is composed with an arbitrary other command semantics by `withOnError`.
-/
import DuckModel.Runner
import DuckModel.Sdk.Condition

namespace Duck

/-- the sub state `on_error` -/
structure ErrSt where
  lastError : Option Str := none
  lastErrorLine : Option Str := none
  lastErrorSource : Option Str := none
  exitOnError : Bool := false
deriving DecidableEq, Repr, Inhabited

namespace OnError

/-- the members of the family -/
inductive Fam
  | onError | exitOnError | getLastError | getLastErrorLine | getLastErrorSource
  | setError | triggerError | assertError
deriving DecidableEq, Repr

/-- command names and aliases (`name()` / `aliases()` of each `CommandImpl`) -/
def famOf (name : Str) : Option Fam :=
  if name = "on_error".toList ∨ name = "std::error::OnError".toList then some .onError
  else if name = "exit_on_error".toList ∨ name = "set_exit_on_error".toList ∨
      name = "std::error::SetExitOnError".toList then some .exitOnError
  else if name = "get_last_error".toList ∨ name = "std::error::GetLastError".toList then
    some .getLastError
  else if name = "get_last_error_line".toList ∨ name = "std::error::GetLastErrorLine".toList then
    some .getLastErrorLine
  else if name = "get_last_error_source".toList ∨
      name = "std::error::GetLastErrorSource".toList then some .getLastErrorSource
  else if name = "set_error".toList ∨ name = "std::error::SetError".toList then some .setError
  else if name = "trigger_error".toList ∨ name = "std::error::TriggerError".toList then
    some .triggerError
  else if name = "assert_error".toList ∨ name = "std::test::AssertError".toList then
    some .assertError
  else none

/-- `bool::to_string` -/
def boolStr (b : Bool) : Str := if b then "true".toList else "false".toList

def invalidInput : Str := "Invalid input provided.".toList
def defaultTrigger : Str := "Error".toList
def defaultAssert : Str := "Assert failed.".toList

/-- `CommandImpl::run` of each member: bound arguments, `context.line`, sub state ↦
    result and new sub state (none of them touches the variables) -/
def runFam (f : Fam) (args : List Str) (line : Nat) (e : ErrSt) : CmdResult × ErrSt :=
  match f with
  | .onError =>
    match args with
    | [] => (.crash invalidInput, e)
    | m :: rest =>
      if e.exitOnError then (.crash m, e)
      else
        let ls : Str × Str :=
          match rest with
          | [] => ([], [])
          | l :: rest2 => (l, rest2.headD [])
        (.continue (some "false".toList),
          { e with lastError := some m, lastErrorLine := some ls.1, lastErrorSource := some ls.2 })
  | .exitOnError =>
    match args with
    | [] => (.continue (some (boolStr e.exitOnError)), e)
    | v :: _ =>
      let b := isTrue (some v)
      (.continue (some (boolStr b)), { e with exitOnError := b })
  | .getLastError => (.continue e.lastError, e)
  | .getLastErrorLine => (.continue e.lastErrorLine, e)
  | .getLastErrorSource => (.continue e.lastErrorSource, e)
  | .setError =>
    match args with
    | [] => (.error invalidInput, e)
    | m :: _ =>
      (.continue none,
        { e with lastError := some m, lastErrorLine := some (natToStr line), lastErrorSource := none })
  | .triggerError => (.error (args.headD defaultTrigger), e)
  | .assertError => (.error (args.headD defaultAssert), e)

/-- the family as a partial command semantics over its own state -/
def onErrorSem (name : Str) (args : List Str) (line : Nat) (e : ErrSt) : Option (CmdResult × ErrSt) :=
  (famOf name).map fun f => runFam f args line e

end OnError

open OnError in
/-- the family composed with any other command library `base` (the family's names win, as in
    the SDK where nobody else registers them) -/
def withOnError {σ : Type} (base : CmdSem σ) : CmdSem (σ × ErrSt) :=
  fun name args out line vars s =>
    match famOf name with
    | some f =>
      let r := runFam f args line s.2
      some (r.1, vars, (s.1, r.2))
    | none =>
      match base name args out line vars s.1 with
      | none => none
      | some (r, vars', s1') => some (r, vars', (s1', s.2))

end Duck
