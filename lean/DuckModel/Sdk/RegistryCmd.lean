/-
  Model of the registry-relevant behaviour of the SCRIPT-LEVEL commands (property C15, second
  sentence), transcribed from

    duckscript_sdk/src/sdk/std/lib/alias/set/mod.rs        `alias`   (`create_alias_command`, `run`)
    duckscript_sdk/src/sdk/std/lib/alias/unset/mod.rs      `unalias`
    duckscript_sdk/src/sdk/std/lib/command/remove/mod.rs   `remove_command`
    duckscript_sdk/src/sdk/std/is_command_defined/mod.rs   `is_command_defined`
    duckscript_sdk/src/sdk/std/flowcontrol/function/mod.rs `fn name` (`FunctionCommand::run`,
                                                            `get_fn_info_from_state`,
                                                            `store_fn_info_in_state`)

  over the registry model `Reg` of DuckModel/Registry.lean (`Commands::set/remove/exists`).

  State (`RState`):
    * `reg`  - `context.commands`
    * `sub`  - the sub-state `context.state["ALIAS_STATE"]` kept by `alias`/`unalias`: the names
               created by `alias` (value always `StateValue::Boolean(true)`)
    * `fns`  - the function meta-info kept by `fn` in
               `context.state["duckscriptsdk::command::function"]["meta_info"]`: name ↦ start line
               (of the stored `start`/`end`/`scoped` only `start` takes part in a decision)

  What a registered command IS (the boxed implementation) is the tag of its `CmdSpec`; `Kind`
  says how the tag is read: a native command (registered through `Commands::set` by the
  embedder), a command created by `alias` (the number identifies the creating call, i.e. the
  stored target arguments), a command created by `fn` (the number is the line of the definition,
  the key under which `run_call` finds the body).

  Every operation returns the new state AND the Rust result, so partial mutation is visible:
  `fn` stores its meta-info BEFORE it asks `Commands::set` (a refused definition keeps the entry),
  `remove_command` does not touch `sub` (the entry of a removed alias stays).
-/
import DuckModel.Registry

namespace Duck.RegCmd
open Duck

/-- what the boxed implementation of a registered command is -/
inductive Kind
  | native (t : Nat)
  | aliasOf (id : Nat)
  | function (line : Nat)
deriving DecidableEq, Repr

def Kind.tag : Kind → Nat
  | .native t => 3 * t
  | .aliasOf i => 3 * i + 1
  | .function l => 3 * l + 2

def Kind.ofTag (n : Nat) : Kind :=
  if n % 3 = 0 then .native (n / 3)
  else if n % 3 = 1 then .aliasOf (n / 3)
  else .function (n / 3)

/-- the `AliasCommand` built by `create_alias_command`: the given name, NO aliases -/
def aliasSpec (name : Str) (id : Nat) : CmdSpec :=
  { name := name, aliases := [], tag := (Kind.aliasOf id).tag }

/-- the `CallFunctionCommand` built by `fn`: the function name, NO aliases -/
def fnSpec (name : Str) (line : Nat) : CmdSpec :=
  { name := name, aliases := [], tag := (Kind.function line).tag }

def nativeSpec (name : Str) (aliases : List Str) (t : Nat) : CmdSpec :=
  { name := name, aliases := aliases, tag := (Kind.native t).tag }

structure RState where
  reg : Reg := {}
  sub : KV Bool := []
  fns : KV Nat := []
deriving Repr

/-- the `CommandResult` of an operation (error TEXTS are not modelled) -/
inductive Out
  /-- `Continue(Some("true"|"false"))` -/
  | value (b : Bool)
  /-- `GoTo(None, Line(..))`: `fn` skips to the line after the function's end -/
  | goto
  /-- `CommandResult::Error` -/
  | error
  /-- `CommandResult::Crash` -/
  | crash
  /-- result of the embedder's `Commands::set` (`Ok` / `Err`) -/
  | set (ok : Bool)
deriving DecidableEq, Repr

/-- `alias name target args…` (alias/set/mod.rs:88-106, 52-63): fewer than two arguments is an
    error; otherwise `Commands::set` of an alias-less command called `name`; ONLY when that is
    accepted the name is recorded in the sub-state -/
def aliasCmd (s : RState) (args : List Str) (id : Nat) : RState × Out :=
  match args with
  | name :: _ :: _ =>
    let p := s.reg.set (aliasSpec name id)
    if p.2 then ({ s with reg := p.1, sub := s.sub.put name true }, .value true)
    else ({ s with reg := p.1 }, .error)
  | _ => (s, .error)

/-- `unalias name` (alias/unset/mod.rs:32-54): a recorded name is removed through
    `Commands::remove` (alias indirection included) and forgotten only if that removed
    something; a name that is not recorded but is a key of the alias table loses just that
    alias-table entry -/
def unaliasCmd (s : RState) (args : List Str) : RState × Out :=
  match args with
  | [key] =>
    if s.sub.containsKey key then
      let p := s.reg.remove key
      if p.2 then ({ s with reg := p.1, sub := s.sub.erase key }, .value true)
      else ({ s with reg := p.1 }, .value false)
    else if s.reg.aliases.containsKey key then
      ({ s with reg := { s.reg with aliases := s.reg.aliases.erase key } }, .value true)
    else (s, .value false)
  | _ => (s, .error)

/-- `remove_command name` (command/remove/mod.rs:30-37): `Commands::remove`; the alias
    sub-state is not consulted and not updated -/
def removeCmd (s : RState) (args : List Str) : RState × Out :=
  match args with
  | [name] =>
    let p := s.reg.remove name
    ({ s with reg := p.1 }, .value p.2)
  | _ => (s, .error)

/-- `is_command_defined name` (is_command_defined/mod.rs:30-38): `Commands::exists` of the first
    argument, further arguments are ignored -/
def isDefinedCmd (s : RState) (args : List Str) : RState × Out :=
  match args with
  | name :: _ => (s, .value (s.reg.exists name))
  | [] => (s, .error)

/-- `fn name` executed at line `line` (function/mod.rs:306-431); `hasEnd` = `find_commands`
    finds the end of the block.  Known name: error unless it is this very line (then the block
    is skipped).  New name: no end ⇒ crash; otherwise the meta-info is stored FIRST and then the
    call command is registered through `Commands::set`; a refusal is an error and the meta-info
    stays. -/
def fnCmd (s : RState) (name : Str) (line : Nat) (hasEnd : Bool) : RState × Out :=
  match s.fns.get name with
  | some start => if start = line then (s, .goto) else (s, .error)
  | none =>
    if hasEnd then
      let p := s.reg.set (fnSpec name line)
      ({ s with reg := p.1, fns := s.fns.put name line }, if p.2 then .goto else .error)
    else (s, .crash)

/-- the embedder registers a native command (`Commands::set`), e.g. the loaded SDK -/
def nativeCmd (s : RState) (name : Str) (aliases : List Str) (t : Nat) : RState × Out :=
  let p := s.reg.set (nativeSpec name aliases t)
  ({ s with reg := p.1 }, .set p.2)

inductive Op
  | native (name : Str) (aliases : List Str) (t : Nat)
  | alias (args : List Str) (id : Nat)
  | unalias (args : List Str)
  | removeCommand (args : List Str)
  | isCommandDefined (args : List Str)
  | defineFn (name : Str) (line : Nat) (hasEnd : Bool)
deriving Repr

def step (s : RState) : Op → RState × Out
  | .native n al t => nativeCmd s n al t
  | .alias args id => aliasCmd s args id
  | .unalias args => unaliasCmd s args
  | .removeCommand args => removeCmd s args
  | .isCommandDefined args => isDefinedCmd s args
  | .defineFn n l e => fnCmd s n l e

def run (s : RState) : List Op → RState × List Out
  | [] => (s, [])
  | op :: ops =>
    let p := step s op
    let q := run p.1 ops
    (q.1, p.2 :: q.2)

/-- the per-step trace: every operation's result and the state after it -/
def trace (s : RState) : List Op → List (Out × RState)
  | [] => []
  | op :: ops =>
    let p := step s op
    (p.2, p.1) :: trace p.1 ops

end Duck.RegCmd
