/-
  C16 — `str::to_lowercase` / `str::to_uppercase` of the Rust standard library over ALL of
  Unicode (what the SDK commands `lowercase` / `uppercase` call).

  * per character: `char::to_lowercase` / `char::to_uppercase` — table look-up in
    `UnicodeCase.lean` (generated from the installed toolchain by harness/src/bin/unitable.rs and
    compared with it on every check run), identity for every character not listed;
  * `str::to_uppercase` maps character by character;
  * `str::to_lowercase` maps character by character except for the capital sigma U+03A3, the
    only context rule (library/alloc/src/str.rs `map_uppercase_sigma`):
        is_word_final = case_ignorable_then_cased(from[..i].chars().rev())
                        && !case_ignorable_then_cased(from[i + 2..].chars())
        case_ignorable_then_cased(iter) = match iter.skip_while(Case_Ignorable).next()
                                          { Some(c) => Cased(c), None => false }
    `ς` (U+03C2) when word final, else `σ` (U+03C3).  The context is read off the ORIGINAL text
    on both sides.  (`Cased` is consulted only for a character that is not Case_Ignorable; the
    table `casedRanges` lists exactly those.)
  Imports only model files: linked into the `driver` executable.
-/
import DuckModel.Types
import DuckModel.UnicodeCase

namespace Duck.UCase
open Duck

/-- the code points `lo, lo+step, … ≤ hi` of one run with their targets -/
def expandRun (r : Nat × Nat × Nat × List Nat) : List (Nat × List Nat) :=
  (List.range ((r.2.1 - r.1) / r.2.2.1 + 1)).map fun i =>
    (r.1 + i * r.2.2.1, r.2.2.2.map (· + i * r.2.2.1))

def expandRuns (rs : List (Nat × Nat × Nat × List Nat)) : List (Nat × List Nat) :=
  rs.flatMap expandRun

/-- every code point `char::to_lowercase` changes, with its targets (sorted by code point) -/
def lowerMap : List (Nat × List Nat) := expandRuns lowerRuns

/-- every code point `char::to_uppercase` changes, with its targets (sorted by code point) -/
def upperMap : List (Nat × List Nat) := expandRuns upperRuns

def inRanges (rs : List (Nat × Nat)) (n : Nat) : Bool := rs.any fun r => r.1 ≤ n && n ≤ r.2

/-- a table look-up; characters that are not listed map to themselves -/
def mapChar (m : List (Nat × List Nat)) (c : Char) : List Char :=
  match m.lookup c.toNat with
  | some l => l.map Char.ofNat
  | none => [c]

/-- `char::to_lowercase` -/
def lowerChar (c : Char) : List Char := mapChar lowerMap c

/-- `char::to_uppercase` -/
def upperChar (c : Char) : List Char := mapChar upperMap c

/-- `core::unicode::Cased` (asked only of characters that are not Case_Ignorable) -/
def isCased (c : Char) : Bool := inRanges casedRanges c.toNat

/-- `core::unicode::Case_Ignorable` -/
def isCaseIgnorable (c : Char) : Bool := inRanges caseIgnorableRanges c.toNat

/-- `case_ignorable_then_cased` -/
def caseIgnorableThenCased (l : List Char) : Bool :=
  match l.dropWhile isCaseIgnorable with
  | c :: _ => isCased c
  | [] => false

/-- what `str::to_lowercase` pushes for the character `c` that stands between `rb.reverse` and
    `after` in the original text -/
def lowerAt (rb after : List Char) (c : Char) : List Char :=
  if c.toNat = 0x3A3 then
    [if caseIgnorableThenCased rb && !caseIgnorableThenCased after then Char.ofNat 0x3C2
     else Char.ofNat 0x3C3]
  else lowerChar c

/-- the loop of `str::to_lowercase`: `rb` = the characters already passed, last one first -/
def lowerGo : List Char → List Char → List Char
  | _, [] => []
  | rb, c :: rest => lowerAt rb rest c ++ lowerGo (c :: rb) rest

/-- `str::to_lowercase` -/
def toLowercase (s : Str) : Str := lowerGo [] s

/-- `str::to_uppercase` -/
def toUppercase (s : Str) : Str := s.flatMap upperChar

end Duck.UCase
