/-
  C16 — models of the SDK text / comparison / range commands on UTF-8 byte lists.

  duckscript_sdk/src/sdk/std/string/{length,indexof,last_indexof,substring,contains,starts_with,
  ends_with,equals,is_empty,concat,replace,split,trim,trim_start,trim_end,uppercase,lowercase},
  duckscript_sdk/src/sdk/std/math/{less_than,greater_than}, std/collections/range.

  A Rust `String` is its list of UTF-8 bytes (`utf8Encode` of the scalars); `len`, `find`,
  `rfind` and slicing count BYTES.  `uppercase`/`lowercase` are `str::to_uppercase` /
  `str::to_lowercase` over all of Unicode (Sdk/CaseMap.lean, tables UnicodeCase.lean).
  `less_than`/`greater_than` answer for EVERY argument pair: `str::parse::<f64>` is modelled exactly
  (Sdk/F64.lean: grammar of `dec2flt`, correctly rounded IEEE-754 binary64 with subnormals,
  overflow, signed zeros, inf/nan, IEEE comparison).  `calc` is modelled in Sdk/Calc.lean.
  Imports only model files: linked into the `driver` executable.
-/
import DuckModel.Types
import DuckModel.Chars
import DuckModel.Sdk.Utf8
import DuckModel.Sdk.CaseMap
import DuckModel.Sdk.F64

namespace Duck.Strings
open Duck

/-- what a command hands back to the runner -/
inductive Out
  | str (b : Bytes)            -- Continue(Some(text)), as UTF-8 bytes
  | none                       -- Continue(None)
  | nat (n : Nat)              -- Continue(Some(n.to_string()))
  | bool (b : Bool)            -- Continue(Some("true"/"false"))
  | pieces (l : List Bytes)    -- Continue(Some(handle)) of a list of strings
  | ints (l : List Int)        -- Continue(Some(handle)) of a list of 64 bit numbers
  | err                        -- Error(_)
  | panic                      -- the process unwinds (never produced by the repaired code)
  | unmodelled                 -- outside the modelled domain (no command of this file answers it any more)
  deriving DecidableEq, Repr

abbrev enc (s : Str) : Bytes := utf8Encode s

/-! ### `str::find` / `str::rfind` with a `&str` pattern: byte offsets -/

/-- first byte offset at which `p` matches (`Some(0)` for the empty pattern) -/
def find (p : Bytes) : Bytes → Option Nat
  | [] => if p = [] then some 0 else none
  | x :: t => if p.isPrefixOf (x :: t) then some 0 else (find p t).map (· + 1)

/-- last byte offset at which `p` matches (`Some(len)` for the empty pattern) -/
def rfind (p : Bytes) : Bytes → Option Nat
  | [] => if p = [] then some 0 else none
  | x :: t =>
    match rfind p t with
    | some k => some (k + 1)
    | none => if p.isPrefixOf (x :: t) then some 0 else none

/-! ### integer parsing: `str::parse::<i64>` / `<isize>` (64 bit target) -/

def isDigit (c : Char) : Bool := 48 ≤ c.toNat && c.toNat ≤ 57

def digitsVal (l : List Char) : Nat := l.foldl (fun acc c => acc * 10 + (c.toNat - 48)) 0

/-- a non-empty run of ASCII digits -/
def parseDigits (l : List Char) : Option Nat :=
  if l ≠ [] ∧ l.all isDigit = true then some (digitsVal l) else none

/-- optional single `+` or `-`, then at least one digit, nothing else -/
def parseInt : Str → Option Int
  | [] => none
  | c :: r =>
    if c = '+' then (parseDigits r).map Int.ofNat
    else if c = '-' then (parseDigits r).map (fun n => - Int.ofNat n)
    else (parseDigits (c :: r)).map Int.ofNat

/-- overflow is an error -/
def parseI64 (s : Str) : Option Int :=
  match parseInt s with
  | some v => if -9223372036854775808 ≤ v ∧ v ≤ 9223372036854775807 then some v else none
  | none => none

/-! ### substring -/

/-- `str::get(s..e)` -/
def slice (b : Bytes) (s e : Nat) : Out :=
  if s ≤ e ∧ isBoundary b s = true ∧ isBoundary b e = true then .str ((b.drop s).take (e - s))
  else .err

/-- `isize -> usize` by `try_into` -/
def toUsize (v : Int) : Option Nat := if 0 ≤ v then some v.toNat else none

/-- the common tail of `substring`: both conversions, then the checked slice -/
def finish (b : Bytes) (start stop : Int) : Out :=
  match toUsize start with
  | none => .err
  | some s =>
    match toUsize stop with
    | none => .err
    | some e => slice b s e

/-- two arguments: `v >= 0`: from `v` to the end; `v < 0`: drop `-v` bytes from the end -/
def substr2 (b : Bytes) (v : Int) : Out :=
  let len : Int := b.length
  if v ≥ 0 then
    if v > len - 1 then .err else finish b v len
  else
    let e := len + v
    if e < 0 then .err else finish b 0 e

/-- three arguments: start and end index -/
def substr3 (b : Bytes) (st en : Int) : Out :=
  let len : Int := b.length
  if st > len - 1 then .err
  else if en ≥ st then
    if en > len - 1 then .err else finish b st en
  else .err

def substring (args : List Str) : Out :=
  match args with
  | [] => .err
  | [s] => finish (enc s) 0 (enc s).length
  | [s, a] =>
    match parseI64 a with
    | some v => substr2 (enc s) v
    | none => .err
  | s :: a :: b :: _ =>
    match parseI64 a with
    | none => .err
    | some st =>
      if st > ((enc s).length : Int) - 1 then .err
      else
        match parseI64 b with
        | none => .err
        | some en => substr3 (enc s) st en

/-! ### split / replace: `next_match` is `find` on the rest of the text -/

/-- `str::split(p)` for a non-empty pattern; `fuel` bounds the number of matches -/
def splitF (p : Bytes) : Nat → Bytes → List Bytes
  | 0, l => [l]
  | f + 1, l =>
    match find p l with
    | none => [l]
    | some k => l.take k :: splitF p f (l.drop (k + p.length))

/-- the empty pattern matches at every character boundary: `"ab".split("") = ["", "a", "b", ""]` -/
def split (s t : Str) : List Bytes :=
  if t = [] then [] :: (s.map utf8EncodeChar ++ [[]])
  else splitF (enc t) ((enc s).length + 1) (enc s)

/-- `str::replace(p, to)` for a non-empty pattern -/
def replaceF (p to : Bytes) : Nat → Bytes → Bytes
  | 0, l => l
  | f + 1, l =>
    match find p l with
    | none => l
    | some k => l.take k ++ (to ++ replaceF p to f (l.drop (k + p.length)))

/-- `"ab".replace("", "-") = "-a-b-"` -/
def replace (s p to : Str) : Bytes :=
  if p = [] then enc to ++ s.flatMap (fun c => utf8EncodeChar c ++ enc to)
  else replaceF (enc p) (enc to) ((enc s).length + 1) (enc s)

/-! ### case mapping: the ASCII maps (what `to_uppercase`/`to_lowercase` do on ASCII text, see
    `C16_case_upper_ascii` / `C16_case_lower_ascii`); the full maps are in Sdk/CaseMap.lean -/

def asciiUpperChar (c : Char) : Char :=
  if 'a'.toNat ≤ c.toNat ∧ c.toNat ≤ 'z'.toNat then Char.ofNat (c.toNat - 32) else c

def isAscii (s : Str) : Bool := s.all (fun c => c.toNat < 128)

/-! ### `range` -/

/-- `(start..end)` of `i64` -/
def rangeList (a b : Int) : List Int := (List.range (b - a).toNat).map (fun (i : Nat) => a + (i : Int))

/-! ### `less_than` / `greater_than`: `str::parse::<f64>` on both arguments (Sdk/F64.lean: the
     grammar of `dec2flt`, correctly rounded binary64, IEEE comparison), then `<` / `>` -/

def compareWith (f : F64.F64 → F64.F64 → Bool) (args : List Str) : Out :=
  match args with
  | [a, b] =>
    match F64.parseF64 a, F64.parseF64 b with
    | some x, some y => .bool (f x y)
    | _, _ => .err
  | _ => .err

/-! ### the commands -/

def length (args : List Str) : Out :=
  match args with
  | [] => .err
  | s :: _ => .nat (enc s).length

def optNat : Option Nat → Out
  | some k => .nat k
  | Option.none => .none

def indexof (args : List Str) : Out :=
  match args with
  | s :: t :: _ => optNat (find (enc t) (enc s))
  | _ => .err

def lastIndexof (args : List Str) : Out :=
  match args with
  | s :: t :: _ => optNat (rfind (enc t) (enc s))
  | _ => .err

def contains (args : List Str) : Out :=
  match args with
  | s :: t :: _ => .bool (find (enc t) (enc s)).isSome
  | _ => .err

def startsWith (args : List Str) : Out :=
  match args with
  | s :: t :: _ => .bool ((enc t).isPrefixOf (enc s))
  | _ => .err

def endsWith (args : List Str) : Out :=
  match args with
  | s :: t :: _ => .bool ((enc t).isSuffixOf (enc s))
  | _ => .err

def equals (args : List Str) : Out :=
  match args with
  | s :: t :: _ => .bool (enc s == enc t)
  | _ => .err

def isEmpty (args : List Str) : Out :=
  match args with
  | [] => .bool true
  | s :: _ => .bool (enc s).isEmpty

/-- the `concat` script: the arguments appended in order -/
def concat (args : List Str) : Out := .str (enc args.flatten)

def replaceCmd (args : List Str) : Out :=
  match args with
  | s :: p :: to :: _ => .str (replace s p to)
  | _ => .err

def splitCmd (args : List Str) : Out :=
  match args with
  | s :: t :: _ => .pieces (split s t)
  | _ => .err

def trimWith (f : Str → Str) (args : List Str) : Out :=
  match args with
  | [] => .none
  | s :: _ => .str (enc (f s))

/-- `uppercase` / `lowercase`: the whole-text function of the standard library -/
def caseWith (f : Str → Str) (args : List Str) : Out :=
  match args with
  | [] => .err
  | s :: _ => .str (enc (f s))

def range (args : List Str) : Out :=
  match args with
  | a :: b :: _ =>
    match parseI64 a, parseI64 b with
    | some x, some y => if x > y then .err else .ints (rangeList x y)
    | _, _ => .err
  | _ => .err

def lessThan (args : List Str) : Out := compareWith F64.F64.lt args
def greaterThan (args : List Str) : Out := compareWith F64.F64.gt args

/-- dispatch by command name -/
def run (cmd : String) (args : List Str) : Option Out :=
  match cmd with
  | "length" => some (length args)
  | "indexof" => some (indexof args)
  | "last_indexof" => some (lastIndexof args)
  | "substring" => some (substring args)
  | "contains" => some (contains args)
  | "starts_with" => some (startsWith args)
  | "ends_with" => some (endsWith args)
  | "equals" => some (equals args)
  | "is_empty" => some (isEmpty args)
  | "concat" => some (concat args)
  | "replace" => some (replaceCmd args)
  | "split" => some (splitCmd args)
  | "trim" => some (trimWith trim args)
  | "trim_start" => some (trimWith trimStart args)
  | "trim_end" => some (trimWith trimEnd args)
  | "uppercase" => some (caseWith UCase.toUppercase args)
  | "lowercase" => some (caseWith UCase.toLowercase args)
  | "range" => some (range args)
  | "less_than" => some (lessThan args)
  | "greater_than" => some (greaterThan args)
  | _ => Option.none

end Duck.Strings
