/-
  C16 — model of the `calc` command (duckscript_sdk/src/sdk/std/math/calc/mod.rs):
  the arguments joined by one space go to `evalexpr::eval_number` (third-party crate evalexpr
  12.0.2), the resulting `f64` is printed with `to_string()`.

  evalexpr itself is NOT transcribed.  The model is ordinary arithmetic over exact fractions on
  the expression grammar below, plus the three facts of evalexpr that decide WHICH answer is
  observable (read off its source, operator/mod.rs, token/mod.rs, tree/mod.rs):
   * an integer literal that fits `i64` is an `Int`, a literal with a decimal point (or an integer
     too large for `i64`) is a `Float` (`f64`);
   * `+ - *` and unary minus on two `Int`s are CHECKED `i64` operations — overflow is an error;
     as soon as one operand is a `Float` the operation is done in `f64`; `^` always converts
     both operands to `f64` (`powf`);
   * precedence: `^` (120) over unary minus (110) over `*` (100) over `+ -` (95); all binary
     operators chain to the left.  (`a ^ b ^ c` is therefore `(a ^ b) ^ c` in evalexpr, against
     the usual convention; the grammar below does not contain an unparenthesised chain of `^`.)
  Floating point is not modelled either.  The model only decides a class in which `f64`
  arithmetic is exact: every intermediate `Float` is a dyadic rational `n / 2^k` with
  `|n| < 2^53`, `k ≤ 20` (then IEEE-754 `+ - *` return the exact result; `powf` is assumed to
  return a representable power exactly), and the final value has at most 15 significant decimal
  digits or is an integer below `2^53` (then `f64::to_string` prints it exactly).
  Answers: `q f` (exact class: the printed decimal must be the fraction `f`), `approx` (only
  closeness to the exact value is demanded), `err` (evalexpr must fail: checked `i64` overflow,
  no arguments), `unmodelled` (text outside the grammar).
  Imports only model/spec files without Mathlib: linked into the `driver` executable.
-/
import DuckModel.Types
import DuckModel.Spec.CalcArith

namespace Duck.Calc
open Duck Duck.Spec

/-! ### exact fractions -/

structure Frac where
  num : Int
  den : Nat
  deriving DecidableEq, Repr

namespace Frac

/-- lowest terms (for `d ≠ 0`) -/
def norm (n : Int) (d : Nat) : Frac :=
  ⟨n / ((d.gcd n.natAbs : Nat) : Int), d / d.gcd n.natAbs⟩

def ofInt (v : Int) : Frac := ⟨v, 1⟩
def add (a b : Frac) : Frac := norm (a.num * b.den + b.num * a.den) (a.den * b.den)
def sub (a b : Frac) : Frac := norm (a.num * b.den - b.num * a.den) (a.den * b.den)
def mul (a b : Frac) : Frac := norm (a.num * b.num) (a.den * b.den)
def neg (a : Frac) : Frac := ⟨-a.num, a.den⟩
def pow (a : Frac) (n : Nat) : Frac := norm (a.num ^ n) (a.den ^ n)

end Frac

/-- ordinary arithmetic: the value of an expression as a fraction in lowest terms -/
def evalQ : Expr → Frac
  | .int n => Frac.ofInt n
  | .dec m k => Frac.norm m (10 ^ k)
  | .add a b => (evalQ a).add (evalQ b)
  | .sub a b => (evalQ a).sub (evalQ b)
  | .mul a b => (evalQ a).mul (evalQ b)
  | .neg a => (evalQ a).neg
  | .pow a n => (evalQ a).pow n

/-! ### what evalexpr computes with: `Int` (checked `i64`) or `Float` -/

def i64Min : Int := -9223372036854775808
def i64Max : Int := 9223372036854775807
def inI64 (v : Int) : Bool := decide (i64Min ≤ v) && decide (v ≤ i64Max)
def two53 : Nat := 9007199254740992

/-- `n / 2^k`, `|n| < 2^53`, `k ≤ 20`: an `f64` holds it exactly -/
def fits (q : Frac) : Bool := decide (q.num.natAbs < two53) && q.den != 0 && 1048576 % q.den == 0

/-- number of decimal digits of `n` after its trailing zeros are removed (`0` for `0`) -/
def sigDigits (n : Nat) : Nat := ((Nat.toDigits 10 n).reverse.dropWhile (· == '0')).length

/-- `f64::to_string` prints the exact value: an integer below `2^53`, or at most 15 significant
    decimal digits (`q = num * (2^20 / den) * 5^20 / 10^20`) -/
def prints (q : Frac) : Bool :=
  fits q && (q.den == 1 || decide (sigDigits (q.num.natAbs * (1048576 / q.den) * 5 ^ 20) ≤ 15))

inductive Val
  | int (v : Int)                     -- `Value::Int`, always exact
  | flt (q : Frac) (exact : Bool)     -- `Value::Float`: the exact value and whether the `f64` IS it
  deriving DecidableEq, Repr

/-- `as_number`: an `Int` is converted by `as f64` -/
def Val.toFlt : Val → Frac × Bool
  | .int v => (Frac.ofInt v, decide (v.natAbs < two53))
  | .flt q e => (q, e)

def Val.frac (v : Val) : Frac := v.toFlt.1

/-- a `Float` result: exact when the operands were and the exact result is representable -/
def mkFlt (q : Frac) (e : Bool) : Val := .flt q (e && fits q)

def binop (fi : Int → Int → Int) (ff : Frac → Frac → Frac) : Option Val → Option Val → Option Val
  | some (.int x), some (.int y) => if inI64 (fi x y) then some (.int (fi x y)) else none
  | some x, some y => some (mkFlt (ff x.toFlt.1 y.toFlt.1) (x.toFlt.2 && y.toFlt.2))
  | _, _ => none

/-- `none` = evalexpr fails -/
def evalT : Expr → Option Val
  | .int n => if (n : Int) ≤ i64Max then some (.int n) else some (mkFlt (Frac.ofInt n) true)
  | .dec m k => some (mkFlt (Frac.norm m (10 ^ k)) true)
  | .add a b => binop (· + ·) Frac.add (evalT a) (evalT b)
  | .sub a b => binop (· - ·) Frac.sub (evalT a) (evalT b)
  | .mul a b => binop (· * ·) Frac.mul (evalT a) (evalT b)
  | .neg a =>
    match evalT a with
    | some (.int x) => if inI64 (-x) then some (.int (-x)) else none
    | some x => some (mkFlt x.toFlt.1.neg x.toFlt.2)
    | none => none
  | .pow a n =>
    match evalT a with
    | some x => some (mkFlt (x.toFlt.1.pow n) x.toFlt.2)
    | none => none

inductive Ans
  | err
  | q (f : Frac)
  | approx
  | unmodelled
  deriving DecidableEq, Repr

def answer (e : Expr) : Ans :=
  match evalT e with
  | none => .err
  | some v => if v.toFlt.2 && prints v.toFlt.1 then .q v.toFlt.1 else .approx

/-! ### the text: tokens, grammar -/

inductive Tok
  | plus | minus | star | hat | lp | rp
  | lit (ip : List Char) (fp : Option (List Char))   -- digits [ '.' digits ]
  deriving DecidableEq, Repr

def isDigit (c : Char) : Bool := 48 ≤ c.toNat && c.toNat ≤ 57
def isNumCh (c : Char) : Bool := isDigit c || c == '.'
def digitsVal (l : List Char) : Nat := l.foldl (fun acc c => acc * 10 + (c.toNat - 48)) 0

/-- a run of digits and dots: `d+` or `d+.d+` -/
def litOf (run : List Char) : Option Tok :=
  let ip := run.takeWhile isDigit
  match run.dropWhile isDigit with
  | [] => if ip = [] then none else some (.lit ip none)
  | _ :: fp => if ip ≠ [] ∧ fp ≠ [] ∧ fp.all isDigit = true then some (.lit ip (some fp)) else none

def lexF : Nat → List Char → Option (List Tok)
  | 0, _ => none
  | _ + 1, [] => some []
  | f + 1, c :: r =>
    if c = ' ' then lexF f r
    else if c = '+' then (lexF f r).map (Tok.plus :: ·)
    else if c = '-' then (lexF f r).map (Tok.minus :: ·)
    else if c = '*' then (lexF f r).map (Tok.star :: ·)
    else if c = '^' then (lexF f r).map (Tok.hat :: ·)
    else if c = '(' then (lexF f r).map (Tok.lp :: ·)
    else if c = ')' then (lexF f r).map (Tok.rp :: ·)
    else if isNumCh c then
      match litOf ((c :: r).takeWhile isNumCh), lexF f ((c :: r).dropWhile isNumCh) with
      | some t, some ts => some (t :: ts)
      | _, _ => none
    else none

def lex (l : List Char) : Option (List Tok) := lexF (l.length + 1) l

def litExpr (ip : List Char) : Option (List Char) → Expr
  | none => .int (digitsVal ip)
  | some fp => .dec (digitsVal (ip ++ fp)) fp.length

/-  sum   := prod (('+' | '-') prod)*
    prod  := unary ('*' unary)*
    unary := '-' unary | power
    power := atom ('^' integer-literal)?          (not followed by another '^')
    atom  := literal | '(' sum ')'                 -/
mutual
  def pSum : Nat → List Tok → Option (Expr × List Tok)
    | 0, _ => none
    | f + 1, ts =>
      match pProd f ts with
      | some (a, r) => pSumRest f a r
      | none => none
  def pSumRest : Nat → Expr → List Tok → Option (Expr × List Tok)
    | 0, _, _ => none
    | f + 1, a, .plus :: r =>
      match pProd f r with
      | some (b, r') => pSumRest f (.add a b) r'
      | none => none
    | f + 1, a, .minus :: r =>
      match pProd f r with
      | some (b, r') => pSumRest f (.sub a b) r'
      | none => none
    | _ + 1, a, r => some (a, r)
  def pProd : Nat → List Tok → Option (Expr × List Tok)
    | 0, _ => none
    | f + 1, ts =>
      match pUnary f ts with
      | some (a, r) => pProdRest f a r
      | none => none
  def pProdRest : Nat → Expr → List Tok → Option (Expr × List Tok)
    | 0, _, _ => none
    | f + 1, a, .star :: r =>
      match pUnary f r with
      | some (b, r') => pProdRest f (.mul a b) r'
      | none => none
    | _ + 1, a, r => some (a, r)
  def pUnary : Nat → List Tok → Option (Expr × List Tok)
    | 0, _ => none
    | f + 1, .minus :: r =>
      match pUnary f r with
      | some (a, r') => some (.neg a, r')
      | none => none
    | f + 1, ts => pPower f ts
  def pPower : Nat → List Tok → Option (Expr × List Tok)
    | 0, _ => none
    | f + 1, ts =>
      match pAtom f ts with
      | some (_, .hat :: .lit _ none :: .hat :: _) => none
      | some (a, .hat :: .lit ip none :: r) => some (.pow a (digitsVal ip), r)
      | some (_, .hat :: _) => none
      | some (a, r) => some (a, r)
      | none => none
  def pAtom : Nat → List Tok → Option (Expr × List Tok)
    | 0, _ => none
    | _ + 1, .lit ip fp :: r => some (litExpr ip fp, r)
    | f + 1, .lp :: r =>
      match pSum f r with
      | some (e, .rp :: r') => some (e, r')
      | _ => none
    | _ + 1, _ => none
end

def parse (ts : List Tok) : Option Expr :=
  match pSum (8 * ts.length + 8) ts with
  | some (e, []) => some e
  | _ => none

/-- `arguments.join(" ")` -/
def joinArgs : List Str → Str
  | [] => []
  | [a] => a
  | a :: r => a ++ ' ' :: joinArgs r

/-- the command -/
def calcCmd (args : List Str) : Ans :=
  if args = [] then .err
  else
    match lex (joinArgs args) with
    | none => .unmodelled
    | some ts =>
      match parse ts with
      | none => .unmodelled
      | some e => answer e

end Duck.Calc
