/-
  C16 — an EXACT model of `str::parse::<f64>` (Rust `core::num::dec2flt`, `<f64 as FromStr>`) and of
  the IEEE-754 binary64 comparison `<`, as used by
  duckscript_sdk/src/sdk/std/math/{less_than,greater_than}/mod.rs.

  * `parseLit`   the literal grammar: optional sign; digits with optional fraction (`5.`, `.5`; at
                 least one digit overall), optional exponent `e|E [+-] digits` (digits required); or,
                 case-insensitively, `inf` / `infinity` / `nan` after the optional sign.  Anything
                 else (empty, blanks, `_`, hex, a lone sign or `.`) is rejected.
  * `Lit`        what a literal denotes: NaN, ±infinity, or the exact rational ± mant · 10^exp.
  * `roundToF64` the exact rational ± num/den rounded to the nearest binary64, ties to even, with
                 gradual underflow (subnormals down to 2^-1074, then ±0) and overflow to ±infinity.
                 Rust's parser is correctly rounded for every input: that is the specification this
                 function transcribes (not the Eisel-Lemire / big-decimal algorithm that achieves it).
  * `F64.lt`     IEEE comparison: false when either side is NaN, -0 = +0, -inf < finite < +inf.

  How rounding is computed.  Every finite double is k · 2^-1074 for a natural k with at most 53
  significant bits (k = m · 2^E, m < 2^53, 0 ≤ E ≤ 2045).  So scale the rational by 2^1074
  (N = num · 2^1074), take E = max 0 (⌊log2 (N / den)⌋ - 52) - the position of the 53-bit window -
  and round N / (den · 2^E) to the nearest natural, ties to even (`rne`: integer division, remainder
  compared with half the divisor).  A mantissa that rounds up to 2^53 is renormalised to 2^52 with
  E + 1; E > 2045 is overflow.  Only `Nat` arithmetic; no recursion.

  Literals with astronomically large / small exponents (`1e99999999999`) are decided without
  building the power: a non-zero mantissa with exponent > 400 overflows, and a value below 10^-400
  underflows to zero (`Lit.toF64`; proved equal to the clamp-free `Lit.toF64Exact` in
  Lemmas/F64Lemmas.lean).

  Imports only model files: linked into the `driver` executable.
-/
import DuckModel.Types
import DuckModel.Chars

namespace Duck.F64
open Duck

/-- an IEEE-754 binary64 value: `fin neg m e` is ± m · 2^e.  Canonical (what `roundToF64` returns):
    m < 2^53, -1074 ≤ e ≤ 971, and m < 2^52 only with e = -1074 (subnormals and the two zeros) -/
inductive F64
  | nan
  | inf (neg : Bool)
  | fin (neg : Bool) (m : Nat) (e : Int)
  deriving DecidableEq, Repr

/-! ### rounding -/

/-- N / D rounded to the nearest natural, ties to the even one -/
def rne (N D : Nat) : Nat :=
  if 2 * (N % D) < D then N / D
  else if D < 2 * (N % D) then N / D + 1
  else if (N / D) % 2 = 0 then N / D else N / D + 1

/-- position of the 53-bit window for N / d: 0 below 2^53, else ⌊log2 (N / d)⌋ - 52 -/
def scaleExp (N d : Nat) : Nat := (N / d).log2 - 52

/-- N / d rounded to the nearest natural with at most 53 significant bits, as (M, E) = M · 2^E
    with M ≤ 2^53 - 1 after renormalisation -/
def roundScaled (N d : Nat) : Nat × Nat :=
  let E := scaleExp N d
  let M := rne N (d * 2 ^ E)
  if M = 2 ^ 53 then (2 ^ 52, E + 1) else (M, E)

/-- ± num / den (den > 0) rounded to binary64: nearest, ties to even, gradual underflow, overflow
    to infinity -/
def roundToF64 (neg : Bool) (num den : Nat) : F64 :=
  let r := roundScaled (num * 2 ^ 1074) den
  if r.2 > 2045 then .inf neg else .fin neg r.1 ((r.2 : Int) - 1074)

/-! ### comparison -/

/-- the value scaled by 2^1074 (an integer for every canonical double); ±infinity sits at
    ±2^2098 = 2^1024 · 2^1074, just beyond the largest finite key (2^53 - 1) · 2^2045 -/
def F64.key : F64 → Int
  | .nan => 0
  | .inf neg => if neg then -((2 ^ 2098 : Nat) : Int) else ((2 ^ 2098 : Nat) : Int)
  | .fin neg m e =>
    if neg then -((m * 2 ^ (e + 1074).toNat : Nat) : Int) else ((m * 2 ^ (e + 1074).toNat : Nat) : Int)

def F64.isNan : F64 → Bool
  | .nan => true
  | _ => false

/-- IEEE `<` -/
def F64.lt (a b : F64) : Bool := !a.isNan && !b.isNan && decide (a.key < b.key)

/-- IEEE `>` -/
def F64.gt (a b : F64) : Bool := F64.lt b a

/-- IEEE `<=` (used to state monotonicity) -/
def F64.le (a b : F64) : Bool := !a.isNan && !b.isNan && decide (a.key ≤ b.key)

/-- the 64-bit pattern (`f64::to_bits`); `none` for NaN (payload not modelled) -/
def F64.bits : F64 → Option Nat
  | .nan => none
  | .inf neg => some ((if neg then 2 ^ 63 else 0) + 2047 * 2 ^ 52)
  | .fin neg m e =>
    some ((if neg then 2 ^ 63 else 0) +
      (if m < 2 ^ 52 then m else ((e + 1075).toNat) * 2 ^ 52 + (m - 2 ^ 52)))

/-! ### literals -/

/-- what an accepted literal denotes; `dec neg mant exp` is the exact rational ± mant · 10^exp -/
inductive Lit
  | nan
  | inf (neg : Bool)
  | dec (neg : Bool) (mant : Nat) (exp : Int)
  deriving DecidableEq, Repr

/-- the clamp-free reading: always the exact rational handed to `roundToF64` -/
def Lit.toF64Exact : Lit → F64
  | .nan => .nan
  | .inf neg => .inf neg
  | .dec neg mant exp =>
    if exp ≥ 0 then roundToF64 neg (mant * 10 ^ exp.toNat) 1
    else roundToF64 neg mant (10 ^ (-exp).toNat)

/-- the same value, never building a power of ten beyond 10^(401 + bits of the mantissa):
    zero mantissa = zero; exponent > 400 with a non-zero mantissa ≥ 10^401 > 2^1024 = overflow;
    mant · 10^exp < 2^(log2 mant + 1) · 10^exp ≤ 10^(exp + log2 mant + 1) ≤ 10^-401 < 2^-1075 =
    underflow to zero -/
def Lit.toF64 : Lit → F64
  | .nan => .nan
  | .inf neg => .inf neg
  | .dec neg mant exp =>
    if mant = 0 then .fin neg 0 (-1074)
    else if exp > 400 then .inf neg
    else if exp + ((mant.log2 + 1 : Nat) : Int) < -400 then .fin neg 0 (-1074)
    else if exp ≥ 0 then roundToF64 neg (mant * 10 ^ exp.toNat) 1
    else roundToF64 neg mant (10 ^ (-exp).toNat)

/-! ### the grammar of `dec2flt` -/

def isDigit (c : Char) : Bool := 48 ≤ c.toNat && c.toNat ≤ 57

def digitsVal (l : List Char) : Nat := l.foldl (fun acc c => acc * 10 + (c.toNat - 48)) 0

/-- `parse_inf_nan`: the whole rest, case-insensitively -/
def parseInfNan (neg : Bool) (body : Str) : Option Lit :=
  let l := asciiLower body
  if l = "nan".toList then some .nan
  else if l = "inf".toList ∨ l = "infinity".toList then some (.inf neg)
  else none

/-- what follows the optional sign: `parse_number` (digits, optional `.digits`, at least one digit,
    optional `e|E [+-] digits+`, nothing left over), else `parse_inf_nan` -/
def parseBody (neg : Bool) (body : Str) : Option Lit :=
  if body = [] then none
  else
    let ip := (body.takeWhile isDigit, body.dropWhile isDigit)
    let fp : List Char × List Char :=
      match ip.2 with
      | d :: r1 => if d = '.' then (r1.takeWhile isDigit, r1.dropWhile isDigit) else ([], ip.2)
      | [] => ([], [])
    if ip.1.length + fp.1.length = 0 then parseInfNan neg body
    else
      let mant := digitsVal (ip.1 ++ fp.1)
      match fp.2 with
      | [] => some (.dec neg mant (-(fp.1.length : Int)))
      | e :: r3 =>
        if e = 'e' ∨ e = 'E' then
          let sg : Bool × List Char := match r3 with
            | x :: r' => if x = '-' then (true, r') else if x = '+' then (false, r') else (false, r3)
            | [] => (false, r3)
          if sg.2 ≠ [] ∧ sg.2.all isDigit = true then
            let ev : Int := digitsVal sg.2
            some (.dec neg mant ((if sg.1 then -ev else ev) - (fp.1.length : Int)))
          else none
        else none

/-- `dec2flt`: empty input is an error; one leading `-` or `+` is the sign; then `parseBody` -/
def parseLit (s : Str) : Option Lit :=
  match s with
  | [] => none
  | c :: r => parseBody (c = '-') (if c = '-' ∨ c = '+' then r else c :: r)

/-- `str::parse::<f64>` -/
def parseF64 (s : Str) : Option F64 := (parseLit s).map Lit.toF64

end Duck.F64
