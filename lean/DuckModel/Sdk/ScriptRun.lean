/-
  Script-implemented library commands RUN FROM THEIR REGENERATED SOURCE.

  `Generated.scripts` holds the text of every `script.ds` of /repo (rewritten by bin/extract.py on
  every run).  This file makes the model execute such a command the way the code does:

    duckscript_sdk/src/types/command.rs   `AliasCommand::run`      = `Alias.aliasRun`
    duckscript_sdk/src/utils/eval.rs      `eval_instructions`      = `Alias.evalInstructions`
    duckscript/src/runner.rs              `run_instruction`        = `Duck.runInstruction`
  over a command semantics (`bodySem`) that knows
    * the script-implemented commands themselves (a body may call another one: nesting is bounded
      by `depth`), and
    * the NATIVE commands the bodies call, each transcribed from its `mod.rs`:
        collection commands                → `Coll.exec` (Sdk/Collections.lean) + the message texts
        std/string/equals, std/var/is_defined, std/var/set (incl. the `or` form)
        std/string/length (`strlen`), std/string/is_empty, std/string/substring
                                           → `Strings.length / isEmpty / substring` (Sdk/Strings.lean,
                                             UTF-8 BYTE lengths and offsets; the slice is decoded
                                             back by `utf8Decode`) + the message texts
        std/math/calc                      → the grammar and the Int / Float evaluation of
                                             Sdk/Calc.lean (`Calc.lex / parse / evalT`); the text
                                             handed back is `f64::to_string` of a WHOLE value
                                             below 2^53 (`3`, `-2`: what `calc ${counter} + 1` and
                                             `calc ${stringlen} - ${separatorlen}` produce); any
                                             other calc answer is outside this model (crash text
                                             `calcUnmodelledMsg`, never a silent default)
      their spellings come from the regenerated `Generated/ScriptCallees.lean`.

  Flow control inside a body (`for … in`, `if` / `else` / `end`, `not`, command conditions) is a
  SEPARATE INSTANCE of the commands of Sdk/Flow.lean over this file's state (same transcription,
  `Cmd` / `Sdk` of Flow.lean untouched): section "flow control".  `trigger_error`, `release`,
  `set_by_name`, `array`, `array_push`, `set_new`, `set_put`, `map_keys`, `is_array` are there too,
  so `concat`, `unset`, `set_from_array`, `array_concat`, `map_contains_value`, `array_contains`,
  `array_join` RUN (driver op `srun`, compared with the real commands: all nine collection
  scripts); ∀-theorems exist for all nine collection scripts, `concat` and `unset`
  (Props/C12Scripts.lean, Props/C11Scripts.lean; array_concat: success path and first-argument
  error path; array_join: handle and separator of the class `ArgOK`), evaluated instances in
  Props/C12ScriptsNatives.lean.
  Not modelled: the file/network/OS callees of the remaining scripts.

  State `ScriptSt`: the handle table of the collection model (`Coll.St`), the line-context
  name and the flow-control state.  The wrapper's temporary `::arguments` array is a REAL handle of that table
  (`handleOps.put` = `Coll.putHandle` of a list of string cells; `remove` = `HashMap::remove`).

  A command that is not modelled answers `none` (the runner model turns that into the crash
  "Command: … not found.") - so a script that needs one cannot be "proved" by accident.
-/
import DuckModel.Sdk.AliasCmd
import DuckModel.Sdk.Collections
import DuckModel.Sdk.Condition
import DuckModel.Sdk.Flow
import DuckModel.Sdk.Strings
import DuckModel.Sdk.Utf8Decode
import DuckModel.Sdk.Calc
import DuckModel.Generated.Scripts
import DuckModel.Generated.ScriptCallees

namespace Duck.ScriptRun
open Duck Duck.Alias Duck.Coll

/-! ## state -/

structure ScriptSt where
  /-- `Context.state["handles"]` -/
  coll : Coll.St := {}
  /-- `line_context_name` -/
  ctx : Str := []
  /-- flow-control state (sdk/std/flowcontrol/{ifelse,forin,end}): call stacks (head = top), the
      cached block positions keyed by "<line context>::<line>", the per-line table of `end` -/
  ifStack : List IfCall := []
  forStack : List ForCall := []
  ifMeta : KV (Nat × List Nat) := []
  forMeta : KV Nat := []
  endTable : KV Str := []
deriving Repr, Inhabited

/-- what `AliasCommand::run` needs from `Context.state`, on the collection model's table -/
def handleOps : HandleOps ScriptSt where
  put s args :=
    ((putHandle s.coll (.list (args.map .str))).2, { s with coll := (putHandle s.coll (.list (args.map .str))).1 })
  remove s h := { s with coll := { s.coll with tbl := tremove s.coll.tbl h } }
  getCtx s := s.ctx
  setCtx s c := { s with ctx := c }
  live s k := (tget s.coll.tbl k).isSome

/-! ## native callees -/

def msg (s : String) : Str := s.toList

/-- the `Error` text of the collection commands the script bodies call (first failing check of
    each `mod.rs`; `mutate_*` texts from utils/state.rs).  Other collection commands: the texts are
    not transcribed (`collection command error`); no theorem or check depends on a text. -/
def collErrMsg (c : CollCmd) (t : Table) (args : List Str) : Str :=
  let notFound (kind : String) : Str :=
    match args with
    | key :: _ =>
      match tget t key with
      | none => msg kind ++ msg " for handle: " ++ key ++ msg " not found."
      | some _ => msg "Invalid handle provided."
    | [] => msg kind ++ msg " handle not provided."
  let mutated (kind : String) (least : Nat) (few : String) : Str :=
    match args with
    | [] => msg kind ++ msg " handle not provided."
    | key :: _ =>
      if args.length < least then msg few
      else
        match tget t key with
        | none => msg "Handle: " ++ key ++ msg " not found."
        | some _ => msg "Invalid handle provided."
  match c with
  | .arrayLength => notFound "Array"
  | .mapSize => notFound "Map"
  | .setSize => notFound "Set"
  | .mapKeys => notFound "Map"
  | .isArray => msg "Array handle not provided."
  | .mapGet => mutated "Map" 2 "Key not provided."
  | .arrayPush => mutated "Array" 1 ""
  | .setPut => mutated "Set" 1 ""
  | _ => msg "collection command error"

/-- a collection command as a runner command: variables untouched, state = the handle table -/
def runColl (c : CollCmd) (args : List Str) (vars : Vars) (st : ScriptSt) : CmdResult × Vars × ScriptSt :=
  match (Coll.exec st.coll c args).2 with
  | .val o => (.continue o, vars, { st with coll := (Coll.exec st.coll c args).1 })
  | .err => (.error (collErrMsg c st.coll.tbl args), vars, { st with coll := (Coll.exec st.coll c args).1 })

/-- std/string/equals -/
def runEquals (args : List Str) : CmdResult :=
  match args with
  | a :: b :: _ => .continue (some (boolStr (a = b)))
  | _ => .error (msg "Two arguments are required.")

/-- std/var/is_defined -/
def runIsDefined (args : List Str) (vars : Vars) : CmdResult :=
  match args with
  | [] => .error (msg "Variable name not provided.")
  | a :: _ => .continue (some (boolStr (vars.contains a)))

/-- std/var/set `get_output`: the loop over the arguments -/
def setOutput : List Str → (lookingForValue : Bool) → (last : Option Str) → Except Str (Option Str)
  | [], looking, last =>
    if looking then .error (msg "Keyword 'or' found, expected a value afterwards.") else .ok last
  | a :: rest, looking, last =>
    if looking then
      if isTrue (some a) then .ok (some a) else setOutput rest false (some a)
    else if a = msg "or" then setOutput rest true last
    else .error (msg "Keyword 'or' expected, found: " ++ a)

/-- std/var/set -/
def runSet (args : List Str) : CmdResult :=
  match args with
  | [] => .continue none
  | [a] => .continue (some a)
  | _ =>
    match setOutput args true none with
    | .ok o => .continue o
    | .error e => .error e

/-- std/on_error/trigger_error -/
def runTriggerError (args : List Str) : CmdResult :=
  match args with
  | [] => .error (msg "Error")
  | a :: _ => .error a

/-- std/var/set_by_name -/
def runSetByName (args : List Str) (vars : Vars) : CmdResult × Vars :=
  match args with
  | [] => (.error (msg "Missing variable name."), vars)
  | [n] => (.continue none, vars.erase n)
  | n :: v :: _ => (.continue (some v), vars.set n v)

/-! ### string / math callees (array_contains, array_join) -/

/-- std/string/length (`strlen`, `length`): `arguments[0].len()` = number of UTF-8 BYTES -/
def runLength (args : List Str) : CmdResult :=
  match Strings.length args with
  | .nat n => .continue (some (natStr n))
  | _ => .error (msg "No argument provided.")

/-- std/string/is_empty: no argument counts as empty -/
def runIsEmpty (args : List Str) : CmdResult :=
  match Strings.isEmpty args with
  | .bool b => .continue (some (boolStr b))
  | _ => .error (msg "<model: is_empty never fails>")

/-- the `Error` text of std/string/substring: the first failing check of its `run`
    (`Strings.substring` answers the class `err` only) -/
def substringErrMsg (args : List Str) : Str :=
  let nonNumeric (a : Str) : Str := msg "Non numeric value: " ++ a ++ msg " provided."
  let startBig := msg "Start index cannot be bigger than total text size."
  let boundary := msg "Index is not on a character boundary of the text."
  match args with
  | [] => msg "No arguments provided."
  | [_] => boundary
  | [s, a] =>
    match Strings.parseI64 a with
    | none => nonNumeric a
    | some v =>
      if v ≥ 0 then (if v > ((Strings.enc s).length : Int) - 1 then startBig else boundary)
      else if ((Strings.enc s).length : Int) + v < 0 then msg "Index from end cannot be bigger than total text size."
      else boundary
  | s :: a :: b :: _ =>
    match Strings.parseI64 a with
    | none => nonNumeric a
    | some st =>
      if st > ((Strings.enc s).length : Int) - 1 then startBig
      else
        match Strings.parseI64 b with
        | none => nonNumeric b
        | some en =>
          if en ≥ st then
            if en > ((Strings.enc s).length : Int) - 1 then msg "End index cannot be bigger than total text size."
            else if st < 0 then msg "Start index cannot be negative."
            else boundary
          else msg "End index cannot be smaller than start index."

def substringDecodeMsg : Str := msg "<model: slice of a string is not UTF-8>"

/-- std/string/substring: BYTE offsets into the UTF-8 text, `str::get(start..end)` (an offset
    inside a character is an `Error`); the slice, being cut at character boundaries, decodes -/
def runSubstring (args : List Str) : CmdResult :=
  match Strings.substring args with
  | .str b =>
    match utf8Decode b with
    | some t => .continue (some t)
    | none => .crash substringDecodeMsg
  | _ => .error (substringErrMsg args)

/-- what std/math/calc hands back: `eval_number(arguments.join(" "))` printed by `f64::to_string` -/
inductive CalcOut
  | text (t : Str)
  | err (m : Str)
  | unmodelled
deriving DecidableEq, Repr

/-- `i64` / whole `f64` below 2^53 through `to_string`: plain decimal digits, no `.0`, no exponent -/
def intText (v : Int) : Str := (toString v).toList

/-- the class of Sdk/Calc.lean (grammar `+ - * ^ ( )` over decimal literals, checked `i64`
    arithmetic, exact `f64` arithmetic) restricted to results whose TEXT is beyond doubt: a whole
    value of magnitude below 2^53 (an `Int` is converted by `as f64`; a `Float` zero may be `-0`
    and is left out).  evalexpr's own error texts are not transcribed. -/
def calcOut (args : List Str) : CalcOut :=
  if args = [] then .err (msg "Missing input.")
  else
    match Calc.lex (Calc.joinArgs args) with
    | none => .unmodelled
    | some ts =>
      match Calc.parse ts with
      | none => .unmodelled
      | some e =>
        match Calc.evalT e with
        | none => .err (msg "evalexpr error")
        | some (.int v) => if v.natAbs < Calc.two53 then .text (intText v) else .unmodelled
        | some (.flt q exact) =>
          if exact && Calc.fits q && q.den == 1 && q.num != 0 then .text (intText q.num) else .unmodelled

def calcUnmodelledMsg : Str := msg "<model: calc expression or result outside the modelled class>"

/-- std/math/calc -/
def runCalc (args : List Str) : CmdResult :=
  match calcOut args with
  | .text t => .continue (some t)
  | .err m => .error m
  | .unmodelled => .crash calcUnmodelledMsg

inductive Native
  | coll (c : CollCmd)
  | equals | isDefined | set | triggerError | setByName
  | calc | length | substring | isEmpty
deriving DecidableEq, Repr

/-- the flow-control commands (dispatched by `bodySem`, they need the body's instruction list) -/
inductive FlowCmd
  | ifC | elseC | endIf | forIn | endFor | endC | notC
deriving DecidableEq, Repr

open Duck.Generated in
/-- `Commands::get` restricted to the modelled native callees -/
def resolveNative (name : Str) : Option Native :=
  if calleeNamesArrayLength.contains name then some (.coll .arrayLength)
  else if calleeNamesMapSize.contains name then some (.coll .mapSize)
  else if calleeNamesSetSize.contains name then some (.coll .setSize)
  else if calleeNamesMapGet.contains name then some (.coll .mapGet)
  else if calleeNamesIsArray.contains name then some (.coll .isArray)
  else if calleeNamesArray.contains name then some (.coll .array)
  else if calleeNamesArrayPush.contains name then some (.coll .arrayPush)
  else if calleeNamesSetNew.contains name then some (.coll .setNew)
  else if calleeNamesSetPut.contains name then some (.coll .setPut)
  else if calleeNamesMapKeys.contains name then some (.coll .mapKeys)
  else if calleeNamesRelease.contains name then some (.coll .release)
  else if calleeNamesEquals.contains name then some .equals
  else if calleeNamesIsDefined.contains name then some .isDefined
  else if calleeNamesSet.contains name then some .set
  else if name = msg "trigger_error" || name = msg "std::error::TriggerError" then some .triggerError
  else if calleeNamesSetByName.contains name then some .setByName
  else if calleeNamesCalc.contains name then some .calc
  else if calleeNamesLength.contains name then some .length
  else if calleeNamesSubstring.contains name then some .substring
  else if calleeNamesIsEmpty.contains name then some .isEmpty
  else none

def runNative (n : Native) (args : List Str) (vars : Vars) (st : ScriptSt) : CmdResult × Vars × ScriptSt :=
  match n with
  | .coll c => runColl c args vars st
  | .equals => (runEquals args, vars, st)
  | .isDefined => (runIsDefined args vars, vars, st)
  | .set => (runSet args, vars, st)
  | .triggerError => (runTriggerError args, vars, st)
  | .setByName => ((runSetByName args vars).1, (runSetByName args vars).2, st)
  | .calc => (runCalc args, vars, st)
  | .length => (runLength args, vars, st)
  | .substring => (runSubstring args, vars, st)
  | .isEmpty => (runIsEmpty args, vars, st)

/-! ## script-implemented commands from their source -/

/-- the table entry registered under that name or alias -/
def findScript (name : Str) : Option Generated.ScriptCmd :=
  Generated.scripts.find? fun s => s.aliases.contains name || s.name == name

def parseErrMsg : Str := msg "<model: script.ds does not parse (the SDK would not load)>"
def depthMsg : Str := msg "<model: script nesting deeper than the bound>"
def notScriptMsg : Str := msg "<model: no script-implemented command of that name>"

/-- `AliasCommand::run` of one table entry; the instructions are the parse of the entry's text
    (`AliasCommand::new` parses once, at load time).  `sem is` = the registry seen from inside the
    body (flow-control commands look at the body's instruction list). -/
def runEntry (sem : List Instruction → CmdSem ScriptSt) (fuel : Nat) (sc : Generated.ScriptCmd)
    (args : List Str) (vars : Vars) (st : ScriptSt) : CmdResult × Vars × ScriptSt :=
  match parseText sc.script with
  | .error _ => (.crash parseErrMsg, vars, st)
  | .ok is =>
    aliasRun handleOps sc.argumentsAmount (scriptBody (sem is) (fun _ => false) fuel is) sc.scopeName args vars st

/-! ## flow control (a separate instance of the commands of Sdk/Flow.lean over `ScriptSt`) -/

open Duck.Generated in
def resolveFlow (name : Str) : Option FlowCmd :=
  if namesIfCommand.contains name then some .ifC
  else if namesElseCommand.contains name then some .elseC
  else if namesEndIfCommand.contains name then some .endIf
  else if namesForInCommand.contains name then some .forIn
  else if namesEndForInCommand.contains name then some .endFor
  else if name = msg "end" then some .endC
  else if calleeNamesNot.contains name then some .notC
  else none

/-- `Commands::exists` restricted to what the model knows (a condition whose first word is a
    command name runs that command) -/
def isCommand (name : Str) : Bool :=
  (findScript name).isSome || (resolveNative name).isSome || (resolveFlow name).isSome

def flowKey (st : ScriptSt) (line : Nat) : Str := st.ctx ++ "::".toList ++ natToStr line

def flowErr : CmdResult := .error (msg "flow control error")

open Duck.Generated in
def ifMetaFor (is : List Instruction) (s : ScriptSt) (line : Nat) : Except CmdResult ((Nat × List Nat) × ScriptSt) :=
  let key := flowKey s line
  match s.ifMeta.get key with
  | some m => .ok (m, { s with endTable := s.endTable.put (flowKey s m.1) fullNameEndIf })
  | none =>
    match findCommands ifTables is (line + 1) with
    | .ok p => .ok ((p.stop, p.middle),
        { s with ifMeta := s.ifMeta.put key (p.stop, p.middle), endTable := s.endTable.put (flowKey s p.stop) fullNameEndIf })
    | .error e => .error (crashOf e)

open Duck.Generated in
def forMetaFor (is : List Instruction) (s : ScriptSt) (line : Nat) : Except CmdResult (Nat × ScriptSt) :=
  let key := flowKey s line
  match s.forMeta.get key with
  | some m => .ok (m, { s with endTable := s.endTable.put (flowKey s m) fullNameEndForIn })
  | none =>
    match findCommands forTables is (line + 1) with
    | .ok p => .ok (p.stop,
        { s with forMeta := s.forMeta.put key p.stop, endTable := s.endTable.put (flowKey s p.stop) fullNameEndForIn })
    | .error e => .error (crashOf e)

/-- `eval_instructions` seen from `eval_condition`: (flow_result, flow_output), variables, state -/
abbrev Nested := List Instruction → Nat → Vars → ScriptSt → Option CmdResult × Option Str × Vars × ScriptSt

/-- `eval_condition` (utils/condition.rs) -/
def evalCond (nested : Nested) (is : List Instruction) (args : List Str) (vars : Vars) (s : ScriptSt) :
    Except Unit Bool × Vars × ScriptSt :=
  match args with
  | [] => (.ok (isTrue none), vars, s)
  | first :: _ =>
    if isCommand first then
      match evalParse args with
      | none => (.error (), vars, s)
      | some instr =>
        let all := is ++ [instr]
        match nested all (all.length - 1) vars s with
        | (some (.continue v), _, vars', s') => (.ok (isTrue v), vars', s')
        | (some _, _, vars', s') => (.error (), vars', s')
        | (none, out, vars', s') => (.ok (isTrue out), vars', s')
    else
      match evalSlice args with
      | .ok b => (.ok b, vars, s)
      | .error _ => (.error (), vars, s)

/-- `get_next_iteration` on the collection model's table -/
def nextIteration (st : ScriptSt) (handle : Str) (iteration : Nat) : Option Str :=
  match tget st.coll.tbl handle with
  | some (.list l) => (l[iteration]?).map Item.render
  | _ => none

/-- one flow-control command; `endRec` = the dispatcher one level down (the generic `end`) -/
def runFlow (nested : Nested) (endRec : FlowCmd → Nat → Vars → ScriptSt → CmdResult × Vars × ScriptSt)
    (is : List Instruction) (c : FlowCmd) (args : List Str) (line : Nat) (vars : Vars) (s : ScriptSt) :
    CmdResult × Vars × ScriptSt :=
  match c with
  | .ifC =>
    if args.isEmpty then (flowErr, vars, s)
    else
      match ifMetaFor is s line with
      | .error r => (r, vars, s)
      | .ok ((stop, elses), s) =>
        match evalCond nested is args vars s with
        | (.error _, vars, s) => (flowErr, vars, s)
        | (.ok passed, vars, s) =>
          if passed then
            let next := match elses with | [] => stop | e :: _ => e
            (.continue none, vars, { s with ifStack := { current := next, passed := true, elseIdx := 0, start := line, stop := stop, elses := elses, ctx := s.ctx } :: s.ifStack })
          else
            match elses with
            | [] => (.goTo none (.line (stop + 1)), vars, s)
            | e :: _ =>
              (.goTo none (.line e), vars, { s with ifStack := { current := e, passed := false, elseIdx := 0, start := line, stop := stop, elses := elses, ctx := s.ctx } :: s.ifStack })
  | .elseC =>
    match popIf line s.ctx s.ifStack with
    | none => (flowErr, vars, { s with ifStack := [] })
    | some (ci, rest) =>
      let s := { s with ifStack := rest }
      if ci.passed then (.goTo none (.line (ci.stop + 1)), vars, s) else (.continue none, vars, s)
  | .endIf => (.continue none, vars, s)
  | .forIn =>
    match args with
    | [v, kw, handle] =>
      if kw ≠ "in".toList then (flowErr, vars, s)
      else
        let (found, stack') := popFor line s.ctx false s.forStack
        let start : Except CmdResult (ForCall × ScriptSt) :=
          match found with
          | some ci => .ok (ci, { s with forStack := stack' })
          | none =>
            match forMetaFor is { s with forStack := stack' } line with
            | .error r => .error r
            | .ok (stop, s) => .ok ({ iteration := 0, start := line, stop := stop, ctx := s.ctx }, s)
        match start with
        | .error r => (r, vars, s)
        | .ok (ci, s) =>
          match nextIteration s handle ci.iteration with
          | some value =>
            (.continue none, vars.set v value,
              { s with forStack := { ci with iteration := ci.iteration + 1, ctx := s.ctx } :: s.forStack })
          | none => (.goTo none (.line (ci.stop + 1)), vars, s)
    | _ => (flowErr, vars, s)
  | .endFor =>
    match popFor line s.ctx true s.forStack with
    | (none, _) => (flowErr, vars, { s with forStack := [] })
    | (some ci, rest) => (.goTo none (.line ci.start), vars, { s with forStack := ci :: rest })
  | .endC =>
    match s.endTable.get (flowKey s line) with
    | some name =>
      match resolveFlow name with
      | some c' => endRec c' line vars s
      | none => (.crash (msg "Command: " ++ name ++ msg " not found."), vars, s)
    | none => (.continue none, vars, s)
  | .notC =>
    if args.isEmpty then (flowErr, vars, s)
    else
      match evalCond nested is args vars s with
      | (.error _, vars, s) => (flowErr, vars, s)
      | (.ok passed, vars, s) => (.continue (some (boolStr (!passed))), vars, s)

/-- the generic `end` re-dispatches at most once (to `end_if` / `end_for`) -/
def runFlowF (nested : Nested) (is : List Instruction) :
    Nat → FlowCmd → List Str → Nat → Vars → ScriptSt → CmdResult × Vars × ScriptSt
  | 0, _, _, _, vars, s => (.crash depthMsg, vars, s)
  | k + 1, c, args, line, vars, s =>
    runFlow nested (fun c' line' vars' s' => runFlowF nested is k c' [] line' vars' s') is c args line vars s

/-- `eval_instructions(all, …, start)` as `eval_condition` uses it -/
def nestedOf (sem : List Instruction → CmdSem ScriptSt) (fuel : Nat) : Nested :=
  fun all start vars st =>
    match evalInstructions (sem all) (fun _ => false) all fuel start 0 none vars st with
    | none => (some (.crash outOfFuelMsg), none, vars, st)
    | some (.finished out, vars', st') => (none, out, vars', st')
    | some (.exit v, vars', st') => (some (.exit v), none, vars', st')
    | some (.error m, vars', st') => (some (.error m), none, vars', st')
    | some (.crash m, vars', st') => (some (.crash m), none, vars', st')
    | some (.gotoLabel v _, vars', st') => (some (.error gotoLabelMsg), v, vars', st')

/-- the registry as a command semantics.  `fuel` bounds the instruction loop of every body and of
    every command condition, `depth` the nesting of script commands inside script commands and of
    command conditions inside conditions (in the table: at most 4: `if not array_is_empty x`). -/
def bodySem (fuel : Nat) : Nat → List Instruction → CmdSem ScriptSt
  | 0, _ => fun name args _ _ vars st =>
    match findScript name with
    | some _ => some (.crash depthMsg, vars, st)
    | none =>
      match resolveNative name with
      | some n => some (runNative n args vars st)
      | none => (resolveFlow name).map fun _ => (.crash depthMsg, vars, st)
  | depth + 1, is => fun name args _ line vars st =>
    match findScript name with
    | some sc => some (runEntry (bodySem fuel depth) fuel sc args vars st)
    | none =>
      match resolveNative name with
      | some n => some (runNative n args vars st)
      | none =>
        (resolveFlow name).map fun c =>
          runFlowF (nestedOf (bodySem fuel depth) fuel) is 2 c args line vars st

def runScriptCmdF (depth fuel : Nat) (name : Str) (args : List Str) (vars : Vars) (st : ScriptSt) :
    CmdResult × Vars × ScriptSt :=
  match findScript name with
  | none => (.crash notScriptMsg, vars, st)
  | some sc => runEntry (bodySem fuel depth) fuel sc args vars st

/-- instruction budget of one body run (the real loop has none) -/
def scriptFuel : Nat := 100000
/-- nesting budget -/
def scriptDepth : Nat := 6

/-- the command semantics: script commands from source + their native callees -/
def scriptSem : CmdSem ScriptSt := bodySem scriptFuel (scriptDepth + 1) []

/-- a script-implemented command, run from its regenerated source -/
def runScriptCmd (name : Str) (args : List Str) (vars : Vars) (st : ScriptSt) : CmdResult × Vars × ScriptSt :=
  runScriptCmdF scriptDepth scriptFuel name args vars st

end Duck.ScriptRun
