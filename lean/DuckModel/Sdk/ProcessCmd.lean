/-
  The two straight-line SDK commands whose result is NOT a plain value: `exit` (process/exit/mod.rs)
  and `goto` (flowcontrol/goto/mod.rs).  They are the commands through which a script itself hands
  the runner an `Exit` / `GoTo` result, so what they accept decides whether "an integer non-zero
  exit value makes the run fail" can be relied on from script text.
  `scriptedSemX` = the scripted commands of Scripted.lean plus these two under every registered
  spelling (Generated/CmdNames.lean): the command semantics of the `runx` stream of C03.
-/
import DuckModel.Scripted
import DuckModel.Generated.CmdNames

namespace Duck

/-- `exit [code]`: no argument = code 0; an argument the runner could not read as an i32 is an
    ERROR (the run goes on), never an `Exit` the runner would count as a success -/
def exitCmd (args : List Str) : CmdResult :=
  match args with
  | [] => .exit (some "0".toList)
  | a :: _ =>
    match parseI32 a with
    | some _ => .exit (some a)
    | none => .error ("Invalid exit code: ".toList ++ a)

/-- `goto :label`: exactly one argument, which starts with `:` -/
def gotoCmd (args : List Str) : CmdResult :=
  match args with
  | [] => .error "Label not provided.".toList
  | [l] =>
    if l.head? = some ':' then .goTo none (.label l)
    else .error ("Invalid label: ".toList ++ l ++ " provided.".toList)
  | _ => .error "Multiple labels provided.".toList

/-- scripted commands + the real `exit` / `goto` (which neither log nor consume the queue) -/
def scriptedSemX (names : List Str) : CmdSem ScriptedSt :=
  fun name args out line vars s =>
    if Generated.cmdNamesExit.contains name then some (exitCmd args, vars, s)
    else if Generated.cmdNamesGoTo.contains name then some (gotoCmd args, vars, s)
    else scriptedSem names name args out line vars s

end Duck
