/-
  UTF-8 encoding of Unicode scalar values (Rust `char::encode_utf8` / the bytes of a `String`)
  and `str::is_char_boundary`.  Bytes are `Nat`s below 256.
  Validated against the real encoder by the correspondence harness (every C16 request carries
  the real UTF-8 bytes; `length` etc. are computed on `utf8Encode` of the decoded scalars).
  No imports: linked into the `driver` executable.
-/
namespace Duck

abbrev Bytes := List Nat

/-- `char::encode_utf8` -/
def utf8EncodeChar (c : Char) : Bytes :=
  let n := c.toNat
  if n < 0x80 then [n]
  else if n < 0x800 then [0xC0 + n / 64, 0x80 + n % 64]
  else if n < 0x10000 then [0xE0 + n / 4096, 0x80 + (n / 64) % 64, 0x80 + n % 64]
  else [0xF0 + n / 262144, 0x80 + (n / 4096) % 64, 0x80 + (n / 64) % 64, 0x80 + n % 64]

/-- the bytes of a Rust `String` holding the scalars `s` -/
def utf8Encode (s : List Char) : Bytes := s.flatMap utf8EncodeChar

/-- UTF-8 continuation byte `10xxxxxx` -/
def isCont (b : Nat) : Bool := 0x80 ≤ b && b < 0xC0

/-- `str::is_char_boundary`: `index == 0`, or `index == len`, or (`index < len` and
    `(bytes[index] as i8) >= -0x40`, i.e. not a continuation byte) -/
def isBoundary (b : Bytes) (i : Nat) : Bool :=
  i == 0 || i == b.length ||
    (match b[i]? with
     | some x => !isCont x
     | none => false)

end Duck
