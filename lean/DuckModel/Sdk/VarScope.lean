/-
  Model of the variable commands and the scope stack (property C11):

    duckscript_sdk/src/sdk/std/var/{set,set_by_name,get_by_name,is_defined,
        get_all_var_names,unset_all_vars}/mod.rs, var/unset/{mod.rs,script.ds}
    duckscript_sdk/src/sdk/std/scope/{push_stack,pop_stack,clear}/mod.rs
    duckscript_sdk/src/utils/scope.rs (push / pop), duckscript_sdk/src/types/scope.rs (clear)
    duckscript/src/runner.rs:250-261 (update_output, through `Vars.updateOutput`)

  State: the variable map (`Vars`, a HashMap as association list) and the list stored under
  the state key `scope_stack`.  The Rust `Vec` pushes/pops at its END; the model keeps the top
  of the stack at the HEAD of the list (only the depth and the LIFO order are observable).

  Commands take their ALREADY EXPANDED argument list, exactly like `Command::run`.
  Error message texts are irrelevant for the property: every error is `.error []`.

  After repair F4 (`scope::push/pop` copy only the names that are defined) no operation of
  this family can panic: there is no `unwrap`/index/slice left whose failure is reachable
  (`context.arguments[0]`, `[1]`, `[1..]` are all guarded by a length test), so the model has
  no panic outcome.
-/
import DuckModel.Vars
import DuckModel.Sdk.Condition

namespace Duck.VarScope
open Duck

/-! ### `set` : `get_output` (set/mod.rs:8-32), one loop iteration per argument -/

def kwOr : Str := "or".toList

/-- `for argument in arguments` with the locals `looking_for_value`, `last_value` -/
def setLoop (looking : Bool) (last : Option Str) : List Str → Except Unit (Option Str)
  | [] => if looking then .error () else .ok last
  | a :: rest =>
    if looking then
      if isTrue (some a) then .ok (some a) else setLoop false (some a) rest
    else if a = kwOr then setLoop true last rest
    else .error ()

/-- `set` command body -/
def cmdSet (args : List Str) : CmdResult :=
  match args with
  | [] => .continue none
  | [a] => .continue (some a)
  | _ =>
    match setLoop true none args with
    | .ok v => .continue v
    | .error _ => .error []

/-! ### plain variable commands -/

/-- `set_by_name` -/
def cmdSetByName (vars : Vars) (args : List Str) : Vars × CmdResult :=
  match args with
  | [] => (vars, .error [])
  | [k] => (vars.erase k, .continue none)
  | k :: v :: _ => (vars.set k v, .continue (some v))

/-- `get_by_name` -/
def cmdGetByName (vars : Vars) (args : List Str) : CmdResult :=
  match args with
  | [] => .continue none
  | k :: _ => .continue (vars.get k)

def boolStr (b : Bool) : Str := if b then "true".toList else "false".toList

/-- `is_defined` -/
def cmdIsDefined (vars : Vars) (args : List Str) : CmdResult :=
  match args with
  | [] => .error []
  | k :: _ => .continue (some (boolStr (vars.contains k)))

/-- `variables.keys()` (order unspecified in Rust; observers sort) -/
def keys (vars : Vars) : List Str := vars.map Prod.fst

/-- `variables.retain(|key, _| !key.starts_with(prefix))` -/
def dropPrefix (vars : Vars) (p : Str) : Vars := vars.filter fun kv => !(p.isPrefixOf kv.1)

def kwPrefix : Str := "--prefix".toList

/-- `unset_all_vars` -/
def cmdUnsetAllVars (vars : Vars) (args : List Str) : Vars :=
  match args with
  | a :: p :: _ => if a = kwPrefix then dropPrefix vars p else []
  | _ => []

/-- `types::scope::clear(name, variables)` : drops every key starting with `name::` -/
def clearScope (vars : Vars) (name : Str) : Vars := dropPrefix vars (name ++ "::".toList)

/-- `clear_scope` -/
def cmdClearScope (vars : Vars) (args : List Str) : Vars × CmdResult :=
  match args with
  | [] => (vars, .error [])
  | n :: _ => (clearScope vars n, .continue none)

/-! ### `unset` : alias command (types/command.rs AliasCommand::run) around script.ds

      for scope::unset::name in ${scope::unset::arguments}
          set_by_name ${scope::unset::name}
      end

  The alias wrapper defines `scope::unset::argument::<i>` and `scope::unset::arguments`
  (a handle to the argument list), runs the loop — one `set_by_name <name>` (= remove) per
  argument, in order, with the loop variable `scope::unset::name` — and finally calls
  `clear("scope::unset")`, which removes every variable whose name starts with
  `scope::unset::` (its own temporaries AND any such variable of the caller).  The variable
  count can only go down, so the "memory leak" crash is unreachable; the result is the
  output of the final `for` (`GoTo(None, end+1)`), i.e. `Continue(None)`.

  Modelled: the removals in order, then the clear.  NOT modelled (outside the model's domain,
  stated as hypothesis `Reserved`-freeness in the theorems): a caller that passes the names of
  the wrapper's own temporaries (`scope::unset::arguments` as an argument ends the loop early)
  or that has itself defined `scope::unset::arguments` while calling `unset` without arguments.
-/

def unsetScope : Str := "scope::unset".toList

def eraseAll (vars : Vars) : List Str → Vars
  | [] => vars
  | k :: ks => eraseAll (vars.erase k) ks

def cmdUnset (vars : Vars) (args : List Str) : Vars × CmdResult :=
  (clearScope (eraseAll vars args) unsetScope, .continue none)

/-! ### scope stack: utils/scope.rs -/

/-- the loop `for key in copy { if let Some(value) = variables.remove(key) { new_variables.insert(key, value); } }`
    with the two maps as loop state -/
def copyLoop (vars new : Vars) : List Str → Vars × Vars
  | [] => (vars, new)
  | k :: ks =>
    match vars.get k with
    | some v => copyLoop (vars.erase k) (new.set k v) ks
    | none => copyLoop vars new ks

/-- `for (key, value) in map { variables.insert(key, value) }`.  The iteration order of a
    HashMap is unspecified and its keys are unique, so every order gives the same map; the
    model iterates from the back of the association list (the first binding of a key wins,
    consistently with `Vars.get`). -/
def insertAll (base : Vars) : Vars → Vars
  | [] => base
  | (k, v) :: rest => (insertAll base rest).set k v

/-- `scope::push` : returns the new variables and the new stack -/
def scopePush (vars : Vars) (stack : List Vars) (copy : List Str) : Vars × List Vars :=
  let stack' := vars :: stack                 -- list.push(Any(variables.clone()))
  let (_, new) := copyLoop vars [] copy
  -- variables.clear(); re-insert the copied ones
  (insertAll [] new, stack')

/-- `scope::pop` : `none` = "Reached end of scope stack." (nothing changed) -/
def scopePop (vars : Vars) (stack : List Vars) (copy : List Str) : Option (Vars × List Vars) :=
  match stack with
  | [] => none
  | old :: stack' =>
    let (_, new) := copyLoop vars [] copy
    some (insertAll (insertAll [] old) new, stack')

def kwCopy : Str := "--copy".toList

/-- the `copy` slice of scope_push_stack / scope_pop_stack -/
def copyArgs (args : List Str) : List Str :=
  match args with
  | [] => []
  | a :: rest => if a = kwCopy then rest else []

/-! ### operations and histories -/

structure VsSt where
  vars : Vars := []
  /-- head = most recently pushed -/
  stack : List Vars := []
deriving Repr, Inhabited

inductive VsCmd
  | set | unset | setByName | getByName | isDefined | unsetAllVars | clearScope
  | pushStack | popStack
deriving DecidableEq, Repr

/-- one script line `out = command args…`.  `get_all_var_names` is separate because its
    result is a handle chosen by the handle allocator (random key, C12): the operation
    carries the key that the allocator returns (oracle), the observable output is the list
    stored under that handle. -/
inductive VsOp
  | cmd (out : Option Str) (c : VsCmd) (args : List Str)
  | names (out : Option Str) (handle : Str)
deriving Repr

inductive VsOut
  | res (r : CmdResult)
  /-- `Continue(Some(handle))` where the handle holds this list -/
  | names (l : List Str)
deriving Repr

/-- the command body: new state and result -/
def runCmd (st : VsSt) (c : VsCmd) (args : List Str) : VsSt × CmdResult :=
  match c with
  | .set => (st, cmdSet args)
  | .unset => let (v, r) := cmdUnset st.vars args; ({ st with vars := v }, r)
  | .setByName => let (v, r) := cmdSetByName st.vars args; ({ st with vars := v }, r)
  | .getByName => (st, cmdGetByName st.vars args)
  | .isDefined => (st, cmdIsDefined st.vars args)
  | .unsetAllVars => ({ st with vars := cmdUnsetAllVars st.vars args }, .continue none)
  | .clearScope => let (v, r) := cmdClearScope st.vars args; ({ st with vars := v }, r)
  | .pushStack =>
    let (v, s) := scopePush st.vars st.stack (copyArgs args)
    ({ vars := v, stack := s }, .continue (some "true".toList))
  | .popStack =>
    match scopePop st.vars st.stack (copyArgs args) with
    | some (v, s) => ({ vars := v, stack := s }, .continue (some "true".toList))
    | none => (st, .error [])

/-- the runner's treatment of the result (runner.rs:163-236, 250-261): `Continue`/`GoTo`/`Exit`
    write their value to the output variable, an `Error` writes `false`, a `Crash` ends the run -/
def writeOutput (st : VsSt) (out : Option Str) (r : CmdResult) : VsSt :=
  match r with
  | .continue v => { st with vars := st.vars.updateOutput out v }
  | .goTo v _ => { st with vars := st.vars.updateOutput out v }
  | .exit v => { st with vars := st.vars.updateOutput out v }
  | .error _ => { st with vars := st.vars.updateOutput out (some "false".toList) }
  | .crash _ => st

def apply (st : VsSt) : VsOp → VsSt × VsOut
  | .cmd out c args =>
    let (st', r) := runCmd st c args
    (writeOutput st' out r, .res r)
  | .names out h =>
    ({ st with vars := st.vars.updateOutput out (some h) }, .names (keys st.vars))

def run (st : VsSt) : List VsOp → VsSt × List VsOut
  | [] => (st, [])
  | op :: ops =>
    let (st', o) := apply st op
    let (st'', os) := run st' ops
    (st'', o :: os)

end Duck.VarScope
