/-
  C18 — reference file-tree model of the std::fs commands (MODEL = SPEC).

  The truth of these commands lives in the operating system; this file IS the reference
  file-tree model the property speaks of.  Where the property text is silent the definitions
  follow the code (duckscript_sdk/src/sdk/std/fs/*/mod.rs, utils/io.rs, fsio 0.4.1,
  fs_extra 1.3.0, std::fs on Linux):

  * `writefile`/`appendfile`/`writebinfile`/`touch`/`cp`: `fsio::directory::create_parent`
    (= `create_dir_all` of `Path::parent`) and then `File::create` / `OpenOptions::append` /
    `fs::copy`; a directory at the target, a file among the ancestors or a trailing separator
    make the command fail (`false` resp. an error);
  * `mkdir`: `is_dir → Ok`, else `create_dir_all` (fails iff a file is in the way);
  * `mv` (file source): target counts as a FILE when it exists as one or, when missing, when it
    has no trailing separator and its last component has an extension (`Path::extension`);
    then `create_parent` + copy with overwrite + remove; otherwise the target is a DIRECTORY:
    `directory::create(target)` and move to `target/<basename of source>` WITHOUT overwrite;
  * `rm [-r]`: missing → nothing (output `true`); file → removed; directory → removed when
    empty or with `-r`, else error;  `rmdir`: missing → `true`; empty directory → removed;
    else `false`;
  * a path with a trailing separator resolves only to a directory (`stat("f/")` = ENOTDIR).

  Where the property text speaks, the model follows the PROPERTY, not the code:
  * "a failing operation leaves the tree unchanged": every failing command returns the input
    tree (the code creates missing parent directories before `File::create("x/y/")` fails);
  * "copying a file leaves the source": `cp f f` leaves `f` as it is (the code truncates it).

  Paths are lists of components relative to the case's root directory plus a flag for a trailing
  separator; `parsePath` drops empty and `.` components and rejects `..` and a trailing `.`.
  Directory sources of cp/mv are outside the property's domain: result `skip`, tree unchanged.
-/
import DuckModel.Types
import DuckModel.Sdk.Utf8Decode

namespace Duck.FsTree
open Duck

mutual
  inductive Node where
    | file (bytes : Bytes)
    | dir (children : Entries)
  inductive Entries where
    | nil
    | cons (name : Str) (node : Node) (rest : Entries)
end

mutual
  def Node.beq : Node → Node → Bool
    | .file a, .file b => a == b
    | .dir a, .dir b => Entries.beq a b
    | _, _ => false
  def Entries.beq : Entries → Entries → Bool
    | .nil, .nil => true
    | .cons n x r, .cons m y s => n == m && Node.beq x y && Entries.beq r s
    | _, _ => false
end

/-- association-list lookup (first match) -/
def Entries.get : Entries → Str → Option Node
  | .nil, _ => none
  | .cons n x r, c => if n = c then some x else r.get c

/-- replace the first entry named `c` in place, else append at the end -/
def Entries.put : Entries → Str → Node → Entries
  | .nil, c, v => .cons c v .nil
  | .cons n x r, c, v => if n = c then .cons n v r else .cons n x (r.put c v)

/-- remove every entry named `c` -/
def Entries.erase : Entries → Str → Entries
  | .nil, _ => .nil
  | .cons n x r, c => if n = c then r.erase c else .cons n x (r.erase c)

def Entries.isEmpty : Entries → Bool
  | .nil => true
  | .cons _ _ _ => false

def Entries.toList : Entries → List (Str × Node)
  | .nil => []
  | .cons n x r => (n, x) :: r.toList

def Node.isFile : Node → Bool
  | .file _ => true
  | .dir _ => false

def Node.isDir : Node → Bool
  | .file _ => false
  | .dir _ => true

/-- the empty tree (the case's fresh root directory) -/
def empty : Node := .dir .nil

/-- resolve a component path below `t` -/
def lookup : Node → List Str → Option Node
  | n, [] => some n
  | .file _, _ :: _ => none
  | .dir es, c :: cs =>
    match es.get c with
    | none => none
    | some ch => lookup ch cs

/-- what a walk of the real directory observes at one path: a file with its bytes, or a directory -/
inductive Obs where
  | file (bytes : Bytes)
  | dir
deriving DecidableEq, Repr

def Node.obs : Node → Obs
  | .file b => .file b
  | .dir _ => .dir

/-- the observation at a path (`none` = nothing there).  Two trees with the same `stat` at every
    path have the same canonical listing. -/
def stat (t : Node) (q : List Str) : Option Obs := (lookup t q).map Node.obs

/-- `new` below a chain of fresh directories -/
def wrap : List Str → Node → Node
  | [], new => new
  | c :: cs, new => .dir (.cons c (wrap cs new) .nil)

/-- put `new` at `p`, creating missing ancestors as directories (`create_dir_all` of the parent);
    `none` when a file is among the ancestors.  Whatever is at `p` is replaced. -/
def putAt : Node → List Str → Node → Option Node
  | _, [], new => some new
  | .file _, _ :: _, _ => none
  | .dir es, c :: cs, new =>
    match es.get c with
    | none => some (.dir (es.put c (wrap cs new)))
    | some ch =>
      match putAt ch cs new with
      | none => none
      | some ch' => some (.dir (es.put c ch'))

/-- `create_dir_all p`: `none` when `p` or an ancestor is a file -/
def mkdirs : Node → List Str → Option Node
  | .file _, _ => none
  | .dir es, [] => some (.dir es)
  | .dir es, c :: cs =>
    match es.get c with
    | none => some (.dir (es.put c (wrap cs empty)))
    | some ch =>
      match mkdirs ch cs with
      | none => none
      | some ch' => some (.dir (es.put c ch'))

/-- remove the node at `p` (with everything below it); nothing happens when `p` is missing -/
def removeAt : Node → List Str → Node
  | n, [] => n
  | .file b, _ :: _ => .file b
  | .dir es, c :: cs =>
    if cs.isEmpty then .dir (es.erase c)
    else
      match es.get c with
      | none => .dir es
      | some ch => .dir (es.put c (removeAt ch cs))

/-- a command path: components below the root + "ends with a separator" -/
structure P where
  comps : List Str
  trail : Bool := false
deriving DecidableEq, Repr

/-- what `stat` sees: a trailing separator resolves to directories only -/
def resolve (t : Node) (p : P) : Option Node :=
  match lookup t p.comps with
  | some (.file b) => if p.trail then none else some (.file b)
  | some (.dir es) => some (.dir es)
  | none => none

inductive Val where
  | unit                       -- output `true` of a command that has nothing else to say
  | bool (b : Bool)
  | text (s : Str)
  | bytes (b : Bytes)
  | num (n : Nat)
  | names (l : List Str)
deriving DecidableEq, Repr

/-- result class of a command: `err` = the command reported a failure (output `false` for
    writefile/appendfile/writebinfile/touch/rmdir, an error for the others);
    `skip` = outside the property's domain (directory source of cp/mv) -/
inductive Res where
  | ok (v : Val)
  | err
  | skip
deriving DecidableEq, Repr

/-! ### the commands -/

/-- shared body of writefile / appendfile / writebinfile -/
def writeGen (t : Node) (p : P) (data : Bytes) (append : Bool) : Node × Res :=
  if p.trail then (t, .err)
  else
    match lookup t p.comps with
    | some (.dir _) => (t, .err)
    | some (.file old) =>
      (match putAt t p.comps (.file (if append then old ++ data else data)) with
       | some t' => (t', .ok .unit)
       | none => (t, .err))
    | none =>
      (match putAt t p.comps (.file data) with
       | some t' => (t', .ok .unit)
       | none => (t, .err))

def writeBytes (t : Node) (p : P) (data : Bytes) : Node × Res := writeGen t p data false
def writeText (t : Node) (p : P) (s : Str) : Node × Res := writeGen t p (utf8Encode s) false
def appendText (t : Node) (p : P) (s : Str) : Node × Res := writeGen t p (utf8Encode s) true

def readBytes (t : Node) (p : P) : Res :=
  match resolve t p with
  | some (.file b) => .ok (.bytes b)
  | _ => .err

/-- `read_to_string`: fails on bytes that are not UTF-8 -/
def readText (t : Node) (p : P) : Res :=
  match resolve t p with
  | some (.file b) =>
    (match utf8Decode b with
     | some s => .ok (.text s)
     | none => .err)
  | _ => .err

/-- `fsio::file::ensure_exists` -/
def touch (t : Node) (p : P) : Node × Res :=
  match resolve t p with
  | some (.file _) => (t, .ok .unit)
  | some (.dir _) => (t, .err)
  | none =>
    if p.trail then (t, .err)
    else
      match lookup t p.comps with
      | some _ => (t, .err)
      | none =>
        match putAt t p.comps (.file []) with
        | some t' => (t', .ok .unit)
        | none => (t, .err)

/-- `fsio::directory::create` -/
def mkdir (t : Node) (p : P) : Node × Res :=
  match mkdirs t p.comps with
  | some t' => (t', .ok .unit)
  | none => (t, .err)

/-- `Path::extension().is_some()` of a file name: a `.` that is not the first character -/
def hasExt (name : Str) : Bool := name.tail.contains '.'

def cp (t : Node) (src dst : P) : Node × Res :=
  match resolve t src with
  | none => (t, .err)
  | some (.dir _) => (t, .skip)
  | some (.file b) =>
    if dst.trail then (t, .err)
    else if src.comps = dst.comps then (t, .ok .unit)
    else
      match lookup t dst.comps with
      | some (.dir _) => (t, .err)
      | _ =>
        match putAt t dst.comps (.file b) with
        | some t' => (t', .ok .unit)
        | none => (t, .err)

/-- the code's file-vs-directory rule for the target of `mv` -/
def mvTargetIsFile (t : Node) (dst : P) : Bool :=
  match resolve t dst with
  | some n => n.isFile
  | none => !dst.trail && (match dst.comps.getLast? with
                            | some name => hasExt name
                            | none => false)

/-- where a FILE source ends up -/
def mvTarget (t : Node) (src dst : P) : List Str :=
  if mvTargetIsFile t dst then dst.comps
  else dst.comps ++ src.comps.getLast?.toList

def mv (t : Node) (src dst : P) : Node × Res :=
  match resolve t src with
  | none => (t, .err)
  | some (.dir _) => (t, .skip)
  | some (.file b) =>
    if mvTargetIsFile t dst then
      -- create_parent; fs_extra::file::move_file with overwrite = copy, then remove the source
      match putAt t dst.comps (.file b) with
      | some t1 => (removeAt t1 src.comps, .ok .unit)
      | none => (t, .err)
    else
      -- directory::create(target); move_items: copy to target/<basename> unless it exists
      match mkdirs t dst.comps with
      | none => (t, .err)
      | some t1 =>
        match lookup t1 (mvTarget t src dst) with
        | some _ => (t, .err)
        | none =>
          match putAt t1 (mvTarget t src dst) (.file b) with
          | some t2 => (removeAt t2 src.comps, .ok .unit)
          | none => (t, .err)

def rm (t : Node) (recursive : Bool) (p : P) : Node × Res :=
  match resolve t p with
  | none => (t, .ok .unit)
  | some (.file _) => (removeAt t p.comps, .ok .unit)
  | some (.dir es) =>
    if recursive || es.isEmpty then (removeAt t p.comps, .ok .unit) else (t, .err)

def rmdir (t : Node) (p : P) : Node × Res :=
  match resolve t p with
  | none => (t, .ok .unit)
  | some (.file _) => (t, .err)
  | some (.dir es) => if es.isEmpty then (removeAt t p.comps, .ok .unit) else (t, .err)

def pathExists (t : Node) (p : P) : Res := .ok (.bool (resolve t p).isSome)

def isFile (t : Node) (p : P) : Res :=
  .ok (.bool (match resolve t p with | some n => n.isFile | none => false))

def isDir (t : Node) (p : P) : Res :=
  .ok (.bool (match resolve t p with | some n => n.isDir | none => false))

def fileSize (t : Node) (p : P) : Res :=
  match resolve t p with
  | some (.file b) => .ok (.num b.length)
  | _ => .err

/-- lexicographic order on scalar values (= byte order of the UTF-8 encodings) -/
def strLe : Str → Str → Bool
  | [], _ => true
  | _ :: _, [] => false
  | a :: r, b :: s => a.toNat < b.toNat || (a.toNat == b.toNat && strLe r s)

def insertSorted (x : Str × Node) : List (Str × Node) → List (Str × Node)
  | [] => [x]
  | y :: r => if strLe x.1 y.1 then x :: y :: r else y :: insertSorted x r

def sortEntries (l : List (Str × Node)) : List (Str × Node) := l.foldr insertSorted []

/-- `glob_array <dir>/*`: the names in a directory, sorted; nothing for a file or a missing path -/
def ls (t : Node) (p : P) : Res :=
  match resolve t p with
  | some (.dir es) => .ok (.names ((sortEntries es.toList).map (·.1)))
  | _ => .ok (.names [])

/-! ### histories -/

inductive Op where
  | writeText (p : P) (s : Str)
  | appendText (p : P) (s : Str)
  | readText (p : P)
  | writeBytes (p : P) (b : Bytes)
  | readBytes (p : P)
  | touch (p : P)
  | mkdir (p : P)
  | cp (src dst : P)
  | mv (src dst : P)
  | rm (recursive : Bool) (p : P)
  | rmdir (p : P)
  | pathExists (p : P)
  | isFile (p : P)
  | isDir (p : P)
  | fileSize (p : P)
  | ls (p : P)
deriving DecidableEq, Repr

def step (t : Node) : Op → Node × Res
  | .writeText p s => writeText t p s
  | .appendText p s => appendText t p s
  | .readText p => (t, readText t p)
  | .writeBytes p b => writeBytes t p b
  | .readBytes p => (t, readBytes t p)
  | .touch p => touch t p
  | .mkdir p => mkdir t p
  | .cp s d => cp t s d
  | .mv s d => mv t s d
  | .rm r p => rm t r p
  | .rmdir p => rmdir t p
  | .pathExists p => (t, pathExists t p)
  | .isFile p => (t, isFile t p)
  | .isDir p => (t, isDir t p)
  | .fileSize p => (t, fileSize t p)
  | .ls p => (t, ls t p)

/-- run a history; the trace holds every result with the tree after that step -/
def run (t : Node) : List Op → List (Res × Node)
  | [] => []
  | op :: rest => ((step t op).2, (step t op).1) :: run (step t op).1 rest

/-! ### path strings -/

def splitSlash : Str → List Str
  | [] => [[]]
  | c :: r =>
    match splitSlash r with
    | [] => [[]]   -- unreachable
    | seg :: segs => if c = '/' then [] :: seg :: segs else (c :: seg) :: segs

/-- a path string relative to the root: empty and `.` components are dropped; `..`, a last
    component `.` (`x/.`, `x/./` — the kernel treats these specially: rmdir = EINVAL, mkdir =
    EEXIST/ENOENT) and a path without components are rejected -/
def parsePath (s : Str) : Option P :=
  let segs := splitSlash s
  if segs.contains ['.', '.'] then none
  else if (segs.filter fun x => !x.isEmpty).getLast? = some ['.'] then none
  else
    let comps := segs.filter fun x => !(x.isEmpty || x == ['.'])
    if comps.isEmpty then none
    else some { comps := comps, trail := segs.getLast? = some [] }

/-! ### basename / dirname / join_path on Unix path strings (pure text functions)
    `fsio::path::get_basename` = `Path::file_name`; `get_parent_directory` = `Path::parent`
    with an empty parent turned into none; the `join_path` script joins its arguments with `/`
    and replaces `//` by `/` until none is left. -/

def isJunk (x : Str) : Bool := x.isEmpty || x == ['.']

/-- `Path::components`, as far as these functions need it: the segments between separators
    with empty ones and non-leading `.` ones dropped -/
def bodySegs (s : Str) : List Str :=
  match splitSlash s with
  | [] => []
  | first :: rest => (if first.isEmpty then [] else [first]) ++ rest.filter fun x => !isJunk x

/-- the last component when it is a normal one -/
def basename (s : Str) : Option Str :=
  match (bodySegs s).getLast? with
  | none => none
  | some x => if x == ['.', '.'] || x == ['.'] then none else some x

/-- on the REVERSED segment list: drop trailing empty / `.` segments, never the first segment -/
def dropJunk : List Str → List Str
  | [] => []
  | [x] => [x]
  | x :: y :: r => if isJunk x then dropJunk (y :: r) else x :: y :: r

def joinSlash : List Str → Str
  | [] => []
  | [x] => x
  | x :: y :: r => x ++ '/' :: joinSlash (y :: r)

def dirname (s : Str) : Option Str :=
  match dropJunk (splitSlash s).reverse with
  | [] => none
  | [_] => none
  | _ :: y :: r =>
    let d := joinSlash (dropJunk (y :: r)).reverse
    if d.isEmpty then (if s.head? = some '/' then some ['/'] else none) else some d

/-- collapse every run of separators to one -/
def squeeze : Str → Str
  | [] => []
  | [c] => [c]
  | c :: d :: r => if c = '/' && d = '/' then squeeze (d :: r) else c :: squeeze (d :: r)

def joinPath (args : List Str) : Str := squeeze (joinSlash args)

/-- the text contains `//` -/
def hasDouble : Str → Bool
  | [] => false
  | [_] => false
  | c :: d :: r => (c = '/' && d = '/') || hasDouble (d :: r)

/-- a normal file name: not empty, no separator, not `.` or `..` -/
def PlainName (b : Str) : Prop := b ≠ [] ∧ '/' ∉ b ∧ b ≠ ['.'] ∧ b ≠ ['.', '.']

/-- the last segment of `d` is a normal one (`d` does not end in a separator or in `/.`) -/
def CleanEnd (d : Str) : Prop := ∀ x, (splitSlash d).getLast? = some x → isJunk x = false

end Duck.FsTree
